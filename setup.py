#!/usr/bin/env python3
"""setup_cmd: derive the build inputs from the files on disk and warm the Go build cache. Fetches nothing."""
import os
import shutil
import sys
import tempfile

import vfbuild


def main():
    vfbuild.prepare()
    d = tempfile.mkdtemp(prefix="vf_setup_")
    rc_all = 0
    try:
        for pkg in (".", "./mocks"):
            rc, out = vfbuild.build_test_binary(pkg, os.path.join(d, "warm.test"))
            if rc != 0:
                sys.stdout.write(out[-4000:])
                rc_all = 2
    finally:
        shutil.rmtree(d, ignore_errors=True)
    print("setup done" if rc_all == 0 else "setup: build failed")
    return rc_all


if __name__ == "__main__":
    sys.exit(main())
