"""Per-property configuration of the driver (check.py). Case counts are budgets, never wall-clock limits."""

VFREF = "internal/vfref = snapshot of the pinned sarama sources (reference codec for bodies without an own writer/parser)"
STD = "Go standard library (hash/crc32, encoding/binary) and the compression libraries sarama itself links"

CHECKS = {
    "C08": dict(
        pkg=".",
        parts=[dict(name="plan", test="TestVF_C08",
                    quick=dict(shards=4, checks=6000), thorough=dict(shards=16, checks=150000))],
        rule=("rapid draws a strategy (range/roundrobin/sticky), 1-6 members with drawn ids, subscription sets over 1-4 topics "
              "(identical / random / disjoint), sorted partition id lists of 1-8 ids (sometimes with holes) and, for sticky, a chain of "
              "1-6 rebalances (join, leave, subscription change, grow, shrink, topic recreated) whose user data is the previous plan or "
              "hostile (stale generation, V0, copied from another member, same generation twice, invented partitions, none); the topics "
              "argument is built as consumerGroup.balance builds it. Oracle: completeness, exclusivity, eligibility, no strangers, no "
              "error, no panic. Non-trivial: >=2 members with differing subscriptions, or a chain step that changed membership/"
              "partitions with prior state; distinct = hash of the whole case."),
        assumptions=["inputs follow consumerGroup.balance: topics = union of subscriptions; round-robin is never handed a topic without subscriber"],
    ),
    "C13": dict(
        pkg=".",
        parts=[dict(name="chains", test="TestVF_C13",
                    quick=dict(shards=4, checks=5000), thorough=dict(shards=16, checks=150000)),
               dict(name="exhaustive", test="TestVF_C13_Exhaustive", own_loop=True,
                    quick=dict(shards=4, checks=1), thorough=dict(shards=16, checks=1))],
        exhaustive_counter="exhaustive_small_space_completed",
        exhaustive_note=("part 'exhaustive' enumerates completely: members<=3 x topics<=2 x partitions<=3 per topic x all non-empty "
                         "subscription subsets x 3 strategies, and for sticky every one-step successor (same, one leave, one join with "
                         "each subscription, one subscription change, one partition-count change); part 'chains' is random"),
        rule=("random part: strategy, up to 12 members / 6 topics / 40 partitions, chains of up to 8 honest rebalances (user data = previous "
              "plan, increasing generations). Oracles: range contiguity and sizes within 1 per topic; round-robin totals within 1 for "
              "identical subscriptions; sticky: Kafka balance criterion with subscriptions, fixed point of re-planning, keep-on-leave and "
              "no-shuffle-on-join for identical subscriptions, no pairwise swap within a topic; C08 validity alongside. Non-trivial: "
              ">=2 members and >=2 partitions (sticky: a step with prior state); distinct = hash of the case."),
        assumptions=["stickiness clauses are asserted only for honest chains (every member reports exactly what it was given)"],
    ),
}

MANIFEST_TEXT = {
    "C08": dict(
        level="Generated-input search: tens of thousands (thorough: millions) of group shapes and sticky rebalance chains, including hostile user data, judged by a validity predicate (complete, exclusive, eligible, no strangers). Holds on everything generated within the stated bounds; absence beyond them is not established.",
        note="Inputs are built the way consumerGroup.balance builds them; rapid's generators and the harness's own validity predicate are the trusted base.",
        technique="property-based testing (rapid): random group shapes and rebalance chains, validity-predicate oracle",
        ref="5.8"),
    "C13": dict(
        level="Complete enumeration of the small space (members<=3, topics<=2, partitions<=3, all subscription subsets, all one-step successors for sticky) plus random large shapes and honest rebalance chains, judged by balance and stickiness predicates and a metamorphic fixed-point relation.",
        note="Stickiness clauses are checked for honest chains only (each member feeds back what it was given); trusted base: rapid, the harness predicates.",
        technique="property-based testing (rapid) + exhaustive small-space enumeration; predicate and metamorphic (fixed-point) oracles",
        ref="5.13"),
}
