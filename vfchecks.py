"""Collects the per-property driver configuration from checks/<ID>.py (one file per property:
CHECK = driver config, TEXT = manifest wording). Case counts are budgets, never wall-clock limits."""
import glob
import importlib.util
import os

VFREF = "internal/vfref = snapshot of the pinned sarama sources (reference codec for bodies without an own writer/parser)"
STD = "Go standard library (hash/crc32, encoding/binary) and the compression libraries sarama itself links"

CHECKS = {}
MANIFEST_TEXT = {}
for _p in sorted(glob.glob(os.path.join(os.path.dirname(os.path.abspath(__file__)), "checks", "C*.py"))):
    _id = os.path.basename(_p)[:-3]
    _spec = importlib.util.spec_from_file_location("vfcheck_" + _id, _p)
    _m = importlib.util.module_from_spec(_spec)
    _spec.loader.exec_module(_m)
    CHECKS[_id] = _m.CHECK
    if getattr(_m, "RULE_ADD", None):
        CHECKS[_id]["rule"] = CHECKS[_id]["rule"] + _m.RULE_ADD  # generator features added after the rule text was written
    MANIFEST_TEXT[_id] = _m.TEXT
