#!/usr/bin/env python3
"""Driver: python3 check.py <ID> [--tier quick|thorough] [--replay <path>]

Builds the harness into /repo's current working tree (overlay, tag verif), runs the
property's generated-input search in shards, merges their statistics, matches failures
against known_findings.json, writes evidence/<ID>.json.

exit 0  property held on everything explored (KNOWN-FINDING lines may be printed)
exit 1  VIOLATION property=<ID> replay=<path>
exit 2  infrastructure trouble (build failure, timeout, worker death not attributable to a case)
"""
import argparse
import array
import glob
import json
import os
import re
import shutil
import subprocess
import sys
import tempfile
import time

import vfbuild
from vfchecks import CHECKS

VERIF = vfbuild.VERIF
KNOWN_FILE = os.path.join(VERIF, "known_findings.json")


def log(*a):
    print(*a, flush=True)


def seed_for(base, part, shard):
    s = (base * 1000003 + part * 104729 + shard * 7919 + 12345) % (2 ** 62)
    return s or 1


def load_known(pid):
    if not os.path.exists(KNOWN_FILE):
        return []
    doc = json.load(open(KNOWN_FILE))
    return [k for k in doc.get("findings", []) if k.get("property") == pid]


def symptom_match(pat, s):
    if "|" in pat:
        return any(symptom_match(a, s) for a in pat.split("|"))
    if pat.endswith("*"):
        return s.startswith(pat[:-1])
    return pat == s


class Infra(Exception):
    pass


def run_proc(cmd, cwd, env, timeout, outpath):
    with open(outpath, "w") as out:
        p = subprocess.Popen(cmd, cwd=cwd, env=env, stdout=out, stderr=subprocess.STDOUT)
        return p


def main():
    ap = argparse.ArgumentParser()
    ap.add_argument("id")
    ap.add_argument("--tier", default=os.environ.get("VERIF_TIER", "quick"))
    ap.add_argument("--replay")
    ap.add_argument("--replay-n", type=int, default=None)
    ap.add_argument("--keep", action="store_true", help="keep the scratch directory")
    ap.add_argument("--parts", default=None, help="comma separated part names to run (debugging)")
    ap.add_argument("--scale", type=float, default=1.0, help="scale case counts (debugging)")
    args = ap.parse_args()
    pid = args.id
    if pid not in CHECKS:
        log("unknown property", pid)
        return 2
    tier = "thorough" if args.tier == "thorough" else "quick"
    try:
        seed = int(os.environ.get("VERIF_SEED", "1"))
    except ValueError:
        seed = 1
    spec = CHECKS[pid]
    t0 = time.time()
    scratch = tempfile.mkdtemp(prefix="vf_%s_" % pid)
    try:
        return run_check(pid, spec, tier, seed, scratch, args, t0)
    except Infra as e:
        log("INFRA property=%s %s" % (pid, e))
        return 2
    finally:
        if not args.keep:
            shutil.rmtree(scratch, ignore_errors=True)
        else:
            log("scratch kept:", scratch)


def build(spec, scratch, fuzz=None, name="vf.test"):
    out = os.path.join(scratch, name)
    rc, txt = vfbuild.build_test_binary(spec.get("pkg", "."), out, fuzz=fuzz)
    if rc != 0:
        sys.stdout.write(txt[-6000:])
        raise Infra("build failed (the tree under /repo does not compile with the harness)")
    return out


def run_check(pid, spec, tier, seed, scratch, args, t0):
    binary = build(spec, scratch)
    replay_dir = os.path.join(VERIF, "replays", pid)
    os.makedirs(replay_dir, exist_ok=True)

    if args.replay:
        return do_replay(pid, spec, binary, scratch, args)

    for f in glob.glob(os.path.join(replay_dir, "*seed%d-*" % seed)):
        try:
            os.remove(f)
        except OSError:
            pass

    violations = []      # (symptom, replay path, message)
    known_lines = []
    known = load_known(pid)

    # ---- 1. replay canonical reproducers of open and fixed findings
    for k in known:
        rep = k.get("reproducer")
        if not rep:
            continue
        rp = os.path.join(VERIF, rep)
        res = replay_once(pid, spec, binary, scratch, rp, k.get("test"), n=int(k.get("replay_n", 1)))
        if res is None:
            raise Infra("replay of %s produced no verdict" % rep)
        if res["result"] == "fail":
            if k["status"] == "open" and symptom_match(k.get("replay_symptom", k.get("symptom", "")), res["symptom"]):
                known_lines.append("KNOWN-FINDING: property=%s %s [%s]" % (pid, k["text"], k["id"]))
            else:
                dst = os.path.join(replay_dir, os.path.basename(rp))
                shutil.copy(rp, dst)
                violations.append((res["symptom"], dst, "reproducer of %s (%s) fails: %s" % (k["id"], k["status"], res["message"])))

    # ---- 2. search
    parts = spec["parts"]
    if args.parts:
        sel = set(args.parts.split(","))
        parts = [p for p in parts if p["name"] in sel]
    procs = []
    faildir = os.path.join(scratch, "fail")
    os.makedirs(faildir, exist_ok=True)
    for pi, part in enumerate(parts):
        cfg = part[tier]
        shards = cfg["shards"]
        checks = max(1, int(cfg["checks"] * args.scale))
        for sh in range(shards):
            sd = os.path.join(scratch, "p%d_s%d" % (pi, sh))
            os.makedirs(sd)
            env = vfbuild.goenv()
            env.update({
                "VF_STATS": os.path.join(sd, "stats.json"),
                "VF_FAILDIR": faildir,
                "VF_KNOWN": KNOWN_FILE,
                "VF_TIER": tier,
                "VF_SHARD": "%d_%d" % (pi, sh),
                "VF_NSHARDS": str(shards),
                "VF_SHARD_INDEX": str(sh),
            })
            env.update({k: str(v) for k, v in part.get("env", {}).items()})
            env.update({k: str(v) for k, v in cfg.get("env", {}).items()})
            cmd = [binary, "-test.run", "^%s$" % part["test"], "-test.timeout", "0", "-test.v",
                   "-rapid.checks=%d" % checks, "-rapid.seed=%d" % seed_for(seed, pi, sh),
                   "-rapid.shrinktime=%s" % part.get("shrinktime", "20s"), "-rapid.nofailfile"]
            if part.get("memlimit_gb"):
                cmd = ["bash", "-c", "ulimit -v %d; exec \"$@\"" % (int(part["memlimit_gb"]) * 1024 * 1024), "x"] + cmd
            outp = os.path.join(sd, "out.txt")
            procs.append(dict(part=part, pi=pi, sh=sh, dir=sd, out=outp, checks=checks,
                              p=run_proc(cmd, sd, env, None, outp), t=time.time()))
    budget = spec.get("timeout_s", {}).get(tier, 1500 if tier == "quick" else 6 * 3600)
    deadline = time.time() + budget
    timed_out = False
    for pr in procs:
        try:
            pr["rc"] = pr["p"].wait(timeout=max(1, deadline - time.time()))
        except subprocess.TimeoutExpired:
            timed_out = True
            pr["p"].kill()
            pr["rc"] = -9
    if timed_out:
        for pr in procs:
            if pr["rc"] == -9:
                log("shard %s/%d timed out; tail:" % (pr["part"]["name"], pr["sh"]))
                log(open(pr["out"]).read()[-3000:])
        raise Infra("time budget of %ds exceeded (inconclusive, not a verdict)" % budget)

    # ---- 3. collect
    merged = dict(evaluations=0, discards=0, nontrivial=0, classes={}, counters={}, excluded={}, samples=[], failures=0)
    hashes = set()
    per_part = {}
    for pr in procs:
        sp = os.path.join(pr["dir"], "stats.json")
        out = open(pr["out"], errors="replace").read()
        st = None
        if os.path.exists(sp):
            try:
                st = json.load(open(sp))
            except Exception:
                st = None
        if st:
            merged["evaluations"] += st["evaluations"]
            merged["discards"] += st["discards"]
            merged["nontrivial"] += st["nontrivial"]
            merged["failures"] += st["failures"]
            for k, v in st["classes"].items():
                merged["classes"][k] = merged["classes"].get(k, 0) + v
            for k, v in st["counters"].items():
                merged["counters"][k] = merged["counters"].get(k, 0) + v
            for k, v in st["excluded_by_known_finding"].items():
                merged["excluded"][k] = merged["excluded"].get(k, 0) + v
            if st.get("samples") and len(merged["samples"]) < 6:
                merged["samples"].extend(st["samples"][:2])
            pp = per_part.setdefault(pr["part"]["name"], dict(evaluations=0, nontrivial=0))
            pp["evaluations"] += st["evaluations"]
            pp["nontrivial"] += st["nontrivial"]
            hp = sp + ".hashes"
            if os.path.exists(hp):
                a = array.array("Q")
                with open(hp, "rb") as f:
                    a.frombytes(f.read())
                # distinctness is per part (different parts have different case types)
                hashes.update((pr["pi"], h) for h in a)
        rc = pr["rc"]
        if rc == 0:
            m = re.search(r"\[rapid\] OK, passed (\d+) tests", out)
            if m and int(m.group(1)) < pr["checks"] and not pr["part"].get("own_loop"):
                raise Infra("shard %s/%d ran %s of %d cases" % (pr["part"]["name"], pr["sh"], m.group(1), pr["checks"]))
            continue
        # failure: find the fail file of this shard
        ff = os.path.join(faildir, "fail-%s-shard%d_%d.json" % (pid, pr["pi"], pr["sh"]))
        if os.path.exists(ff):
            dst = os.path.join(replay_dir, "%s-%s-seed%d-s%d.json" % (pid, pr["part"]["name"], seed, pr["sh"]))
            shutil.copy(ff, dst)
            j = json.load(open(ff))
            violations.append((j.get("symptom", "?"), dst, j.get("message", "")))
            continue
        # death without a verdict from the oracle
        crash = classify_crash(out)
        cur = os.path.join(faildir, "current-shard%d_%d.json" % (pr["pi"], pr["sh"]))
        dst = os.path.join(replay_dir, "%s-%s-seed%d-s%d-crash.txt" % (pid, pr["part"]["name"], seed, pr["sh"]))
        with open(dst, "w") as f:
            f.write("exit status %s\n" % rc)
            if os.path.exists(cur):
                f.write("== case being executed ==\n" + open(cur).read() + "\n")
            m = re.search(r"^(fatal error: .*|panic: .*)$", out, re.M)
            if m:
                f.write("== crash head ==\n" + out[m.start():m.start() + 6000] + "\n")
            f.write("== output tail ==\n" + out[-20000:])
        if crash is None:
            log(out[-4000:])
            raise Infra("shard %s/%d exited %s without a verdict (see %s)" % (pr["part"]["name"], pr["sh"], rc, dst))
        if crash == "oom" and not spec.get("oom_is_violation"):
            raise Infra("shard %s/%d ran out of memory" % (pr["part"]["name"], pr["sh"]))
        if os.path.exists(cur):
            cdst = dst.replace("-crash.txt", "-crashcase.json")
            shutil.copy(cur, cdst)
        violations.append(("fatal:" + crash, dst, "process died: " + crash))

    # ---- 4. optional native fuzz stage (thorough only)
    # events a check could not confirm by running the case again are kept for inspection; they are not verdicts
    for f in glob.glob(os.path.join(scratch, "unconfirmed-*.json")):
        dst = os.path.join(replay_dir, "%s-seed%d-%s" % (pid, seed, os.path.basename(f)))
        shutil.copy(f, dst)
        log("note: unconfirmed event kept at %s (counted in the evidence, not a verdict)" % dst)

    fuzz_info = None
    if tier == "thorough" and spec.get("fuzz") and not args.parts:
        fuzz_info, fv = run_fuzz(pid, spec, scratch, replay_dir)
        violations.extend(fv)

    # ---- 5. evidence
    wall = time.time() - t0
    distinct = len(hashes)
    cov = dict(
        evaluations=merged["evaluations"],
        distinct_nontrivial=distinct,
        nontrivial_total=merged["nontrivial"],
        rule=spec["rule"],
        samples=merged["samples"][:6],
        classes=dict(sorted(merged["classes"].items())),
        counters=dict(sorted(merged["counters"].items())),
        generator_discards=merged["discards"],
        excluded_by_known_finding=merged["excluded"],
        per_part=per_part,
        shards=len(procs),
    )
    if spec.get("exhaustive_counter") and merged["counters"].get(spec["exhaustive_counter"]):
        cov["exhaustive"] = True
        cov["exhaustive_note"] = spec.get("exhaustive_note", "")
    if fuzz_info:
        cov["fuzz"] = fuzz_info
    ev = dict(property_id=pid, tier=tier, seed=seed, level=spec.get("level", "exploration"), coverage=cov,
              assumptions=spec.get("assumptions", []), wall_s=round(wall, 2), violations=len(violations),
              known_findings_reported=[l for l in known_lines])
    # evidence/ describes runs against /repo itself with nothing but the registered knobs; development runs (another tree
    # through VF_REPO, scaled case counts, selected parts, survey mode, forced templates) are written elsewhere
    evdir = os.path.join(VERIF, "evidence")
    dev = vfbuild.REPO != "/repo" or args.scale != 1.0 or args.parts or any(k in os.environ for k in ("VF_SURVEY", "VF_WIP", "VF_FORCE_STORM", "VF_FORCE_PARK", "VF_FAIL_ON", "VF_PLAN_BUDGET_MS", "VF_TQ_MS", "VF_DEV_EVIDENCE"))
    if dev:
        evdir = os.path.join(tempfile.gettempdir(), "vf_dev_evidence")
    os.makedirs(evdir, exist_ok=True)
    with open(os.path.join(evdir, pid + ".json"), "w") as f:
        json.dump(ev, f, indent=1, sort_keys=True)
        f.write("\n")

    for l in known_lines:
        log(l)
    log("property=%s tier=%s seed=%d evaluations=%d distinct_nontrivial=%d excluded=%s wall=%.1fs" % (
        pid, tier, seed, merged["evaluations"], distinct, merged["excluded"], wall))
    if violations:
        seen = set()
        for sym, path, msg in violations:
            log("  violation: symptom=%s %s" % (sym, msg[:600]))
            if path not in seen:
                log("VIOLATION property=%s replay=%s" % (pid, path))
                seen.add(path)
        return 1
    if merged["evaluations"] == 0:
        raise Infra("no case was evaluated")
    return 0


def classify_crash(out):
    if "test timed out after" in out:
        return None
    if re.search(r"out of memory|cannot allocate memory|ENOMEM", out):
        return "oom"
    m = re.search(r"^(fatal error: .*|panic: .*)$", out, re.M)
    if m:
        s = m.group(1)
        # first sarama frame that is not harness code
        fn = None
        for fm in re.finditer(r"^github\.com/Shopify/sarama(?:/mocks)?\.([^\s(]+|\(\*?\w+\)\.[\w.]+)", out[m.start():], re.M):
            name = fm.group(1)
            if "vf" in name.lower()[:6] or name.startswith("TestVF"):
                continue
            fn = name
            break
        s = re.sub(r"0x[0-9a-f]+", "0x", s)
        s = re.sub(r"\d+", "N", s)[:80]
        return "%s@%s" % (s, fn or "?")
    if "signal: killed" in out:
        return None
    return None


def replay_once(pid, spec, binary, scratch, path, test=None, n=1):
    test = test or spec["parts"][0]["test"]
    sd = tempfile.mkdtemp(prefix="replay_", dir=scratch)
    env = vfbuild.goenv()
    env.update({"VF_REPLAY": path, "VF_REPLAY_N": str(n), "VF_KNOWN": KNOWN_FILE, "VF_SHARD": "r", "VF_TIER": "quick"})
    memlimit = None
    for part in spec["parts"]:
        if part["test"] == test:
            env.update({k: str(v) for k, v in part.get("env", {}).items()})
            memlimit = part.get("memlimit_gb")
    cmd = [binary, "-test.run", "^%s$" % test, "-test.timeout", "20m", "-test.v"]
    if memlimit:
        # same address-space cap as the search: a reproducer that allocates without bound dies inside its own process
        cmd = ["bash", "-c", "ulimit -v %d; exec \"$@\"" % (int(memlimit) * 1024 * 1024), "x"] + cmd
    r = subprocess.run(cmd, cwd=sd, env=env, stdout=subprocess.PIPE, stderr=subprocess.STDOUT, text=True, errors="replace")
    m = re.search(r"VF-REPLAY property=(\S+) result=(\S+) runs=(\d+) failed=(\d+) symptom=(\S*) message=(.*)", r.stdout)
    if not m:
        crash = classify_crash(r.stdout)
        if crash:
            return dict(result="fail", symptom="fatal:" + crash, message=r.stdout[-2000:], runs=1, failed=1)
        sys.stdout.write(r.stdout[-3000:])
        return None
    res = dict(result=m.group(2), runs=int(m.group(3)), failed=int(m.group(4)), symptom=m.group(5), message=m.group(6))
    mk = re.search(r'VF-REPLAY-KNOWN known="([^"]*)" regions="([^"]*)"', r.stdout)
    if mk:
        res["known"], res["regions"] = mk.group(1), mk.group(2)
    return res


def do_replay(pid, spec, binary, scratch, args):
    path = os.path.abspath(args.replay)
    test = None
    m = re.search(r"%s-([A-Za-z0-9_]+?)-(?:seed\d+-)?s\d+" % pid, os.path.basename(path))
    if m:
        for part in spec["parts"]:
            if part["name"] == m.group(1):
                test = part["test"]
    if path.endswith("-crash.txt"):
        alt = path.replace("-crash.txt", "-crashcase.json")
        if os.path.exists(alt):
            path = alt
    n = args.replay_n or (spec.get("replay_n", 1))
    res = replay_once(pid, spec, binary, scratch, path, test, n=n)
    if res is None:
        log("replay produced no verdict")
        return 2
    log("replay: %s" % res)
    if res["result"] == "fail":
        if res.get("known"):
            for k in load_known(pid):
                if k["id"] == res["known"]:
                    log("KNOWN-FINDING: property=%s %s [%s]" % (pid, k["text"], k["id"]))
            return 0
        log("VIOLATION property=%s replay=%s" % (pid, path))
        return 1
    return 0


def run_fuzz(pid, spec, scratch, replay_dir):
    """Native coverage-guided fuzzing, thorough tier only. One binary per target (-fuzz on -c enables instrumentation)."""
    info = {}
    viol = []
    for fz in spec["fuzz"]:
        target = fz["target"]
        fb = build(spec, scratch, fuzz=target, name="fuzz_%s.test" % target)
        wd = os.path.join(scratch, "fuzz_" + target)
        os.makedirs(wd)
        corpus_src = os.path.join(VERIF, "corpus", target)
        cdst = os.path.join(wd, "testdata", "fuzz", target)
        os.makedirs(cdst, exist_ok=True)
        if os.path.isdir(corpus_src):
            for f in os.listdir(corpus_src):
                shutil.copy(os.path.join(corpus_src, f), cdst)
        seeds_before = set(os.listdir(cdst))
        env = vfbuild.goenv()
        env.update({"VF_TIER": "thorough", "VF_KNOWN": KNOWN_FILE})
        cmd = [fb, "-test.run", "^$", "-test.fuzz", "^%s$" % target, "-test.fuzztime", fz.get("time", "60s"),
               "-test.fuzzcachedir", os.path.join(wd, "cache"), "-test.parallel", "16", "-test.timeout", "0"]
        if fz.get("memlimit_gb"):
            cmd = ["bash", "-c", "ulimit -v %d; exec \"$@\"" % (int(fz["memlimit_gb"]) * 1024 * 1024), "x"] + cmd
        r = subprocess.run(cmd, cwd=wd, env=env, stdout=subprocess.PIPE, stderr=subprocess.STDOUT, text=True, errors="replace")
        execs = re.findall(r"execs: (\d+)", r.stdout)
        interesting = re.findall(r"new interesting: (\d+)", r.stdout)
        info[target] = dict(execs=int(execs[-1]) if execs else 0, new_interesting=int(interesting[-1]) if interesting else 0,
                            seeds=len(seeds_before), budget=fz.get("time", "60s"))
        if r.returncode != 0:
            new = [f for f in os.listdir(cdst) if f not in seeds_before]
            if new:
                for f in new:
                    dst = os.path.join(replay_dir, "%s-fuzz-%s-%s" % (pid, target, f))
                    shutil.copy(os.path.join(cdst, f), dst)
                    viol.append(("fuzz:" + target, dst, r.stdout[-1500:]))
            elif "context deadline exceeded" in r.stdout or "fuzzing process hung or terminated unexpectedly" in r.stdout and not new:
                info[target]["note"] = "fuzz worker terminated without a saved input (inconclusive)"
            else:
                dst = os.path.join(replay_dir, "%s-fuzz-%s-output.txt" % (pid, target))
                open(dst, "w").write(r.stdout[-20000:])
                viol.append(("fuzz:" + target, dst, r.stdout[-1500:]))
    return info, viol


if __name__ == "__main__":
    sys.exit(main())
