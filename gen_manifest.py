#!/usr/bin/env python3
"""Regenerates MANIFEST.json from vfchecks.CHECKS (single source of truth for what is claimed)."""
import json
import subprocess
from vfchecks import CHECKS, MANIFEST_TEXT

ALL = ["C%02d" % i for i in range(1, 21)]
IN_PROGRESS = set()  # configs exist but the builder has not delivered yet

def hook_commits():
    try:
        out = subprocess.run(["git", "-C", "/repo", "log", "--format=%h %s"], stdout=subprocess.PIPE, text=True).stdout
        return [l.split()[0] for l in out.splitlines() if l.split(" ", 1)[1].startswith("verif-hooks:")]
    except Exception:
        return []

m = {
    "version": 1,
    "setup_cmd": "python3 setup.py",
    "hooks": {
        "guard": "verif",
        "enable": "go test -tags verif -overlay=/verif/build/overlay.json -modfile=/verif/build/go.mod (harness sources are injected into package sarama by the overlay; /repo is never written)",
        "baseline_off_cmd": "cd /repo && go test -mod=mod -json -vet=off -count=1 -timeout 25m ./...",
        "source_commits": hook_commits(),
        "add_only": True,
    },
    "engines": [
        {"name": "vfcore+rapid", "path": "harness/vfcore", "serves_properties": sorted(CHECKS), "kind_free_text": "property-based testing driver (pgregory.net/rapid v1.3.0): generators, shrinking, statistics, known-findings matching, replay files"},
        {"name": "simcluster", "path": "harness/sarama/sim_*.go", "serves_properties": [p for p in sorted(CHECKS) if CHECKS[p].get("sim")], "kind_free_text": "in-memory simulated Kafka cluster (reference model) with scripted faults and gates, own record codec"},
    ],
    "checks": [],
    "not_applicable": [],
    "notes": "All checks: python3 check.py <ID> --tier quick|thorough; replay: python3 check.py <ID> --replay <file>. See DESIGN.md.",
}
for pid in ALL:
    if pid not in CHECKS or pid in IN_PROGRESS:
        m["not_applicable"].append({"property_id": pid, "reason": "check not built yet at this commit (work in progress; the design claims it, see DESIGN.md section 5)"})
        continue
    t = MANIFEST_TEXT[pid]
    c = {
        "property_id": pid,
        "quick_cmd": "python3 check.py %s --tier quick" % pid,
        "thorough_cmd": "python3 check.py %s --tier thorough" % pid,
        "evidence_file": "evidence/%s.json" % pid,
        "replay_cmd_template": "python3 check.py %s --replay {path}" % pid,
        "engine": "simcluster" if CHECKS[pid].get("sim") else "vfcore+rapid",
        "level_claimed": {"category": CHECKS[pid].get("level", "exploration"), "text": t["level"], "design_ref": t["ref"]},
        "level_note": t["note"],
        "technique": t["technique"],
    }
    m["checks"].append(c)
json.dump(m, open("MANIFEST.json", "w"), indent=1)
print("claimed:", [c["property_id"] for c in m["checks"]])
