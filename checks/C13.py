"""Driver configuration and manifest text for C13 (see DESIGN.md)."""

RULE_ADD = ' Later additions: rejoin steps (a departed member comes back with the last plan it knows of, under its old generation; stickiness clauses that compare with what everybody reported are skipped for that step), joiners with wide subscriptions, subscription lists in arbitrary order; Plan runs under a 60 s watchdog (plan-hang).'

CHECK = {'pkg': '.',
 'parts': [{'name': 'chains', 'test': 'TestVF_C13', 'shrinktime': '2s', 'quick': {'shards': 8, 'checks': 12000}, 'thorough': {'shards': 16, 'checks': 150000}},
           {'name': 'exhaustive',
            'test': 'TestVF_C13_Exhaustive',
            'own_loop': True,
            'quick': {'shards': 4, 'checks': 1},
            'thorough': {'shards': 16, 'checks': 1}}],
 'exhaustive_counter': 'exhaustive_small_space_completed',
 'exhaustive_note': "part 'exhaustive' enumerates completely: members<=3 x topics<=2 x partitions<=3 per topic x all non-empty subscription subsets "
                    'x 3 strategies, and for sticky every one-step successor (same, one leave, one join with each subscription, one subscription '
                    "change, one partition-count change); part 'chains' is random",
 'rule': 'random part: strategy, up to 12 members / 6 topics / 40 partitions, chains of up to 8 honest rebalances (user data = previous plan, '
         'increasing generations). Oracles: range contiguity and sizes within 1 per topic; round-robin totals within 1 for identical subscriptions; '
         'sticky: Kafka balance criterion with subscriptions, fixed point of re-planning, keep-on-leave and no-shuffle-on-join for identical '
         'subscriptions, no pairwise swap within a topic; C08 validity alongside. Non-trivial: >=2 members and >=2 partitions (sticky: a step with '
         'prior state); distinct = hash of the case.',
 'assumptions': ['stickiness clauses are asserted only for honest chains (every member reports exactly what it was given)']}

TEXT = {'level': 'Complete enumeration of the small space (members<=3, topics<=2, partitions<=3, all subscription subsets, all one-step successors for '
          'sticky) plus random large shapes and honest rebalance chains, judged by balance and stickiness predicates and a metamorphic fixed-point '
          'relation.',
 'note': 'Stickiness clauses are checked for honest chains only (each member feeds back what it was given); trusted base: rapid, the harness '
         'predicates.',
 'technique': 'property-based testing (rapid) + exhaustive small-space enumeration; predicate and metamorphic (fixed-point) oracles',
 'ref': '5.13'}
