"""Driver configuration and manifest text for C09 (see DESIGN.md 5.9)."""

# 'checks' is the number of rapid cases PER (type, version) pair (part bodies: 159 decode-driven pairs) or per record-format kind
# (part records: RecordBatch, MessageSet, produceSet, ProduceRequest v0-7, FetchResponse v0-11 = 23 kinds), per shard: every pair gets its
# share instead of being drawn. quick: 4 x 15 = 60 cases per pair (9 540) + 4 x 65 x 23 = 5 980 record cases; thorough: x100.
CHECK = {'pkg': '.',
 'parts': [{'name': 'bodies', 'test': 'TestVF_C09', 'quick': {'shards': 4, 'checks': 15}, 'thorough': {'shards': 16, 'checks': 375}},
           {'name': 'records', 'test': 'TestVF_C09_Records', 'quick': {'shards': 4, 'checks': 65}, 'thorough': {'shards': 16, 'checks': 1625}}],
 'fuzz': [{'target': 'FuzzVF_RoundTrip', 'time': '90s'}],
 'rule': 'part bodies: for each of the 159 (type, version) pairs of the table (74 protocolBody types that need no raw sections, every version '
         '0..max each implements, plus ConsumerGroupMemberMetadata/Assignment, StickyAssignorUserDataV0/V1, request header via request.decode, '
         'responseHeader v0/v1) the body\'s own decode() runs against a generating decoder whose getters return drawn values (boundary integers, '
         'collection lengths 0..3 (one compact collection per value in ten: 126..128, the uvarint boundary of its length prefix), empty/multi-byte/long strings, nullable variants, varints at 7-bit boundaries, values read at one call site '
         'pairwise distinct) and log the reference encoding written by the harness\'s own primitive writer (R) plus a field log. Oracles: O2 the '
         'real decoder over R consumes everything and yields an equal value; O1 encode succeeds, len(b1)==len(R), decode(b1) into a zero value '
         'equals x (version recorded), re-encode byte-identical when no map has >1 entry, else same length and equal decode; b1==R is only '
         'measured (classes canon:*); O3 prepEncoder.length==realEncoder.off, empty push stacks, guard bytes untouched, encode() agrees; O4 '
         'request framing (size, key, version, correlation id, client id, tagged byte of header v2) parsed by the harness\'s reader and '
         'decodeRequest; O5 the version stamps that sub-structures carry (fetchRequestBlock, AclFilter: set by the public builders at call time and '
         'by decode) are replaced in a deep copy and encode at the same version must give the same bytes (a value built through AddBlock before '
         'Version was set round-trips too). part records: hand-written models of MessageSet magic 0/1 (plain and gzip/snappy/lz4 wrappers, absolute/relative inner '
         'offsets), RecordBatch v2 (5 codecs, 13 gzip levels, control/transactional/LogAppendTime, nil/empty/long keys and values, 0..3 headers, '
         'negative timestamp deltas), nested in ProduceRequest v0-7 and FetchResponse v0-11, and message batches pushed through '
         'produceSet.buildRequest for 4 Kafka versions; the harness\'s own parser (size prefixes, IEEE/Castagnoli CRC, varints, per-record length, '
         'record count, last offset delta) must accept sarama\'s bytes and return the model, sarama must decode the own writer\'s bytes to the '
         'model (byte-identical when uncompressed and unordered-free), plus O1/O3 as above. Non-trivial: the value has >=1 non-empty collection or '
         'nullable field set and version > 0 where the type has several versions (bodies), >=1 record/message (records); distinct = (type, '
         'version, hash of R) resp. hash of the model. Every (type, version) pair gets the same number of cases; a pair with zero accepted cases '
         'fails the thorough run as infrastructure.',
 'assumptions': ['hash/crc32 and compress/gzip of the Go standard library and the compression libraries sarama links (xerial snappy, pierrec lz4, '
                 'klauspost zstd) are trusted; compressed payloads are compared after decompression',
                 'a layout that encoder and decoder of a body get consistently wrong is visible only where an independent reference exists '
                 '(primitives, framing, record formats, Produce/Fetch envelopes)',
                 'domains restricted to what time.Time and the encoders represent: millisecond timestamps in [-1, MaxInt64/1e6], record timestamp '
                 'deltas within +-2^40 ms, SCRAM iterations <= 4096, SCRAM mechanism in {1,2}; compact int32 arrays null only where the protocol '
                 'makes them nullable; map keys unique']}

TEXT = {'level': 'Generated-input search over every wire structure of the tree and every version it implements: decode-driven values with reference '
          'bytes from an independent primitive encoder, and hand-written record-format models checked against an independent writer and parser; '
          'round-trip, two-pass-encoder agreement and framing oracles. Holds on everything generated within the stated bounds.',
 'note': 'Bodies without an independent layout reference are checked for round-trip and primitive conformance, not for conformance to Kafka\'s '
         'schemas; the benign encoder canonicalisations observed (null/empty, replica id, ACL pattern type, absent coordinator, SCRAM salted '
         'password) are named in the class histogram.',
 'technique': 'property-based testing (rapid) with a generating decoder + native coverage-guided fuzzing of the draw tape; independent reference '
              'encoder/parser, round-trip and metamorphic (re-encode) oracles',
 'ref': '5.9'}
