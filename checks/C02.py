"""Driver configuration and manifest text for C02 (see DESIGN.md)."""

RULE_ADD = ' Later additions: any protocol error code for fatal faults; the hook-gated parked-flush template in one case out of eight.'

CHECK = {'pkg': '.',
 'sim': True,
 'parts': [{'name': 'main', 'test': 'TestVF_C02', 'quick': {'shards': 8, 'checks': 200}, 'thorough': {'shards': 16, 'checks': 12000}}],
 'rule': 'rapid draws: Kafka version (0.8.2..2.8), codec+level, acks, idempotent, Retry.Max 0..3, backoff, Flush.*, ChannelBufferSize {0,1,4,256}, '
         'MaxOpenRequests, 1-3 brokers, 1-2 topics x 1-4 partitions with spread/shared leaders, 1-24 messages (nil/empty/identity keys and values, '
         'headers, timestamps), a fault table by occurrence per request kind (retriable/fatal codes with or without append, drop before/after '
         'append, silence, omitted block, leader move before/after, delay, responses held on gates), a step script (send chunks, await held request, '
         'release, wait outcomes, move leader, bounce broker, sleep), close mode, and per-hook delay vectors. Oracle per partition log: offsets of '
         'successes strictly increase with submission index; first copies of all payloads in the log appear in submission order. Non-trivial: >=2 '
         'messages of one partition in the log and >=1 produce for it failed or its leader moved.',
 'assumptions': ['the simulated cluster (harness/sarama/sim_*.go) is the reference model: own parser for produce requests (record batch v2, message '
                 "sets v0/v1, CRCs, varints), Kafka's idempotence rules (epoch, sequence, last five batches), leadership checks",
                 'in-memory network through Config.Net.Proxy.Dialer; no real sockets or brokers',
                 'liveness clauses use the quiescence rule: nothing pending in the simulator and no relevant event for 5 s (thorough 8 s)',
                 'schedules are owned at network granularity (fault tables by occurrence, gates) and sampled below it (hook delays)'],
 'replay_n': 20}

TEXT = {'level': 'Generated retry/leader-move scripts with numbered payloads; order oracle over the simulated partition logs and the reported offsets. '
          'Holds on everything generated outside the listed known findings.',
 'note': 'Trusted: simulated cluster (offset assignment at append), rapid. One submitting goroutine per case, so submission order = message index.',
 'technique': 'property-based testing (rapid) against a simulated Kafka cluster: numbered payloads, order oracle over logs',
 'ref': '5.2'}
