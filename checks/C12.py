"""Driver configuration and manifest text for C12 (see DESIGN.md 5.12)."""

CHECK = {
    'pkg': '.', 'sim': True, 'level': 'fault_enumeration',
    'parts': [{'name': 'main', 'test': 'TestVF_C12', 'quick': {'shards': 8, 'checks': 10}, 'thorough': {'shards': 16, 'checks': 60}}],
    'timeout_s': {'quick': 1500, 'thorough': 8 * 3600},
    'rule': ('a case = one scenario instance drawn by rapid (async producer with a fault script / partition consumers on one broker / consumer group with 1-3 members, rebalances, '
             'cancels and fencing / offset manager action sequence / client with a 1 ms background refresh), optionally with "the whole cluster becomes unreachable (refusing or silent) '
             'after event j". The scenario is first run to its normal end to count its observable events K (every simulator event + every hook hit); then it is re-run and closed after the '
             'k-th event: quick = 12 drawn k per instance, thorough = every k in 1..K (K <= 400). At k the feeders stop, then the components are closed in the documented order '
             '(partition consumers -> consumer; producer/consumer/group -> client) while outputs keep being drained as the API requires (for PartitionConsumer.Close also with nobody reading '
             'Messages()), then closed a second time where that is documented as harmless. Oracle: every Close/AsyncClose+drain/Consume returns (quiescence rule), output channels are '
             'observed closed, PanicHandler recorded nothing, the process did not die, the second close returns without panic. evaluations = scenario instances; the counter '
             'c12_close_points is the number of (instance, k) executions. Non-trivial: at least one close fell inside the scenario (before its script ended); distinct = hash of the instance.'),
    'assumptions': ['"at any moment" is realised as "after any observable event" (simulator events and hook hits); between two events the timing is sampled',
                    'the quiescence rule counts swallowed requests and refused dials as activity, so a client working through its timeouts is not a hang',
                    'configurations of the known findings KF-C01-2/3/4 (idempotent producer, flush count/bytes without frequency) are not generated here; they are judged by C01'],
    'replay_n': 3,
}

TEXT = {'level': 'Enumeration of close points: each generated scenario is closed after its k-th observable event for a set of k (thorough: all k), under scripted faults and an optional cluster outage; termination / closed-channel / no-panic oracle. Holds on every (instance, k) explored.',
        'note': 'Trusted: simulated cluster, quiescence rule for termination, hook points as the finest grain of "moment".',
        'technique': 'fault/close-point enumeration over rapid-generated scenarios (property-based testing): every k-th observable event as the shutdown moment',
        'ref': '5.12'}
