"""Driver configuration and manifest text for C19 (see DESIGN.md)."""

CHECK = {'pkg': '.',
 'sim': True,
 'parts': [{'name': 'admin', 'test': 'TestVF_C19', 'quick': {'shards': 8, 'checks': 1500}, 'thorough': {'shards': 16, 'checks': 15000}}],
 'rule': 'rapid draws one ClusterAdmin operation per case and runs it through NewClusterAdmin over the simulated cluster (1-4 brokers, one bootstrap '
         'address, Admin.Retry.Backoff 1 ms). Controller-bound operations (CreateTopic, DeleteTopic, CreatePartitions, AlterPartitionReassignments): '
         'Admin.Retry.Max 0..4; Kafka version over every release at which the operation appears or changes its request version (0.10.0 .. 2.8, a '
         'few below the minimum); initial controller; j = 0..Retry.Max+1 controller moves (the broker that is controller hands the role to another '
         'broker and answers NOT_CONTROLLER, metadata names the new one; a broker that is not controller always answers NOT_CONTROLLER), then the '
         'controller\'s final answer: success (validated and applied to the model: existing topic, partition counts, unknown partitions give the '
         'codes a controller gives), any other error code (22 named codes incl. -1, or any code -1..130; per topic, for reassignments top-level '
         'and/or per partition incl. non-first partitions, with or without message), an answer without the topic entry (applied or not), connection '
         'loss before or after applying. Oracle over the request log of the simulated brokers: every attempt reaches the broker that is controller '
         'when it arrives; success is returned only if the then-current controller acknowledged an attempt without error (and the model changed); an '
         'acknowledged attempt is the last request and yields success; an answer other than NOT_CONTROLLER (error code, missing entry, lost '
         'connection) is the last request and yields an error that carries the code; an operation whose last attempt was answered NOT_CONTROLLER has '
         'used all Retry.Max retries (Retry.Max+1 attempts, the documented meaning of "number of times to retry"); at least one attempt is made; '
         'request version = the one admin.go selects for the configured version; request content = the call\'s arguments. Leader/coordinator-bound '
         'operations (DeleteRecords over 1-6 partitions with drawn leaders; DescribeConsumerGroups over 1-6 groups with drawn coordinators; '
         'ListConsumerGroupOffsets over 1-2 topics x 1-3 partitions, explicit or nil partition map; DeleteConsumerGroup) with per-item error codes, '
         'group-level error, per-broker connection loss or missing topic/group entry: every request reaches exactly the broker that leads / '
         'coordinates each of its items, no item is sent twice or unasked, success implies every item was sent and '
         'acknowledged and the model changed (log start, group deleted), any reported error makes the operation return an error (for describe/list: '
         'or show the code in the returned description/block), a single reported code is carried by the returned error, no error without a reported '
         'cause, returned descriptions/offsets equal what the coordinator holds. Every wait is bounded by the quiescence rule (hang = violation). '
         'Non-trivial: >=1 controller move happened, or >=2 brokers were addressed by the operation, or an error was scripted for a non-first item; '
         'distinct = hash of the case.',
 'assumptions': ['the simulated cluster (harness/sarama/sim_*.go + admin_sim_test.go) is the reference model: a controller-bound request reaching a non-controller '
                 'is answered NOT_CONTROLLER, DeleteRecords for a partition the broker does not lead NOT_LEADER_FOR_PARTITION, a group request at a '
                 'non-coordinator NOT_COORDINATOR; requests are parsed and responses written by the harness\'s own wire code from the Kafka protocol '
                 'definition (no sarama codec on the broker side)',
                 'in-memory network through Config.Net.Proxy.Dialer; one bootstrap address; metadata and FindCoordinator are never faulted, so the '
                 'client can always learn the current controller / coordinator',
                 'Admin.Retry.Max is read as the number of RETRIES (config.go: "total number of times to retry ... similar to the `retries` setting of '
                 'the JVM AdminClientConfig"), i.e. Retry.Max+1 attempts',
                 'the expected request versions are the table in admin.go of the pinned tree (CreateTopics 0/1/2 at 0.10.1/0.11/1.0, DeleteTopics 0/1 at '
                 '0.10.1/0.11, OffsetFetch 1/2 at 0.8.2.2/0.10.2, the others 0)',
                 'DescribeConsumerGroups and ListConsumerGroupOffsets hand per-item and group-level codes to the caller inside the returned value; that '
                 'counts as reporting the error',
                 'liveness uses the quiescence rule: nothing pending in the simulator and no relevant event for 5 s (thorough 8 s)']}

TEXT = {'level': 'Generated operations, controller fail-over scripts, error codes, incomplete answers, connection losses, Kafka versions and partition/group '
          'spreads against a simulated cluster; routing, retry-budget, verdict and version oracles over the brokers\' request log and the model. Holds '
          'on everything generated; absence is not established.',
 'note': 'Metadata and coordinator lookups are never faulted. DescribeLogDirs (hangs on an unknown broker id) and the validateOnly flag that CreatePartitions '
         'drops are outside the statement and not judged. Trusted: the simulated cluster, the harness wire code, rapid, the quiescence rule.',
 'technique': 'property-based testing (rapid) against a simulated Kafka cluster: fault-script generation per operation, request-log oracle',
 'ref': '5.19'}
