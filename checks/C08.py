"""Driver configuration and manifest text for C08 (see DESIGN.md)."""

RULE_ADD = ' Later additions: rejoin steps (a departed member comes back with the last plan it knows of, under its old generation), joiners with wide subscriptions, subscription lists in arbitrary order.'

CHECK = {'pkg': '.',
 'parts': [{'name': 'plan', 'test': 'TestVF_C08', 'shrinktime': '2s', 'quick': {'shards': 4, 'checks': 6000}, 'thorough': {'shards': 16, 'checks': 150000}}],
 'rule': 'rapid draws a strategy (range/roundrobin/sticky), 1-6 members with drawn ids, subscription sets over 1-4 topics (identical / random / '
         'disjoint), sorted partition id lists of 1-8 ids (sometimes with holes) and, for sticky, a chain of 1-6 rebalances (join, leave, '
         'subscription change, grow, shrink, topic recreated) whose user data is the previous plan or hostile (stale generation, V0, copied from '
         'another member, same generation twice, invented partitions, none); the topics argument is built as consumerGroup.balance builds it. '
         'Oracle: completeness, exclusivity, eligibility, no strangers, no error, no panic. Non-trivial: >=2 members with differing subscriptions, '
         'or a chain step that changed membership/partitions with prior state; distinct = hash of the whole case.',
 'assumptions': ['inputs follow consumerGroup.balance: topics = union of subscriptions; round-robin is never handed a topic without subscriber']}

TEXT = {'level': 'Generated-input search: tens of thousands (thorough: millions) of group shapes and sticky rebalance chains, including hostile user data, '
          'judged by a validity predicate (complete, exclusive, eligible, no strangers). Holds on everything generated within the stated bounds; '
          'absence beyond them is not established.',
 'note': "Inputs are built the way consumerGroup.balance builds them; rapid's generators and the harness's own validity predicate are the trusted "
         'base.',
 'technique': 'property-based testing (rapid): random group shapes and rebalance chains, validity-predicate oracle',
 'ref': '5.8'}
