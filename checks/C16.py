"""Driver configuration and manifest text for C16 (see DESIGN.md)."""

RULE_ADD = ' Later additions: a regime with 8-15 KiB values, MaxMessageBytes 20-40 KB, MaxRequestSize 40-70 KB and four partitions on one broker; one or two value-enlarging interceptors (48 bytes each) in a third of the small-limit cases, all sizes judged after them; in calm runs (no scripted failing answer, no leader move or broker bounce, no connection-level failure seen by the producer) a message within every limit must not fail and, without a flush frequency, messages still buffered at quiescence are a violation when a count or byte trigger has certainly fired (pigeonhole over the brokers; reported only if the stall shows again when the case is re-executed).'

CHECK = {'pkg': '.',
 'sim': True,
 'parts': [{'name': 'main', 'test': 'TestVF_C16', 'quick': {'shards': 8, 'checks': 200}, 'thorough': {'shards': 16, 'checks': 12000}}],
 'rule': 'rapid draws: Kafka version (0.8.2..2.8), codec+level, acks, idempotent, Retry.Max 0..3, backoff, Flush.*, ChannelBufferSize {0,1,4,256}, '
         'MaxOpenRequests, 1-3 brokers, 1-2 topics x 1-4 partitions with spread/shared leaders, 1-24 messages (nil/empty/identity keys and values, '
         'headers, timestamps), a fault table by occurrence per request kind (retriable/fatal codes with or without append, drop before/after '
         'append, silence, omitted block, leader move before/after, delay, responses held on gates), a step script (send chunks, await held request, '
         'release, wait outcomes, move leader, bounce broker, sleep), close mode, and per-hook delay vectors. Generator emphasis: MaxMessageBytes '
         '80..600 with sizes straddling it around the version-dependent overhead, Flush.MaxMessages, lowered MaxRequestSize, all Flush.* '
         'combinations. Oracle at the broker: records per request <= Flush.MaxMessages; per-partition key+value bytes <= MaxMessageBytes unless '
         'single message; request wire size <= MaxRequestSize; key+value > MaxMessageBytes => ErrMessageSizeTooLarge and never sent, size+documented '
         'overhead <= MaxMessageBytes => not rejected; flush probe: with no trigger / a frequency / Messages=1 every buffered message reaches a '
         'broker without further input (quiescence rule). Non-trivial: a size within 8 bytes of a limit, or >=2 requests forced by MaxMessages.',
 'assumptions': ['the simulated cluster (harness/sarama/sim_*.go) is the reference model: own parser for produce requests (record batch v2, message '
                 "sets v0/v1, CRCs, varints), Kafka's idempotence rules (epoch, sequence, last five batches), leadership checks",
                 'in-memory network through Config.Net.Proxy.Dialer; no real sockets or brokers',
                 'liveness clauses use the quiescence rule: nothing pending in the simulator and no relevant event for 5 s (thorough 8 s)',
                 'schedules are owned at network granularity (fault tables by occurrence, gates) and sampled below it (hook delays)'],
 'replay_n': 20}

TEXT = {'level': 'Generated size distributions around each limit; limit predicates evaluated on the requests the simulated brokers actually received, and a '
          'bounded-liveness flush probe. Holds on everything generated.',
 'note': "Trusted: simulator's request accounting (wire size = frame length), quiescence rule for the flush clause.",
 'technique': 'property-based testing (rapid) against a simulated Kafka cluster: boundary-value generation, predicates over received requests',
 'ref': '5.16'}
