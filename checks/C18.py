"""Driver configuration and manifest text for C18 (see DESIGN.md)."""

CHECK = {'pkg': '.',
 'sim': True,
 'parts': [{'name': 'producer', 'test': 'TestVF_C18_Producer', 'quick': {'shards': 8, 'checks': 150}, 'thorough': {'shards': 16, 'checks': 10000}},
           {'name': 'consumer', 'test': 'TestVF_C18_Consumer', 'quick': {'shards': 8, 'checks': 150}, 'thorough': {'shards': 16, 'checks': 10000}}],
 'rule': 'producer part: the producer cases of C01 (fault scripts that send messages through the dispatcher again) with chains of 1-4 interceptors '
         '(append a header, grow the value, count, panic on even messages); consumer part: rapid draws: Kafka version (0.8.2..2.8 = fetch v0..v11), '
         'Fetch.Default 64..512 (so partial trailing data and fetch-size doubling occur), ChannelBufferSize {0,1,4}, MaxProcessingTime {2,100} ms, '
         '1-3 partitions on one broker, per partition a log of 0-12 stored units (legacy messages, gzip/snappy/lz4 wrappers, v2 batches with 5 '
         'codecs; nil/empty/large keys and values, headers, timestamps, LogAppendTime; compaction holes between units, inside units, compacted '
         'head/tail of batches with base offset / lastOffsetDelta kept; log start > 0), how many units exist at start vs. appended later, start '
         'offset (oldest, newest, literal incl. strictly inside a unit), per-fetch faults by occurrence (redispatch codes, report codes, '
         'OffsetOutOfRange, missing block, drop, silence, throttled-empty, delay), reader pauses > 2 x MaxProcessingTime at drawn message indexes, '
         'hook delay vectors. with chains of 1-3 consumer interceptors and slow-reader emphasis. Oracle: an invocation log keyed by message '
         'identity: every submitted / delivered message was seen exactly once by every interceptor, in configuration order, on its first pass '
         '(retries==0), never for a message the application did not submit; stored records / delivered messages show exactly one application of each '
         'mutation; a panicking interceptor stops neither the chain nor the pipeline (C01 / C03 oracles alongside). Non-trivial: producer: >=1 '
         'failed produce (a retry pass happened); consumer: the slow-reader path fired.',
 'assumptions': ["the simulated cluster (harness/sarama/sim_*.go) is the reference model: logs are stored as units written by the harness's own "
                 'writer (message v0/v1, compressed wrappers with absolute/relative inner offsets, record batches v2 incl. control batches) and '
                 'served by its own Fetch/ListOffsets writer (byte budget, partial trailing data, last stable offset, aborted-transaction index)',
                 'in-memory network through Config.Net.Proxy.Dialer; no real sockets or brokers',
                 'progress is judged in protocol rounds: stuck = 400 further fault-free fetch rounds without a delivery or fetch-offset advance, or '
                 'no fetch request at all for 5 s',
                 'formats are restricted to what a broker may send the configured client version (no v2 batches below 0.11, zstd only from 2.1)'],
 'replay_n': 10}

TEXT = {'level': 'Generated retry scripts and reader paces with mutating/panicking interceptor chains; exactly-once-invocation oracle over an '
          'identity-keyed log plus visible mutation counts. Holds on everything generated.',
 'note': 'Trusted: simulated cluster; interceptors record before they mutate or panic.',
 'technique': 'property-based testing (rapid) against a simulated Kafka cluster: invocation-log oracle under generated retry and pace schedules',
 'ref': '5.18'}
