"""Driver configuration and manifest text for C17 (see DESIGN.md 5.17).

parts[0] 'pure' is the partitioner contract on direct Partition() calls; the producer-routing part is
appended as a second entry of 'parts' (its rule/assumption text goes into RULE_ROUTING / 'assumptions')."""

RULE_PURE = ('pure part: one partitioner instance per case from NewHashPartitioner, NewReferenceHashPartitioner, NewCustomHashPartitioner(hasher), '
             'NewCustomPartitioner(any subset, any order of WithAbsFirst / WithCustomHashFunction / WithCustomFallbackPartitioner with a recording '
             'fallback), NewRandomPartitioner, NewRoundRobinPartitioner, NewManualPartitioner; 1..20 Partition() calls on it; keys nil / empty / '
             'ByteEncoder(nil) / random bytes as ByteEncoder or StringEncoder / an Encoder that fails, drawn from a pool of 1..4 keys so that equal '
             'keys recur; hashers: FNV-1a (default), FNV-1, and a harness hash whose Sum32 is the first four key bytes (0, 0x7fffffff, 0x80000000, '
             '0xffffffff, +-1 of those by construction), plus solved FNV keys hashing to the same corner values; numPartitions 1..2^31-1 (mostly '
             '<=16, powers of two and their neighbours, MaxInt32), constant or changing between calls. Oracles: result in [0,n); equal key bytes => '
             'equal partition on the reused instance and on a fresh instance with the other encoder type; result = (h & 0x7fffffff) % n for the '
             'reference/abs-first variant and |int32(h) % n| for the default one with h recomputed by the harness; a failing key encoder => that '
             'error; keyless => in range (default fallback) or the configured fallback asked exactly once with that message and count and its '
             'answer/error handed back, never asked for keyed messages; MessageRequiresConsistency <=> key present and RequiresConsistency() for '
             'hash partitioners; round-robin: n calls with constant n give n distinct partitions and every result is the successor (prev+1, or 0 '
             'when that is not < n) of the previous one, also across a change of n; manual returns message.Partition; NewCustomHashPartitioner '
             'calls the hasher factory once per partitioner. Non-trivial: a keyed call whose hash has the top bit set, or a keyed call with n not '
             'a power of two, or a custom hasher / custom fallback option in play; distinct = hash of the case.')

RULE_ROUTING = (' || routing part: the real AsyncProducer against the simulated cluster (1-3 brokers, 1-2 topics x 1-4 partitions) with a drawn, static subset of '
                'leaderless partitions (none / some / all of a topic), partitioner manual / hash / reference hash / round-robin / random / a misbehaving custom one '
                '(returns -1, n, n+5, 2^30, MinInt32 or an error per message) behind a recording wrapper, keyed and keyless messages. Oracle: the partitioner is consulted '
                'exactly once per message and offered all partitions (consistency-requiring: manual, keyed hash) or only the writable ones; the produce request and the outcome '
                'name partition offered[choice]; out-of-range choice => ErrInvalidPartition, partitioner error => that error, nothing offered => ErrLeaderNotAvailable, '
                'leaderless target => an error: each without any broker receiving the message. Non-trivial: a leaderless subset, a hash partitioner or the misbehaving one.')

CHECK = {'pkg': '.',
 'parts': [{'name': 'pure', 'test': 'TestVF_C17_Pure', 'memlimit_gb': 8,
            'quick': {'shards': 4, 'checks': 25000}, 'thorough': {'shards': 16, 'checks': 500000}},
           {'name': 'routing', 'test': 'TestVF_C17_Routing',
            'quick': {'shards': 8, 'checks': 150}, 'thorough': {'shards': 16, 'checks': 10000}}],
 'sim': True,
 'rule': RULE_PURE + RULE_ROUTING,
 'assumptions': ['pure part: the harness recomputes FNV-1a / FNV-1 itself (cross-checked against hash/fnv on every keyed call); results of the '
                 'built-in random partitioner (uncontrolled RNG inside sarama) are judged for range only',
                 'pure part: RequiresConsistency() of the random, round-robin and manual partitioners is not documented and is recorded, not judged',
                 'pure part: WithCustomFallbackPartitioner takes a *hashPartitioner, so the recording fallback is wrapped in a hash partitioner '
                 'built by the harness (keyless message -> recorder)']}

TEXT = {'level': 'Generated call sequences over every partitioner constructor and option with corner-value hashes reached by construction, judged by '
          'range, determinism, an independent reference formula per variant, fallback-call accounting and a round-robin successor rule; '
          'each case runs in a child process with the case persisted first (a keyless message through the pinned custom-fallback option overflows '
          'the stack).',
 'note': 'Pure part only asserts what the statement and the doc comments of partitioner.go say; trusted base: rapid, the harness hash code, hash/fnv.',
 'technique': 'property-based testing (rapid): reference-model and metamorphic (fresh vs reused instance, encoder type) oracles',
 'ref': '5.17'}
