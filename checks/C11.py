"""Driver configuration and manifest text for C11 (see DESIGN.md)."""

CHECK = {'pkg': '.',
 'sim': True,
 'parts': [{'name': 'main', 'test': 'TestVF_C11', 'quick': {'shards': 8, 'checks': 250}, 'thorough': {'shards': 16, 'checks': 15000}}],
 'rule': 'rapid draws: Kafka version (0.8.2..2.8 = fetch v0..v11), Fetch.Default 64..512 (so partial trailing data and fetch-size doubling occur), '
         'ChannelBufferSize {0,1,4}, MaxProcessingTime {2,100} ms, 1-3 partitions on one broker, per partition a log of 0-12 stored units (legacy '
         'messages, gzip/snappy/lz4 wrappers, v2 batches with 5 codecs; nil/empty/large keys and values, headers, timestamps, LogAppendTime; '
         'compaction holes between units, inside units, compacted head/tail of batches with base offset / lastOffsetDelta kept; log start > 0), how '
         'many units exist at start vs. appended later, start offset (oldest, newest, literal incl. strictly inside a unit), per-fetch faults by '
         'occurrence (redispatch codes, report codes, OffsetOutOfRange, missing block, drop, silence, throttled-empty, delay), reader pauses > 2 x '
         'MaxProcessingTime at drawn message indexes, hook delay vectors. C11 logs are v2 only and come from a drawn transaction schedule: 3 '
         'producer ids, interleaved data batches, overlapping transactions, same id aborted then committed back to back, non-transactional batches, '
         'commit/abort markers, unknown control types, holes, possibly one transaction left open (then the last stable offset caps what '
         'read-committed may see); the aborted index served is exactly the faithful one for the fetched range in a drawn permutation; isolation '
         'level both ways. Oracle: read committed => delivered = committed + non-transactional data below the LSO; read uncommitted => all data; '
         'never a control record; the consumer passes every marker. Non-trivial: >=1 aborted and >=1 committed transaction and (a response cut at '
         'the byte budget, or producer-id reuse).',
 'assumptions': ["the simulated cluster (harness/sarama/sim_*.go) is the reference model: logs are stored as units written by the harness's own "
                 'writer (message v0/v1, compressed wrappers with absolute/relative inner offsets, record batches v2 incl. control batches) and '
                 'served by its own Fetch/ListOffsets writer (byte budget, partial trailing data, last stable offset, aborted-transaction index)',
                 'in-memory network through Config.Net.Proxy.Dialer; no real sockets or brokers',
                 'progress is judged in protocol rounds: stuck = 400 further fault-free fetch rounds without a delivery or fetch-offset advance, or '
                 'no fetch request at all for 5 s',
                 'formats are restricted to what a broker may send the configured client version (no v2 batches below 0.11, zstd only from 2.1)'],
 'replay_n': 10}

TEXT = {'level': 'Generated transaction schedules and fetch boundaries against a simulated broker that serves the faithful aborted index and LSO; '
          'stream-equality oracle. Holds on everything generated.',
 'note': "Trusted: the simulator's aborted-index and LSO computation (spans from a producer id's first data batch after its previous marker to its "
         'abort marker).',
 'technique': 'property-based testing (rapid) against a simulated Kafka broker: transaction-schedule generation, model-based stream equality',
 'ref': '5.11'}
