"""Driver configuration and manifest text for C14 (see DESIGN.md 5.14)."""

CHECK = {'pkg': '.',
 'parts': [{'name': 'calls', 'test': 'TestVF_C14', 'quick': {'shards': 8, 'checks': 800}, 'thorough': {'shards': 16, 'checks': 20000}}],
 'replay_n': 20,
 'rule': 'one real Broker (Open over the in-memory net, Net.MaxOpenRequests 1..5, with or without waiting for Connected) against a raw scripted '
         'server; 1..8 caller goroutines x 1..6 calls of mixed kinds and versions (Metadata v0/1/4/5, FindCoordinator v0/1, GetConsumerMetadata, '
         'Heartbeat, OffsetFetch v1/2/5 and v6/7 = response header v1 next to header v0 on one connection, Produce v0..v7 acknowledged and acks=0), '
         'drawn pauses before calls; every request carries a unique token (topic / group / coordinator key) that the server echoes in the response '
         'body (Heartbeat: as an error code). The server handles requests strictly in wire order; per request index the script says: answer, answer '
         'after a hold (until k further requests arrived / until the client provably cannot send / until no request arrived for 30 ms), one-byte '
         'body, wrong correlation id (full frame or bare header), answer swapped with the next request, truncated frame then close, length field '
         '<=4 or >MaxResponseSize, garbage header (negative length; non-empty tagged fields for header v1), abrupt close, silence, stalled body '
         '(the intact header - right length, right correlation id - and 0..999 permille of the body, connection left open; the server sends '
         'nothing more until it has seen that very call return, which it does by read timeout, and then goes on with the script: complete '
         'well-formed frames for the requests that are outstanding or come later; scripted in about 1 case of 8, reached as the first fault with the call timing out in about 1 of 16) (silence and stalled body: '
         'ReadTimeout 100..150 ms, else 1 s); after a fault the server closes or keeps answering later requests correctly (after a stalled body: '
         'always the latter); in a quarter of the cases Close races '
         'with the callers after a drawn number of received requests, and Close is always called twice. Oracles: a returned response carries the '
         "call's own token, stems from a request the server really answered, and that request lies before the first fault of the connection "
         '(sticky failure: the call hit by the fault, every call outstanding then and every later call fail - for a stalled body that is the '
         'call whose body read timed out, the calls outstanding when it returned and the calls issued afterwards); a '
         'one-byte body yields an error; an answered call before any fault does not fail (unless an unscripted read timeout was observed); '
         'correlation ids are unique; no call, Close or second Close hangs (quiescence rule); no panic (PanicHandler and recover in callers); '
         'high-water mark of response-expecting requests received and not yet handled by the server, taken over the part of the history in '
         'which the client provably still served the connection (up to the last correct answer that a call returned), <= MaxOpenRequests; '
         'this clause is judged last, so that its known symptom max+1 (KF-C14-1) cannot hide another failure of the same case. '
         'Non-trivial: the server saw a 2nd response-expecting request before it answered the 1st (high-water >= 2), or the first '
         'fault happened with >= 2 such requests unanswered; distinct = hash of the case. Coverage classes stallbody:timeout_seen[:...] count the '
         'cases in which the stall was the first fault and the stalled call was seen to fail by timeout (with calls outstanding at that moment '
         '/ with calls issued only afterwards / MaxOpenRequests >= 2 / with a Close race).',
 'assumptions': ['internal/vfref = snapshot of the pinned sarama sources, used as the reference codec for response bodies and for decoding request '
                 'bodies; the request envelope, the Produce request prefix and the response framing rule (header v1 only for OffsetFetch v6+) are '
                 "the harness's own",
                 'liveness by quiescence: a call or Close counts as hung only if the server owes nothing on any received request and neither the '
                 'server nor any caller made a step for 5 s (thorough 8 s); sarama timers in a case: ReadTimeout 100 ms..1 s',
                 'an acks=0 Produce has no response to match: only "returns, without a response" is judged for it, also after a fault',
                 'holds are scheduling aids driven by the wall clock (30 ms idle window); verdicts are not: when a hold outlasts Net.ReadTimeout on a '
                 'loaded machine the case is judged without the completeness clause (class partially_judged), and requests written after the '
                 'client gave the connection up on its own never enter the occupancy mark (it ends at the last correct answer that came back)',
                 'wire occupancy is what the server can see (received minus handled); it is a lower bound of what is on the wire; a pile-up '
                 'after which no correct answer was returned is not judged (class occupancy>max:not_judged)',
                 'a stalled body ends when the harness has seen the stalled call return, not after an interval; the wait is bounded by 20 s only '
                 'to keep a stuck case from blocking the run, and a stall that ends at the bound closes the connection, sends nothing more and is '
                 'not judged (class partially_judged:stall_bound; never observed)']}

TEXT = {'level': 'Random concurrent call mixes against a scripted raw server with every listed connection fault at every request position, with response '
          'holds that make pile-ups observable and Close races; token echo, first-fault, liveness (quiescence), panic and wire-occupancy oracles.',
 'note': 'Known finding KF-C14-1: MaxOpenRequests+1 requests reach the wire (send writes before it queues the promise); occupancy above max+1 '
         'stays a violation. Schedules below network granularity are sampled, not enumerated. Trusted base: rapid, the in-memory net, the vfref '
         'snapshot for bodies.',
 'technique': 'property-based testing (rapid) of a concurrent component against a scripted in-memory peer; history-based oracles with a quiescence '
              'rule for liveness',
 'ref': '5.14'}
