"""Driver configuration and manifest text for C03 (see DESIGN.md)."""

CHECK = {'pkg': '.',
 'sim': True,
 'parts': [{'name': 'main', 'test': 'TestVF_C03', 'quick': {'shards': 8, 'checks': 250}, 'thorough': {'shards': 16, 'checks': 15000}}],
 'rule': 'rapid draws: Kafka version (0.8.2..2.8 = fetch v0..v11), Fetch.Default 64..512 (so partial trailing data and fetch-size doubling occur), '
         'ChannelBufferSize {0,1,4}, MaxProcessingTime {2,100} ms, 1-3 partitions on one broker, per partition a log of 0-12 stored units (legacy '
         'messages, gzip/snappy/lz4 wrappers, v2 batches with 5 codecs; nil/empty/large keys and values, headers, timestamps, LogAppendTime; '
         'compaction holes between units, inside units, compacted head/tail of batches with base offset / lastOffsetDelta kept; log start > 0), how '
         'many units exist at start vs. appended later, start offset (oldest, newest, literal incl. strictly inside a unit), per-fetch faults by '
         'occurrence (redispatch codes, report codes, OffsetOutOfRange, missing block, drop, silence, throttled-empty, delay), reader pauses > 2 x '
         'MaxProcessingTime at drawn message indexes, hook delay vectors. Oracle: the sequence read from Messages() equals, field by field (key, '
         'value, nil-ness, headers, timestamp rule per format, offset, topic, partition), the application-visible records with offset >= S computed '
         'from the model alone: strictly increasing, each once, nothing skipped/extra/altered; OffsetOutOfRange is reported and stops the consumer; '
         'progress by the round rule; closing completes. Non-trivial: >=2 stored units and (start strictly inside a unit, or a response cut at the '
         'byte budget, or >=1 fault, or the slow-reader path fired); distinct = hash of the case.',
 'assumptions': ["the simulated cluster (harness/sarama/sim_*.go) is the reference model: logs are stored as units written by the harness's own "
                 'writer (message v0/v1, compressed wrappers with absolute/relative inner offsets, record batches v2 incl. control batches) and '
                 'served by its own Fetch/ListOffsets writer (byte budget, partial trailing data, last stable offset, aborted-transaction index)',
                 'in-memory network through Config.Net.Proxy.Dialer; no real sockets or brokers',
                 'progress is judged in protocol rounds: stuck = 400 further fault-free fetch rounds without a delivery or fetch-offset advance, or '
                 'no fetch request at all for 5 s',
                 'formats are restricted to what a broker may send the configured client version (no v2 batches below 0.11, zstd only from 2.1)'],
 'replay_n': 10}

TEXT = {'level': 'Generated log layouts, start offsets, fetch faults and reader paces against a simulated broker; stream-equality oracle against the model. '
          'Holds on everything generated; absence beyond the bounds (<=60 records, <=3 partitions) is not established.',
 'note': "Trusted: the harness's own record/Fetch writers and the compression libraries sarama links; the round-based progress rule.",
 'technique': 'property-based testing (rapid) against a simulated Kafka broker: model-based stream equality over generated log layouts and fault '
              'scripts',
 'ref': '5.3'}
