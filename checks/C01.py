"""Driver configuration and manifest text for C01 (see DESIGN.md)."""

RULE_ADD = " Later additions: fatal faults carry any protocol error code 1..96 three times out of four; a hook-gated 'parked-flush' template (the partition producer is held inside newHighWatermark while the partition is made leaderless and fresh messages are submitted, then a second retry cycle) in one case out of eight; a quarter of the asynchronous cases recycle the message objects handed back on Successes()/Errors()."

CHECK = {'pkg': '.',
 'sim': True,
 'parts': [{'name': 'async', 'test': 'TestVF_C01', 'quick': {'shards': 8, 'checks': 200}, 'thorough': {'shards': 16, 'checks': 12000}}],
 'rule': 'rapid draws: Kafka version (0.8.2..2.8), codec+level, acks, idempotent, Retry.Max 0..3, backoff, Flush.*, ChannelBufferSize {0,1,4,256}, '
         'MaxOpenRequests, 1-3 brokers, 1-2 topics x 1-4 partitions with spread/shared leaders, 1-24 messages (nil/empty/identity keys and values, '
         'headers, timestamps), a fault table by occurrence per request kind (retriable/fatal codes with or without append, drop before/after '
         'append, silence, omitted block, leader move before/after, delay, responses held on gates), a step script (send chunks, await held request, '
         'release, wait outcomes, move leader, bounce broker, sleep), close mode, and per-hook delay vectors. Oracle: every message accepted on '
         'Input() has exactly one terminal event (pointer-identical message), no event for anything else, channels closed, Close returns (quiescence '
         'rule); a SyncProducer variant (1-4 senders, SendMessage/SendMessages) checks that each return belongs to its own message and names a log '
         'slot holding it. Non-trivial: >=1 produce request failed or lost its connection AND >=1 message was submitted after that first failure '
         '(sync variant: >=1 failure); distinct = hash of the case.',
 'assumptions': ['the simulated cluster (harness/sarama/sim_*.go) is the reference model: own parser for produce requests (record batch v2, message '
                 "sets v0/v1, CRCs, varints), Kafka's idempotence rules (epoch, sequence, last five batches), leadership checks",
                 'in-memory network through Config.Net.Proxy.Dialer; no real sockets or brokers',
                 'liveness clauses use the quiescence rule: nothing pending in the simulator and no relevant event for 5 s (thorough 8 s)',
                 'schedules are owned at network granularity (fault tables by occurrence, gates) and sampled below it (hook delays)'],
 'replay_n': 20}

TEXT = {'level': 'Generated fault scripts and interleavings against a simulated cluster; exactly-one-outcome, no-stranger and termination oracles over the '
          'full history. Holds on everything generated (known findings excluded by region+symptom and reported); interleavings below hook '
          'granularity are sampled; absence is not established.',
 'note': 'Trusted: the simulated cluster and in-memory network of the harness, rapid, the quiescence rule for the liveness clause.',
 'technique': 'property-based testing (rapid) against a simulated Kafka cluster: fault-script + schedule generation, history oracle',
 'ref': '5.1'}
