"""Driver configuration and manifest text for C15 (see DESIGN.md 5.15)."""

RULE_ADD = " Later additions: swapBroker mutation (a broker leaves and another arrives between two refreshes); part 'stalehandle' (deterministic: re-address a broker, refresh, report the old handle as failed, the new entry must stay)."

CHECK = {'pkg': '.',
 'sim': True,
 'parts': [{'name': 'metadata', 'test': 'TestVF_C15', 'quick': {'shards': 8, 'checks': 200}, 'thorough': {'shards': 16, 'checks': 20000}},
           {'name': 'stalehandle', 'test': 'TestVF_C15_StaleHandle', 'quick': {'shards': 1, 'checks': 60}, 'thorough': {'shards': 1, 'checks': 300}}],
 'rule': 'rapid draws: Kafka version 0.8.2 / 0.10.0 / 1.0 / 2.1 (metadata request v0 / v1 / v5), Metadata.Full on/off, Metadata.Retry.Max 0..3 '
         '(backoff 1 ms), background refresh off or every 1-2 ms, MaxOpenRequests 1..3, 1-4 brokers, 1-3 seed addresses (some never listening), 0-3 '
         'initial topics, an optional fault before NewClient, 6-18 phase-A steps and (about half of the cases) a phase B with 2-4 reader goroutines '
         'cycling 2-5 reads each plus a reader that holds the client read lock, while the main goroutine runs 3-9 further steps. A step is a cluster '
         'mutation (topic added / replaced / deleted / given an error of each class: LeaderNotAvailable, UnknownTopicOrPartition, InvalidTopic, '
         'TopicAuthorizationFailed, other; partitions added / removed; leader moved, -1, or an id absent from the broker list; replica / isr / offline '
         'lists (three distinct lists from the start, ISR a proper subset of the replicas); partition errors; broker added / removed / re-addressed / down / up; all seed brokers down; next requests to a broker dropped or left '
         'unanswered (ReadTimeout 100-150 ms only then); next responses delayed or carrying an error on every topic) or a client operation '
         '(RefreshMetadata() / RefreshMetadata(topics...), one read of Topics / Partitions / WritablePartitions / Leader / Replicas / InSyncReplicas / '
         'OfflineReplicas / Brokers, a sweep over everything the model holds). Oracle: reference view = fold of the metadata responses the simulator '
         'served and the client consumed, with the rules of the statement (broker set = newest response; full refresh resets; whole-topic replace; '
         'per-error-class keep / forget; writable = partition error is not LeaderNotAvailable; leader unknown to the view => ErrLeaderNotAvailable); '
         'every answer must equal the answer under a view that can have been current (a singleton when only one goroutine talks to the cluster, i.e. '
         'exact equality; otherwise the responses whose application can have been the last one, bounded by consumed-at / next-event-of-requester '
         'stamps); reads of one topic must be monotonic in real time; a reader holding the read lock must see metadata and derived lists of one '
         'state; RefreshMetadata / NewClient return nil or the topic-level error the applied response dictates, and ErrOutOfBrokers only if no '
         'candidate the client still had would have answered. Non-trivial: >=3 distinct views consumed AND >=1 of {partition shrink, broker '
         're-addressed, erroring topic, unreachable first candidate}; distinct = hash of the case.',
 'assumptions': ['the simulated cluster (harness/sarama/sim_*.go: own metadata v0/v1/v5 encoder, in-memory network through Config.Net.Proxy.Dialer) and '
                 'the observing dialer of the check (which response frames the client consumed, which goroutine wrote each request) are trusted',
                 'the order in which the client applies overlapping responses is not observable: under concurrency an answer is accepted if it matches '
                 'any response that can have been applied last; a known broker may be missing from Brokers()/Leader() after a request or dial to its '
                 'address failed (deregisterBroker, documented in client.go), until the next response',
                 'WritablePartitions is judged by the partition error code (LeaderNotAvailable => not writable) as client.go documents; a partition whose '
                 'leader id is absent from the broker list but carries no error is listed as writable (class feat:leader-absent-from-broker-list)',
                 'where the doc comments are silent nothing is asserted: which of several different topic errors of one response RefreshMetadata returns '
                 '(class feat:multi-error-response), ErrReplicaNotAvailable beside the replica lists, refreshing reads on a cache hit',
                 'the lock-holding reader uses the unexported fields client.lock / metadata / cachedPartitionsResults (in-package harness)',
                 'hang = script not finished, nothing pending in the simulator and no harness-visible event for 5 s (thorough 8 s); a read timeout on a '
                 'connection where no silence was scripted discards the case (machine stall), it is never a verdict'],
 'replay_n': 20}

TEXT = {'level': 'Generated sequences of cluster states, faults and client calls against a simulated cluster, sequential and with concurrent readers and '
          'background refresh; every API answer compared with a reference view folded from the responses the client actually consumed; refresh '
          'verdicts checked against candidate health. Holds on everything generated; interleavings below network granularity are sampled, not '
          'enumerated; absence is not established.',
 'note': 'Trusted: the simulated cluster, the in-memory network and the observing dialer of the harness, rapid. Under concurrency the oracle accepts '
         'every application order the observed stamps allow.',
 'technique': 'property-based testing (rapid) against a simulated Kafka cluster: model-based reference fold, linearizability-style candidate sets for '
              'concurrent reads, in-package lock probe',
 'ref': '5.15'}
