"""Driver configuration and manifest text for C06 (see DESIGN.md 5.6)."""

CHECK = {
    'pkg': '.', 'sim': True,
    'parts': [{'name': 'main', 'test': 'TestVF_C06', 'quick': {'shards': 8, 'checks': 200}, 'thorough': {'shards': 16, 'checks': 20000}}],
    'rule': ('rapid draws an action sequence (<=40) over a real OffsetManager with 1-3 managed partitions against the simulated group coordinator: MarkOffset / ResetOffset with '
             'arbitrary offsets and metadata, NextOffset, Commit (manual Commit() from one goroutine, or the 1 ms auto-commit ticker), markInside (the next commit response is held on a gate, '
             '1-3 marks/resets are performed while it is in flight, then it is released), coordinator verdicts for the next commits (accept, accept-then-drop, NotCoordinator, '
             'CoordinatorNotAvailable, LoadInProgress, MetadataTooLarge, UnknownTopicOrPartition, InvalidCommitOffsetSize, other codes, applied-but-error, missing block, connection drop), '
             'coordinator moves, sleeps; initial store none/some; retention on/off; hook delay vectors. Oracle: a model of the pending position per partition (Mark raises only, Reset '
             'lowers only) - every committed (offset, metadata) is a pair the model held; commits follow the order in which the model took the pairs on (no stale commit = no backwards '
             'step without Reset); NextOffset = model or Offsets.Initial; request version/retention/identity as configured; after Close (auto-commit) or a last Commit with an accepting '
             'coordinator the store equals the latest mark. Non-trivial: a mark landed between arrival and answer of a commit, or a failed commit was followed by a successful one.'),
    'assumptions': ['the simulated coordinator (harness/sarama/sim_group_test.go, own OffsetCommit/OffsetFetch/FindCoordinator codec) is the store of record',
                    'one committer at a time (the API contract): manual Commit() calls are issued sequentially by the harness'],
    'replay_n': 10,
}

TEXT = {'level': 'Generated Mark/Reset/Commit/Close interleavings with scripted coordinator verdicts and marks placed inside the commit window; model-based invariants after every step and at Close. Holds on everything generated; interleavings inside the offset manager below hook granularity are sampled.',
        'note': 'Trusted: simulated coordinator, the model of the pending position, rapid.',
        'technique': 'property-based testing (rapid), model-based: generated action sequences against a simulated coordinator with a reference model of the pending offset',
        'ref': '5.6'}
