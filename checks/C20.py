"""Driver configuration and manifest text for C20 (see DESIGN.md)."""

CHECK = {'pkg': './mocks',
 'parts': [{'name': 'async', 'test': 'TestVF_C20_Async', 'quick': {'shards': 4, 'checks': 25000}, 'thorough': {'shards': 16, 'checks': 500000}},
           {'name': 'sync', 'test': 'TestVF_C20_Sync', 'quick': {'shards': 4, 'checks': 25000}, 'thorough': {'shards': 16, 'checks': 500000}},
           {'name': 'consumer', 'test': 'TestVF_C20_Consumer', 'quick': {'shards': 4, 'checks': 25000}, 'thorough': {'shards': 16, 'checks': 500000}}],
 'rule': 'External-API harness in package mocks with a recording ErrorReporter; every case is a JSON-serialisable script drawn with rapid and executed against '
         'the real mocks. Producers (parts async, sync): scripts of 0-30 expectations (succeed / fail(err) x no checker / passing / failing value- or '
         'message-checker, values whose Encode fails), 0-35 submissions (fewer, as many, more than the script), partitioner in {hash, reference hash, '
         'crc32 custom hash, round-robin, random, manual} (sync also a nil config), SetDefaultPartitions / SetPartitions (sync: also changed while in use), '
         'Return.Successes and Return.Errors on; async: ChannelBufferSize in {0,1,2,5,256}, 1-3 concurrent senders (then only per-sender order, the FIFO '
         'order of each outcome channel and order-free partition facts are asserted), Close or AsyncClose, Successes()/Errors() drained throughout; '
         'sync: SendMessage and SendMessages batches of 0-6, expectations up front or interleaved with calls. Oracle: i-th submission <-> i-th expectation '
         '(outcome = scripted error by identity / checker error / success), k-th success has offset k, exactly one outcome per message that met an '
         'expectation, msg.Partition = choice of an identically constructed partitioner over the configured count (range only for random and keyless '
         'hash), SendMessage returns msg.Offset and a partition that is msg.Partition or at least one of the topic\'s partitions, each checker runs once on its message and sees the chosen partition, reporter calls = '
         'multiset {input without expectation, leftover at Close, failing checker} scripted. Consumer (part consumer): 0-4 registered partitions '
         '(literal offset or AnyOffset, drain expectations, repeated ExpectConsumePartition), 0-30 yields of messages/errors across them, up to 25 steps of '
         'ConsumePartition (right/wrong offset, unknown partition, twice), non-blocking reads of Messages()/Errors(), HighWaterMarkOffset, '
         'PartitionConsumer.Close/AsyncClose in any order, then Consumer.Close. Oracle: per partition the yielded values in order with topic/partition '
         'set, offsets consecutive from the high-water mark seen before the first yield, HighWaterMarkOffset and Consumer.HighWaterMarks = last offset+1, '
         'nothing extra on the channels, Close returns the unread errors, reporter calls per step = exactly {unexpected partition, unexpected offset, '
         'never consumed, undrained messages/errors}. Non-trivial: producers: script length >= 2 with mixed expectation kinds, or submissions != script '
         'length, or a failing checker; consumer: >= 2 yields with messages and errors on one partition, or >= 2 partitions with yields, or a scripted '
         'deviation. distinct = hash of the case JSON, per part.',
 'assumptions': ['the async mock is used as the AsyncProducer API demands: the harness drains Successes() and Errors() for the whole life of the mock; expectations and '
                 'partition counts are set before the first submission',
                 'after a SendMessages batch fails at message k the fate of the messages behind k is undocumented: nothing is asserted about them, and '
                 'the offsets / round-robin turns they may have used are unknowns of the model',
                 'partitioner errors, Expect...AndFail(nil), nil message values with value checkers and yields beyond the channel buffer are outside the domain',
                 'the partition RETURNED by the sync mock\'s SendMessage is only required to be msg.Partition or a partition the topic has: the pinned mock '
                 'returns 0 whatever it chose, and the repository\'s own examples/http_server test pins that 0',
                 'async mock: what a message beyond the script gets besides the report is undocumented; an error outcome carrying none of the script\'s '
                 'errors is tolerated for such a message (a success is not)',
                 'a wait on the async mock is declared a hang only after 60 s without any completed send or receive while the harness services every channel']}

TEXT = {'level': 'Generated-input search over scripts for the three mocks (expectation kinds, checker mixes, script vs. submission length, partitioners and '
          'partition counts, concurrent senders, consume/read/close orders), each executed against the real mock and judged by a reference model of '
          'the documented behaviour including the exact multiset of error-reporter calls. Holds on everything generated within the stated bounds.',
 'note': 'With several concurrent senders only per-sender order is asserted. The tail of a failed SendMessages batch is not judged (undocumented). '
         'Trusted base: rapid, the harness model, sarama\'s own partitioners as reference instances.',
 'technique': 'property-based testing (rapid): scripted-interaction cases against the real mocks, model-based oracle with a recording ErrorReporter',
 'ref': '5.20'}
