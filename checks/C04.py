"""Driver configuration and manifest text for C04 (see DESIGN.md)."""

RULE_ADD = ' Later additions: any protocol error code for fatal faults; every clause of the oracle is judged (one failure per symptom is handed on).'

CHECK = {'pkg': '.',
 'sim': True,
 'parts': [{'name': 'main', 'test': 'TestVF_C04', 'quick': {'shards': 8, 'checks': 200}, 'thorough': {'shards': 16, 'checks': 12000}}],
 'rule': 'rapid draws: Kafka version (0.8.2..2.8), codec+level, acks, idempotent, Retry.Max 0..3, backoff, Flush.*, ChannelBufferSize {0,1,4,256}, '
         'MaxOpenRequests, 1-3 brokers, 1-2 topics x 1-4 partitions with spread/shared leaders, 1-24 messages (nil/empty/identity keys and values, '
         'headers, timestamps), a fault table by occurrence per request kind (retriable/fatal codes with or without append, drop before/after '
         'append, silence, omitted block, leader move before/after, delay, responses held on gates), a step script (send chunks, await held request, '
         'release, wait outcomes, move leader, bounce broker, sleep), close mode, and per-hook delay vectors. Generator emphasis: version x codec x '
         'level x batching matrix, larger payloads, all built-in partitioners behind a recording wrapper. Oracle: each success (partition, offset) '
         'is a log slot holding exactly that message (key, value, headers, supplied timestamp); partition = recorded partitioner choice; every log '
         "record equals a submitted message; every batch / message set a broker received parses under the harness's own parser (length, CRC, deltas, "
         'relative offsets, attributes); LogAppendTime answers are reflected. Non-trivial: >=2 messages for one partition in one request, or >=2 '
         'partitions in one request, or a codec, or a failed produce.',
 'assumptions': ['the simulated cluster (harness/sarama/sim_*.go) is the reference model: own parser for produce requests (record batch v2, message '
                 "sets v0/v1, CRCs, varints), Kafka's idempotence rules (epoch, sequence, last five batches), leadership checks",
                 'in-memory network through Config.Net.Proxy.Dialer; no real sockets or brokers',
                 'liveness clauses use the quiescence rule: nothing pending in the simulator and no relevant event for 5 s (thorough 8 s)',
                 'schedules are owned at network granularity (fault tables by occurrence, gates) and sampled below it (hook delays)'],
 'replay_n': 20}

TEXT = {'level': 'Generated payload/version/codec/batching matrix and fault scripts; slot-identity oracle against the simulated logs plus independent '
          'parsing of every produce request. Holds on everything generated outside the listed known findings.',
 'note': "Trusted: the harness's own record parser and the compression libraries sarama links; simulated broker offset assignment.",
 'technique': 'property-based testing (rapid) against a simulated Kafka cluster: differential check of reported (partition, offset) vs model log, '
              'independent wire parser',
 'ref': '5.4'}
