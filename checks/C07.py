"""Driver configuration and manifest text for C07 (see DESIGN.md 5.7)."""

RULE_ADD = ' Later additions: Consumer.Offsets.Retention set in a third of the cases (OffsetCommit v2); Consumer.Group.Rebalance.Retry.Max drawn from {4,4,4,1,0,0}; Consumer.Offsets.Retry.Max drawn from {3,3,0,1}; one case in four with an auto-commit interval of an hour (only the final commit of a session commits).'

CHECK = {
    'pkg': '.', 'sim': True,
    'parts': [{'name': 'main', 'test': 'TestVF_C07', 'quick': {'shards': 8, 'checks': 100}, 'thorough': {'shards': 16, 'checks': 6000}}],
    'rule': ('rapid draws: strategy (range/roundrobin/sticky), 1-2 topics x 1-4 partitions with small logs, committed offsets per partition (none / in range / out of range), 1-3 members (each its '
             'own client + ConsumerGroup) with subscriptions and 1-3 planned Consume calls each (handler blocks until Messages() closes / returns after k messages / Setup returns an error; marks none, '
             'a prefix or all), a script (members start in a drawn order, context cancels, fencing by the coordinator, appends, waits, closes in a drawn order) and coordinator faults by '
             'occurrence on join/sync/heartbeat/commit/leave/offset-fetch/find-coordinator (RebalanceInProgress, UnknownMemberId, IllegalGeneration, NotCoordinator, connection loss), hook delays. '
             'Oracle over the merged application + coordinator history, per Consume call that obtained a generation: Setup once; <=1 ConsumeClaim per partition and only for claimed ones; '
             'claim InitialOffset = an offset the coordinator held for that partition around the session start (configured initial if none / out of range); delivered offsets of a claim start there and '
             'are gap-free; Cleanup once, after every started ConsumeClaim returned; then a commit request carrying the session\'s last marks (unless a commit was refused/lost or the mark could '
             'not raise the position); only then Consume returns; every Heartbeat/SyncGroup/OffsetCommit/LeaveGroup carries the member id and generation the coordinator issued to that client; '
             'after a join answered UnknownMemberId/IllegalGeneration the next join has an empty member id; no partition twice in a leader plan; over all sessions no offset below the highest '
             'delivered one is missing. Non-trivial: (>=2 sessions or >=2 members) and a rebalance / fence / cancel happened.'),
    'assumptions': ['the simulated coordinator (join barrier, leader election, sync barrier, heartbeat verdicts, fencing, offset store; own wire codec) stands in for Kafka\'s group coordinator; '
                    'session and rebalance timeouts of a real coordinator are replaced by a 150 ms rebalance timeout and scripted fencing',
                    'Offsets.Initial = oldest in every case, so that skipping for lack of a commit cannot occur legitimately'],
    'replay_n': 10,
}

TEXT = {'level': 'Generated member/handler/script/fault combinations against a simulated group coordinator; a life-cycle automaton and resume-from-commit oracle over the merged history. Holds on everything generated; timeouts of a real coordinator are not modelled.',
        'note': 'Trusted: simulated coordinator, history sequence numbers (one atomic counter for application and coordinator events), rapid.',
        'technique': 'property-based testing (rapid) against a simulated group coordinator: generated scripts and fault tables, life-cycle oracle over the event history',
        'ref': '5.7'}
