"""Driver configuration and manifest text for C05 (see DESIGN.md)."""

RULE_ADD = " Later additions: an 'idle-bump' template (a partition goes idle, a message on another broker's partition fails for good, the idle partition is written again) in a quarter of the cases; recycled message objects in a quarter of the cases; clause 'a batch that was on the wire comes again with the same records and first sequence only under the same epoch'; every clause is judged; known-finding regions are bounded by what the client did (hook event client-conn-error) and by whether another message may have been in the pipeline at an epoch bump."

CHECK = {'pkg': '.',
 'sim': True,
 'parts': [{'name': 'idem', 'test': 'TestVF_C05', 'quick': {'shards': 8, 'checks': 200}, 'thorough': {'shards': 16, 'checks': 12000}}],
 'rule': 'rapid draws: Kafka version (0.8.2..2.8), codec+level, acks, idempotent, Retry.Max 0..3, backoff, Flush.*, ChannelBufferSize {0,1,4,256}, '
         'MaxOpenRequests, 1-3 brokers, 1-2 topics x 1-4 partitions with spread/shared leaders, 1-24 messages (nil/empty/identity keys and values, '
         'headers, timestamps), a fault table by occurrence per request kind (retriable/fatal codes with or without append, drop before/after '
         'append, silence, omitted block, leader move before/after, delay, responses held on gates), a step script (send chunks, await held request, '
         'release, wait outcomes, move leader, bounce broker, sleep), close mode, and per-hook delay vectors. Idempotent configurations only; '
         'brokers enforce producer id/epoch/sequence rules (duplicates answered as success-with-original-offset or DUPLICATE_SEQUENCE_NUMBER, '
         'drawn). Oracle: no payload twice in a log; every success is in a log; per partition and epoch each new batch as received starts at '
         "previous last+1 (0 for the first batch of an epoch) and a resend carries identical records; C01's outcome oracle alongside. Non-trivial: "
         '>=1 resend whose original had been appended.',
 'assumptions': ['the simulated cluster (harness/sarama/sim_*.go) is the reference model: own parser for produce requests (record batch v2, message '
                 "sets v0/v1, CRCs, varints), Kafka's idempotence rules (epoch, sequence, last five batches), leadership checks",
                 'in-memory network through Config.Net.Proxy.Dialer; no real sockets or brokers',
                 'liveness clauses use the quiescence rule: nothing pending in the simulator and no relevant event for 5 s (thorough 8 s)',
                 'schedules are owned at network granularity (fault tables by occurrence, gates) and sampled below it (hook delays)'],
 'replay_n': 20}

TEXT = {'level': "Generated ack-loss/resend/leader-move scripts against brokers that enforce Kafka's idempotence rules; duplicate/continuity oracles over "
          'logs and the request stream. The pinned tree violates the property broadly after connection-level failures and after epoch bumps: those '
          'are listed known findings (region+symptom); outside them it holds on everything generated.',
 'note': "Trusted: the simulator's implementation of Kafka's sequence/epoch/duplicate rules (last five batches), own batch parser.",
 'technique': 'property-based testing (rapid) against a simulated Kafka cluster enforcing idempotence rules: history oracle over logs and request '
              'stream',
 'ref': '5.5'}
