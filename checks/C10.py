"""Driver configuration and manifest text for C10 (see DESIGN.md 5.10)."""

RULE = ('one generator, twelve entry points: versionedDecode of every response type x version of the table (38 types, 86 pairs; FetchResponse from the '
        'record-format models), responseHeader v0/v1 followed by the body-size expression of Broker.responseReceiver (header.length - headerLength + 4 '
        'handed to make()), decode() of Records / RecordBatch / MessageSet / Message / Record, of ConsumerGroupMemberMetadata / '
        'ConsumerGroupMemberAssignment, deserializeTopicPartitionAssignment, stickyBalanceStrategy.Plan over 1-4 members whose user data is null / '
        'noise / well-formed with hostile content (foreign topics, out-of-range and duplicate partitions, negative generations) / damaged, and '
        'FetchResponse decode followed by partitionConsumer.parseResponse (read-uncommitted and read-committed). Inputs: (a) noise, uniform and '
        'from a small alphabet {0,1,2,3,4,8,0x10,0x7f,0x80,0xfe,0xff} so that lengths are plausible, 0-2000 bytes; (b) mutations of VALID encodings '
        'obtained from the C09 generators (generating decoder + field log; own writer for record formats): a length / count / size field (array, '
        'compact array, string, compact string, bytes, compact bytes, varint bytes, record length, header count, message size, batch length, '
        'records size, tagged-field count) set to -1, -2, 0, 1, remaining, remaining+1, remaining/2, 2^15, 2^31-1, 2^32-1, -2^31, +-1 of its value, '
        'the cap of getArrayLength, for compact fields the uvarints 0, 1, 2, remaining+1/+2, 2^15, 2^31, 2^32, 2^63, 2^63+1, 2^64-1, an overlong zero '
        'and an overflowing 12-byte varint; any integer field set likewise; truncation at a drawn position or field boundary; one bit flipped; one '
        'byte set; two encodings spliced at field boundaries; trailing garbage; a field dropped or duplicated; each same-width change optionally '
        'with the CRCs of the enclosing messages / batches recomputed; a damaged or random inner message set inside a VALID compressed wrapper '
        'message (gzip, snappy, lz4, zstd; correct size and CRC; optionally nested twice) and a damaged or random record area with a true or '
        'hostile record count inside a VALID v2 batch (5 codecs, correct length and CRC-32C), bare or as the records of a fetch partition. Oracle: the '
        'call returns; a recovered panic (symptom = class @ innermost sarama function), process death (case persisted first; 12 GiB address space), '
        'a call that does not return (20 s of process CPU time burnt inside one call, or no goroutine runnable at three looks 20 s apart: never a '
        'wall-clock limit), or heap allocation above 64 x (input + decompressed) + 256 KiB is a violation (counter /gc/heap/allocs:bytes around '
        'the call; when it exceeds 64 x input + 256 KiB the call is repeated with every allocation profiled and the bytes are split by whether '
        'decompress() is on the stack; bytes allocated inside decompress() stand in for the decompressed size; the plan entry is bounded by 8192 x '
        'input + 4 MiB). Checksum clause: one bit / one byte changed inside the CRC-covered span of a message or batch => error, or only records in '
        'front of that unit surface (below the fetch level with the partial-trailing flag set); length clause: message size / batch length / '
        'record varint length (checksum recomputed) changed => error or a prefix of the original records per partition, and an error whenever the '
        'lying size still delimits a unit inside the buffer; records size of a fetch partition changed (the envelope behind it is framed anew and '
        'carries no checksum) => error or only records of the original response surface; record COUNT of a batch lowered or bytes / a further '
        'record appended behind the counted records, batch length and CRC-32C recomputed, section re-compressed (5 codecs) => error; count raised => '
        'error or a flagged partial batch; bytes appended behind the complete messages of the inner set of a valid compressed wrapper message => '
        'error, all original records, or an incomplete flag somewhere in the value: a complete CRC-valid unit never yields a shorter record list '
        'without an error or a partial-trailing flag; the same one level up on the messages parseResponse hands out; an outcome '
        'outside these is excused only if the harness\'s own strict parser accepts the mutated bytes and agrees with sarama. Non-trivial: the input is a '
        'mutation of a valid encoding, or noise of which the decoder consumed >= 8 bytes; distinct = (entry, type, version, hash of the input).')

CHECK = {'pkg': '.',
 'parts': [{'name': 'decode', 'test': 'TestVF_C10', 'memlimit_gb': 12,
            'quick': {'shards': 4, 'checks': 25000}, 'thorough': {'shards': 16, 'checks': 500000}}],
 'oom_is_violation': True,
 'fuzz': [{'target': 'FuzzVF_C10_Response', 'time': '90s', 'memlimit_gb': 12},
          {'target': 'FuzzVF_C10_Records', 'time': '90s', 'memlimit_gb': 12},
          {'target': 'FuzzVF_C10_Fetch', 'time': '90s', 'memlimit_gb': 12},
          {'target': 'FuzzVF_C10_Group', 'time': '60s', 'memlimit_gb': 12},
          {'target': 'FuzzVF_C10_Header', 'time': '60s', 'memlimit_gb': 12},
          {'target': 'FuzzVF_C10_Plan', 'time': '60s', 'memlimit_gb': 12}],
 'rule': RULE,
 'assumptions': ['valid encodings come from the C09 generators (generating decoder over the tree\'s own decode methods, the harness\'s own writer for '
                 'record formats); hash/crc32, encoding/binary and the compression libraries sarama links are trusted',
                 'the body buffer responseReceiver allocates is bounded by MaxResponseSize (the documented cap), not by 64 x the 8 header bytes: a '
                 'size that is negative or above MaxResponseSize is the violation',
                 'decompressed size is over-approximated by the bytes allocated inside decompress() (output buffer growth, at most about 5 x the '
                 'output); allocations of the decompression libraries themselves are not judged except through process death',
                 'a corrupted unit inside a complete message set may be reported as a partial trailing message (ErrInsufficientData inside it is '
                 'not distinguished from truncation by MessageSet.decode / FetchResponseBlock.decode); accepted as long as nothing of that unit or '
                 'behind it surfaces',
                 'the 20 s CPU-time limit per call and the 12 GiB address-space limit are 10^5 and 10^4 times above what a held case needs (0.3 ms, < 10 MB); '
                 'a process that is merely not scheduled accumulates no CPU time and is left alone']}

TEXT = {'level': 'Generated-input search over every decode entry point a client feeds with bytes it does not control: noise, field-aware mutations of valid '
          'encodings of every response type and version, hostile payloads inside valid compressed wrappers, hostile group user data through a '
          'full sticky Plan, fetch responses through parseResponse; each case persisted and run in a memory-capped child; panic, process death, '
          'hang, allocation and checksum / length-consistency oracles. Holds on everything generated within the stated bounds, with the listed '
          'per-call-site findings excluded by region and symptom.',
 'note': 'Seven defects of the decoder primitives were repaired (fixes/C10-*.diff); what remains are 19 decode functions that size a slice with a null '
         'array count (-1), listed one by one as known findings. Thorough tier adds six native fuzz targets carrying the same oracle.',
 'technique': 'property-based testing (rapid) with field-aware mutation of generated valid encodings + native coverage-guided fuzzing; differential '
              'oracle against the unmutated encoding and an independent record-format parser; allocation attribution by heap profile',
 'ref': '5.10'}
