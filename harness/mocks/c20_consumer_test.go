//go:build go1.18 && verif

package mocks

// C20, part "consumer": mocks.Consumer and mocks.PartitionConsumer. Sequential by construction: every yield fits the
// channel buffers and every receive of the harness is non-blocking, so no step can wait.

import (
	"fmt"
	"testing"

	"github.com/Shopify/sarama"
	"github.com/Shopify/sarama/internal/vfcore"
	"pgregory.net/rapid"
)

type vfCPart struct {
	Topic     string `json:"topic"`
	Partition int32  `json:"partition"`
	Offset    int64  `json:"offset"`               // ExpectConsumePartition's offset: a literal or AnyOffset (-1000)
	DrainMsgs bool   `json:"drain_msgs,omitempty"` // ExpectMessagesDrainedOnClose
	DrainErrs bool   `json:"drain_errs,omitempty"` // ExpectErrorsDrainedOnClose
	Rereg     bool   `json:"reregister,omitempty"` // yields go through a repeated ExpectConsumePartition(same arguments) instead of the kept handle
	FlagsLate bool   `json:"flags_late,omitempty"` // drain expectations are set after the yields instead of before
}

type vfCYield struct {
	Part int    `json:"part"`
	Err  bool   `json:"err,omitempty"` // YieldError instead of YieldMessage
	Val  string `json:"val,omitempty"`
}

type vfCOp struct {
	Op        string `json:"op"` // consume | consume-unknown | read | readerr | hwm | close | asyncclose
	Part      int    `json:"part"`
	Topic     string `json:"topic,omitempty"`     // consume-unknown
	Partition int32  `json:"partition,omitempty"` // consume-unknown
	Offset    int64  `json:"offset,omitempty"`    // consume, consume-unknown
	N         int    `json:"n,omitempty"`         // read, readerr: number of non-blocking receives
}

type vfConsumerCase struct {
	Part   string     `json:"part"`   // "consumer"
	Config string     `json:"config"` // nil | test | buf64
	Parts  []vfCPart  `json:"partitions"`
	Yields []vfCYield `json:"yields"`
	Ops    []vfCOp    `json:"ops"` // followed by Consumer.Close()
}

var vfOffsets = []int64{sarama.OffsetOldest, sarama.OffsetNewest, 0, 5, 1234}

func vfGenConsumerCase(t *rapid.T) *vfConsumerCase {
	c := &vfConsumerCase{
		Part:   "consumer",
		Config: rapid.SampledFrom([]string{"nil", "test", "buf64"}).Draw(t, "config"),
		Parts:  []vfCPart{}, Yields: []vfCYield{}, Ops: []vfCOp{},
	}
	// lists are drawn with SliceOfN so that rapid shrinks by deleting elements
	taken := map[string]bool{}
	minParts := rapid.SampledFrom([]int{1, 1, 0, 2, 3}).Draw(t, "minPartitions")
	for _, p := range rapid.SliceOfN(rapid.Custom(func(t *rapid.T) vfCPart {
		p := vfCPart{
			Topic:     rapid.SampledFrom([]string{"t0", "t1"}).Draw(t, "topic"),
			Partition: int32(rapid.IntRange(0, 3).Draw(t, "partition")),
			Offset:    AnyOffset,
		}
		if rapid.IntRange(0, 2).Draw(t, "literal") != 0 {
			p.Offset = rapid.SampledFrom(vfOffsets).Draw(t, "offset")
		}
		p.DrainMsgs = rapid.IntRange(0, 2).Draw(t, "drainM") == 2
		p.DrainErrs = rapid.IntRange(0, 2).Draw(t, "drainE") == 2
		p.Rereg = rapid.IntRange(0, 2).Draw(t, "rereg") == 2
		p.FlagsLate = rapid.Bool().Draw(t, "late")
		return p
	}), minParts, 4).Draw(t, "partitions") {
		k := fmt.Sprintf("%s/%d", p.Topic, p.Partition)
		if !taken[k] {
			taken[k] = true
			c.Parts = append(c.Parts, p)
		}
	}
	nParts := len(c.Parts)
	nM, nE := make([]int, nParts), make([]int, nParts)
	if nParts > 0 {
		max := 30
		if rapid.IntRange(0, 2).Draw(t, "fewYields") == 2 {
			max = 5
		}
		c.Yields = rapid.SliceOfN(rapid.Custom(func(t *rapid.T) vfCYield {
			y := vfCYield{Part: rapid.IntRange(0, nParts-1).Draw(t, "part")}
			y.Err = rapid.IntRange(0, 2).Draw(t, "err") == 2
			if !y.Err {
				y.Val = rapid.StringMatching(`[a-c]{0,3}`).Draw(t, "val")
			}
			return y
		}), 0, max).Draw(t, "yields")
		for _, y := range c.Yields {
			if y.Err {
				nE[y.Part]++
			} else {
				nM[y.Part]++
			}
		}
	}
	unknown := func(t *rapid.T) vfCOp {
		op := vfCOp{Op: "consume-unknown", Offset: rapid.SampledFrom(vfOffsets).Draw(t, "offset")}
		if nParts > 0 && rapid.Bool().Draw(t, "knownTopic") {
			op.Topic = c.Parts[rapid.IntRange(0, nParts-1).Draw(t, "like")].Topic
			op.Partition = int32(rapid.IntRange(100, 103).Draw(t, "partition"))
		} else {
			op.Topic = "tx"
			op.Partition = int32(rapid.IntRange(0, 3).Draw(t, "partition"))
		}
		return op
	}
	if rapid.IntRange(0, 2).Draw(t, "clean") == 2 {
		// the orderly test: every partition consumed at the expected offset and read to the end
		for i := 0; i < nParts; i++ {
			off := c.Parts[i].Offset
			if off == AnyOffset {
				off = rapid.SampledFrom(vfOffsets).Draw(t, fmt.Sprintf("c%d.offset", i))
			}
			c.Ops = append(c.Ops, vfCOp{Op: "consume", Part: i, Offset: off})
			if nM[i] > 0 || rapid.Bool().Draw(t, fmt.Sprintf("c%d.readAnyway", i)) {
				c.Ops = append(c.Ops, vfCOp{Op: "read", Part: i, N: nM[i] + rapid.IntRange(0, 1).Draw(t, fmt.Sprintf("c%d.moreM", i))})
			}
			if nE[i] > 0 {
				c.Ops = append(c.Ops, vfCOp{Op: "readerr", Part: i, N: nE[i] + rapid.IntRange(0, 1).Draw(t, fmt.Sprintf("c%d.moreE", i))})
			}
			switch rapid.IntRange(0, 3).Draw(t, fmt.Sprintf("c%d.end", i)) {
			case 1:
				c.Ops = append(c.Ops, vfCOp{Op: "close", Part: i})
			case 2:
				c.Ops = append(c.Ops, vfCOp{Op: "asyncclose", Part: i})
			case 3:
				c.Ops = append(c.Ops, vfCOp{Op: "hwm", Part: i})
			}
		}
		return c
	}
	maxOps := 25
	if nParts == 0 {
		maxOps = 3
	}
	consumed := make([]bool, nParts) // (the generator is re-run from the start for every candidate, so this state is a function of the draws)
	c.Ops = rapid.SliceOfN(rapid.Custom(func(t *rapid.T) vfCOp {
		if nParts == 0 {
			return unknown(t)
		}
		part := rapid.IntRange(0, nParts-1).Draw(t, "part")
		kind := rapid.SampledFrom([]string{"consume", "read", "read", "read", "readerr", "readerr", "hwm", "close", "asyncclose", "consume", "consume-unknown"}).Draw(t, "op")
		if !consumed[part] && kind != "hwm" && kind != "consume-unknown" {
			kind = "consume" // the handle only exists after ConsumePartition
		}
		switch kind {
		case "consume":
			off := c.Parts[part].Offset
			if off == AnyOffset || rapid.IntRange(0, 4).Draw(t, "wrongOffset") == 4 {
				off = rapid.SampledFrom(vfOffsets).Draw(t, "offset")
			}
			if consumed[part] && rapid.IntRange(0, 2).Draw(t, "again") != 2 {
				return vfCOp{Op: "read", Part: part, N: 1}
			}
			consumed[part] = true
			return vfCOp{Op: "consume", Part: part, Offset: off}
		case "consume-unknown":
			if rapid.IntRange(0, 2).Draw(t, "really") == 2 {
				return unknown(t)
			}
			return vfCOp{Op: "hwm", Part: part}
		case "read", "readerr":
			return vfCOp{Op: kind, Part: part, N: rapid.IntRange(1, 6).Draw(t, "n")}
		}
		return vfCOp{Op: kind, Part: part}
	}), 0, maxOps).Draw(t, "ops")
	return c
}

type vfCState struct {
	mock     *PartitionConsumer
	h0       int64 // HighWaterMarkOffset() before anything was yielded = "the offset that will be used for the next message"
	msgs     []*sarama.ConsumerMessage
	vals     []string
	errs     []error
	consumed bool
	handle   sarama.PartitionConsumer
	readM    int
	readE    int
	closed   bool // AsyncClose or Close was called on it
}

func vfRunConsumer(c *vfConsumerCase, r *vfcore.Rec) (fail *vfcore.Failure) {
	hist := []string{}
	defer func() {
		if v := recover(); v != nil {
			fail = vfRecovered(v)
		}
		if fail != nil && fail.History == nil {
			fail.History = hist
		}
	}()
	// ---- well-formedness of the case (the generator guarantees it; a hand-made replay file might not)
	reg := map[string]int{}
	for i, p := range c.Parts {
		k := fmt.Sprintf("%s/%d", p.Topic, p.Partition)
		if _, dup := reg[k]; dup {
			return vfcore.Failf("harness", "partition %s listed twice", k)
		}
		reg[k] = i
	}
	perPart := make([]int, len(c.Parts))
	for _, y := range c.Yields {
		if y.Part < 0 || y.Part >= len(c.Parts) {
			return vfcore.Failf("harness", "yield names partition index %d", y.Part)
		}
		perPart[y.Part]++
	}
	if len(c.Yields) > 30 {
		return vfcore.Failf("harness", "more than 30 yields do not fit the smallest channel buffer used")
	}

	rep := &vfReporter{}
	var cfg *sarama.Config
	switch c.Config {
	case "test":
		cfg = NewTestConfig()
	case "buf64":
		cfg = NewTestConfig()
		cfg.ChannelBufferSize = 64
	}
	consumer := NewConsumer(rep, cfg)

	seenReports := 0
	anyDeviation := false
	devKinds := map[string]bool{}
	step := func(what string, want []string) *vfcore.Failure {
		all := rep.vfSnapshot()
		got := all[seenReports:]
		seenReports = len(all)
		for _, g := range got {
			hist = append(hist, "  reported: "+g)
		}
		for _, k := range want {
			anyDeviation = true
			devKinds[k] = true
		}
		return vfDiffKinds(want, vfKinds(got), what)
	}

	// ---- script: register, yield, drain expectations
	st := make([]*vfCState, len(c.Parts))
	for i, p := range c.Parts {
		s := &vfCState{mock: consumer.ExpectConsumePartition(p.Topic, p.Partition, p.Offset)}
		if s.mock == nil {
			return vfcore.Failf("no-handle", "ExpectConsumePartition(%s, %d) returned nil", p.Topic, p.Partition)
		}
		s.h0 = s.mock.HighWaterMarkOffset()
		st[i] = s
		if !p.FlagsLate {
			if p.DrainMsgs {
				s.mock.ExpectMessagesDrainedOnClose()
			}
			if p.DrainErrs {
				s.mock.ExpectErrorsDrainedOnClose()
			}
		}
	}
	for yi, y := range c.Yields {
		p, s := c.Parts[y.Part], st[y.Part]
		mock := s.mock
		if p.Rereg {
			mock = consumer.ExpectConsumePartition(p.Topic, p.Partition, p.Offset)
			if mock == nil {
				return vfcore.Failf("no-handle", "ExpectConsumePartition(%s, %d) returned nil the second time", p.Topic, p.Partition)
			}
		}
		if y.Err {
			e := &vfErr{fmt.Sprintf("vf yielded error %d", yi)}
			mock.YieldError(e)
			s.errs = append(s.errs, e)
		} else {
			m := &sarama.ConsumerMessage{Value: []byte(y.Val), Topic: "vf-unset", Partition: -5, Offset: -5}
			mock.YieldMessage(m)
			s.msgs = append(s.msgs, m)
			s.vals = append(s.vals, y.Val)
		}
	}
	for i, p := range c.Parts {
		if p.FlagsLate {
			if p.DrainMsgs {
				st[i].mock.ExpectMessagesDrainedOnClose()
			}
			if p.DrainErrs {
				st[i].mock.ExpectErrorsDrainedOnClose()
			}
		}
	}
	if f := step("scripting", nil); f != nil {
		return f
	}

	// ---- classes, non-trivial rule: >=2 yields of both kinds, or >=2 partitions with yields, or any scripted deviation (set below)
	r.Class("config=" + c.Config)
	r.Classf("partitions=%d", len(c.Parts))
	withYields, bothKinds := 0, false
	for _, s := range st {
		if len(s.msgs)+len(s.errs) > 0 {
			withYields++
		}
		if len(s.msgs) > 0 && len(s.errs) > 0 {
			bothKinds = true
		}
	}
	if bothKinds {
		r.Class("partition-with-messages-and-errors")
	}

	hwm := func(what string, i int) *vfcore.Failure {
		s, p := st[i], c.Parts[i]
		want := s.h0 + int64(len(s.msgs)) // offsets are consecutive, so the next one is first + count
		if got := s.mock.HighWaterMarkOffset(); got != want {
			return vfcore.Failf("hwm", "%s: HighWaterMarkOffset() of %s/%d = %d after %d yielded messages starting at offset %d, want %d", what, p.Topic, p.Partition, got, len(s.msgs), s.h0, want)
		}
		if s.handle != nil {
			if got := s.handle.HighWaterMarkOffset(); got != want {
				return vfcore.Failf("hwm", "%s: HighWaterMarkOffset() of the consumed %s/%d = %d, want %d", what, p.Topic, p.Partition, got, want)
			}
		}
		if got, ok := consumer.HighWaterMarks()[p.Topic][p.Partition]; !ok || got != want {
			return vfcore.Failf("hwm", "%s: Consumer.HighWaterMarks()[%s][%d] = %d (present: %v), want %d", what, p.Topic, p.Partition, got, ok, want)
		}
		return nil
	}
	// closeReports: what a Close of partition i has to report right now
	closeReports := func(i int) []string {
		s, p := st[i], c.Parts[i]
		var want []string
		if !s.consumed {
			return []string{vfKNeverCons}
		}
		if p.DrainErrs && s.readE < len(s.errs) {
			want = append(want, vfKUndrainedE)
		}
		if p.DrainMsgs && s.readM < len(s.msgs) {
			want = append(want, vfKUndrainedM)
		}
		return want
	}

	for oi := range c.Ops {
		op := &c.Ops[oi]
		what := fmt.Sprintf("op %d (%s)", oi, op.Op)
		if op.Op != "consume-unknown" && (op.Part < 0 || op.Part >= len(c.Parts)) {
			return vfcore.Failf("harness", "%s names partition index %d", what, op.Part)
		}
		r.Class("op=" + op.Op)
		switch op.Op {
		case "consume-unknown":
			if _, known := reg[fmt.Sprintf("%s/%d", op.Topic, op.Partition)]; known {
				return vfcore.Failf("harness", "%s names a registered partition", what)
			}
			pc, err := consumer.ConsumePartition(op.Topic, op.Partition, op.Offset)
			hist = append(hist, fmt.Sprintf("%s %s/%d -> nil=%v err=%v", what, op.Topic, op.Partition, pc == nil, err))
			if err == nil {
				return vfcore.Failf("wrong-outcome", "%s: ConsumePartition(%s, %d) without expectation returned no error", what, op.Topic, op.Partition)
			}
			if f := step(what, []string{vfKUnexpPart}); f != nil {
				return f
			}

		case "consume":
			s, p := st[op.Part], c.Parts[op.Part]
			pc, err := consumer.ConsumePartition(p.Topic, p.Partition, op.Offset)
			hist = append(hist, fmt.Sprintf("%s %s/%d at %d (expected %d) -> nil=%v err=%v", what, p.Topic, p.Partition, op.Offset, p.Offset, pc == nil, err))
			if s.consumed {
				// "You can only consume a partition once per consumer." The caller gets an error; it is not one of the deviations the
				// statement lists, so the reporter stays silent.
				r.Class("double-consume")
				if err == nil {
					return vfcore.Failf("double-consume", "%s: second ConsumePartition(%s, %d) returned no error", what, p.Topic, p.Partition)
				}
				if f := step(what, nil); f != nil {
					return f
				}
				continue
			}
			var want []string
			if p.Offset != AnyOffset && op.Offset != p.Offset {
				want = []string{vfKUnexpOff}
			}
			if f := step(what, want); f != nil {
				return f
			}
			if err != nil || pc == nil {
				return vfcore.Failf("wrong-outcome", "%s: ConsumePartition(%s, %d) of a registered, not yet consumed partition failed: %v", what, p.Topic, p.Partition, err)
			}
			s.consumed, s.handle = true, pc

		case "read":
			s, p := st[op.Part], c.Parts[op.Part]
			if !s.consumed {
				r.Class("op-skipped")
				continue
			}
			for k := 0; k < op.N; k++ {
				var m *sarama.ConsumerMessage
				state := "empty"
				select {
				case got, ok := <-s.handle.Messages():
					if ok {
						m, state = got, "message"
					} else {
						state = "closed"
					}
				default:
				}
				if s.readM < len(s.msgs) {
					i := s.readM
					if state != "message" {
						return vfcore.Failf("missing-yield", "%s: Messages() of %s/%d is %s after %d of %d yielded messages", what, p.Topic, p.Partition, state, i, len(s.msgs))
					}
					hist = append(hist, fmt.Sprintf("%s %s/%d -> offset=%d value=%q", what, p.Topic, p.Partition, m.Offset, m.Value))
					if m != s.msgs[i] {
						return vfcore.Failf("yield-order", "%s: receive #%d on %s/%d is not the message yielded #%d", what, i, p.Topic, p.Partition, i)
					}
					if m.Topic != p.Topic || m.Partition != p.Partition {
						return vfcore.Failf("yield-fields", "%s: message of %s/%d is labelled %s/%d", what, p.Topic, p.Partition, m.Topic, m.Partition)
					}
					if string(m.Value) != s.vals[i] {
						return vfcore.Failf("yield-fields", "%s: value %q, yielded %q", what, m.Value, s.vals[i])
					}
					if m.Offset != s.h0+int64(i) {
						return vfcore.Failf("consumer-offset", "%s: message #%d of %s/%d has offset %d; offsets are consecutive from %d, so want %d", what, i, p.Topic, p.Partition, m.Offset, s.h0, s.h0+int64(i))
					}
					s.readM++
					continue
				}
				wantState := "empty"
				if s.closed {
					wantState = "closed"
				}
				if state != wantState {
					return vfcore.Failf("extra-yield", "%s: Messages() of %s/%d is %q after all %d yielded messages were received, want %q", what, p.Topic, p.Partition, state, len(s.msgs), wantState)
				}
			}
			if f := step(what, nil); f != nil {
				return f
			}

		case "readerr":
			s, p := st[op.Part], c.Parts[op.Part]
			if !s.consumed {
				r.Class("op-skipped")
				continue
			}
			for k := 0; k < op.N; k++ {
				var e *sarama.ConsumerError
				state := "empty"
				select {
				case got, ok := <-s.handle.Errors():
					if ok {
						e, state = got, "error"
					} else {
						state = "closed"
					}
				default:
				}
				if s.readE < len(s.errs) {
					i := s.readE
					if state != "error" || e == nil {
						return vfcore.Failf("missing-yield", "%s: Errors() of %s/%d is %s after %d of %d yielded errors", what, p.Topic, p.Partition, state, i, len(s.errs))
					}
					hist = append(hist, fmt.Sprintf("%s %s/%d -> %v", what, p.Topic, p.Partition, e.Err))
					if e.Err != s.errs[i] {
						return vfcore.Failf("yield-order", "%s: receive #%d on Errors() of %s/%d carries %v, yielded #%d was %v", what, i, p.Topic, p.Partition, e.Err, i, s.errs[i])
					}
					if e.Topic != p.Topic || e.Partition != p.Partition {
						return vfcore.Failf("yield-fields", "%s: error of %s/%d is labelled %s/%d", what, p.Topic, p.Partition, e.Topic, e.Partition)
					}
					s.readE++
					continue
				}
				wantState := "empty"
				if s.closed {
					wantState = "closed"
				}
				if state != wantState {
					return vfcore.Failf("extra-yield", "%s: Errors() of %s/%d is %q after all %d yielded errors were received, want %q", what, p.Topic, p.Partition, state, len(s.errs), wantState)
				}
			}
			if f := step(what, nil); f != nil {
				return f
			}

		case "hwm":
			if f := hwm(what, op.Part); f != nil {
				return f
			}
			if f := step(what, nil); f != nil {
				return f
			}

		case "asyncclose":
			s := st[op.Part]
			if !s.consumed {
				r.Class("op-skipped")
				continue
			}
			s.handle.AsyncClose()
			s.closed = true
			if f := step(what, nil); f != nil {
				return f
			}

		case "close":
			s, p := st[op.Part], c.Parts[op.Part]
			if !s.consumed {
				r.Class("op-skipped")
				continue
			}
			want := closeReports(op.Part)
			left := s.errs[s.readE:]
			err := s.handle.Close()
			hist = append(hist, fmt.Sprintf("%s %s/%d with %d messages and %d errors unread -> %v", what, p.Topic, p.Partition, len(s.msgs)-s.readM, len(left), err))
			if f := step(what, want); f != nil {
				return f
			}
			// PartitionConsumer.Close: "drain the Messages channel, harvest any errors & return them to the caller"
			if len(left) == 0 {
				if err != nil {
					return vfcore.Failf("close-errors", "%s: no yielded error was left unread, Close returned %v", what, err)
				}
			} else {
				ce, ok := err.(sarama.ConsumerErrors)
				if !ok || len(ce) != len(left) {
					return vfcore.Failf("close-errors", "%s: %d yielded errors were unread, Close returned %v", what, len(left), err)
				}
				for k := range left {
					if ce[k] == nil || ce[k].Err != left[k] {
						return vfcore.Failf("close-errors", "%s: Close returned the unread errors out of order or altered: %v", what, err)
					}
				}
			}
			s.closed, s.readM, s.readE = true, len(s.msgs), len(s.errs)

		default:
			return vfcore.Failf("harness", "%s: unknown op", what)
		}
	}

	// every partition's high-water mark, whatever happened to it
	for i := range c.Parts {
		if f := hwm("before Consumer.Close", i); f != nil {
			return f
		}
	}

	// ---- Consumer.Close: "It will close all registered PartitionConsumer instances."
	var want []string
	for i := range c.Parts {
		want = append(want, closeReports(i)...)
		if !st[i].consumed {
			r.Class("never-consumed")
		}
	}
	err := consumer.Close()
	hist = append(hist, fmt.Sprintf("Consumer.Close -> %v", err))
	if f := step("Consumer.Close", want); f != nil {
		return f
	}
	for i, s := range st {
		if !s.consumed {
			continue
		}
		p := c.Parts[i]
		select {
		case _, ok := <-s.handle.Messages():
			if ok {
				return vfcore.Failf("not-closed", "after Consumer.Close, Messages() of %s/%d still delivers", p.Topic, p.Partition)
			}
		default:
			return vfcore.Failf("not-closed", "after Consumer.Close, Messages() of %s/%d is still open", p.Topic, p.Partition)
		}
		select {
		case _, ok := <-s.handle.Errors():
			if ok {
				return vfcore.Failf("not-closed", "after Consumer.Close, Errors() of %s/%d still delivers", p.Topic, p.Partition)
			}
		default:
			return vfcore.Failf("not-closed", "after Consumer.Close, Errors() of %s/%d is still open", p.Topic, p.Partition)
		}
	}

	for k := range devKinds {
		r.Class("deviation=" + k)
	}
	if anyDeviation {
		r.Class("deviations>0")
	} else {
		r.Class("deviations=0")
	}
	total := 0
	for _, n := range perPart {
		total += n
	}
	if (total >= 2 && bothKinds) || withYields >= 2 || anyDeviation {
		r.NonTrivial("")
	}
	return nil
}

func TestVF_C20_Consumer(t *testing.T) {
	vfcore.Main(t, vfSpec(func(t *rapid.T) interface{} { return vfGenConsumerCase(t) }))
}
