//go:build go1.18 && verif

package mocks

// C20 — the mocks replay scripted expectations faithfully and report deviations (DESIGN §5.20).
// Shared pieces: recording ErrorReporter, classification of its calls, unique scripted errors,
// recording checkers, the reference partitioner model and the quiescence wait.

import (
	"encoding/json"
	"errors"
	"fmt"
	"hash/crc32"
	"sort"
	"strings"
	"sync"
	"sync/atomic"
	"time"

	"github.com/Shopify/sarama"
	"github.com/Shopify/sarama/internal/vfcore"
	"pgregory.net/rapid"
)

// ---------------------------------------------------------------------------------------------
// recording ErrorReporter

type vfReporter struct {
	mu    sync.Mutex
	calls []string
}

func (r *vfReporter) Errorf(format string, args ...interface{}) {
	s := fmt.Sprintf(format, args...)
	r.mu.Lock()
	r.calls = append(r.calls, s)
	r.mu.Unlock()
}

func (r *vfReporter) vfSnapshot() []string {
	r.mu.Lock()
	defer r.mu.Unlock()
	return append([]string(nil), r.calls...)
}

// kinds of deviation (property statement: input without expectation, leftovers at Close, failing
// checker, unexpected partition / offset; mocks' doc comments: partition never consumed, channels
// expected to be drained on close).
const (
	vfKNoExp      = "no-expectation"
	vfKLeftover   = "leftover"
	vfKChecker    = "checker"
	vfKUnexpPart  = "unexpected-partition"
	vfKUnexpOff   = "unexpected-offset"
	vfKNeverCons  = "never-consumed"
	vfKUndrainedM = "undrained-messages"
	vfKUndrainedE = "undrained-errors"
)

// vfKind classifies one reporter call by its text. Unknown texts are their own kind ("other:...") and
// therefore never match an expected deviation.
func vfKind(s string) string {
	switch {
	case strings.Contains(s, "No more expectation"), strings.Contains(s, "Insufficient expectations"):
		return vfKNoExp
	case strings.Contains(s, "exhaust all expectations"):
		return vfKLeftover
	case strings.Contains(s, "Check function returned an error"):
		return vfKChecker
	case strings.Contains(s, "No expectations set for"):
		return vfKUnexpPart
	case strings.Contains(s, "Unexpected offset"):
		return vfKUnexpOff
	case strings.Contains(s, "no partition consumer was started"):
		return vfKNeverCons
	case strings.Contains(s, "messages channel") && strings.Contains(s, "drained"):
		return vfKUndrainedM
	case strings.Contains(s, "errors channel") && strings.Contains(s, "drained"):
		return vfKUndrainedE
	}
	if len(s) > 60 {
		s = s[:60]
	}
	return "other:" + s
}

func vfKinds(calls []string) []string {
	out := make([]string, len(calls))
	for i, c := range calls {
		out[i] = vfKind(c)
	}
	return out
}

// vfDiffKinds compares two lists of kinds as multisets: nil if equal, otherwise a failure naming the first
// kind (in sorted order) that is missing or in excess.
func vfDiffKinds(want, got []string, where string) *vfcore.Failure {
	cnt := map[string]int{}
	for _, k := range want {
		cnt[k]++
	}
	for _, k := range got {
		cnt[k]--
	}
	keys := make([]string, 0, len(cnt))
	for k := range cnt {
		keys = append(keys, k)
	}
	sort.Strings(keys)
	for _, k := range keys {
		if cnt[k] > 0 {
			return vfcore.Failf("report-missing:"+vfKindSig(k), "%s: %d deviation(s) of kind %q not reported; expected reports %v, error reporter got %v", where, cnt[k], k, want, got)
		}
	}
	for _, k := range keys {
		if cnt[k] < 0 {
			return vfcore.Failf("report-extra:"+vfKindSig(k), "%s: %d report(s) of kind %q without such a deviation; expected reports %v, error reporter got %v", where, -cnt[k], k, want, got)
		}
	}
	return nil
}

func vfKindSig(k string) string {
	if strings.HasPrefix(k, "other:") {
		return "other"
	}
	return k
}

// ---------------------------------------------------------------------------------------------
// scripted errors: one distinct value per expectation, compared by identity

type vfErr struct{ s string }

func (e *vfErr) Error() string { return e.s }

// ---------------------------------------------------------------------------------------------
// messages and expectations as data

type vfMsg struct {
	Topic     string `json:"topic"`
	HasKey    bool   `json:"has_key,omitempty"`
	Key       string `json:"key,omitempty"`
	Value     string `json:"value"`
	Partition int32  `json:"partition"`        // what the caller put into the message (the manual partitioner's answer)
	Faulty    bool   `json:"faulty,omitempty"` // the value's Encode() fails
}

type vfFaultyEncoder string

func (f vfFaultyEncoder) Encode() ([]byte, error) {
	return nil, errors.New("vf: value cannot be encoded")
}
func (f vfFaultyEncoder) Length() int { return len(f) }

func (m *vfMsg) vfBuild(allowFaulty bool) *sarama.ProducerMessage {
	pm := &sarama.ProducerMessage{Topic: m.Topic, Partition: m.Partition, Offset: -7}
	if m.HasKey {
		pm.Key = sarama.StringEncoder(m.Key)
	}
	if m.Faulty && allowFaulty {
		pm.Value = vfFaultyEncoder(m.Value)
	} else {
		pm.Value = sarama.ByteEncoder([]byte(m.Value))
	}
	return pm
}

type vfExp struct {
	Fail         bool   `json:"fail,omitempty"`          // Expect...AndFail(err) instead of ...AndSucceed
	Checker      string `json:"checker,omitempty"`       // "" | "value" | "msg"
	CheckerFails bool   `json:"checker_fails,omitempty"` // the checker returns an error
}

const (
	vfOutSuccess  = "success"
	vfOutScripted = "error:scripted"
	vfOutChecker  = "error:checker"
	vfOutEncode   = "error:encode" // value checker on a message whose value does not encode: "Failure to encode the message value will return an error and not call the wrapped ValueChecker"
)

// vfOutcome is the outcome the doc comments of the Expect* functions promise for a message that meets this expectation.
func (e *vfExp) vfOutcome(faultyValue bool) string {
	switch {
	case e.Checker == "value" && faultyValue:
		return vfOutEncode
	case e.Checker != "" && e.CheckerFails:
		return vfOutChecker
	case e.Fail:
		return vfOutScripted
	}
	return vfOutSuccess
}

type vfCheckCall struct {
	Exp       int
	Msg       *sarama.ProducerMessage // message checker only
	Val       []byte                  // value checker only
	Partition int32                   // message checker: msg.Partition as seen by the checker
}

type vfCheckLog struct {
	mu    sync.Mutex
	calls []vfCheckCall
}

func (l *vfCheckLog) vfAdd(c vfCheckCall) {
	l.mu.Lock()
	l.calls = append(l.calls, c)
	l.mu.Unlock()
}

func (l *vfCheckLog) vfSnapshot() []vfCheckCall {
	l.mu.Lock()
	defer l.mu.Unlock()
	return append([]vfCheckCall(nil), l.calls...)
}

// vfScript turns expectation data into the arguments of the Expect* calls.
type vfScript struct {
	exps     []vfExp
	scripted []error // scripted[j] is handed to Expect...AndFail for expectation j
	checkErr []error // checkErr[j] is what a failing checker of expectation j returns
	log      *vfCheckLog
}

func vfNewScript() *vfScript { return &vfScript{log: &vfCheckLog{}} }

func (s *vfScript) vfAdd(e vfExp) int {
	j := len(s.exps)
	s.exps = append(s.exps, e)
	s.scripted = append(s.scripted, &vfErr{fmt.Sprintf("vf scripted error of expectation %d", j)})
	s.checkErr = append(s.checkErr, &vfErr{fmt.Sprintf("vf checker of expectation %d rejects the message", j)})
	return j
}

func (s *vfScript) vfValueChecker(j int) ValueChecker {
	return func(val []byte) error {
		s.log.vfAdd(vfCheckCall{Exp: j, Val: append([]byte(nil), val...)})
		if s.exps[j].CheckerFails {
			return s.checkErr[j]
		}
		return nil
	}
}

func (s *vfScript) vfMessageChecker(j int) MessageChecker {
	return func(m *sarama.ProducerMessage) error {
		s.log.vfAdd(vfCheckCall{Exp: j, Msg: m, Partition: m.Partition})
		if s.exps[j].CheckerFails {
			return s.checkErr[j]
		}
		return nil
	}
}

// vfWhichErr maps an error value back to (expectation, outcome kind) by identity; ok=false for foreign errors.
func (s *vfScript) vfWhichErr(err error) (j int, kind string, ok bool) {
	for i := range s.exps {
		if err == s.scripted[i] {
			return i, vfOutScripted, true
		}
		if err == s.checkErr[i] {
			return i, vfOutChecker, true
		}
	}
	return -1, "", false
}

// ---------------------------------------------------------------------------------------------
// partition configuration and the reference partitioner

type vfTopicCfg struct {
	Default int32            `json:"default,omitempty"` // 0: leave NewTopicConfig's default (32)
	Topics  map[string]int32 `json:"topics,omitempty"`  // SetPartitions
}

type vfCounts struct {
	def int32
	per map[string]int32
}

func vfNewCounts(c vfTopicCfg) *vfCounts {
	v := &vfCounts{def: 32, per: map[string]int32{}} // "NewTopicConfig makes a configuration which defaults to 32 partitions for every topic"
	if c.Default > 0 {
		v.def = c.Default
	}
	for t, n := range c.Topics {
		v.per[t] = n
	}
	return v
}

func (v *vfCounts) vfCount(topic string) int32 {
	if n, ok := v.per[topic]; ok {
		return n
	}
	return v.def
}

func vfApplyTopicCfg(tc *TopicConfig, c vfTopicCfg) {
	if c.Default > 0 {
		tc.SetDefaultPartitions(c.Default)
	}
	if len(c.Topics) > 0 {
		m := map[string]int32{}
		for t, n := range c.Topics {
			m[t] = n
		}
		tc.SetPartitions(m)
	}
}

var vfPartitionerNames = []string{"hash", "refhash", "crc32hash", "roundrobin", "random", "manual"}

func vfPartitionerCtor(name string) sarama.PartitionerConstructor {
	switch name {
	case "hash", "nilconfig":
		return sarama.NewHashPartitioner
	case "refhash":
		return sarama.NewReferenceHashPartitioner
	case "crc32hash":
		return sarama.NewCustomHashPartitioner(crc32.NewIEEE)
	case "roundrobin":
		return sarama.NewRoundRobinPartitioner
	case "random":
		return sarama.NewRandomPartitioner
	case "manual":
		return sarama.NewManualPartitioner
	}
	panic("vf: unknown partitioner " + name)
}

// vfPartRef is "an identically configured reference instance": the same constructor, one instance per topic (as both
// mocks and the real producer keep them), consulted in submission order.
type vfPartRef struct {
	name    string
	ctor    sarama.PartitionerConstructor
	inst    map[string]sarama.Partitioner
	tainted map[string]bool // round-robin position no longer determined by documented behaviour
}

func vfNewPartRef(name string) *vfPartRef {
	return &vfPartRef{name: name, ctor: vfPartitionerCtor(name), inst: map[string]sarama.Partitioner{}, tainted: map[string]bool{}}
}

// vfChoose returns the partition the reference picks for m over count partitions; exact=false when the configured
// partitioner is randomised for this message (then only the range is known).
func (p *vfPartRef) vfChoose(m *vfMsg, count int32) (want int32, exact bool) {
	switch p.name {
	case "random":
		return 0, false
	case "hash", "refhash", "crc32hash", "nilconfig":
		if !m.HasKey {
			return 0, false
		}
	case "roundrobin":
		if p.tainted[m.Topic] {
			return 0, false
		}
	}
	in := p.inst[m.Topic]
	if in == nil {
		in = p.ctor(m.Topic)
		p.inst[m.Topic] = in
	}
	want, err := in.Partition(m.vfBuild(false), count)
	if err != nil {
		panic(fmt.Sprintf("vf: reference partitioner failed: %v", err))
	}
	return want, true
}

func vfCheckPartition(got, want int32, exact bool, count int32, what string) *vfcore.Failure {
	if exact {
		if got != want {
			return vfcore.Failf("partition", "%s: msg.Partition = %d, an identically configured partitioner picks %d of %d partitions", what, got, want, count)
		}
		return nil
	}
	if got < 0 || got >= count {
		return vfcore.Failf("partition-range", "%s: msg.Partition = %d outside [0,%d)", what, got, count)
	}
	return nil
}

// ---------------------------------------------------------------------------------------------
// generators shared by the producer parts

var vfTopics = []string{"t0", "t1", "t2"}

func vfGenTopicCfg(t *rapid.T) vfTopicCfg {
	var c vfTopicCfg
	switch rapid.IntRange(0, 3).Draw(t, "defaultMode") {
	case 0: // untouched: 32
	case 1:
		c.Default = int32(rapid.IntRange(1, 3).Draw(t, "default"))
	default:
		c.Default = int32(rapid.IntRange(1, 64).Draw(t, "default"))
	}
	if rapid.Bool().Draw(t, "override") {
		c.Topics = map[string]int32{}
		for _, tp := range vfTopics {
			if rapid.Bool().Draw(t, "override."+tp) {
				c.Topics[tp] = int32(rapid.IntRange(1, 12).Draw(t, "n."+tp))
			}
		}
		if len(c.Topics) == 0 {
			c.Topics = nil
		}
	}
	return c
}

func vfGenMsg(t *rapid.T, nTopics int, keyMode int, allowFaulty bool) vfMsg {
	m := vfMsg{
		Topic:     vfTopics[rapid.IntRange(0, nTopics-1).Draw(t, "topic")],
		Value:     rapid.StringMatching(`[a-c]{0,3}`).Draw(t, "value"),
		Partition: int32(rapid.IntRange(0, 40).Draw(t, "partition")),
	}
	switch keyMode {
	case 0: // all keyed
		m.HasKey = true
	case 1: // none
	default:
		m.HasKey = rapid.Bool().Draw(t, "hasKey")
	}
	if m.HasKey {
		m.Key = rapid.StringMatching(`[a-z]{0,4}`).Draw(t, "key")
	}
	if allowFaulty && rapid.IntRange(0, 9).Draw(t, "faulty") == 9 {
		m.Faulty = true
	}
	return m
}

func vfGenExp(t *rapid.T, mode int) vfExp {
	var e vfExp
	switch mode {
	case 0: // all succeed, no checkers
		rapid.IntRange(0, 1).Draw(t, "pad") // (a Custom generator has to consume something)
		return e
	case 1: // all fail, no checkers
		rapid.IntRange(0, 1).Draw(t, "pad")
		e.Fail = true
		return e
	}
	e.Fail = rapid.IntRange(0, 2).Draw(t, "fail") == 2
	e.Checker = rapid.SampledFrom([]string{"", "", "value", "msg"}).Draw(t, "checker")
	if e.Checker != "" {
		e.CheckerFails = rapid.IntRange(0, 3).Draw(t, "checkerFails") == 3
	}
	return e
}

// vfPair is one expectation together with the submission that is meant to meet it. Scripts are drawn as a list of pairs
// plus a surplus of expectations or of submissions, so that rapid shrinks a failing case by deleting whole pairs.
type vfPair struct {
	Exp    vfExp
	Msg    vfMsg
	Sender int  // async: which goroutine submits it
	Unit   int  // sync: 0 SendMessage, 1 first message of a SendMessages batch, 2 joins the batch before it (or starts one)
	JIT    bool // sync: the expectation is set just before the call that uses it instead of up front
}

type vfPairCfg struct {
	nTopics, keyMode, expMode, nSenders, batchMode int
	allowFaulty, interleave                        bool
}

func vfGenPairCfg(t *rapid.T, nSenders int) vfPairCfg {
	return vfPairCfg{
		nTopics:     rapid.IntRange(1, 3).Draw(t, "nTopics"),
		keyMode:     rapid.IntRange(0, 2).Draw(t, "keyMode"),
		expMode:     rapid.IntRange(0, 5).Draw(t, "expMode"),
		nSenders:    nSenders,
		batchMode:   rapid.IntRange(0, 2).Draw(t, "batchMode"), // sync: 0 SendMessage only, 1 SendMessages only, 2 both
		interleave:  rapid.IntRange(0, 3).Draw(t, "interleave") == 3,
		allowFaulty: nSenders == 1,
	}
}

func (pc vfPairCfg) vfPairGen() *rapid.Generator[vfPair] {
	return rapid.Custom(func(t *rapid.T) vfPair {
		p := vfPair{Exp: vfGenExp(t, pc.expMode), Msg: vfGenMsg(t, pc.nTopics, pc.keyMode, pc.allowFaulty)}
		if pc.nSenders > 1 {
			p.Sender = rapid.IntRange(0, pc.nSenders-1).Draw(t, "sender")
		}
		switch pc.batchMode {
		case 1:
			p.Unit = rapid.IntRange(1, 2).Draw(t, "unit")
		case 2:
			p.Unit = rapid.IntRange(0, 2).Draw(t, "unit")
		}
		if pc.interleave {
			p.JIT = rapid.Bool().Draw(t, "jit")
		}
		return p
	})
}

// vfGenScript draws the pairs and the surplus: script length 0..30, submissions 0..35, shorter / equal / longer.
func vfGenScript(t *rapid.T, pc vfPairCfg) (pairs []vfPair, extraExps []vfExp, extraMsgs []vfPair) {
	max := 30
	if rapid.IntRange(0, 3).Draw(t, "small") == 3 {
		max = 3
	}
	pairs = rapid.SliceOfN(pc.vfPairGen(), 0, max/2+1).Draw(t, "pairs")
	if max == 30 && rapid.Bool().Draw(t, "long") { // rapid prefers short slices; long scripts are wanted too
		pairs = append(pairs, rapid.SliceOfN(pc.vfPairGen(), 0, 30-len(pairs)).Draw(t, "morePairs")...)
	}
	switch rapid.SampledFrom([]string{"equal", "equal", "shorter", "longer"}).Draw(t, "rel") {
	case "shorter":
		room := 30 - len(pairs)
		if room > 6 {
			room = 6
		}
		if room > 0 {
			extraExps = rapid.SliceOfN(rapid.Custom(func(t *rapid.T) vfExp { return vfGenExp(t, pc.expMode) }), 1, room).Draw(t, "extraExps")
		}
	case "longer":
		extraMsgs = rapid.SliceOfN(pc.vfPairGen(), 1, 5).Draw(t, "extraMsgs")
	}
	return
}

// vfScriptClasses feeds the class histogram and evaluates the non-trivial rule of DESIGN §5.20:
// script length >= 2 with mixed kinds, or submissions != script length, or a failing checker.
func vfScriptClasses(r *vfcore.Rec, exps []vfExp, nMsg int) bool {
	kinds := map[string]bool{}
	failingChecker := false
	for i := range exps {
		e := &exps[i]
		k := "succeed"
		if e.Fail {
			k = "fail"
		}
		switch {
		case e.Checker == "":
			k += "/nochecker"
		case e.CheckerFails:
			k += "/failing-" + e.Checker
			failingChecker = true
		default:
			k += "/passing-" + e.Checker
		}
		kinds[k] = true
	}
	for k := range kinds {
		r.Class("exp=" + k)
	}
	switch {
	case nMsg < len(exps):
		r.Class("submissions<script")
	case nMsg > len(exps):
		r.Class("submissions>script")
	default:
		r.Class("submissions=script")
	}
	switch {
	case len(exps) == 0:
		r.Class("script=0")
	case len(exps) < 2:
		r.Class("script=1")
	case len(exps) <= 8:
		r.Class("script=2..8")
	default:
		r.Class("script=9..30")
	}
	if failingChecker {
		r.Class("failing-checker")
	}
	return (len(exps) >= 2 && len(kinds) >= 2) || nMsg != len(exps) || failingChecker
}

// ---------------------------------------------------------------------------------------------
// bounded waiting: a wait ends when done is closed, or when the progress counter (bumped by every completed
// send and receive of the harness) has stood still for vfQuiet while the harness keeps servicing every channel of the
// mock. Nothing else is ever judged by the clock.

const vfQuiet = 60 * time.Second

func vfAwait(done <-chan struct{}, progress *int64) bool {
	select {
	case <-done:
		return true
	default:
	}
	tick := time.NewTicker(100 * time.Millisecond)
	defer tick.Stop()
	last := atomic.LoadInt64(progress)
	lastChange := time.Now()
	for {
		select {
		case <-done:
			return true
		case <-tick.C:
			if cur := atomic.LoadInt64(progress); cur != last {
				last, lastChange = cur, time.Now()
			} else if time.Since(lastChange) > vfQuiet {
				return false
			}
		}
	}
}

func vfHang(what string) *vfcore.Failure {
	f := vfcore.Failf("hang", "%s: no progress for %s although the harness drains Successes() and Errors() and has nothing else pending", what, vfQuiet)
	f.History = vfcore.Stacks()
	return f
}

func vfRecovered(v interface{}) *vfcore.Failure {
	return vfcore.Failf(vfcore.PanicSite(v, "github.com/Shopify/sarama", "/mocks.vf", "/mocks.(*vf", "/mocks.(vf", "/mocks.TestVF", "/internal/vf"), "panic: %v", v)
}

// ---------------------------------------------------------------------------------------------
// one Spec for the three parts: they differ in the generator only. A saved case names its part, so whichever
// TestVF_C20_* function the driver starts for a replay, the case reaches the executor it was written for.

type vfAnyCase struct{ c interface{} }

func (a *vfAnyCase) UnmarshalJSON(b []byte) error {
	var head struct {
		Part string `json:"part"`
	}
	if err := json.Unmarshal(b, &head); err != nil {
		return err
	}
	switch head.Part {
	case "async":
		a.c = &vfAsyncCase{}
	case "sync":
		a.c = &vfSyncCase{}
	case "consumer":
		a.c = &vfConsumerCase{}
	default:
		return fmt.Errorf("C20 case without a known \"part\" (got %q)", head.Part)
	}
	return json.Unmarshal(b, a.c)
}

func (a *vfAnyCase) MarshalJSON() ([]byte, error) { return json.Marshal(a.c) }
func (a *vfAnyCase) Deref() interface{}           { return a.c }

func vfSpec(gen func(t *rapid.T) interface{}) vfcore.Spec {
	return vfcore.Spec{
		ID:  "C20",
		New: func() interface{} { return &vfAnyCase{} },
		Gen: gen,
		Run: func(c interface{}, r *vfcore.Rec) *vfcore.Failure {
			switch v := c.(type) {
			case *vfAsyncCase:
				return vfRunAsync(v, r)
			case *vfSyncCase:
				return vfRunSync(v, r)
			case *vfConsumerCase:
				return vfRunConsumer(v, r)
			}
			return vfcore.Failf("harness", "unknown case type %T", c)
		},
	}
}
