//go:build go1.18 && verif

package mocks

// C20, part "async": mocks.AsyncProducer.

import (
	"bytes"
	"fmt"
	"sort"
	"sync"
	"sync/atomic"
	"testing"

	"github.com/Shopify/sarama"
	"github.com/Shopify/sarama/internal/vfcore"
	"pgregory.net/rapid"
)

type vfAsyncCase struct {
	Part        string     `json:"part"` // "async": lets any C20 test function replay the case with the right executor
	Partitioner string     `json:"partitioner"`
	Parts       vfTopicCfg `json:"partition_counts"`
	Buf         int        `json:"channel_buffer_size"`
	Exps        []vfExp    `json:"expectations"`
	Senders     [][]vfMsg  `json:"senders"` // one goroutine per entry, each submits its messages in order
	Close       string     `json:"close"`   // "close" | "asyncclose"
}

func vfGenAsyncCase(t *rapid.T) *vfAsyncCase {
	c := &vfAsyncCase{
		Part:        "async",
		Partitioner: rapid.SampledFrom(vfPartitionerNames).Draw(t, "partitioner"),
		Parts:       vfGenTopicCfg(t),
		Buf:         rapid.SampledFrom([]int{0, 1, 2, 5, 256}).Draw(t, "buf"),
		Close:       rapid.SampledFrom([]string{"close", "asyncclose"}).Draw(t, "close"),
	}
	nSenders := rapid.SampledFrom([]int{1, 1, 1, 2, 3}).Draw(t, "senders")
	// (a value that cannot be encoded makes the outcome depend on which expectation the message meets, which only a single
	// sender determines: vfGenPairCfg allows it for one sender only)
	pairs, extraExps, extraMsgs := vfGenScript(t, vfGenPairCfg(t, nSenders))
	c.Exps = []vfExp{}
	c.Senders = make([][]vfMsg, nSenders)
	for i := range c.Senders {
		c.Senders[i] = []vfMsg{}
	}
	for _, p := range append(append([]vfPair(nil), pairs...), extraMsgs...) {
		c.Senders[p.Sender] = append(c.Senders[p.Sender], p.Msg)
	}
	for _, p := range pairs {
		c.Exps = append(c.Exps, p.Exp)
	}
	c.Exps = append(c.Exps, extraExps...)
	return c
}

type vfAsyncHist struct {
	Successes    []string `json:"successes"`
	Errors       []string `json:"errors"`
	Reports      []string `json:"reports"`
	CheckerCalls []string `json:"checker_calls"`
}

func vfRunAsync(c *vfAsyncCase, r *vfcore.Rec) (fail *vfcore.Failure) {
	defer func() {
		if v := recover(); v != nil {
			fail = vfRecovered(v)
		}
	}()
	if len(c.Senders) == 0 {
		c.Senders = [][]vfMsg{{}}
	}
	single := len(c.Senders) == 1
	nMsg := 0
	for _, s := range c.Senders {
		nMsg += len(s)
	}
	nExp := len(c.Exps)

	// ---- classes and the non-trivial rule
	r.Class("partitioner=" + c.Partitioner)
	r.Classf("senders=%d", len(c.Senders))
	r.Classf("buf=%d", c.Buf)
	r.Class("close=" + c.Close)
	if vfScriptClasses(r, c.Exps, nMsg) {
		r.NonTrivial("")
	}

	// ---- set the mock up as a test would
	cfg := sarama.NewConfig()
	cfg.Producer.Return.Successes = true
	cfg.Producer.Return.Errors = true
	cfg.ChannelBufferSize = c.Buf
	cfg.Producer.Partitioner = vfPartitionerCtor(c.Partitioner)
	rep := &vfReporter{}
	mp := NewAsyncProducer(rep, cfg)
	vfApplyTopicCfg(mp.TopicConfig, c.Parts)
	counts := vfNewCounts(c.Parts)

	script := vfNewScript()
	for i := range c.Exps {
		e := c.Exps[i]
		j := script.vfAdd(e)
		switch {
		case e.Checker == "" && !e.Fail:
			mp.ExpectInputAndSucceed()
		case e.Checker == "" && e.Fail:
			mp.ExpectInputAndFail(script.scripted[j])
		case e.Checker == "value" && !e.Fail:
			mp.ExpectInputWithCheckerFunctionAndSucceed(script.vfValueChecker(j))
		case e.Checker == "value" && e.Fail:
			mp.ExpectInputWithCheckerFunctionAndFail(script.vfValueChecker(j), script.scripted[j])
		case e.Checker == "msg" && !e.Fail:
			mp.ExpectInputWithMessageCheckerFunctionAndSucceed(script.vfMessageChecker(j))
		case e.Checker == "msg" && e.Fail:
			mp.ExpectInputWithMessageCheckerFunctionAndFail(script.vfMessageChecker(j), script.scripted[j])
		default:
			return vfcore.Failf("harness", "unknown checker kind %q", e.Checker)
		}
	}

	type vfWhere struct{ s, i int }
	built := make([][]*sarama.ProducerMessage, len(c.Senders))
	where := map[*sarama.ProducerMessage]vfWhere{}
	for s := range c.Senders {
		for i := range c.Senders[s] {
			pm := c.Senders[s][i].vfBuild(single)
			built[s] = append(built[s], pm)
			where[pm] = vfWhere{s, i}
		}
	}
	name := func(m *sarama.ProducerMessage) string {
		w, ok := where[m]
		if !ok {
			return "foreign"
		}
		return fmt.Sprintf("s%d#%d", w.s, w.i)
	}

	// ---- run: the harness services Successes() and Errors() for the whole life of the mock, as the AsyncProducer API demands
	var progress int64
	var succ []*sarama.ProducerMessage
	var perr []*sarama.ProducerError
	succDone, errDone, sendDone, closeDone := make(chan struct{}), make(chan struct{}), make(chan struct{}), make(chan struct{})
	go func() {
		defer close(succDone)
		for m := range mp.Successes() {
			succ = append(succ, m)
			atomic.AddInt64(&progress, 1)
		}
	}()
	go func() {
		defer close(errDone)
		for e := range mp.Errors() {
			perr = append(perr, e)
			atomic.AddInt64(&progress, 1)
		}
	}()
	var wg sync.WaitGroup
	for s := range built {
		wg.Add(1)
		go func(ms []*sarama.ProducerMessage) {
			defer wg.Done()
			for _, m := range ms {
				mp.Input() <- m
				atomic.AddInt64(&progress, 1)
			}
		}(built[s])
	}
	go func() { wg.Wait(); close(sendDone) }()
	if !vfAwait(sendDone, &progress) {
		return vfHang("submitting to Input()")
	}
	if c.Close == "close" {
		go func() { _ = mp.Close(); close(closeDone) }()
	} else {
		mp.AsyncClose()
		close(closeDone)
	}
	for _, ch := range []chan struct{}{closeDone, succDone, errDone} {
		if !vfAwait(ch, &progress) {
			return vfHang("closing the mock (" + c.Close + ")")
		}
	}
	// Successes() and Errors() are closed: the mock's goroutine has finished with the messages, the expectations and the reporter.
	reports := rep.vfSnapshot()
	calls := script.log.vfSnapshot()

	hist := &vfAsyncHist{Successes: []string{}, Errors: []string{}, Reports: reports, CheckerCalls: []string{}}
	for _, m := range succ {
		hist.Successes = append(hist.Successes, fmt.Sprintf("%s offset=%d partition=%d", name(m), m.Offset, m.Partition))
	}
	for _, e := range perr {
		if e == nil {
			hist.Errors = append(hist.Errors, "nil")
			continue
		}
		hist.Errors = append(hist.Errors, fmt.Sprintf("%s err=%q", name(e.Msg), fmt.Sprint(e.Err)))
	}
	for _, cl := range calls {
		if cl.Msg != nil {
			hist.CheckerCalls = append(hist.CheckerCalls, fmt.Sprintf("exp%d msg=%s partition=%d", cl.Exp, name(cl.Msg), cl.Partition))
		} else {
			hist.CheckerCalls = append(hist.CheckerCalls, fmt.Sprintf("exp%d value=%q", cl.Exp, cl.Val))
		}
	}
	defer func() {
		if fail != nil && fail.History == nil {
			fail.History = hist
		}
	}()

	// ---- oracle
	P := nExp
	if nMsg < P {
		P = nMsg
	}

	// (1) outcomes concern submitted messages; (2) no message has two
	outcomes := map[*sarama.ProducerMessage][]string{}
	for _, m := range succ {
		if _, ok := where[m]; !ok {
			return vfcore.Failf("foreign-message", "Successes() delivered a message that was never submitted")
		}
		outcomes[m] = append(outcomes[m], "success")
	}
	for _, e := range perr {
		if e == nil || e.Msg == nil {
			return vfcore.Failf("foreign-message", "Errors() delivered a ProducerError without message")
		}
		if _, ok := where[e.Msg]; !ok {
			return vfcore.Failf("foreign-message", "Errors() delivered a message that was never submitted")
		}
		outcomes[e.Msg] = append(outcomes[e.Msg], fmt.Sprintf("error(%v)", e.Err))
	}
	for s := range built {
		for i, m := range built[s] {
			if len(outcomes[m]) > 1 {
				return vfcore.Failf("double-outcome", "message #%d of sender %d got %d outcomes: %v", i, s, len(outcomes[m]), outcomes[m])
			}
		}
	}

	// What a message beyond the script gets besides the report is not documented ("it returns an error if the number of messages
	// received is bigger then the number of expectations set" can be read either way): an error outcome that carries none of the
	// script's errors is tolerated for such a message and left out of what follows. With a single sender the messages beyond the
	// script are known; with several, at most submitted-minus-script of them can exist.
	if nMsg > P {
		var kept []*sarama.ProducerError
		tolerated := 0
		for _, e := range perr {
			_, _, mine := script.vfWhichErr(e.Err)
			beyond := !single || where[e.Msg].i >= P
			if !mine && e.Err != nil && beyond && tolerated < nMsg-P {
				tolerated++
				continue
			}
			kept = append(kept, e)
		}
		if tolerated > 0 {
			r.Class("error-outcome-beyond-script")
		}
		perr = kept
	}

	// (3) exactly the messages that met an expectation have an outcome: min(submitted, script length) of them
	if got := len(succ) + len(perr); got < P {
		return vfcore.Failf("lost-outcome", "%d messages submitted against %d expectations: %d outcomes, want %d", nMsg, nExp, got, P)
	} else if got > P {
		return vfcore.Failf("extra-outcome", "%d messages submitted against %d expectations: %d outcomes, want %d", nMsg, nExp, got, P)
	}

	// (4) the mock consumes the script in order; Successes() and Errors() are FIFO, so each channel must show its
	// sub-sequence of the script.
	kind := make([]string, P)
	var succIdx, errIdx []int
	for j := 0; j < P; j++ {
		faulty := single && c.Senders[0][j].Faulty
		kind[j] = c.Exps[j].vfOutcome(faulty)
		if kind[j] == vfOutSuccess {
			succIdx = append(succIdx, j)
		} else {
			errIdx = append(errIdx, j)
		}
	}
	if len(succ) != len(succIdx) {
		return vfcore.Failf("wrong-outcome", "%d successes and %d errors; the first %d expectations script %d successes and %d errors", len(succ), len(perr), P, len(succIdx), len(errIdx))
	}
	for k, e := range perr {
		j := errIdx[k]
		gj, gk, mine := script.vfWhichErr(e.Err)
		ok := false
		switch kind[j] {
		case vfOutScripted:
			ok = e.Err == script.scripted[j]
		case vfOutChecker:
			ok = e.Err == script.checkErr[j]
		case vfOutEncode:
			ok = e.Err != nil && !mine
		}
		if !ok {
			got := fmt.Sprintf("%v", e.Err)
			if mine {
				got = fmt.Sprintf("the %s of expectation %d", gk, gj)
			}
			return vfcore.Failf("wrong-error", "error #%d on Errors() should be the %s of expectation %d, got %s", k, kind[j], j, got)
		}
	}

	// (5) success with increasing offsets: the k-th success carries offset k
	for k, m := range succ {
		if m.Offset != int64(k+1) {
			return vfcore.Failf("offset", "success #%d (%s) has offset %d, want %d", k+1, name(m), m.Offset, k+1)
		}
	}

	// (6) i-th submitted message <-> i-th expectation
	expOf := map[*sarama.ProducerMessage]int{}
	msgOf := make([]*sarama.ProducerMessage, P)
	for k, m := range succ {
		expOf[m], msgOf[succIdx[k]] = succIdx[k], m
	}
	for k, e := range perr {
		expOf[e.Msg], msgOf[errIdx[k]] = errIdx[k], e.Msg
	}
	if single {
		for i, m := range built[0] {
			j, has := expOf[m]
			if i < P && (!has || j != i) {
				got := "no outcome"
				if has {
					got = fmt.Sprintf("the outcome of expectation %d", j)
				}
				return vfcore.Failf("wrong-pairing", "message #%d got %s", i, got)
			}
		}
	} else {
		// several senders: only per-sender order is determined. Each sender's messages are handled in the order sent, and
		// once the script is exhausted it stays exhausted, so the messages with an outcome are a prefix of the sender's list.
		for s := range built {
			prev, ended := -1, false
			for i, m := range built[s] {
				j, has := expOf[m]
				if !has {
					ended = true
					continue
				}
				if ended {
					return vfcore.Failf("sender-order", "sender %d: message #%d got an outcome although an earlier message of the same sender found the script exhausted", s, i)
				}
				if j < prev {
					return vfcore.Failf("sender-order", "sender %d: message #%d met expectation %d, an earlier one met expectation %d", s, i, j, prev)
				}
				prev = j
			}
		}
	}

	// (7) checkers: the checker of expectation j runs exactly once, on the message that meets expectation j (not at all if the value
	// does not encode), sees the chosen partition, and checkers of unused expectations never run
	var wantCalls []int
	for j := 0; j < P; j++ {
		if c.Exps[j].Checker != "" && kind[j] != vfOutEncode {
			wantCalls = append(wantCalls, j)
		}
	}
	gotCalls := make([]int, len(calls))
	for i, cl := range calls {
		gotCalls[i] = cl.Exp
	}
	if fmt.Sprint(gotCalls) != fmt.Sprint(wantCalls) {
		return vfcore.Failf("checker-calls", "checkers ran for expectations %v, want %v", gotCalls, wantCalls)
	}
	for _, cl := range calls {
		m := msgOf[cl.Exp]
		if c.Exps[cl.Exp].Checker == "msg" {
			if cl.Msg != m {
				return vfcore.Failf("checker-message", "checker of expectation %d was shown %s, the outcome of that expectation went to %s", cl.Exp, name(cl.Msg), name(m))
			}
			if cl.Partition != m.Partition {
				return vfcore.Failf("checker-partition", "checker of expectation %d saw partition %d, the message ended with partition %d", cl.Exp, cl.Partition, m.Partition)
			}
		} else {
			w := where[m]
			if want := []byte(c.Senders[w.s][w.i].Value); !bytes.Equal(cl.Val, want) {
				return vfcore.Failf("checker-value", "value checker of expectation %d was shown %q, message %s carries %q", cl.Exp, cl.Val, name(m), want)
			}
		}
	}

	// (8) partition = choice of the configured partitioner over the configured count
	if single {
		ref := vfNewPartRef(c.Partitioner)
		for j := 0; j < P; j++ {
			cm := &c.Senders[0][j]
			cnt := counts.vfCount(cm.Topic)
			want, exact := ref.vfChoose(cm, cnt)
			if f := vfCheckPartition(built[0][j].Partition, want, exact, cnt, fmt.Sprintf("message #%d (topic %s)", j, cm.Topic)); f != nil {
				return f
			}
		}
	} else if c.Partitioner == "roundrobin" {
		// order between senders is free, but a topic's round-robin instance hands out a fixed sequence
		perTopic := map[string][]int32{}
		sample := map[string]*vfMsg{}
		for s := range built {
			for i, m := range built[s] {
				if _, has := expOf[m]; has {
					cm := &c.Senders[s][i]
					perTopic[cm.Topic] = append(perTopic[cm.Topic], m.Partition)
					sample[cm.Topic] = cm
				}
			}
		}
		for _, tp := range vfTopics {
			got := perTopic[tp]
			if len(got) == 0 {
				continue
			}
			ref := vfNewPartRef(c.Partitioner)
			cnt := counts.vfCount(tp)
			want := make([]int32, len(got))
			for i := range want {
				want[i], _ = ref.vfChoose(sample[tp], cnt)
			}
			sort.Slice(got, func(a, b int) bool { return got[a] < got[b] })
			sort.Slice(want, func(a, b int) bool { return want[a] < want[b] })
			if fmt.Sprint(got) != fmt.Sprint(want) {
				return vfcore.Failf("partition", "topic %s (%d partitions): the %d handled messages got partitions %v (sorted), a round-robin instance hands out %v", tp, cnt, len(got), got, want)
			}
		}
	} else {
		ref := vfNewPartRef(c.Partitioner) // keyed hash and manual do not depend on order
		for s := range built {
			for i, m := range built[s] {
				if _, has := expOf[m]; !has {
					continue
				}
				cm := &c.Senders[s][i]
				cnt := counts.vfCount(cm.Topic)
				want, exact := ref.vfChoose(cm, cnt)
				if f := vfCheckPartition(m.Partition, want, exact, cnt, fmt.Sprintf("message #%d of sender %d (topic %s)", i, s, cm.Topic)); f != nil {
					return f
				}
			}
		}
	}

	// (9) the error reporter heard exactly the deviations
	var wantReports []string
	for i := P; i < nMsg; i++ {
		wantReports = append(wantReports, vfKNoExp)
	}
	if nExp > nMsg {
		wantReports = append(wantReports, vfKLeftover)
	}
	for j := 0; j < P; j++ {
		if kind[j] == vfOutChecker || kind[j] == vfOutEncode {
			wantReports = append(wantReports, vfKChecker)
		}
	}
	if len(wantReports) > 0 {
		r.Class("deviations>0")
	} else {
		r.Class("deviations=0")
	}
	return vfDiffKinds(wantReports, vfKinds(reports), "async producer mock")
}

func TestVF_C20_Async(t *testing.T) {
	vfcore.Main(t, vfSpec(func(t *rapid.T) interface{} { return vfGenAsyncCase(t) }))
}
