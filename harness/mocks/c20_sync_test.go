//go:build go1.18 && verif

package mocks

// C20, part "sync": mocks.SyncProducer, SendMessage and SendMessages.

import (
	"bytes"
	"fmt"
	"testing"

	"github.com/Shopify/sarama"
	"github.com/Shopify/sarama/internal/vfcore"
	"pgregory.net/rapid"
)

type vfSyncOp struct {
	Op    string  `json:"op"` // expect | send | batch | setpartitions | setdefault
	Exp   *vfExp  `json:"exp,omitempty"`
	Msg   *vfMsg  `json:"msg,omitempty"`
	Batch []vfMsg `json:"batch,omitempty"`
	Topic string  `json:"topic,omitempty"`
	N     int32   `json:"n,omitempty"`
}

type vfSyncCase struct {
	Part        string     `json:"part"`        // "sync"
	Partitioner string     `json:"partitioner"` // "nilconfig": NewSyncProducer(t, nil)
	Parts       vfTopicCfg `json:"partition_counts"`
	Ops         []vfSyncOp `json:"ops"` // followed by Close()
}

func vfGenSyncCase(t *rapid.T) *vfSyncCase {
	names := append([]string{"nilconfig"}, vfPartitionerNames...)
	c := &vfSyncCase{
		Part:        "sync",
		Partitioner: rapid.SampledFrom(names).Draw(t, "partitioner"),
		Parts:       vfGenTopicCfg(t),
	}
	pc := vfGenPairCfg(t, 1)
	pairs, extraExps, extraMsgs := vfGenScript(t, pc)
	// Order: normally every expectation first ("you have to set expectations on the mock producer before calling SendMessage");
	// in interleaved cases some are set just before the call that uses them, which is as legitimate for a FIFO of expectations.
	var late []vfSyncOp // expectations waiting for the next call
	var units []vfSyncOp
	for i := range pairs {
		if !pairs[i].JIT {
			e := pairs[i].Exp
			c.Ops = append(c.Ops, vfSyncOp{Op: "expect", Exp: &e})
		}
	}
	for i := range extraExps {
		e := extraExps[i]
		c.Ops = append(c.Ops, vfSyncOp{Op: "expect", Exp: &e})
	}
	all := append(append([]vfPair(nil), pairs...), extraMsgs...)
	for i := range all {
		p := all[i]
		if p.JIT && i < len(pairs) {
			e := p.Exp
			late = append(late, vfSyncOp{Op: "expect", Exp: &e})
		}
		m := p.Msg
		last := len(units) - 1
		switch {
		case p.Unit == 0:
			units = append(units, vfSyncOp{Op: "send", Msg: &m})
		case p.Unit == 2 && last >= 0 && units[last].Op == "batch" && len(units[last].Batch) < 6 && len(late) == 0:
			units[last].Batch = append(units[last].Batch, m)
			continue
		default:
			units = append(units, vfSyncOp{Op: "batch", Batch: []vfMsg{m}})
		}
		// the unit just opened is preceded by the expectations set "just in time"
		u := units[len(units)-1]
		units = append(append(units[:len(units)-1], late...), u)
		late = nil
	}
	if pc.batchMode != 0 && rapid.IntRange(0, 9).Draw(t, "emptyBatch") == 9 {
		at := rapid.IntRange(0, len(units)).Draw(t, "emptyBatchAt")
		units = append(units[:at:at], append([]vfSyncOp{{Op: "batch", Batch: []vfMsg{}}}, units[at:]...)...)
	}
	c.Ops = append(c.Ops, units...)
	// partition counts changed while in use: "This only applies to messages produced after setting them."
	if rapid.IntRange(0, 3).Draw(t, "reconfigure") == 3 && len(c.Ops) > 0 {
		k := rapid.IntRange(1, 3).Draw(t, "nReconf")
		for i := 0; i < k; i++ {
			at := rapid.IntRange(0, len(c.Ops)).Draw(t, fmt.Sprintf("r%d.at", i))
			var op vfSyncOp
			if rapid.Bool().Draw(t, fmt.Sprintf("r%d.def", i)) {
				op = vfSyncOp{Op: "setdefault", N: int32(rapid.IntRange(1, 40).Draw(t, fmt.Sprintf("r%d.n", i)))}
			} else {
				op = vfSyncOp{Op: "setpartitions", Topic: vfTopics[rapid.IntRange(0, pc.nTopics-1).Draw(t, fmt.Sprintf("r%d.topic", i))], N: int32(rapid.IntRange(1, 12).Draw(t, fmt.Sprintf("r%d.n", i)))}
			}
			c.Ops = append(c.Ops[:at:at], append([]vfSyncOp{op}, c.Ops[at:]...)...)
		}
	}
	if c.Ops == nil {
		c.Ops = []vfSyncOp{}
	}
	return c
}

func vfRunSync(c *vfSyncCase, r *vfcore.Rec) (fail *vfcore.Failure) {
	hist := []string{}
	defer func() {
		if v := recover(); v != nil {
			fail = vfRecovered(v)
		}
		if fail != nil && fail.History == nil {
			fail.History = hist
		}
	}()

	// ---- classes and the non-trivial rule
	var exps []vfExp
	nMsg, nBatch, nSend, reconf, interleaved, seenSend := 0, 0, 0, false, false, false
	for i := range c.Ops {
		op := &c.Ops[i]
		switch op.Op {
		case "expect":
			if op.Exp == nil {
				return vfcore.Failf("harness", "op %d: expect without expectation", i)
			}
			exps = append(exps, *op.Exp)
			if seenSend {
				interleaved = true
			}
		case "send":
			if op.Msg == nil {
				return vfcore.Failf("harness", "op %d: send without message", i)
			}
			nMsg++
			nSend++
			seenSend = true
		case "batch":
			nMsg += len(op.Batch)
			nBatch++
			seenSend = true
		case "setpartitions", "setdefault":
			reconf = true
		default:
			return vfcore.Failf("harness", "op %d: unknown op %q", i, op.Op)
		}
	}
	r.Class("partitioner=" + c.Partitioner)
	if nSend > 0 {
		r.Class("api=SendMessage")
	}
	if nBatch > 0 {
		r.Class("api=SendMessages")
	}
	if reconf {
		r.Class("partition-counts-changed-in-use")
	}
	if interleaved {
		r.Class("expectations-interleaved")
	}
	if vfScriptClasses(r, exps, nMsg) {
		r.NonTrivial("")
	}

	// ---- the mock
	rep := &vfReporter{}
	var sp *SyncProducer
	if c.Partitioner == "nilconfig" {
		sp = NewSyncProducer(rep, nil)
	} else {
		cfg := sarama.NewConfig()
		cfg.Producer.Return.Successes = true
		cfg.Producer.Partitioner = vfPartitionerCtor(c.Partitioner)
		sp = NewSyncProducer(rep, cfg)
	}
	vfApplyTopicCfg(sp.TopicConfig, c.Parts)
	counts := vfNewCounts(c.Parts)
	ref := vfNewPartRef(c.Partitioner)
	script := vfNewScript()

	// ---- the model: FIFO of expectations; last offset handed out, known as an interval (see batches)
	var queue []int
	var offLo, offHi int64
	seenReports, seenCalls := 0, 0
	anyDeviation := false

	// step verifies what the reporter and the checkers saw during one operation
	step := func(what string, wantReports []string, wantCalls []int, tailFrom int) ([]vfCheckCall, *vfcore.Failure) {
		all := rep.vfSnapshot()
		got := all[seenReports:]
		seenReports = len(all)
		if len(wantReports) > 0 {
			anyDeviation = true
		}
		for _, g := range got {
			hist = append(hist, "  reported: "+g)
		}
		if f := vfDiffKinds(wantReports, vfKinds(got), what); f != nil {
			return nil, f
		}
		callsAll := script.log.vfSnapshot()
		calls := callsAll[seenCalls:]
		seenCalls = len(callsAll)
		// checkers of the unprocessed tail of a failed batch are not judged (tailFrom = first such expectation, -1: none)
		var judged []vfCheckCall
		var gotIdx []int
		for _, cl := range calls {
			if tailFrom >= 0 && cl.Exp >= tailFrom {
				continue
			}
			judged = append(judged, cl)
			gotIdx = append(gotIdx, cl.Exp)
		}
		if fmt.Sprint(gotIdx) != fmt.Sprint(wantCalls) {
			return nil, vfcore.Failf("checker-calls", "%s: checkers ran for expectations %v, want %v", what, gotIdx, wantCalls)
		}
		return judged, nil
	}
	checkCall := func(what string, cl vfCheckCall, pm *sarama.ProducerMessage, cm *vfMsg) *vfcore.Failure {
		if script.exps[cl.Exp].Checker == "msg" {
			if cl.Msg != pm {
				return vfcore.Failf("checker-message", "%s: the checker of expectation %d was shown another message", what, cl.Exp)
			}
			if cl.Partition != pm.Partition {
				return vfcore.Failf("checker-partition", "%s: the checker of expectation %d saw partition %d, the message ended with partition %d", what, cl.Exp, cl.Partition, pm.Partition)
			}
		} else if !bytes.Equal(cl.Val, []byte(cm.Value)) {
			return vfcore.Failf("checker-value", "%s: the value checker of expectation %d was shown %q, the message carries %q", what, cl.Exp, cl.Val, cm.Value)
		}
		return nil
	}
	// wantErr judges the error returned for a message that met expectation j with a non-success outcome
	wantErr := func(what string, j int, kind string, err error) *vfcore.Failure {
		gj, gk, mine := script.vfWhichErr(err)
		ok := false
		switch kind {
		case vfOutScripted:
			ok = err == script.scripted[j]
		case vfOutChecker:
			ok = err == script.checkErr[j]
		case vfOutEncode:
			ok = err != nil && !mine
		}
		if ok {
			return nil
		}
		got := fmt.Sprintf("%v", err)
		if mine {
			got = fmt.Sprintf("the %s of expectation %d", gk, gj)
		}
		if err == nil {
			return vfcore.Failf("wrong-outcome", "%s: returned nil, expectation %d scripts %s", what, j, kind)
		}
		return vfcore.Failf("wrong-error", "%s: should return the %s of expectation %d, got %s", what, kind, j, got)
	}
	callsFor := func(j int, kind string) []int {
		if script.exps[j].Checker != "" && kind != vfOutEncode {
			return []int{j}
		}
		return nil
	}
	reportsFor := func(kind string) []string {
		if kind == vfOutChecker || kind == vfOutEncode {
			return []string{vfKChecker}
		}
		return nil
	}

	for oi := range c.Ops {
		op := &c.Ops[oi]
		switch op.Op {
		case "expect":
			e := *op.Exp
			j := script.vfAdd(e)
			queue = append(queue, j)
			switch {
			case e.Checker == "" && !e.Fail:
				sp.ExpectSendMessageAndSucceed()
			case e.Checker == "" && e.Fail:
				sp.ExpectSendMessageAndFail(script.scripted[j])
			case e.Checker == "value" && !e.Fail:
				sp.ExpectSendMessageWithCheckerFunctionAndSucceed(script.vfValueChecker(j))
			case e.Checker == "value" && e.Fail:
				sp.ExpectSendMessageWithCheckerFunctionAndFail(script.vfValueChecker(j), script.scripted[j])
			case e.Checker == "msg" && !e.Fail:
				sp.ExpectSendMessageWithMessageCheckerFunctionAndSucceed(script.vfMessageChecker(j))
			case e.Checker == "msg" && e.Fail:
				sp.ExpectSendMessageWithMessageCheckerFunctionAndFail(script.vfMessageChecker(j), script.scripted[j])
			default:
				return vfcore.Failf("harness", "unknown checker kind %q", e.Checker)
			}
			if _, f := step(fmt.Sprintf("op %d (expect)", oi), nil, nil, -1); f != nil {
				return f
			}

		case "setdefault":
			sp.SetDefaultPartitions(op.N)
			counts.def = op.N
		case "setpartitions":
			sp.SetPartitions(map[string]int32{op.Topic: op.N})
			counts.per[op.Topic] = op.N

		case "send":
			what := fmt.Sprintf("op %d (SendMessage)", oi)
			cm := op.Msg
			pm := cm.vfBuild(true)
			if len(queue) == 0 {
				_, _, err := sp.SendMessage(pm)
				hist = append(hist, fmt.Sprintf("%s without expectation -> err=%v", what, err))
				if err == nil {
					return vfcore.Failf("wrong-outcome", "%s: no expectation left, yet no error returned", what)
				}
				if _, f := step(what, []string{vfKNoExp}, nil, -1); f != nil {
					return f
				}
				continue
			}
			j := queue[0]
			queue = queue[1:]
			kind := script.exps[j].vfOutcome(cm.Faulty)
			cnt := counts.vfCount(cm.Topic)
			want, exact := ref.vfChoose(cm, cnt)
			partition, offset, err := sp.SendMessage(pm)
			hist = append(hist, fmt.Sprintf("%s meets expectation %d (%s) -> partition=%d offset=%d err=%v; msg.Partition=%d msg.Offset=%d", what, j, kind, partition, offset, err, pm.Partition, pm.Offset))
			calls, f := step(what, reportsFor(kind), callsFor(j, kind), -1)
			if f != nil {
				return f
			}
			if kind == vfOutSuccess {
				if err != nil {
					gj, gk, mine := script.vfWhichErr(err)
					if mine {
						return vfcore.Failf("wrong-outcome", "%s: expectation %d scripts success, got the %s of expectation %d", what, j, gk, gj)
					}
					return vfcore.Failf("wrong-outcome", "%s: expectation %d scripts success, got error %v", what, j, err)
				}
				if offset < offLo+1 || offset > offHi+1 {
					return vfcore.Failf("offset", "%s: returned offset %d, want %d (successes so far: %d)", what, offset, offLo+1, offLo)
				}
				if pm.Offset != offset {
					return vfcore.Failf("offset", "%s: returned offset %d but msg.Offset = %d", what, offset, pm.Offset)
				}
				offLo, offHi = offset, offset
			} else if f := wantErr(what, j, kind, err); f != nil {
				return f
			}
			if f := vfCheckPartition(pm.Partition, want, exact, cnt, what+fmt.Sprintf(" topic %s", cm.Topic)); f != nil {
				return f
			}
			if kind == vfOutSuccess && partition != pm.Partition && (partition < 0 || partition >= cnt) {
				// SyncProducer.SendMessage "will return the partition and the offset of the produced message"; the mock's Expect* docs promise
				// "a valid partition". The pinned mock returns 0 whatever msg.Partition is, and the repository's own
				// examples/http_server test pins that 0, so only this much is asserted: the returned value is the message's
				// partition or at least a partition the topic has.
				return vfcore.Failf("returned-partition", "%s: returned partition %d is neither msg.Partition (%d) nor one of the topic's %d partitions", what, partition, pm.Partition, cnt)
			}
			for _, cl := range calls {
				if f := checkCall(what, cl, pm, cm); f != nil {
					return f
				}
			}

		case "batch":
			what := fmt.Sprintf("op %d (SendMessages of %d)", oi, len(op.Batch))
			pms := make([]*sarama.ProducerMessage, len(op.Batch))
			for k := range op.Batch {
				pms[k] = op.Batch[k].vfBuild(true)
			}
			if len(queue) < len(pms) {
				r.Class("batch=insufficient-expectations")
				// the mock's own test (TestSyncProducerSendMessagesExpectationsMismatchTooFew) fixes this: one report, an error, and the
				// expectations stay for later calls and for the leftover check at Close
				err := sp.SendMessages(pms)
				hist = append(hist, fmt.Sprintf("%s against %d expectations -> err=%v", what, len(queue), err))
				if err == nil {
					return vfcore.Failf("wrong-outcome", "%s: only %d expectations left, yet no error returned", what, len(queue))
				}
				if _, f := step(what, []string{vfKNoExp}, nil, -1); f != nil {
					return f
				}
				continue
			}
			js := append([]int(nil), queue[:len(pms)]...)
			queue = queue[len(pms):]
			kinds := make([]string, len(js))
			firstFail := -1
			for k, j := range js {
				kinds[k] = script.exps[j].vfOutcome(op.Batch[k].Faulty)
				if kinds[k] != vfOutSuccess && firstFail < 0 {
					firstFail = k
				}
			}
			// SendMessages has one error to give: the batch is handled in order up to its first failing message. What happens to
			// the messages behind it is not documented, so nothing is asserted about them; their round-robin turns and offsets
			// become unknowns of the model.
			upto := len(js) - 1
			if firstFail >= 0 {
				upto = firstFail
			}
			type vfWant struct {
				want  int32
				exact bool
				cnt   int32
			}
			wants := make([]vfWant, upto+1)
			var wantCalls []int
			for k := 0; k <= upto; k++ {
				cnt := counts.vfCount(op.Batch[k].Topic)
				w, exact := ref.vfChoose(&op.Batch[k], cnt)
				wants[k] = vfWant{w, exact, cnt}
				wantCalls = append(wantCalls, callsFor(js[k], kinds[k])...)
			}
			tailFrom := -1
			tailSuccesses := int64(0)
			if firstFail >= 0 && firstFail < len(js)-1 {
				tailFrom = js[firstFail+1]
				for k := firstFail + 1; k < len(js); k++ {
					if c.Partitioner == "roundrobin" {
						ref.tainted[op.Batch[k].Topic] = true
					}
					if kinds[k] == vfOutSuccess {
						tailSuccesses++
					}
				}
				r.Class("batch=fails-before-its-end")
			} else if firstFail >= 0 {
				r.Class("batch=fails-at-its-end")
			} else {
				r.Class("batch=succeeds")
			}
			err := sp.SendMessages(pms)
			hist = append(hist, fmt.Sprintf("%s meets expectations %v (%v) -> err=%v", what, js, kinds, err))
			var wantReports []string
			if firstFail >= 0 {
				wantReports = reportsFor(kinds[firstFail])
			}
			calls, f := step(what, wantReports, wantCalls, tailFrom)
			if f != nil {
				return f
			}
			if firstFail < 0 {
				if err != nil {
					return vfcore.Failf("wrong-outcome", "%s: every expectation scripts success, got error %v", what, err)
				}
			} else if f := wantErr(what+fmt.Sprintf(", message %d", firstFail), js[firstFail], kinds[firstFail], err); f != nil {
				return f
			}
			ci := 0
			for k := 0; k <= upto; k++ {
				w := fmt.Sprintf("%s, message %d", what, k)
				if f := vfCheckPartition(pms[k].Partition, wants[k].want, wants[k].exact, wants[k].cnt, w+fmt.Sprintf(" topic %s", op.Batch[k].Topic)); f != nil {
					return f
				}
				if kinds[k] == vfOutSuccess {
					if pms[k].Offset < offLo+1 || pms[k].Offset > offHi+1 {
						return vfcore.Failf("offset", "%s: msg.Offset = %d, want %d", w, pms[k].Offset, offLo+1)
					}
					offLo, offHi = pms[k].Offset, pms[k].Offset
				}
				for ci < len(calls) && calls[ci].Exp == js[k] {
					if f := checkCall(w, calls[ci], pms[k], &op.Batch[k]); f != nil {
						return f
					}
					ci++
				}
			}
			offHi += tailSuccesses
		}
	}

	err := sp.Close()
	hist = append(hist, fmt.Sprintf("Close with %d expectations left -> err=%v", len(queue), err))
	var wantReports []string
	if len(queue) > 0 {
		wantReports = []string{vfKLeftover}
	}
	if _, f := step("Close", wantReports, nil, -1); f != nil {
		return f
	}
	if anyDeviation {
		r.Class("deviations>0")
	} else {
		r.Class("deviations=0")
	}
	return nil
}

func TestVF_C20_Sync(t *testing.T) {
	vfcore.Main(t, vfSpec(func(t *rapid.T) interface{} { return vfGenSyncCase(t) }))
}
