//go:build go1.18 && verif

package sarama

// C15, directed reproducer of known finding KF-C15-1: Broker.Open marks the broker as opened before it takes the
// broker's lock, so a request that another goroutine sends in between finds the lock free and neither a connection nor a
// connection error, and fails with ErrNotConnected. The client treats that like a dead broker: the seed is set aside
// (a known broker is dropped) and, with nothing else to ask, RefreshMetadata returns ErrOutOfBrokers although the only
// candidate is healthy and no dial or request failed.
//
// Scenario per iteration: a fresh client (no initial refresh, Metadata.Retry.Max = 0) with one healthy seed; n goroutines
// call RefreshMetadata() at the same moment. Every call must return nil.

import (
	"fmt"
	"sync"
	"testing"
	"time"

	"github.com/Shopify/sarama/internal/vfcore"
	metrics "github.com/rcrowley/go-metrics"
	"pgregory.net/rapid"
)

type vfc15RaceCase struct {
	Iterations int `json:"iterations"`
	Goroutines int `json:"goroutines"`
}

func vfc15RaceRun(c *vfc15RaceCase, r *vfcore.Rec) *vfcore.Failure {
	if c.Iterations < 1 || c.Iterations > 200000 || c.Goroutines < 2 || c.Goroutines > 8 {
		r.Discard()
		return nil
	}
	sim := newVfSim(1)
	defer sim.shutdown()
	sim.addTopic("t0", []int32{1})
	obs := newVfc15Net(sim)
	var first string
	bad := 0
	done := c.Iterations
	for it := 0; it < c.Iterations; it++ {
		conf := NewConfig()
		conf.Version = V1_0_0_0
		conf.ClientID = "vf"
		conf.MetricRegistry = metrics.NewRegistry()
		conf.Net.Proxy.Enable = true
		conf.Net.Proxy.Dialer = obs
		conf.Net.ReadTimeout = 5 * time.Second
		conf.Net.DialTimeout = 5 * time.Second
		conf.Metadata.Full = false
		conf.Metadata.Retry.Max = 0
		conf.Metadata.RefreshFrequency = 0
		cl, err := NewClient([]string{vfBrokerAddr(1)}, conf)
		if err != nil {
			return vfcore.Failf("newclient-verdict", "NewClient without initial refresh failed: %v", err)
		}
		start := make(chan struct{})
		errs := make([]error, c.Goroutines)
		var wg sync.WaitGroup
		for g := 0; g < c.Goroutines; g++ {
			g := g
			wg.Add(1)
			go func() {
				defer wg.Done()
				<-start
				errs[g] = cl.RefreshMetadata()
			}()
		}
		close(start)
		wg.Wait()
		_ = cl.Close()
		for g, e := range errs {
			if e != nil {
				bad++
				if first == "" {
					first = fmt.Sprintf("iteration %d: RefreshMetadata() of goroutine %d returned %q", it, g, e.Error())
				}
			}
		}
		if bad > 0 {
			done = it + 1
			break
		}
	}
	evs, _ := obs.snapshot()
	netFailures := 0
	for _, e := range evs {
		if e.Kind == "dialfail" || e.Kind == "rderr" {
			netFailures++
		}
	}
	r.Count("race-iterations", int64(c.Iterations))
	if bad > 0 {
		f := vfcore.Failf("spurious-broker-failure", "%d of the first %d concurrent RefreshMetadata() calls failed although the only seed is healthy (dial or read failures seen by the client: %d); first: %s",
			bad, done*c.Goroutines, netFailures, first)
		f.Regions = []string{"concurrent-callers"}
		return f
	}
	return nil
}

func TestVF_C15_OpenRace(t *testing.T) {
	vfcore.Main(t, vfcore.Spec{
		ID:  "C15",
		New: func() interface{} { return &vfc15RaceCase{} },
		Gen: func(t *rapid.T) interface{} {
			return &vfc15RaceCase{Iterations: rapid.IntRange(200, 2000).Draw(t, "iterations"), Goroutines: rapid.IntRange(2, 4).Draw(t, "goroutines")}
		},
		Run: func(c interface{}, r *vfcore.Rec) *vfcore.Failure { return vfc15RaceRun(c.(*vfc15RaceCase), r) },
	})
}
