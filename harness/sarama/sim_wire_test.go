//go:build go1.18 && verif

package sarama

// The simulator's OWN wire codec (independent of sarama's encoders/decoders): primitive writer and
// reader, legacy message sets (magic 0/1, compressed wrappers), record batches v2, and the
// Produce / Fetch / Metadata / ListOffsets / InitProducerID envelopes. Written from the Kafka
// protocol definition. Compression uses the same third-party libraries sarama links.

import (
	"bytes"
	"compress/gzip"
	"encoding/binary"
	"fmt"
	"hash/crc32"
	"io/ioutil"

	snappy "github.com/eapache/go-xerial-snappy"
	"github.com/klauspost/compress/zstd"
	"github.com/pierrec/lz4"
)

// ---------------------------------------------------------------- primitives

type vfsW struct{ b []byte }

func (w *vfsW) i8(v int8)   { w.b = append(w.b, byte(v)) }
func (w *vfsW) i16(v int16) { w.b = append(w.b, byte(v>>8), byte(v)) }
func (w *vfsW) i32(v int32) { w.b = append(w.b, byte(v>>24), byte(v>>16), byte(v>>8), byte(v)) }
func (w *vfsW) i64(v int64) {
	w.i32(int32(v >> 32))
	w.i32(int32(v))
}
func (w *vfsW) u32(v uint32) { w.i32(int32(v)) }
func (w *vfsW) str(s string) {
	w.i16(int16(len(s)))
	w.b = append(w.b, s...)
}
func (w *vfsW) nstr(s *string) {
	if s == nil {
		w.i16(-1)
		return
	}
	w.str(*s)
}
func (w *vfsW) bytes(p []byte) { // nullable bytes: nil -> -1
	if p == nil {
		w.i32(-1)
		return
	}
	w.i32(int32(len(p)))
	w.b = append(w.b, p...)
}
func (w *vfsW) raw(p []byte) { w.b = append(w.b, p...) }
func (w *vfsW) varint(v int64) {
	var tmp [binary.MaxVarintLen64]byte
	n := binary.PutVarint(tmp[:], v)
	w.b = append(w.b, tmp[:n]...)
}
func (w *vfsW) uvarint(v uint64) {
	var tmp [binary.MaxVarintLen64]byte
	n := binary.PutUvarint(tmp[:], v)
	w.b = append(w.b, tmp[:n]...)
}
func (w *vfsW) vbytes(p []byte) { // varint-length bytes, nil -> -1
	if p == nil {
		w.varint(-1)
		return
	}
	w.varint(int64(len(p)))
	w.b = append(w.b, p...)
}
func (w *vfsW) i32arr(a []int32) {
	w.i32(int32(len(a)))
	for _, v := range a {
		w.i32(v)
	}
}

type vfsR struct {
	b   []byte
	off int
	err error
}

func (r *vfsR) fail(what string) {
	if r.err == nil {
		r.err = fmt.Errorf("vfwire: short or malformed data reading %s at offset %d of %d", what, r.off, len(r.b))
	}
}
func (r *vfsR) remaining() int { return len(r.b) - r.off }
func (r *vfsR) need(n int, what string) bool {
	if r.err != nil {
		return false
	}
	if n < 0 || r.remaining() < n {
		r.fail(what)
		return false
	}
	return true
}
func (r *vfsR) i8() int8 {
	if !r.need(1, "int8") {
		return 0
	}
	v := int8(r.b[r.off])
	r.off++
	return v
}
func (r *vfsR) i16() int16 {
	if !r.need(2, "int16") {
		return 0
	}
	v := int16(binary.BigEndian.Uint16(r.b[r.off:]))
	r.off += 2
	return v
}
func (r *vfsR) i32() int32 {
	if !r.need(4, "int32") {
		return 0
	}
	v := int32(binary.BigEndian.Uint32(r.b[r.off:]))
	r.off += 4
	return v
}
func (r *vfsR) i64() int64 {
	if !r.need(8, "int64") {
		return 0
	}
	v := int64(binary.BigEndian.Uint64(r.b[r.off:]))
	r.off += 8
	return v
}
func (r *vfsR) str() string {
	n := int(r.i16())
	if n < 0 {
		r.fail("string length")
		return ""
	}
	if !r.need(n, "string") {
		return ""
	}
	s := string(r.b[r.off : r.off+n])
	r.off += n
	return s
}
func (r *vfsR) nstr() *string {
	n := int(r.i16())
	if n == -1 {
		return nil
	}
	if n < 0 {
		r.fail("nullable string length")
		return nil
	}
	if !r.need(n, "string") {
		return nil
	}
	s := string(r.b[r.off : r.off+n])
	r.off += n
	return &s
}
func (r *vfsR) bytes() []byte {
	n := int(r.i32())
	if n == -1 {
		return nil
	}
	if n < 0 {
		r.fail("bytes length")
		return nil
	}
	if !r.need(n, "bytes") {
		return nil
	}
	p := append([]byte{}, r.b[r.off:r.off+n]...)
	r.off += n
	return p
}
func (r *vfsR) take(n int, what string) []byte {
	if !r.need(n, what) {
		return nil
	}
	p := r.b[r.off : r.off+n]
	r.off += n
	return p
}
func (r *vfsR) varint() int64 {
	if r.err != nil {
		return 0
	}
	v, n := binary.Varint(r.b[r.off:])
	if n <= 0 {
		r.fail("varint")
		return 0
	}
	r.off += n
	return v
}
func (r *vfsR) uvarint() uint64 {
	if r.err != nil {
		return 0
	}
	v, n := binary.Uvarint(r.b[r.off:])
	if n <= 0 {
		r.fail("uvarint")
		return 0
	}
	r.off += n
	return v
}
func (r *vfsR) vbytes() []byte {
	n := r.varint()
	if n == -1 {
		return nil
	}
	if n < 0 {
		r.fail("varint bytes length")
		return nil
	}
	if !r.need(int(n), "varint bytes") {
		return nil
	}
	p := append([]byte{}, r.b[r.off:r.off+int(n)]...)
	r.off += int(n)
	return p
}
func (r *vfsR) i32arr() []int32 {
	n := int(r.i32())
	if n < 0 {
		return nil
	}
	if !r.need(4*n, "int32 array") {
		return nil
	}
	out := make([]int32, n)
	for i := range out {
		out[i] = r.i32()
	}
	return out
}

// ---------------------------------------------------------------- compression

const (
	vfsCodecNone   = 0
	vfsCodecGzip   = 1
	vfsCodecSnappy = 2
	vfsCodecLZ4    = 3
	vfsCodecZstd   = 4
)

var vfsCodecNames = []string{"none", "gzip", "snappy", "lz4", "zstd"}

var (
	vfsZstdDec, _ = zstd.NewReader(nil)
	vfsZstdEnc, _ = zstd.NewWriter(nil, zstd.WithZeroFrames(true))
)

func vfsCompress(codec int, level int, data []byte) ([]byte, error) {
	switch codec {
	case vfsCodecNone:
		return data, nil
	case vfsCodecGzip:
		var buf bytes.Buffer
		var gw *gzip.Writer
		var err error
		if level == 0 || level == -1000 {
			gw = gzip.NewWriter(&buf)
		} else if gw, err = gzip.NewWriterLevel(&buf, level); err != nil {
			return nil, err
		}
		if _, err := gw.Write(data); err != nil {
			return nil, err
		}
		if err := gw.Close(); err != nil {
			return nil, err
		}
		return buf.Bytes(), nil
	case vfsCodecSnappy:
		return snappy.Encode(data), nil
	case vfsCodecLZ4:
		var buf bytes.Buffer
		lw := lz4.NewWriter(&buf)
		if _, err := lw.Write(data); err != nil {
			return nil, err
		}
		if err := lw.Close(); err != nil {
			return nil, err
		}
		return buf.Bytes(), nil
	case vfsCodecZstd:
		return vfsZstdEnc.EncodeAll(data, nil), nil
	}
	return nil, fmt.Errorf("vfwire: unknown codec %d", codec)
}

func vfsDecompress(codec int, data []byte) ([]byte, error) {
	switch codec {
	case vfsCodecNone:
		return data, nil
	case vfsCodecGzip:
		gr, err := gzip.NewReader(bytes.NewReader(data))
		if err != nil {
			return nil, err
		}
		return ioutil.ReadAll(gr)
	case vfsCodecSnappy:
		return snappy.Decode(data)
	case vfsCodecLZ4:
		return ioutil.ReadAll(lz4.NewReader(bytes.NewReader(data)))
	case vfsCodecZstd:
		return vfsZstdDec.DecodeAll(data, nil)
	}
	return nil, fmt.Errorf("vfwire: unknown codec %d", codec)
}

// ---------------------------------------------------------------- record model

type vfsHdr struct {
	K []byte `json:"k"`
	V []byte `json:"v"`
}

// vfsRecord is one application-visible (or control) record as the simulator understands it.
type vfsRecord struct {
	Offset  int64   `json:"offset"`
	Key     []byte  `json:"key"`   // nil = null
	Value   []byte  `json:"value"` // nil = null
	Headers []vfsHdr `json:"headers,omitempty"`
	TsMs    int64   `json:"ts"` // -1 = none
	Magic   int8    `json:"magic"`
	// batch-level attributes (magic 2) copied onto every record of the batch
	PID       int64 `json:"pid,omitempty"`
	Epoch     int16 `json:"epoch,omitempty"`
	Seq       int32 `json:"seq,omitempty"` // base sequence + index
	Txn       bool  `json:"txn,omitempty"`
	Control   bool  `json:"control,omitempty"`
	LogAppend bool  `json:"logAppend,omitempty"`
	Codec     int   `json:"codec,omitempty"`
}

// vfsBatchInfo describes one parsed unit of a produce request (a v2 batch, or a legacy message set for one partition).
type vfsBatchInfo struct {
	Magic           int8       `json:"magic"`
	Codec           int        `json:"codec"`
	BaseOffset      int64      `json:"baseOffset"`
	LastOffsetDelta int32      `json:"lastOffsetDelta"`
	FirstTs         int64      `json:"firstTs"`
	MaxTs           int64      `json:"maxTs"`
	PID             int64      `json:"pid"`
	Epoch           int16      `json:"epoch"`
	BaseSeq         int32      `json:"baseSeq"`
	Txn             bool       `json:"txn"`
	Control         bool       `json:"control"`
	LogAppend       bool       `json:"logAppend"`
	Records         []vfsRecord `json:"records"`
	WireBytes       int        `json:"wireBytes"`
	Violations      []string   `json:"violations,omitempty"` // framing rules a real broker enforces and this data breaks
}

var vfsCastagnoli = crc32.MakeTable(crc32.Castagnoli)

// vfsParseRecordBatches parses a records field holding zero or more v2 batches (strict: produce side).
// A trailing partial batch is reported through `partial`.
func vfsParseRecordBatches(data []byte, strict bool) (batches []vfsBatchInfo, partial bool, err error) {
	off := 0
	for off < len(data) {
		if len(data)-off < 12 {
			return batches, true, nil
		}
		batchLen := int(int32(binary.BigEndian.Uint32(data[off+8:])))
		if batchLen < 49 {
			return batches, false, fmt.Errorf("batch length %d too small", batchLen)
		}
		if len(data)-off-12 < batchLen {
			return batches, true, nil
		}
		b, perr := vfsParseOneBatch(data[off : off+12+batchLen])
		if perr != nil {
			return batches, false, perr
		}
		batches = append(batches, *b)
		off += 12 + batchLen
	}
	return batches, false, nil
}

func vfsParseOneBatch(data []byte) (*vfsBatchInfo, error) {
	r := &vfsR{b: data}
	b := &vfsBatchInfo{WireBytes: len(data)}
	b.BaseOffset = r.i64()
	batchLen := r.i32()
	_ = r.i32() // partition leader epoch
	b.Magic = r.i8()
	if r.err != nil {
		return nil, r.err
	}
	if b.Magic != 2 {
		return nil, fmt.Errorf("record batch with magic %d", b.Magic)
	}
	if int(batchLen) != len(data)-12 {
		return nil, fmt.Errorf("batch length field %d but %d bytes follow", batchLen, len(data)-12)
	}
	crc := uint32(r.i32())
	if r.err != nil {
		return nil, r.err
	}
	if got := crc32.Checksum(data[r.off:], vfsCastagnoli); got != crc {
		b.Violations = append(b.Violations, fmt.Sprintf("batch CRC32C mismatch: field %08x computed %08x", crc, got))
	}
	attrs := r.i16()
	b.Codec = int(attrs & 7)
	b.LogAppend = attrs&0x08 != 0
	b.Txn = attrs&0x10 != 0
	b.Control = attrs&0x20 != 0
	if attrs&^0x3f != 0 {
		b.Violations = append(b.Violations, fmt.Sprintf("unknown attribute bits %#x", attrs))
	}
	b.LastOffsetDelta = r.i32()
	b.FirstTs = r.i64()
	b.MaxTs = r.i64()
	b.PID = r.i64()
	b.Epoch = r.i16()
	b.BaseSeq = r.i32()
	n := int(r.i32())
	if r.err != nil {
		return nil, r.err
	}
	if n < 0 {
		return nil, fmt.Errorf("negative record count %d", n)
	}
	payload := data[r.off:]
	if b.Codec != vfsCodecNone {
		dec, err := vfsDecompress(b.Codec, payload)
		if err != nil {
			return nil, fmt.Errorf("decompress (%s): %v", vfsCodecNames[b.Codec], err)
		}
		payload = dec
	}
	rr := &vfsR{b: payload}
	for i := 0; i < n; i++ {
		length := rr.varint()
		if rr.err != nil {
			return nil, rr.err
		}
		start := rr.off
		if length < 0 || !rr.need(int(length), "record body") {
			return nil, fmt.Errorf("record %d: length %d exceeds remaining %d", i, length, rr.remaining())
		}
		attr := rr.i8()
		tsDelta := rr.varint()
		offDelta := rr.varint()
		key := rr.vbytes()
		val := rr.vbytes()
		hn := rr.varint()
		if rr.err != nil {
			return nil, rr.err
		}
		if hn < 0 || hn > int64(rr.remaining()) {
			return nil, fmt.Errorf("record %d: header count %d", i, hn)
		}
		var hdrs []vfsHdr
		for h := int64(0); h < hn; h++ {
			hk := rr.vbytes()
			hv := rr.vbytes()
			hdrs = append(hdrs, vfsHdr{K: hk, V: hv})
		}
		if rr.err != nil {
			return nil, rr.err
		}
		if rr.off-start != int(length) {
			return nil, fmt.Errorf("record %d: length field %d but record occupies %d bytes", i, length, rr.off-start)
		}
		if attr != 0 {
			b.Violations = append(b.Violations, fmt.Sprintf("record %d: attributes %d (must be 0)", i, attr))
		}
		rec := vfsRecord{Offset: b.BaseOffset + offDelta, Key: key, Value: val, Headers: hdrs, TsMs: b.FirstTs + tsDelta, Magic: 2,
			PID: b.PID, Epoch: b.Epoch, Seq: b.BaseSeq + int32(i), Txn: b.Txn, Control: b.Control, LogAppend: b.LogAppend, Codec: b.Codec}
		b.Records = append(b.Records, rec)
	}
	if rr.remaining() != 0 {
		return nil, fmt.Errorf("%d stray bytes after %d records", rr.remaining(), n)
	}
	return b, nil
}

// vfsCheckProducedBatch applies the rules a broker enforces on a batch received in a produce request.
func vfsCheckProducedBatch(b *vfsBatchInfo) {
	n := len(b.Records)
	if n == 0 {
		b.Violations = append(b.Violations, "empty batch in produce request")
		return
	}
	if b.BaseOffset != 0 {
		b.Violations = append(b.Violations, fmt.Sprintf("base offset %d in produce request (must be 0)", b.BaseOffset))
	}
	if int(b.LastOffsetDelta) != n-1 {
		b.Violations = append(b.Violations, fmt.Sprintf("lastOffsetDelta %d with %d records", b.LastOffsetDelta, n))
	}
	for i, r := range b.Records {
		if r.Offset-b.BaseOffset != int64(i) {
			b.Violations = append(b.Violations, fmt.Sprintf("record %d has offsetDelta %d", i, r.Offset-b.BaseOffset))
		}
	}
	// maxTimestamp is not judged: brokers recompute it on append (sarama's producer leaves it unset)
}

// vfsParseMessageSet parses a legacy message set (magic 0/1). depth 0 = outer. For compressed wrappers the
// inner messages are returned with their absolute offsets resolved the way a broker/consumer resolves them
// (magic 1: relative inner offsets anchored at the wrapper offset; magic 0: inner offsets absolute).
type vfsLegacyMsg struct {
	Offset   int64
	Magic    int8
	Codec    int
	TsMs     int64
	LogAppnd bool
	Key      []byte
	Value    []byte
	Inner    []vfsLegacyMsg // decoded content of a compressed wrapper
	Viol     []string
}

func vfsParseMessageSet(data []byte, allowPartial bool) (msgs []vfsLegacyMsg, partial bool, err error) {
	off := 0
	for off < len(data) {
		if len(data)-off < 12 {
			if allowPartial {
				return msgs, true, nil
			}
			return msgs, false, fmt.Errorf("truncated message set entry header at %d", off)
		}
		mo := int64(binary.BigEndian.Uint64(data[off:]))
		size := int(int32(binary.BigEndian.Uint32(data[off+8:])))
		if size < 14 {
			return msgs, false, fmt.Errorf("message size %d too small", size)
		}
		if len(data)-off-12 < size {
			if allowPartial {
				return msgs, true, nil
			}
			return msgs, false, fmt.Errorf("message size %d exceeds remaining %d", size, len(data)-off-12)
		}
		m, perr := vfsParseMessage(data[off+12 : off+12+size])
		if perr != nil {
			return msgs, false, perr
		}
		m.Offset = mo
		msgs = append(msgs, *m)
		off += 12 + size
	}
	return msgs, false, nil
}

func vfsParseMessage(data []byte) (*vfsLegacyMsg, error) {
	r := &vfsR{b: data}
	crc := uint32(r.i32())
	m := &vfsLegacyMsg{TsMs: -1}
	if got := crc32.ChecksumIEEE(data[4:]); got != crc {
		m.Viol = append(m.Viol, fmt.Sprintf("message CRC mismatch: field %08x computed %08x", crc, got))
	}
	m.Magic = r.i8()
	attr := r.i8()
	m.Codec = int(attr & 7)
	m.LogAppnd = attr&0x08 != 0
	if m.Magic != 0 && m.Magic != 1 {
		return nil, fmt.Errorf("legacy message with magic %d", m.Magic)
	}
	if m.Magic == 1 {
		m.TsMs = r.i64()
	}
	m.Key = r.bytes()
	m.Value = r.bytes()
	if r.err != nil {
		return nil, r.err
	}
	if r.remaining() != 0 {
		return nil, fmt.Errorf("%d stray bytes inside message", r.remaining())
	}
	if m.Codec != vfsCodecNone {
		if m.Value == nil {
			return nil, fmt.Errorf("compressed wrapper with null value")
		}
		dec, err := vfsDecompress(m.Codec, m.Value)
		if err != nil {
			return nil, fmt.Errorf("decompress wrapper (%s): %v", vfsCodecNames[m.Codec], err)
		}
		inner, _, err := vfsParseMessageSet(dec, false)
		if err != nil {
			return nil, fmt.Errorf("inner message set: %v", err)
		}
		m.Inner = inner
	}
	return m, nil
}

// ---------------------------------------------------------------- writers (consumer side: stored units)

// vfsWriteMessage writes one legacy message (without the offset/size prefix).
func vfsWriteMessage(magic int8, codec int, logAppend bool, tsMs int64, key, value []byte) []byte {
	w := &vfsW{}
	w.i32(0) // crc placeholder
	w.i8(magic)
	attr := int8(codec & 7)
	if logAppend {
		attr |= 0x08
	}
	w.i8(attr)
	if magic == 1 {
		w.i64(tsMs)
	}
	w.bytes(key)
	w.bytes(value)
	binary.BigEndian.PutUint32(w.b[0:], crc32.ChecksumIEEE(w.b[4:]))
	return w.b
}

func vfsWriteMessageSetEntry(offset int64, msg []byte) []byte {
	w := &vfsW{}
	w.i64(offset)
	w.i32(int32(len(msg)))
	w.raw(msg)
	return w.b
}

// vfsWriteBatch writes a v2 record batch. Records carry absolute offsets; deltas are relative to base.
// lastOffsetDelta is given explicitly so that compacted batches (holes at the end) can be expressed.
func vfsWriteBatch(base int64, lastOffsetDelta int32, codec, level int, firstTs int64, pid int64, epoch int16, baseSeq int32,
	txn, control, logAppend bool, recs []vfsRecord, leaderEpoch int32) ([]byte, error) {
	body := &vfsW{}
	maxTs := firstTs
	for _, r := range recs {
		rw := &vfsW{}
		rw.i8(0)
		rw.varint(r.TsMs - firstTs)
		rw.varint(r.Offset - base)
		rw.vbytes(r.Key)
		rw.vbytes(r.Value)
		rw.varint(int64(len(r.Headers)))
		for _, h := range r.Headers {
			rw.vbytes(h.K)
			rw.vbytes(h.V)
		}
		body.varint(int64(len(rw.b)))
		body.raw(rw.b)
		if r.TsMs > maxTs {
			maxTs = r.TsMs
		}
	}
	payload := body.b
	if codec != vfsCodecNone {
		var err error
		if payload, err = vfsCompress(codec, level, payload); err != nil {
			return nil, err
		}
	}
	w := &vfsW{}
	w.i64(base)
	w.i32(0) // length placeholder
	w.i32(leaderEpoch)
	w.i8(2)
	w.i32(0) // crc placeholder
	crcStart := len(w.b)
	attrs := int16(codec & 7)
	if logAppend {
		attrs |= 0x08
	}
	if txn {
		attrs |= 0x10
	}
	if control {
		attrs |= 0x20
	}
	w.i16(attrs)
	w.i32(lastOffsetDelta)
	w.i64(firstTs)
	w.i64(maxTs)
	w.i64(pid)
	w.i16(epoch)
	w.i32(baseSeq)
	w.i32(int32(len(recs)))
	w.raw(payload)
	binary.BigEndian.PutUint32(w.b[8:], uint32(len(w.b)-12))
	binary.BigEndian.PutUint32(w.b[crcStart-4:], crc32.Checksum(w.b[crcStart:], vfsCastagnoli))
	return w.b, nil
}

// control record key/value as Kafka writes them: key = version int16 + type int16 (0 abort, 1 commit), value = version int16 + coordinator epoch int32
func vfsControlRecord(offset int64, tsMs int64, ctlType int16) vfsRecord {
	k := &vfsW{}
	k.i16(0)
	k.i16(ctlType)
	v := &vfsW{}
	v.i16(0)
	v.i32(0)
	return vfsRecord{Offset: offset, Key: k.b, Value: v.b, TsMs: tsMs, Magic: 2, Control: true}
}
