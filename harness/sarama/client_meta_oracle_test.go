//go:build go1.18 && verif

package sarama

// C15 oracle. Reference view = fold of the metadata responses the simulator served AND the client consumed
// (response frames fully read by the client, matched to s.metaServed through the simulator connection), using
// the rules of the property statement / the doc comments of client.go:
//
//	R1 every response replaces the broker set: absent brokers dropped, re-addressed ones replaced (client.go updateBroker, :952-957)
//	R2 a response to a request without topics resets the topic view to exactly the topics it carries (client.go :961-965)
//	R3 every topic carried by a response is replaced as a whole (client.go :973-974, :994-1005)
//	R4 topic error none -> stored; LeaderNotAvailable -> stored with the partitions given ("retry, but store partial partition
//	   results", :986); UnknownTopicOrPartition, InvalidTopic, TopicAuthorizationFailed, anything else -> forgotten (:979-991)
//	R5 Partitions = sorted ids; WritablePartitions = those whose partition error is not LeaderNotAvailable (:41-44, :743)
//	R6 Leader: partition error LeaderNotAvailable or leader id not among the brokers of the view -> ErrLeaderNotAvailable (:761-767)
//	R7 Replicas / InSyncReplicas / OfflineReplicas = the lists of the response (offline only from metadata v5)
//	R8 unknown topic / partition after the one refresh a miss triggers -> ErrUnknownTopicOrPartition (:319-322, :348-350, :370, :773)
//	R9 RefreshMetadata returns nil, or the topic-level error of the applied response for the classes of R4 that are not
//	   stored (:979-991); NewClient tolerates ErrLeaderNotAvailable, ErrReplicaNotAvailable, ErrTopicAuthorizationFailed,
//	   ErrClusterAuthorizationFailed (:174-176); ErrOutOfBrokers only if no candidate answered (:933-940)
//
// The order in which the client applied overlapping responses (background updater, reader goroutines that refresh
// on a miss) is not observable from outside; the oracle therefore computes, per read, the set of responses that
// can have been the last one applied for the topic (and, for Leader/Brokers, for the broker set): a response can
// be applied only after the client consumed its last byte (Got) and is certainly applied before the next event of
// the goroutine that requested it (Done). With one actor the set is a singleton and the comparison is exact.

import (
	"encoding/json"
	"fmt"
	"hash/fnv"
	"math"
	"sort"
	"sync/atomic"

	"github.com/Shopify/sarama/internal/vfcore"
)

type vfc15Resp struct {
	I      int         `json:"i"`
	Served int64       `json:"served"`
	Req    int64       `json:"req"`
	Got    int64       `json:"got"`
	Done   int64       `json:"done"`
	Actor  string      `json:"actor"`
	Full   bool        `json:"full"`
	Topics []string    `json:"topics,omitempty"`
	Broker int32       `json:"broker"`
	Conn   int         `json:"conn"`
	View   *vfMetaView `json:"view"`
	hash   uint64
}

type vfc15FailWin struct {
	Addr string `json:"addr"`
	F    int64  `json:"f"`
	End  int64  `json:"end"`
	Why  string `json:"why"`
}

type vfc15Match struct {
	key     string
	s, e    int64
	minGot  int64
	maxDone int64
	op      int
}

type vfc15Judge struct {
	run      *vfc15Run
	c        *vfc15Case
	rec      *vfcore.Rec
	v5       bool
	ops      []*vfc15OpRec
	evs      []vfc15NetEv
	resps    []*vfc15Resp // sorted by Got
	actorEvs map[string][]int64
	fails    []vfc15FailWin
	unans    []vfc15NetEv
	matches  []vfc15Match
	classes  map[string]bool
	names    map[string]bool
	internal string
	concFrom int64 // stamp from which other goroutines of the client ran (0 = never)
	// brokersDropped: for a Brokers() read, the newest candidate state it equals except for a broker whose absence no
	// failed request or dial explains (op index -> description). Such a read may still equal an OLDER state exactly.
	brokersDropped map[int]string
}

const vfc15Inf = int64(math.MaxInt64)

func (j *vfc15Judge) class(s string) { j.classes[s] = true }

func (j *vfc15Judge) nextEv(actor string, after int64) int64 {
	l := j.actorEvs[actor]
	i := sort.Search(len(l), func(i int) bool { return l[i] > after })
	if i < len(l) {
		return l[i]
	}
	return vfc15Inf
}

func vfc15Hash(v interface{}) uint64 {
	b, _ := json.Marshal(v)
	h := fnv.New64a()
	h.Write(b)
	return h.Sum64()
}

// build matches served responses to consumed frames and derives the timing bounds.
func (j *vfc15Judge) build() bool {
	run := j.run
	evs, conns := run.net.snapshot()
	j.evs = evs
	hist := run.sim.hist.snapshot()
	seqConn := map[int64]int{}
	silentConn := map[int]bool{}
	for _, e := range hist {
		switch e.Kind {
		case "metadata-served":
			seqConn[e.Seq] = e.Conn
		case "metadata-req":
			if e.Fault == "silent" || e.Fault == "silentApplied" {
				silentConn[e.Conn] = true
			}
		}
	}
	run.sim.mu.Lock()
	served := append([]vfMetaServed(nil), run.sim.metaServed...)
	run.sim.mu.Unlock()
	sort.Slice(served, func(a, b int) bool { return served[a].Seq < served[b].Seq })
	bySim := map[int][]vfMetaServed{}
	for _, ms := range served {
		c, ok := seqConn[ms.Seq]
		if !ok {
			j.internal = "served response without a history event"
			return true
		}
		bySim[c] = append(bySim[c], ms)
	}
	writes := map[int][]vfc15NetEv{}
	frames := map[int][]vfc15NetEv{}
	j.actorEvs = map[string][]int64{}
	for _, e := range evs {
		switch e.Kind {
		case "write":
			writes[e.Conn] = append(writes[e.Conn], e)
			if e.Note != "" {
				j.internal = "client sent a request that is not a metadata request: " + e.Note
			}
		case "frame":
			frames[e.Conn] = append(frames[e.Conn], e)
		}
		// only requests and call boundaries are synchronous events of an actor (a dial runs in a goroutine of its own
		// and may be stamped long after the call that asked for it returned)
		if e.Kind == "write" {
			j.actorEvs[e.Actor] = append(j.actorEvs[e.Actor], e.Stamp)
		}
	}
	for _, op := range j.ops {
		j.actorEvs[op.Actor] = append(j.actorEvs[op.Actor], op.S, op.E)
	}
	for a := range j.actorEvs {
		l := j.actorEvs[a]
		sort.Slice(l, func(x, y int) bool { return l[x] < l[y] })
	}
	for _, c := range conns {
		c.mu.Lock()
		timeout := c.timeout
		c.mu.Unlock()
		if timeout && !silentConn[c.simID] {
			return false // a read timed out although no silence was scripted on that connection: the machine stalled
		}
		fr := frames[c.idx]
		wr := writes[c.idx]
		ent := bySim[c.simID]
		if len(fr) > 0 && c.simID == 0 {
			j.internal = "frames on a connection the simulator does not know"
			return true
		}
		if len(fr) > len(ent) || len(fr) > len(wr) {
			j.internal = fmt.Sprintf("conn %d: %d frames consumed, %d served, %d written", c.idx, len(fr), len(ent), len(wr))
			return true
		}
		for k := range fr {
			ms := ent[k]
			r := &vfc15Resp{Served: ms.Seq, Req: wr[k].Stamp, Got: fr[k].Stamp, Actor: wr[k].Actor, Full: len(ms.Topics) == 0,
				Topics: ms.Topics, Broker: ms.Broker, Conn: c.idx, View: ms.View}
			r.hash = vfc15Hash(ms.View)
			j.resps = append(j.resps, r)
		}
		for k := len(fr); k < len(wr); k++ {
			j.unans = append(j.unans, wr[k])
		}
	}
	sort.Slice(j.resps, func(a, b int) bool { return j.resps[a].Got < j.resps[b].Got })
	for i, r := range j.resps {
		r.I = i
		r.Done = j.nextEv(r.Actor, r.Got)
		for name := range r.View.Topics {
			j.names[name] = true
		}
	}
	// failure windows: an unanswered request or a refused dial may make the client drop a known broker (deregisterBroker).
	// The failure is noticed at some moment in (f, base]: base = f for a refused dial, the requester's next event for an
	// unanswered request. Every actor inside an operation at that moment (the background updater always) may drop the
	// broker any time before its own next event.
	addWin := func(addr string, f, base int64, why string) {
		end := base
		if base != vfc15Inf {
			for a := range j.actorEvs {
				if a == "bg" {
					if e := j.nextEv(a, base); e > end {
						end = e
					}
					continue
				}
				for _, op := range j.ops {
					if op.Actor == a && op.S < base && f < op.E {
						if e := j.nextEv(a, base); e > end {
							end = e
						}
					}
				}
			}
		}
		j.fails = append(j.fails, vfc15FailWin{Addr: addr, F: f, End: end, Why: why})
	}
	for _, w := range j.unans {
		addWin(w.Addr, w.Stamp, j.nextEv(w.Actor, w.Stamp), "unanswered")
	}
	for _, e := range evs {
		if e.Kind == "dialfail" {
			addWin(e.Addr, e.Stamp, e.Stamp, "refused")
		}
	}
	return true
}

func (j *vfc15Judge) possiblyMissing(addr string, gotLb, e int64) bool {
	for _, w := range j.fails {
		if w.Addr == addr && w.F < e && w.End > gotLb {
			return true
		}
	}
	return false
}

func (j *vfc15Judge) failedBefore(addr string, from, to int64) bool {
	for _, w := range j.fails {
		if w.Addr == addr && w.F > from && w.F < to {
			return true
		}
	}
	return false
}

func vfc15Relevant(l *vfc15Resp, topic string) bool {
	if topic == "" || l.Full {
		return true
	}
	return l.View.Topics[topic] != nil
}

func (j *vfc15Judge) definitelyApplied(l *vfc15Resp, op *vfc15OpRec) bool {
	return l.Done < op.S || (l.Actor == op.Actor && l.Req > op.S && l.Req < op.E)
}

// cands returns the responses that can have been the last one applied (among those relevant to topic; "" = any)
// when op looked at the cache; a nil element stands for "nothing applied yet".
func (j *vfc15Judge) cands(topic string, op *vfc15OpRec) []*vfc15Resp {
	g := int64(-1)
	for _, l := range j.resps {
		if l.Got >= op.E {
			break
		}
		if vfc15Relevant(l, topic) && j.definitelyApplied(l, op) && l.Got > g {
			g = l.Got
		}
	}
	var out []*vfc15Resp
	if g < 0 {
		out = append(out, nil)
	}
	for _, l := range j.resps {
		if l.Got >= op.E {
			break
		}
		if !vfc15Relevant(l, topic) {
			continue
		}
		if l.Done < g && l.Got != g {
			continue
		}
		out = append(out, l)
	}
	return out
}

func vfc15Stored(l *vfc15Resp, topic string) *vfMetaTopicVw {
	if l == nil {
		return nil
	}
	tv := l.View.Topics[topic]
	if tv == nil {
		return nil
	}
	if tv.Err == 0 || tv.Err == 5 {
		return tv
	}
	return nil
}

func vfc15SortedParts(tv *vfMetaTopicVw, writable bool) []int32 {
	out := []int32{}
	for id, p := range tv.Parts {
		if writable && p.Err == 5 {
			continue
		}
		out = append(out, id)
	}
	sort.Slice(out, func(a, b int) bool { return out[a] < out[b] })
	return out
}

func vfc15EqIDs(a, b []int32) bool {
	if len(a) != len(b) {
		return false
	}
	for i := range a {
		if a[i] != b[i] {
			return false
		}
	}
	return true
}

// dictated returns the refresh results the response allows (R9): "" or one of the topic-level errors that are not stored.
func vfc15Dictated(l *vfc15Resp) map[string]bool {
	out := map[string]bool{}
	for _, tv := range l.View.Topics {
		if tv.Err != 0 && tv.Err != 5 {
			out[fmt.Sprintf("K%d", tv.Err)] = true
		}
	}
	if len(out) == 0 {
		out[""] = true
	}
	return out
}

type vfc15Own struct {
	resps    []*vfc15Resp
	last     *vfc15Resp
	lastFail int64 // newest own unanswered request / refused dial in the window
	firstBad bool  // the first candidate tried in the window failed
	traffic  bool
}

func (j *vfc15Judge) own(op *vfc15OpRec) vfc15Own {
	var o vfc15Own
	for _, l := range j.resps {
		if l.Actor == op.Actor && l.Req > op.S && l.Req < op.E {
			o.resps = append(o.resps, l)
			if o.last == nil || l.Got > o.last.Got {
				o.last = l
			}
		}
	}
	unans := map[int64]bool{}
	for _, w := range j.unans {
		if w.Actor == op.Actor && w.Stamp > op.S && w.Stamp < op.E {
			unans[w.Stamp] = true
			if w.Stamp > o.lastFail {
				o.lastFail = w.Stamp
			}
		}
	}
	first := true
	for _, e := range j.evs {
		if e.Stamp <= op.S || e.Stamp >= op.E || e.Actor != op.Actor {
			continue
		}
		switch e.Kind {
		case "dialfail":
			o.traffic = true
			if e.Stamp > o.lastFail {
				o.lastFail = e.Stamp
			}
			if first {
				o.firstBad = true
			}
			first = false
		case "write":
			o.traffic = true
			if first && unans[e.Stamp] {
				o.firstBad = true
			}
			first = false
		}
	}
	return o
}

func (j *vfc15Judge) fail(symptom string, op *vfc15OpRec, format string, a ...interface{}) *vfcore.Failure {
	f := vfcore.Failf(symptom, "op %d (%s %s %s/%d by %s, phase %s): %s", op.Idx, op.Step.Op, op.Step.Kind, op.Step.Topic, op.Step.Part, op.Actor, op.Phase, fmt.Sprintf(format, a...))
	f.History = j.history()
	return f
}

// tainted: other goroutines of the client (background updater, readers that refresh on a miss or open a leader's
// connection) ran beside or before this operation. Broker.Open marks the broker as opened before it takes the broker's
// lock, so a request sent by another goroutine in between fails with ErrNotConnected although the broker is healthy; the
// client then sets the seed aside / drops the known broker without any network failure (known finding KF-C15-1).
func (j *vfc15Judge) tainted(op *vfc15OpRec) bool {
	return op.Conc || (j.concFrom > 0 && op.S > j.concFrom)
}

// failSpurious reports a broker that failed without a network failure: inside the region of the known finding under the
// finding's symptom, outside it as the ordinary violation.
func (j *vfc15Judge) failSpurious(symptom string, op *vfc15OpRec, format string, a ...interface{}) *vfcore.Failure {
	if !j.tainted(op) {
		return j.fail(symptom, op, format, a...)
	}
	f := j.fail("spurious-broker-failure", op, format, a...)
	f.Regions = []string{"concurrent-callers"}
	return f
}

func (j *vfc15Judge) history() interface{} {
	evs := j.evs
	if len(evs) > 4000 {
		evs = evs[:4000]
	}
	ops := j.ops
	if len(ops) > 3000 {
		ops = ops[:3000]
	}
	return map[string]interface{}{"ops": ops, "responses": j.resps, "net": evs, "failures": j.fails}
}

// lastAppliedBefore: newest response certainly applied before stamp s (sequential ops only).
func (j *vfc15Judge) lastAppliedBefore(s int64) *vfc15Resp {
	var out *vfc15Resp
	for _, l := range j.resps {
		if l.Done < s {
			out = l
		}
	}
	return out
}

// oobReachable decides whether ErrOutOfBrokers was legitimate for a sequential operation: no candidate the client
// certainly still had, and certainly asked, would have answered. Returns a description of such a candidate, or "".
func (j *vfc15Judge) oobReachable(op *vfc15OpRec, o vfc15Own) string {
	if op.Health == nil {
		return ""
	}
	// A seed that failed in an earlier call may still be set aside (deadSeeds); it is asked again only after an attempt in
	// which every candidate failed, i.e. certainly within this call only if the call consumed no response at all and a
	// second attempt exists. A seed that never failed is asked in every attempt.
	for _, addr := range j.c.Seeds {
		if !op.Health[addr] {
			continue
		}
		if !j.failedBefore(addr, -1, op.S) || (j.c.RetryMax >= 1 && o.last == nil) {
			return "seed " + addr
		}
		j.class("obs:oob-with-healthy-seed-set-aside")
	}
	if l := j.lastAppliedBefore(op.S); l != nil {
		for id, addr := range l.View.Brokers {
			if op.Health[addr] && !j.failedBefore(addr, l.Got, op.S) {
				return fmt.Sprintf("known broker %d at %s", id, addr)
			}
		}
	}
	return ""
}

// verdict judges the result of a refresh (explicit, or the one a read or NewClient performs). allowed maps the
// refresh result to the observed result of the API.
func (j *vfc15Judge) verdict(op *vfc15OpRec, o vfc15Own, res string) *vfcore.Failure {
	l := o.last
	switch {
	case res == "OOB":
		// the last attempt found no candidate that answers: some request or dial (of any actor: Broker objects are shared)
		// must have failed, or be noticed as failed, after the newest own response was consumed
		evidence := false
		from := op.S
		if l != nil {
			from = l.Got
		}
		for _, w := range j.fails {
			if w.End > from && w.F < op.E {
				evidence = true
			}
		}
		if !evidence && l == nil && op.Conc {
			// other goroutines may have set every seed aside and dropped every broker before this call began
			j.class("unjudged:oob-under-concurrency")
			return nil
		}
		if !evidence {
			return j.failSpurious("refresh-verdict", op, "ErrOutOfBrokers although no request or dial failed after the last response was consumed (own response consumed: %v)", l != nil)
		}
		j.class("feat:out-of-brokers")
		if op.Conc {
			j.class("unjudged:oob-under-concurrency")
			return nil
		}
		if who := j.oobReachable(op, o); who != "" {
			return j.failSpurious("oob-while-reachable", op, "ErrOutOfBrokers although %s would have answered", who)
		}
		return nil
	case res == "" || (len(res) > 1 && res[0] == 'K'):
		// not ErrOutOfBrokers: the last attempt consumed a response, and that is the newest own response
		if l == nil {
			return j.fail("refresh-verdict", op, "result %q without any response consumed", res)
		}
		allowed := vfc15Dictated(l)
		if len(allowed) > 1 {
			j.class("feat:multi-error-response")
		}
		if allowed[res] {
			return nil
		}
		return j.fail("refresh-verdict", op, "result %q, but the applied response #%d dictates %v", res, l.I, vfc15Keys(allowed))
	}
	return j.fail("refresh-unexpected-error", op, "result %q", res)
}

func vfc15Keys(m map[string]bool) []string {
	out := make([]string, 0, len(m))
	for k := range m {
		out = append(out, k)
	}
	sort.Strings(out)
	return out
}

func (j *vfc15Judge) judgeRefresh(op *vfc15OpRec) *vfcore.Failure {
	o := j.own(op)
	j.noteFirstBad(o)
	return j.verdict(op, o, op.Ans.Err)
}

func (j *vfc15Judge) noteFirstBad(o vfc15Own) {
	if o.firstBad && o.last != nil {
		j.class("feat:unreachable-first-candidate")
	}
}

func (j *vfc15Judge) judgeNew(op *vfc15OpRec) *vfcore.Failure {
	o := j.own(op)
	j.noteFirstBad(o)
	if !j.c.Full {
		if !op.Ans.Created || op.Ans.Err != "" {
			return j.fail("newclient-verdict", op, "NewClient without initial refresh failed: %q", op.Ans.Err)
		}
		return nil
	}
	if op.Ans.Created {
		// the initial refresh returned nil or one of the tolerated errors (R9)
		if o.last == nil {
			return j.fail("newclient-verdict", op, "client created although no response was consumed")
		}
		allowed := vfc15Dictated(o.last)
		for _, ok := range []string{"", "K5", "K9", "K29", "K31"} {
			if allowed[ok] {
				return nil
			}
		}
		return j.fail("newclient-verdict", op, "client created although response #%d dictates %v", o.last.I, vfc15Keys(allowed))
	}
	j.class("feat:newclient-failed")
	switch op.Ans.Err {
	case "", "K5", "K9", "K29", "K31":
		return j.fail("newclient-verdict", op, "NewClient failed with %q, which it documents as not fatal", op.Ans.Err)
	}
	return j.verdict(op, o, op.Ans.Err)
}

func (j *vfc15Judge) addMatch(key string, op *vfc15OpRec, ms []*vfc15Resp) {
	m := vfc15Match{key: key, s: op.S, e: op.E, minGot: vfc15Inf, maxDone: -1, op: op.Idx}
	for _, l := range ms {
		got, done := int64(-1), int64(-1)
		if l != nil {
			got, done = l.Got, l.Done
		}
		if got < m.minGot {
			m.minGot = got
		}
		if done > m.maxDone {
			m.maxDone = done
		}
	}
	j.matches = append(j.matches, m)
}

func (j *vfc15Judge) describe(ls []*vfc15Resp) string {
	s := ""
	for _, l := range ls {
		if l == nil {
			s += " <nothing applied>"
		} else {
			s += fmt.Sprintf(" #%d", l.I)
		}
	}
	return s
}

func (j *vfc15Judge) judgeRead(op *vfc15OpRec) *vfcore.Failure {
	st := &op.Step
	ans := &op.Ans
	if len(ans.Err) > 6 && ans.Err[:6] == "other:" {
		return j.fail("answer:"+st.Kind, op, "unexpected result %q", ans.Err)
	}
	switch st.Kind {
	case "topics":
		if ans.Err != "" {
			return j.fail("answer:topics", op, "Topics() failed: %s", ans.Err)
		}
		have := map[string]bool{}
		for _, n := range ans.Names {
			have[n] = true
		}
		names := map[string]bool{}
		for n := range j.names {
			names[n] = true
		}
		for n := range have {
			names[n] = true
		}
		for _, n := range vfc15Keys(names) {
			cs := j.cands(n, op)
			ok := false
			for _, l := range cs {
				if (vfc15Stored(l, n) != nil) == have[n] {
					ok = true
				}
			}
			if !ok {
				return j.fail("answer:topics", op, "Topics()=%v: topic %q listed=%v contradicts every response that can have been applied last for it (%s)", ans.Names, n, have[n], j.describe(cs))
			}
		}
		return nil
	case "brokers":
		cs := j.cands("", op)
		var ms []*vfc15Resp
		unexplained := ""
		for _, l := range cs {
			want := map[int32]string{}
			if l != nil {
				want = l.View.Brokers
			}
			ok := true
			for id, addr := range ans.Brokers {
				if want[id] != addr {
					ok = false
				}
			}
			tolerated, dropped := false, ""
			for id, addr := range want {
				if _, present := ans.Brokers[id]; !present {
					if j.possiblyMissing(addr, l.Got, op.E) {
						tolerated = true
					} else {
						dropped = fmt.Sprintf("broker %d at %s (response #%d)", id, addr, l.I)
					}
				}
			}
			if ok && dropped == "" {
				ms = append(ms, l)
				if tolerated {
					j.class("feat:deregistered-broker-visible")
				}
			} else if ok {
				unexplained = dropped
			}
		}
		if unexplained != "" {
			if j.brokersDropped == nil {
				j.brokersDropped = map[int]string{}
			}
			j.brokersDropped[op.Idx] = unexplained
		}
		if len(ms) == 0 {
			if unexplained != "" {
				return j.failSpurious("answer:brokers", op, "Brokers()=%v lacks %s although no request or dial to its address failed since", ans.Brokers, unexplained)
			}
			return j.fail("answer:brokers", op, "Brokers()=%v matches no broker set that can have been current (%s)", ans.Brokers, j.describe(cs))
		}
		if len(cs) > 1 {
			j.class("feat:ambiguous-candidates")
		}
		j.addMatch("#brokers", op, ms)
		return nil
	}

	// single-topic reads; a miss makes the client refresh once (R8) and an error of that refresh is the answer
	o := j.own(op)
	if len(o.resps) > 0 || o.lastFail > 0 {
		j.class("feat:read-miss-refresh")
	}
	if ans.Err == "OOB" {
		return j.verdict(op, o, "OOB")
	}
	if o.last != nil {
		// the answer is not ErrOutOfBrokers, so the refresh the read performed ended with its newest own response
		allowed := vfc15Dictated(o.last)
		if !allowed[""] {
			if allowed[ans.Err] {
				return nil
			}
			return j.fail("read-verdict", op, "answer %+v, but the refresh the read performed consumed response #%d which dictates %v", *ans, o.last.I, vfc15Keys(allowed))
		}
	}

	ct := j.cands(st.Topic, op)
	var ms []*vfc15Resp
	part := int32(st.Part)
	unexplained := ""
	switch st.Kind {
	case "partitions", "writable":
		for _, l := range ct {
			tv := vfc15Stored(l, st.Topic)
			wantErr, want := "", []int32{}
			switch {
			case tv == nil:
				wantErr = "K3"
			case st.Kind == "partitions" && len(tv.Parts) == 0:
				wantErr = "K3"
			default:
				want = vfc15SortedParts(tv, st.Kind == "writable")
			}
			if ans.Err == wantErr && (wantErr != "" || vfc15EqIDs(ans.Ids, want)) {
				ms = append(ms, l)
			}
		}
	case "replicas", "isr", "offline":
		for _, l := range ct {
			tv := vfc15Stored(l, st.Topic)
			var p *vfMetaPartVw
			if tv != nil {
				p = tv.Parts[part]
			}
			if p == nil {
				if ans.Err == "K3" {
					ms = append(ms, l)
				}
				continue
			}
			var want []int32
			switch st.Kind {
			case "replicas":
				want = p.Replicas
			case "isr":
				want = p.Isr
			case "offline":
				if j.v5 {
					want = p.Offline
				}
			}
			errOK := ans.Err == "" || (p.Err == 9 && ans.Err == "K9")
			if errOK && vfc15EqIDs(ans.Ids, want) {
				ms = append(ms, l)
				if p.Err == 9 {
					j.class("feat:replica-not-available:" + ans.Err)
				}
			}
		}
	case "leader":
		cb := j.cands("", op)
		for _, lt := range ct {
			tv := vfc15Stored(lt, st.Topic)
			var p *vfMetaPartVw
			if tv != nil {
				p = tv.Parts[part]
			}
			matched := false
			for _, lb := range cb {
				if !j.feasiblePair(lt, lb, st.Topic) {
					continue
				}
				switch {
				case p == nil:
					matched = matched || ans.Err == "K3"
				case p.Err == 5:
					matched = matched || ans.Err == "K5"
				default:
					addr, known := "", false
					if lb != nil {
						addr, known = lb.View.Brokers[p.Leader]
					}
					if !known {
						if ans.Err == "K5" {
							matched = true
							j.class("feat:leader-id-not-among-brokers")
						}
					} else if ans.Err == "" && ans.Leader == p.Leader && ans.Addr == addr {
						matched = true
					} else if ans.Err == "K5" && j.possiblyMissing(addr, lb.Got, op.E) {
						matched = true
						j.class("feat:deregistered-broker-visible")
					} else if ans.Err == "K5" {
						unexplained = fmt.Sprintf("leader %d at %s (response #%d)", p.Leader, addr, lb.I)
					}
				}
			}
			if matched {
				ms = append(ms, lt)
			}
		}
		if len(cb) > 1 {
			j.class("feat:ambiguous-candidates")
		}
	}
	if len(ct) > 1 {
		j.class("feat:ambiguous-candidates")
	}
	if len(ms) == 0 && unexplained != "" {
		return j.failSpurious("answer:leader", op, "Leader() = ErrLeaderNotAvailable although the view names %s and no request or dial to its address failed since", unexplained)
	}
	if len(ms) == 0 {
		return j.fail("answer:"+st.Kind, op, "answer %+v matches no view that can have been current: candidates for the topic:%s", *ans, j.describeViews(ct, st.Topic))
	}
	j.addMatch(st.Topic, op, ms)
	return nil
}

func (j *vfc15Judge) describeViews(ls []*vfc15Resp, topic string) string {
	s := ""
	for _, l := range ls {
		if l == nil {
			s += " <nothing applied>"
			continue
		}
		tv := l.View.Topics[topic]
		b, _ := json.Marshal(tv)
		bb, _ := json.Marshal(l.View.Brokers)
		s += fmt.Sprintf(" #%d{topic=%s brokers=%s}", l.I, b, bb)
	}
	return s
}

// feasiblePair: can lt be the last applied response relevant to topic while lb is the last applied response overall?
func (j *vfc15Judge) feasiblePair(lt, lb *vfc15Resp, topic string) bool {
	if lb == nil {
		return lt == nil
	}
	if vfc15Relevant(lb, topic) {
		return lt == lb
	}
	if lt == nil {
		return true
	}
	if lb.Done < lt.Got {
		return false
	}
	for _, x := range j.resps {
		if x != lt && x != lb && vfc15Relevant(x, topic) && lt.Done < x.Got && x.Done < lb.Got {
			return false
		}
	}
	return true
}

// monotonic: a read that began after another read of the same topic ended must not be explainable only by
// strictly older states ("never a mixture": once the new state is visible it stays visible).
func (j *vfc15Judge) monotonic() *vfcore.Failure {
	byKey := map[string][]vfc15Match{}
	for _, m := range j.matches {
		byKey[m.key] = append(byKey[m.key], m)
	}
	for _, key := range func() []string {
		ks := make([]string, 0, len(byKey))
		for k := range byKey {
			ks = append(ks, k)
		}
		sort.Strings(ks)
		return ks
	}() {
		ms := byKey[key]
		sort.Slice(ms, func(a, b int) bool { return ms[a].s < ms[b].s })
		for b := range ms {
			for a := 0; a < b; a++ {
				if ms[a].e < ms[b].s && ms[b].maxDone < ms[a].minGot {
					opA, opB := j.ops[ms[a].op], j.ops[ms[b].op]
					f := vfcore.Failf("non-monotonic-read", "%s: op %d (%s by %s) saw a state that needs a response consumed at >=%d, but op %d (%s by %s), which began after it ended, is only explained by states overwritten before %d: answers %+v then %+v",
						key, opA.Idx, opA.Step.Kind, opA.Actor, ms[a].minGot, opB.Idx, opB.Step.Kind, opB.Actor, ms[b].maxDone, opA.Ans, opB.Ans)
					f.History = j.history()
					if d := j.brokersDropped[opB.Idx]; key == "#brokers" && d != "" {
						// the later read cannot be the older state it happens to equal; what it shows is the newer state without a
						// broker that no network failure accounts for: the spurious broker failure, not a stale answer
						return j.failSpurious("non-monotonic-read", opB, "Brokers()=%v lacks %s although no request or dial to its address failed since (and an earlier read by the same reader had already seen the newer state: %s)", opB.Ans.Brokers, d, f.Message)
					}
					return f
				}
			}
		}
	}
	return nil
}

func vfc15ErrClass(code int16) string {
	switch code {
	case 5:
		return "leader-not-available"
	case 3:
		return "unknown-topic"
	case 17:
		return "invalid-topic"
	case 29:
		return "authorization-failed"
	}
	return "other"
}

// features derives the class histogram and the non-triviality verdict from what was really served and consumed.
func (j *vfc15Judge) features() {
	states := map[uint64]bool{}
	lastParts := map[string]map[int32]bool{}
	lastAddr := map[int32]string{}
	var lastBrokers map[int32]string
	key := false
	seedAddr := map[string]bool{}
	for _, a := range j.c.Seeds {
		seedAddr[a] = true
	}
	for _, l := range j.resps {
		states[l.hash] = true
		for id, addr := range l.View.Brokers {
			if old, ok := lastAddr[id]; ok && old != addr {
				j.class("feat:broker-readdressed")
				key = true
			}
			lastAddr[id] = addr
		}
		if lastBrokers != nil {
			for id := range lastBrokers {
				if _, ok := l.View.Brokers[id]; !ok {
					j.class("feat:broker-removed")
				}
			}
			for id := range l.View.Brokers {
				if _, ok := lastBrokers[id]; !ok {
					j.class("feat:broker-added")
				}
			}
		}
		lastBrokers = l.View.Brokers
		if l.Full {
			for name := range lastParts {
				if l.View.Topics[name] == nil {
					j.class("feat:topic-vanished")
					delete(lastParts, name)
				}
			}
		}
		for name, tv := range l.View.Topics {
			if tv.Err != 0 {
				j.class("feat:erroring-topic:" + vfc15ErrClass(tv.Err))
				key = true
			}
			if vfc15Stored(l, name) == nil {
				if lastParts[name] != nil {
					j.class("feat:topic-forgotten")
				}
				delete(lastParts, name)
				continue
			}
			cur := map[int32]bool{}
			for id, p := range tv.Parts {
				cur[id] = true
				if p.Err != 0 {
					j.class("feat:partition-error")
				}
				if p.Leader < 0 {
					j.class("feat:leader-none")
				} else if _, ok := l.View.Brokers[p.Leader]; !ok {
					j.class("feat:leader-absent-from-broker-list")
				}
				if len(p.Offline) > 0 && j.v5 {
					j.class("feat:offline-replicas")
				}
			}
			if old := lastParts[name]; old != nil {
				for id := range old {
					if !cur[id] {
						j.class("feat:partition-shrink")
						key = true
					}
				}
				for id := range cur {
					if !old[id] {
						j.class("feat:partition-growth")
					}
				}
			} else {
				j.class("feat:topic-appeared")
			}
			lastParts[name] = cur
		}
		if !seedAddr[j.connAddr(l.Conn)] {
			j.class("feat:answered-by-known-broker")
		}
	}
	if j.classes["feat:unreachable-first-candidate"] {
		key = true
	}
	n := len(states)
	switch {
	case n >= 6:
		j.class("states:6+")
	case n >= 3:
		j.class("states:3-5")
	default:
		j.class(fmt.Sprintf("states:%d", n))
	}
	if n >= 3 && key {
		j.rec.NonTrivial("")
	}
}

func (j *vfc15Judge) connAddr(idx int) string {
	for _, e := range j.evs {
		if e.Kind == "dial" && e.Conn == idx {
			return e.Addr
		}
	}
	return ""
}

func vfc15JudgeRun(run *vfc15Run, rec *vfcore.Rec) *vfcore.Failure {
	c := run.c
	j := &vfc15Judge{run: run, c: c, rec: rec, classes: map[string]bool{}, names: map[string]bool{}}
	j.v5 = vfVersions[c.Version].IsAtLeast(V1_0_0_0)
	run.mu.Lock()
	j.ops = append([]*vfc15OpRec(nil), run.ops...)
	pv, ps := run.panicV, run.panicSite
	run.mu.Unlock()
	if pv != nil {
		f := vfcore.Failf("panic:"+ps, "panic: %v", pv)
		return f
	}
	if run.hang != "" {
		f := vfcore.Failf("hang", "%s", run.hang)
		f.History = map[string]interface{}{"ops": j.ops, "stacks": run.stacks}
		return f
	}
	if run.mixed != "" {
		f := vfcore.Failf("mixed-state-visible", "a reader holding the client's read lock during a refresh saw two states at once: %s", run.mixed)
		f.History = map[string]interface{}{"ops": j.ops}
		return f
	}
	rec.Count("lock-probes", atomic.LoadInt64(&run.nProbes))
	if !j.build() {
		rec.Discard()
		vfcore.AddCounter("discard:unscripted-read-timeout", 1)
		return nil
	}
	if j.internal != "" {
		f := vfcore.Failf("harness-internal", "%s", j.internal)
		f.History = j.history()
		return f
	}
	for _, op := range j.ops {
		if (op.Conc || op.Phase == "B") && (j.concFrom == 0 || op.S < j.concFrom) {
			j.concFrom = op.S
		}
	}
	nReads := 0
	for _, op := range j.ops {
		var f *vfcore.Failure
		switch op.Step.Op {
		case "new":
			f = j.judgeNew(op)
		case "refresh":
			f = j.judgeRefresh(op)
		case "read":
			f = j.judgeRead(op)
			nReads++
		case "close":
			if op.Ans.Err != "" {
				f = j.fail("close-error", op, "Close() = %s", op.Ans.Err)
			}
		}
		if f != nil {
			return f
		}
	}
	if f := j.monotonic(); f != nil {
		return f
	}
	j.features()
	rec.Count("reads", int64(nReads))
	rec.Count("responses-consumed", int64(len(j.resps)))
	rec.Class("version:" + c.Version)
	rec.Class(fmt.Sprintf("full:%v", c.Full))
	rec.Class(fmt.Sprintf("background:%v", c.BgUs > 0))
	rec.Class(fmt.Sprintf("phaseB:%v", len(c.Readers) > 0))
	rec.Class(fmt.Sprintf("retry.max:%d", c.RetryMax))
	for _, k := range vfc15Keys(j.classes) {
		rec.Class(k)
	}
	return nil
}
