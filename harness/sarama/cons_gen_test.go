//go:build go1.18 && verif

package sarama

// Generators and entry points for the consumer-side checks C03, C11 and C18 (consumer half).

import (
	"fmt"
	"testing"

	"github.com/Shopify/sarama/internal/vfcore"
	"pgregory.net/rapid"
)

func vfcDrawRec(t *rapid.T, off int64, label string, allowHdr bool) vfcRec {
	r := vfcRec{Off: off}
	r.KeyK = rapid.SampledFrom([]int{0, 0, 1, 2, 2}).Draw(t, label+".keyK")
	r.ValK = rapid.SampledFrom([]int{0, 0, 0, 0, 0, 1, 2}).Draw(t, label+".valK")
	if rapid.IntRange(0, 9).Draw(t, label+".big") == 0 {
		r.ValN = rapid.IntRange(200, 700).Draw(t, label+".valNbig")
	} else {
		r.ValN = rapid.IntRange(0, 60).Draw(t, label+".valN")
	}
	if allowHdr {
		r.NHdr = rapid.SampledFrom([]int{0, 0, 1, 3}).Draw(t, label+".nHdr")
	}
	r.TsOff = rapid.Int64Range(0, 100000).Draw(t, label+".ts")
	return r
}

func vfcKindsFor(version string) []string {
	switch {
	case vfVersionAtLeast(version, "0.11.0.0"):
		return []string{"batch", "batch", "batch", "batch", "msg1", "wrap1", "msg0", "wrap0"}
	case vfVersionAtLeast(version, "0.10.0.0"):
		return []string{"msg1", "msg1", "wrap1", "wrap1", "msg0", "wrap0"}
	}
	return []string{"msg0", "msg0", "wrap0"}
}

func vfcDrawUnits(t *rapid.T, c *vfConsCase, label string, logStart int64, maxUnits int) []vfcUnit {
	kinds := vfcKindsFor(c.Version)
	n := rapid.IntRange(0, maxUnits).Draw(t, label+".nUnits")
	next := logStart
	var units []vfcUnit
	for ui := 0; ui < n; ui++ {
		ul := fmt.Sprintf("%s.u%d", label, ui)
		u := vfcUnit{Kind: rapid.SampledFrom(kinds).Draw(t, ul+".kind")}
		// compaction hole before the unit
		if rapid.IntRange(0, 4).Draw(t, ul+".hole") == 0 {
			next += int64(rapid.IntRange(1, 5).Draw(t, ul+".holeN"))
		}
		nRec := 1
		if u.Kind != "msg0" && u.Kind != "msg1" {
			nRec = rapid.IntRange(1, 6).Draw(t, ul+".nRec")
		}
		switch u.Kind {
		case "wrap0":
			u.Codec = rapid.SampledFrom([]int{1, 2}).Draw(t, ul+".codec")
		case "wrap1":
			u.Codec = rapid.SampledFrom([]int{1, 2, 3}).Draw(t, ul+".codec")
		case "batch":
			cs := []int{0, 0, 1, 2, 3}
			if vfVersionAtLeast(c.Version, "2.1.0.0") {
				cs = append(cs, 4)
			}
			u.Codec = rapid.SampledFrom(cs).Draw(t, ul+".codec")
		}
		if u.Kind == "msg1" || u.Kind == "wrap1" || u.Kind == "batch" {
			u.LogAppend = rapid.IntRange(0, 5).Draw(t, ul+".logAppend") == 0
		}
		u.Base = next
		if u.Kind == "batch" && rapid.IntRange(0, 5).Draw(t, ul+".headCompacted") == 0 {
			next += int64(rapid.IntRange(1, 3).Draw(t, ul+".headGap")) // leading records compacted away, base offset kept
		}
		for ri := 0; ri < nRec; ri++ {
			u.Recs = append(u.Recs, vfcDrawRec(t, next, fmt.Sprintf("%s.r%d", ul, ri), u.Kind == "batch"))
			next++
			if (u.Kind == "batch" || u.Kind == "wrap1" || u.Kind == "wrap0") && ri < nRec-1 && rapid.IntRange(0, 6).Draw(t, fmt.Sprintf("%s.gap%d", ul, ri)) == 0 {
				next += int64(rapid.IntRange(1, 3).Draw(t, fmt.Sprintf("%s.gapN%d", ul, ri))) // compacted record inside the unit
			}
		}
		if u.Kind == "batch" {
			if rapid.IntRange(0, 5).Draw(t, ul+".tailCompacted") == 0 {
				next += int64(rapid.IntRange(1, 3).Draw(t, ul+".tailGap")) // trailing records compacted away, lastOffsetDelta kept
			}
			u.LastDelta = int32(next - 1 - u.Base)
		}
		units = append(units, u)
	}
	return units
}

func vfcDrawFaults(t *rapid.T, c *vfConsCase, label string, allowTerminal bool) []vfFault {
	n := rapid.IntRange(0, 4).Draw(t, label+".nFaults")
	var out []vfFault
	for i := 0; i < n; i++ {
		fl := fmt.Sprintf("%s.f%d", label, i)
		pad := rapid.IntRange(0, 3).Draw(t, fl+".pad")
		for j := 0; j < pad; j++ {
			out = append(out, vfFault{Kind: "ok"})
		}
		kinds := []string{"redispatch", "redispatch", "report", "omit", "dropBefore", "delay", "silent", "leaderless", "leaderless"}
		if c.Brokers >= 2 {
			kinds = append(kinds, "moveBefore", "moveBefore", "moveAfter")
		}
		if vfVersionAtLeast(c.Version, "0.9.0.0") {
			kinds = append(kinds, "throttled")
		}
		if allowTerminal {
			kinds = append(kinds, "outOfRange")
		}
		f := vfFault{}
		switch rapid.SampledFrom(kinds).Draw(t, fl+".kind") {
		case "redispatch":
			f = vfFault{Kind: "err", Code: rapid.SampledFrom([]int16{6, 5, 3, 9}).Draw(t, fl+".code")}
		case "report":
			f = vfFault{Kind: "err", Code: rapid.SampledFrom([]int16{7, 2, 29, 13}).Draw(t, fl+".rcode")}
		case "omit":
			f = vfFault{Kind: "omit"}
		case "dropBefore":
			f = vfFault{Kind: "dropBefore"}
		case "delay":
			f = vfFault{Kind: "ok", DelayUs: rapid.SampledFrom([]int{300, 3000}).Draw(t, fl+".delay")}
		case "silent":
			if rapid.IntRange(0, 2).Draw(t, fl+".silentRare") == 0 {
				f = vfFault{Kind: "silent"}
				c.ReadTimeoutMs = 150
			} else {
				f = vfFault{Kind: "dropBefore"}
			}
		case "leaderless":
			// the partition has no leader for the next 1-3 metadata answers: the fetch is answered NOT_LEADER and the first re-dispatch attempts fail
			f = vfFault{Kind: "ok", LeaderlessFor: rapid.IntRange(2, 9).Draw(t, fl+".leaderlessFor")}
		case "moveBefore":
			f = vfFault{Kind: "ok", MoveLeader: "before"} // the leadership check then answers NOT_LEADER by itself
		case "moveAfter":
			f = vfFault{Kind: "ok", MoveLeader: "after"} // this answer is still served, the next fetch finds the leader gone
		case "throttled":
			f = vfFault{Kind: "throttled"}
		case "outOfRange":
			f = vfFault{Kind: "err", Code: 1}
		}
		out = append(out, f)
		if f.Kind == "err" && f.Code == 1 {
			break // the consumer stops here
		}
	}
	return out
}

func vfcDrawStart(t *rapid.T, p *vfcPart, label string) {
	hw := p.LogStart
	if p.Initial > 0 {
		u := &p.Units[p.Initial-1]
		hw = u.Recs[len(u.Recs)-1].Off + 1
		if u.Kind == "batch" {
			hw = u.Base + int64(u.LastDelta) + 1
		}
	}
	switch rapid.IntRange(0, 5).Draw(t, label+".startKind") {
	case 0:
		p.Start = -2
	case 1:
		p.Start = -1
	case 2:
		p.Start = rapid.Int64Range(p.LogStart, hw).Draw(t, label+".startLit")
	default:
		// strictly inside a unit where possible
		var inside []int64
		for ui := 0; ui < p.Initial; ui++ {
			u := &p.Units[ui]
			for ri := 1; ri < len(u.Recs); ri++ {
				inside = append(inside, u.Recs[ri].Off)
			}
		}
		if len(inside) == 0 {
			p.Start = -2
		} else {
			p.Start = inside[rapid.IntRange(0, len(inside)-1).Draw(t, label+".startInside")]
		}
	}
}

func vfGenConsCase(t *rapid.T, emph string) *vfConsCase {
	c := &vfConsCase{ReadTimeoutMs: 1000}
	if emph == "C11" {
		c.Version = rapid.SampledFrom(vfVersionList[4:]).Draw(t, "version")
		c.Isolation = rapid.SampledFrom([]int{1, 1, 1, 0}).Draw(t, "isolation")
	} else {
		c.Version = rapid.SampledFrom(vfVersionList).Draw(t, "version")
	}
	c.FetchDefault = rapid.SampledFrom([]int32{64, 128, 256, 512}).Draw(t, "fetchDefault")
	c.ChanBuf = rapid.SampledFrom([]int{0, 1, 4}).Draw(t, "chanBuf")
	c.MaxProcMs = rapid.SampledFrom([]int{2, 2, 100}).Draw(t, "maxProcMs")
	c.MaxWaitMs = rapid.SampledFrom([]int{1, 2, 5}).Draw(t, "maxWaitMs")
	c.Brokers = rapid.SampledFrom([]int{1, 1, 2}).Draw(t, "brokers")
	nP := rapid.SampledFrom([]int{1, 1, 2, 3}).Draw(t, "nParts")
	for pi := 0; pi < nP; pi++ {
		pl := fmt.Sprintf("p%d", pi)
		p := vfcPart{LogStart: rapid.SampledFrom([]int64{0, 0, 5, 100}).Draw(t, pl+".logStart")}
		if emph == "C11" {
			p.Units = vfcDrawTxnUnits(t, c, pl, p.LogStart)
			p.AbortOrd = rapid.IntRange(0, 2).Draw(t, pl+".abortOrd")
		} else {
			p.Units = vfcDrawUnits(t, c, pl, p.LogStart, 12)
		}
		p.Initial = len(p.Units)
		if rapid.IntRange(0, 3).Draw(t, pl+".appendLater") == 0 && len(p.Units) > 0 {
			p.Initial = rapid.IntRange(0, len(p.Units)).Draw(t, pl+".initial")
		}
		vfcDrawStart(t, &p, pl)
		p.Faults = vfcDrawFaults(t, c, pl, emph == "C03")
		nSlow := rapid.SampledFrom([]int{0, 0, 1, 3}).Draw(t, pl+".nSlow")
		if c.MaxProcMs > 10 {
			nSlow = 0
		}
		for i := 0; i < nSlow; i++ {
			p.SlowAt = append(p.SlowAt, rapid.IntRange(0, 20).Draw(t, fmt.Sprintf("%s.slow%d", pl, i)))
		}
		c.Parts = append(c.Parts, p)
	}
	if emph == "C18" {
		n := rapid.IntRange(1, 3).Draw(t, "nInterceptors")
		for i := 0; i < n; i++ {
			c.Interceptors = append(c.Interceptors, rapid.SampledFrom([]string{"hdr", "hdr", "panic", "count"}).Draw(t, fmt.Sprintf("ic%d", i)))
		}
	}
	if rapid.IntRange(0, 2).Draw(t, "perturb") != 0 {
		c.Delays = map[string][]int{}
		for _, pnt := range []string{"cons.feeder.handoff", "cons.broker.fetched"} {
			v := make([]int, 8)
			for i := range v {
				v[i] = rapid.SampledFrom([]int{0, 0, 0, 1, 2, 3, 4}).Draw(t, fmt.Sprintf("d.%s.%d", pnt, i))
			}
			c.Delays[pnt] = v
		}
	}
	return c
}

// vfcDrawTxnUnits builds a v2 log from a transaction schedule (C11).
func vfcDrawTxnUnits(t *rapid.T, c *vfConsCase, label string, logStart int64) []vfcUnit {
	n := rapid.IntRange(1, 16).Draw(t, label+".nSteps")
	next := logStart
	var units []vfcUnit
	open := map[int64][]int{} // pid -> indexes of data units of the open transaction
	firstOpen := map[int64]int64{}
	pids := []int64{7001, 7002, 7003}
	lso := func() int64 {
		m := next
		for _, f := range firstOpen {
			if f < m {
				m = f
			}
		}
		return m
	}
	addMarker := func(pid int64, kind int) {
		u := vfcUnit{Kind: "batch", PID: pid, Txn: true, Control: kind, Base: next, LastDelta: 0}
		u.Recs = []vfcRec{{Off: next, TsOff: int64(next)}}
		next++
		if kind == 1 || kind == 2 {
			if kind == 1 {
				for _, ui := range open[pid] {
					units[ui].Aborted = true
				}
			}
			delete(open, pid)
			delete(firstOpen, pid)
		}
		u.LSO = lso()
		units = append(units, u)
	}
	for si := 0; si < n; si++ {
		sl := fmt.Sprintf("%s.s%d", label, si)
		switch rapid.SampledFrom([]string{"plain", "txn", "txn", "txn", "marker", "marker", "hole", "unknownCtl"}).Draw(t, sl+".what") {
		case "hole":
			next += int64(rapid.IntRange(1, 4).Draw(t, sl+".holeN"))
		case "plain":
			u := vfcUnit{Kind: "batch", Base: next}
			u.Codec = rapid.SampledFrom([]int{0, 0, 1, 2, 3}).Draw(t, sl+".codec")
			k := rapid.IntRange(1, 4).Draw(t, sl+".nRec")
			for ri := 0; ri < k; ri++ {
				u.Recs = append(u.Recs, vfcDrawRec(t, next, fmt.Sprintf("%s.r%d", sl, ri), true))
				next++
			}
			u.LastDelta = int32(next - 1 - u.Base)
			u.LSO = lso()
			units = append(units, u)
		case "txn":
			pid := pids[rapid.IntRange(0, 2).Draw(t, sl+".pid")]
			u := vfcUnit{Kind: "batch", Base: next, PID: pid, Txn: true}
			u.Codec = rapid.SampledFrom([]int{0, 0, 1, 2}).Draw(t, sl+".codec")
			k := rapid.IntRange(1, 4).Draw(t, sl+".nRec")
			for ri := 0; ri < k; ri++ {
				u.Recs = append(u.Recs, vfcDrawRec(t, next, fmt.Sprintf("%s.r%d", sl, ri), true))
				next++
			}
			u.LastDelta = int32(next - 1 - u.Base)
			if _, ok := firstOpen[pid]; !ok {
				firstOpen[pid] = u.Base
			}
			open[pid] = append(open[pid], len(units))
			u.LSO = lso()
			units = append(units, u)
		case "marker":
			var cand []int64
			for _, pid := range pids {
				if _, ok := open[pid]; ok {
					cand = append(cand, pid)
				}
			}
			if len(cand) == 0 {
				continue
			}
			pid := cand[rapid.IntRange(0, len(cand)-1).Draw(t, sl+".mpid")]
			addMarker(pid, rapid.SampledFrom([]int{1, 1, 2}).Draw(t, sl+".outcome"))
		case "unknownCtl":
			if rapid.IntRange(0, 3).Draw(t, sl+".rare") == 0 {
				addMarker(pids[0], 3)
			}
		}
	}
	// close what is still open so that the whole log becomes stable (a separate draw leaves one transaction open)
	leaveOpen := rapid.IntRange(0, 4).Draw(t, label+".leaveOpen") == 0
	for _, pid := range pids {
		if _, ok := open[pid]; ok {
			if leaveOpen {
				leaveOpen = false
				continue
			}
			addMarker(pid, rapid.SampledFrom([]int{1, 2}).Draw(t, fmt.Sprintf("%s.final%d", label, pid)))
		}
	}
	return units
}

func vfConsSpec(id, emph string) vfcore.Spec {
	return vfcore.Spec{
		ID:  id,
		New: func() interface{} { return &vfConsCase{} },
		Gen: func(t *rapid.T) interface{} { return vfGenConsCase(t, emph) },
		Run: func(ci interface{}, r *vfcore.Rec) *vfcore.Failure {
			c := ci.(*vfConsCase)
			run := vfExecCons(c)
			if f := vfOracleCons(run, true); f != nil {
				return f
			}
			if id == "C18" {
				if f := vfOracleConsInterceptors(run); f != nil {
					return f
				}
			}
			vfClassifyCons(id, run, r)
			return nil
		},
	}
}

func vfClassifyCons(id string, run *vfConsRun, r *vfcore.Rec) {
	c := run.c
	r.Class("version=" + c.Version)
	r.Classf("parts=%d", len(c.Parts))
	units, faults, inside, partial := 0, 0, false, false
	kinds := map[string]bool{}
	aborted, committed, reuse := 0, 0, false
	for pi := range c.Parts {
		p := &c.Parts[pi]
		units += len(p.Units)
		seenPid := map[int64]int{}
		for ui := range p.Units {
			u := &p.Units[ui]
			kinds[u.Kind+"/"+vfsCodecNames[u.Codec]] = true
			if u.Control == 1 {
				aborted++
				seenPid[u.PID]++
			}
			if u.Control == 2 {
				committed++
				seenPid[u.PID]++
			}
			if p.Start > u.Base && len(u.Recs) > 1 && p.Start <= u.Recs[len(u.Recs)-1].Off {
				inside = true
			}
		}
		for _, n := range seenPid {
			if n >= 2 {
				reuse = true
			}
		}
		for _, f := range p.Faults {
			if f.Kind != "ok" || f.DelayUs > 0 {
				faults++
			}
		}
	}
	for k := range kinds {
		r.Class("unit=" + k)
	}
	for _, e := range run.sim.hist.snapshot() {
		if e.Kind == "fetch-part" && e.N > 0 {
			// a response that ends inside a unit: its size is not the sum of whole units. Approximated by: data served and more to come at the budget
			if len(e.Vals) >= 2 && int64(e.N) >= e.Vals[1] {
				partial = true
			}
		}
	}
	if inside {
		r.Class("start-inside-unit")
	}
	if partial {
		r.Class("partial-trailing")
	}
	if faults > 0 {
		r.Class("faults")
	}
	for _, e := range run.sim.hist.snapshot() {
		if e.Kind == "leader-move" {
			r.Class("leader-moved")
			break
		}
	}
	if run.slowFired {
		r.Class("slow-reader")
	}
	switch id {
	case "C03":
		if units >= 2 && (inside || partial || faults > 0 || run.slowFired) {
			r.NonTrivial("")
		}
	case "C11":
		if aborted >= 1 {
			r.Class("has-aborted")
		}
		if committed >= 1 {
			r.Class("has-committed")
		}
		if reuse {
			r.Class("pid-reuse")
		}
		if aborted >= 1 && committed >= 1 && (partial || reuse) {
			r.NonTrivial("")
		}
	case "C18":
		if run.slowFired {
			r.NonTrivial("")
		}
	}
}

// vfOracleConsInterceptors: every delivered message was seen exactly once by every interceptor, in configuration order.
func vfOracleConsInterceptors(run *vfConsRun) *vfcore.Failure {
	c := run.c
	type key struct {
		part int32
		off  int64
	}
	seen := map[key][]int{}
	for _, ic := range run.intercepts {
		seen[key{ic.Part, ic.Off}] = append(seen[key{ic.Part, ic.Off}], ic.Who)
	}
	want := make([]int, len(c.Interceptors))
	for i := range want {
		want[i] = i
	}
	for pi := range run.got {
		for _, g := range run.got[pi] {
			s := seen[key{int32(pi), g.Off}]
			if fmt.Sprint(s) != fmt.Sprint(want) {
				return run.fail("interceptor-invocations", "message %d/%d was seen by interceptors %v, expected exactly once each in order %v", pi, g.Off, s, want)
			}
			n := 0
			for _, h := range g.Hdrs {
				if len(h) >= 4 && h[:4] == `"ic"` {
					n++
				}
			}
			wantHdr := 0
			for _, k := range c.Interceptors {
				if k == "hdr" {
					wantHdr++
				}
			}
			if n != wantHdr {
				return run.fail("interceptor-mutation-count", "message %d/%d carries %d interceptor headers, expected %d (one application of each mutation)", pi, g.Off, n, wantHdr)
			}
		}
	}
	return nil
}

func TestVF_C03(t *testing.T)          { vfcore.Main(t, vfConsSpec("C03", "C03")) }
func TestVF_C11(t *testing.T)          { vfcore.Main(t, vfConsSpec("C11", "C11")) }
func TestVF_C18_Consumer(t *testing.T) { vfcore.Main(t, vfConsSpec("C18", "C18")) }
