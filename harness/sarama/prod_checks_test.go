//go:build go1.18 && verif

package sarama

// Oracles over a producer run and the TestVF_ entry points of C01, C02, C04, C05, C16.

import (
	"bytes"
	"encoding/json"
	"fmt"
	"os"
	"path/filepath"
	"sort"
	"strings"
	"testing"
	"time"

	"github.com/Shopify/sarama/internal/vfcore"
	"pgregory.net/rapid"
)

// vfProdRegions names the known-finding regions the *case* lies in (see known_findings.json).
func vfProdRegions(run *vfProdRun) []string { return vfProdRegionsAt(run, 1<<62) }

// vfProdRegionsAt computes the regions from what had happened BEFORE history position `before`: a symptom that shows
// before the first connection-level failure / epoch bump is not excused by one that comes later.
func vfProdRegionsAt(run *vfProdRun, before int64) []string {
	c := run.c
	var out []string
	perBroker := map[int32]int{}
	for _, t := range c.Topics {
		for _, l := range t.Leaders {
			perBroker[l]++
		}
	}
	multi := false
	for _, n := range perBroker {
		if n >= 2 {
			multi = true
		}
	}
	nFaults := 0
	for _, l := range c.Faults {
		for _, f := range l {
			if f.Kind != "ok" || f.MoveLeader != "" {
				nFaults++
			}
		}
	}
	moved := false
	for _, st := range c.Script {
		if st.Op == "moveLeader" || st.Op == "brokerDown" {
			moved = true
		}
	}
	if c.Conf.RetryMax == 0 && (nFaults > 0 || moved) {
		out = append(out, "retrymax0-after-fault")
		if multi {
			out = append(out, "retrymax0-abandon-shared-broker")
		}
	}
	if (c.Conf.FlushMessages > 1 || c.Conf.FlushBytes > 0) && c.Conf.FlushFreqUs == 0 {
		out = append(out, "flush-count-or-bytes-without-frequency")
	}
	if c.Conf.Idempotent {
		// history-based regions: what happened before the symptom
		connErr, bump := false, false
		epochOnWire, explained := int64(0), int64(0)
		// connection-level failure = the producer took its handleError path (hook event recorded by the client itself, before
		// it re-queues anything); position-aware like everything else here
		for _, e := range run.sim.hist.snapshot() {
			if e.Seq >= before {
				break
			}
			switch e.Kind {
			case "client-conn-error":
				connErr = true
			case "produce-part":
				if len(e.Vals) >= 8 && e.Vals[5] > epochOnWire {
					epochOnWire = e.Vals[5]
				}
			}
		}
		// An error outcome for a sequenced message bumps the epoch and zeroes every partition's sequence. The known defect
		// needs OTHER sequenced messages buffered or in flight at that moment; a bump on an otherwise idle producer is
		// outside the region. Error outcomes are taken from the whole history (they are collected with a lag); the bump
		// itself cannot precede the broker's processing of the last request that carried the failing message (bumpLo),
		// so only failures with bumpLo < before can have influenced what was on the wire at `before`.
		for _, e := range run.sim.hist.snapshot() {
			if e.Kind != "outcome" || e.Note == "" {
				continue
			}
			pending, bumpLo := vfOthersPendingAtBump(run, e.N, e.Seq)
			if bumpLo >= before {
				continue
			}
			if bumpLo >= 0 {
				explained++
			}
			if pending {
				bump = true
			}
		}
		if epochOnWire > explained {
			bump = true // an epoch on the wire whose cause was never collected: undecided, treated as inside
		}
		if connErr {
			out = append(out, "idem-conn-error")
		}
		if bump {
			out = append(out, "idem-epoch-bump")
		}
	}
	return out
}

// vfOthersPendingAtBump reports whether, when message f failed for good (its error outcome was recorded at errSeq), another
// message may have been buffered or in flight. Both bounds err on the side of "yes": the bump cannot have happened before
// the broker processed the last request that carried f (bumpLo), so a message is certainly finished only if its outcome
// was recorded before that; and it is certainly not yet in the pipeline only if its submission began after f's error
// outcome had been recorded. A message f that never reached a broker gives no lower bound at all.
func vfOthersPendingAtBump(run *vfProdRun, f int, errSeq int64) (pending bool, bumpLo int64) {
	evs := run.sim.hist.snapshot()
	bumpLo = -1
	for _, e := range evs {
		if e.Seq >= errSeq {
			break
		}
		if e.Kind == "produce-part" {
			for _, id := range e.Ids {
				if id == f {
					bumpLo = e.Seq
				}
			}
		}
	}
	began := map[int]bool{}
	done := map[int]bool{}
	for _, e := range evs {
		if e.Seq >= errSeq {
			break
		}
		switch e.Kind {
		case "submit-begin":
			began[e.N] = true
		case "outcome":
			if e.Seq < bumpLo {
				done[e.N] = true
			}
		}
	}
	for m := range began {
		if m != f && !done[m] {
			return true, bumpLo
		}
	}
	return false, bumpLo
}

func vfClassifyProd(run *vfProdRun, r *vfcore.Rec) (failedProduce bool, firstFailSeq int64) {
	c := run.c
	r.Class("version=" + c.Conf.Version)
	r.Class("codec=" + vfsCodecNames[c.Conf.Codec])
	r.Classf("retryMax=%d", c.Conf.RetryMax)
	r.Classf("acks=%d", c.Conf.Acks)
	if c.Conf.Idempotent {
		r.Class("idempotent")
	}
	if c.Sync > 0 {
		r.Class("sync")
	}
	if c.Delays != nil {
		r.Class("perturbed")
	}
	if !run.created {
		r.Class("create-failed")
	}
	firstFailSeq = -1
	for _, e := range run.sim.hist.snapshot() {
		switch e.Kind {
		case "produce-part":
			if e.Code != 0 || (e.Fault != "ok" && e.Fault != "") {
				failedProduce = true
				if firstFailSeq < 0 {
					firstFailSeq = e.Seq
				}
			}
		}
	}
	if failedProduce {
		r.Class("produce-failed")
	}
	return
}

// ------------------------------------------------------------------------------------ C01

func vfOracleC01(run *vfProdRun) *vfcore.Failure {
	c := run.c
	// every clause is judged; the failures are handed on together (Failure.Also) so that a symptom explained by a known
	// finding cannot hide one that is not
	var fails []*vfcore.Failure
	done := func() *vfcore.Failure {
		if len(fails) == 0 {
			return nil
		}
		fails[0].Also = append(fails[0].Also, fails[1:]...)
		return fails[0]
	}
	if len(run.panics) > 0 {
		fails = append(fails, run.fail("panic-in-pipeline", "PanicHandler caught: %v", run.panics))
	}
	if !run.created {
		return done()
	}
	if run.hang != "" {
		fails = append(fails, run.fail("hang", "%s (nothing pending in the simulator, no relevant event for %v)", run.hang, vfTq()))
	}
	if c.Sync > 0 {
		if len(fails) == 0 {
			return vfOracleC01Sync(run)
		}
		return done()
	}
	count := map[int][]vfOutcome{}
	stranger := false
	for _, o := range run.outcomes {
		if o.Stranger != "" {
			if !stranger {
				fails = append(fails, run.fail("stranger-event", "outcome %v: %s", map[bool]string{true: "success", false: "error"}[o.Ok], o.Stranger))
				stranger = true
			}
			continue
		}
		count[o.Idx] = append(count[o.Idx], o)
	}
	submitted := map[int]bool{}
	for _, i := range run.submitted {
		submitted[i] = true
	}
	double := false
	for idx, os := range count {
		if !submitted[idx] && !stranger {
			fails = append(fails, run.fail("stranger-event", "outcome for message %d which was never submitted", idx))
			stranger = true
		}
		if len(os) > 1 && !double {
			fails = append(fails, run.fail("double-outcome", "message %d got %d terminal events: %+v", idx, len(os), os))
			double = true
		}
	}
	if len(run.panics) > 0 || run.hang != "" {
		return done() // outcomes are missing by construction when the pipeline died or never finished
	}
	logged := vfLoggedIds(run)
	for _, i := range run.submitted {
		if len(count[i]) >= 1 {
			continue
		}
		if c.Conf.NoSuccesses {
			continue // only errors are observable: at most one
		}
		if c.CloseMode == "close" {
			// Close() drains Successes() itself, so a success delivered after Close was called is not observable;
			// such a message must at least be in the log (unless acks=0 hides the append result)
			if c.Conf.Acks == 0 || logged[i] {
				continue
			}
			fails = append(fails, run.fail("lost-outcome", "message %d: no terminal event, not returned by Close and not in any log", i))
			break
		}
		fails = append(fails, run.fail("lost-outcome", "message %d was accepted on Input() but no success or error event arrived before the channels closed", i))
		break
	}
	return done()
}

func vfLoggedIds(run *vfProdRun) map[int]bool {
	out := map[int]bool{}
	v := run.view()
	for _, log := range v.logs {
		for i := range log {
			out[vfIdentOf(&log[i])] = true
		}
	}
	return out
}

func vfOracleC01Sync(run *vfProdRun) *vfcore.Failure {
	c := run.c
	v := run.view()
	seen := map[int]int{}
	for _, r := range run.syncRets {
		if r.Idx < 0 {
			return run.fail("sync-stranger", "%s", r.Err)
		}
		seen[r.Idx]++
		if r.Err != "" {
			continue
		}
		spec := &c.Msgs[r.Idx]
		if c.Conf.Acks == 0 {
			continue
		}
		key := fmt.Sprintf("%s/%d", c.Topics[spec.Topic].Name, r.Part)
		log := v.logs[key]
		if r.Offset < 0 || r.Offset >= int64(len(log)) || vfIdentOf(&log[r.Offset]) != r.Idx {
			got := -99
			if r.Offset >= 0 && r.Offset < int64(len(log)) {
				got = vfIdentOf(&log[r.Offset])
			}
			return run.fail("sync-wrong-slot", "SendMessage(%d) returned success partition=%d offset=%d but that slot holds message %d", r.Idx, r.Part, r.Offset, got)
		}
	}
	for i := range c.Msgs {
		if seen[i] != 1 {
			return run.fail("sync-outcome-count", "message %d got %d returns", i, seen[i])
		}
	}
	return nil
}

// ------------------------------------------------------------------------------------ C02

func vfOracleC02(run *vfProdRun) *vfcore.Failure {
	c := run.c
	if !run.created || c.Sync > 1 {
		return nil
	}
	v := run.view()
	// (b) first copies in submission order (submission order = index order: one submitting goroutine)
	for key, log := range v.logs {
		maxFirst := -1
		seen := map[int]bool{}
		for i := range log {
			id := vfIdentOf(&log[i])
			if id < 0 || seen[id] {
				continue
			}
			seen[id] = true
			if id < maxFirst {
				return run.fail("reorder:first-copy", "partition %s: first copy of message %d (offset %d) comes after the first copy of message %d", key, id, log[i].Offset, maxFirst)
			}
			if id > maxFirst {
				maxFirst = id
			}
		}
	}
	// (a) successes: offsets strictly increase with submission index
	if c.Conf.Acks != 0 {
		type so struct {
			idx int
			off int64
		}
		byPart := map[string][]so{}
		outs := run.outcomes
		for _, r := range run.syncRets {
			if r.Err == "" {
				outs = append(outs, vfOutcome{Idx: r.Idx, Ok: true, Part: r.Part, Offset: r.Offset})
			}
		}
		for _, o := range outs {
			if !o.Ok || o.Idx < 0 {
				continue
			}
			key := fmt.Sprintf("%s/%d", c.Topics[c.Msgs[o.Idx].Topic].Name, o.Part)
			if c.Conf.Idempotent && c.Conf.DupAsError && vfAnsweredDuplicate(v, key, o.Idx) {
				continue // DUPLICATE_SEQUENCE_NUMBER carries no offset: the success has none to compare
			}
			byPart[key] = append(byPart[key], so{o.Idx, o.Offset})
		}
		for key, l := range byPart {
			sort.Slice(l, func(i, j int) bool { return l[i].idx < l[j].idx })
			for i := 1; i < len(l); i++ {
				if l[i].off <= l[i-1].off {
					return run.fail("reorder:success-offsets", "partition %s: message %d succeeded at offset %d, the later message %d at offset %d", key, l[i-1].idx, l[i-1].off, l[i].idx, l[i].off)
				}
			}
		}
	}
	return nil
}

// ------------------------------------------------------------------------------------ C04

func vfSameBytes(a, b []byte) bool {
	// Kafka's legacy formats cannot tell nil from empty for keys... they can (length -1 vs 0). Compare exactly,
	// except that sarama documents no distinction between a nil Encoder and one that encodes to nil.
	return bytes.Equal(a, b) && (a == nil) == (b == nil)
}

func vfRecordMatchesMsg(rec *vfsRecord, i int, run *vfProdRun) string {
	spec := &run.c.Msgs[i]
	wantK, wantV := vfMsgKey(i, spec), vfMsgValue(i, spec)
	pm := run.msgs[i]
	if enc, ok := pm.Value.(vfByteEnc); ok {
		wantV = []byte(enc) // interceptors may have replaced the value
	}
	if !bytes.Equal(rec.Key, wantK) {
		return fmt.Sprintf("key %q != submitted %q", rec.Key, wantK)
	}
	if (rec.Key == nil) != (wantK == nil) && rec.Magic == 2 {
		return fmt.Sprintf("key nil-ness differs (log nil=%v submitted nil=%v)", rec.Key == nil, wantK == nil)
	}
	if !bytes.Equal(rec.Value, wantV) {
		return fmt.Sprintf("value %q != submitted %q", rec.Value, wantV)
	}
	if (rec.Value == nil) != (wantV == nil) {
		return fmt.Sprintf("value nil-ness differs (log nil=%v submitted nil=%v)", rec.Value == nil, wantV == nil)
	}
	wantH := vfMsgHeaders(i, spec)
	if len(run.c.Conf.Interceptors) == 0 {
		if len(rec.Headers) != len(wantH) {
			return fmt.Sprintf("%d headers in the log, %d submitted", len(rec.Headers), len(wantH))
		}
		for h := range wantH {
			if !bytes.Equal(rec.Headers[h].K, wantH[h].Key) || !bytes.Equal(rec.Headers[h].V, wantH[h].Value) {
				return fmt.Sprintf("header %d differs: log (%q,%q) submitted (%q,%q)", h, rec.Headers[h].K, rec.Headers[h].V, wantH[h].Key, wantH[h].Value)
			}
		}
	}
	if spec.HasTs && rec.Magic >= 1 && !rec.LogAppend {
		want := (1500000000+int64(spec.TsOff))*1000 + int64(i%1000)
		if rec.TsMs != want {
			return fmt.Sprintf("timestamp %d != supplied %d", rec.TsMs, want)
		}
	}
	return ""
}

func vfOracleC04(run *vfProdRun) *vfcore.Failure {
	c := run.c
	if !run.created {
		return nil
	}
	v := run.view()
	// every clause is judged and the first failure of each kind is kept (Failure.Also): a symptom that a known finding
	// explains must not hide one that it does not
	var fails []*vfcore.Failure
	have := map[string]bool{}
	add := func(f *vfcore.Failure) {
		if !have[f.Symptom] {
			have[f.Symptom] = true
			fails = append(fails, f)
		}
	}
	// (3) wire validity of everything the brokers received
	if len(v.viol) > 0 {
		add(run.fail("client-wire-violation", "a broker received malformed data: %s (%s)", v.viol[0].Note, v.viol[0].Key))
	}
	// (2) nothing invented
	for key, log := range v.logs {
		for i := range log {
			id := vfIdentOf(&log[i])
			if id < 0 || id >= len(c.Msgs) {
				add(run.fail("invented-record", "partition %s offset %d holds a record the application did not submit: key=%q value=%q", key, log[i].Offset, log[i].Key, log[i].Value))
				continue
			}
			if why := vfRecordMatchesMsg(&log[i], id, run); why != "" {
				add(run.fail("altered-record", "partition %s offset %d (message %d): %s", key, log[i].Offset, id, why))
				continue
			}
			topic := strings.SplitN(key, "/", 2)[0]
			if c.Topics[c.Msgs[id].Topic].Name != topic {
				add(run.fail("wrong-topic", "message %d submitted to %s found in %s", id, c.Topics[c.Msgs[id].Topic].Name, key))
				continue
			}
		}
	}
	// (1) every success names its slot
	choice := map[int]vfPartChoice{}
	for _, ch := range run.choices {
		choice[ch.Idx] = ch
	}
	outs := append([]vfOutcome(nil), run.outcomes...)
	for _, r := range run.syncRets {
		if r.Err == "" {
			outs = append(outs, vfOutcome{Idx: r.Idx, Ok: true, Part: r.Part, Offset: r.Offset})
		}
	}
	for _, o := range outs {
		if !o.Ok || o.Idx < 0 {
			continue
		}
		spec := &c.Msgs[o.Idx]
		topic := c.Topics[spec.Topic]
		// all partitions have leaders in this generator, so offered = [0..n) and partition == choice
		if ch, ok := choice[o.Idx]; ok && !ch.Err && vfAllLeadersKnown(c) {
			if ch.N != int32(len(topic.Leaders)) {
				add(run.fail("partitioner-offered", "message %d: partitioner was offered %d partitions, topic has %d", o.Idx, ch.N, len(topic.Leaders)))
				continue
			}
			if o.Part != ch.Choice {
				add(run.fail("partition-mismatch", "message %d: partitioner chose %d, success reports partition %d", o.Idx, ch.Choice, o.Part))
				continue
			}
		}
		key := fmt.Sprintf("%s/%d", topic.Name, o.Part)
		log := v.logs[key]
		if c.Conf.Acks == 0 {
			continue // offset not defined without acknowledgements (documented)
		}
		found := false
		for i := range log {
			if vfIdentOf(&log[i]) == o.Idx {
				found = true
			}
		}
		if !found {
			add(run.fail("success-not-in-log", "message %d reported successful on %s but that log does not contain it", o.Idx, key))
			continue
		}
		if c.Conf.Idempotent && c.Conf.DupAsError {
			// a DUPLICATE_SEQUENCE_NUMBER answer carries no offset: exempt from the offset clause
			if vfAnsweredDuplicate(v, key, o.Idx) {
				continue
			}
		}
		if o.Offset < 0 || o.Offset >= int64(len(log)) || vfIdentOf(&log[o.Offset]) != o.Idx {
			got := -99
			if o.Offset >= 0 && o.Offset < int64(len(log)) {
				got = vfIdentOf(&log[o.Offset])
			}
			add(run.fail("success-wrong-offset", "message %d reported at %s offset %d, but that slot holds message %d", o.Idx, key, o.Offset, got))
			continue
		}
		if c.Conf.LogAppend && vfVersionAtLeast(c.Conf.Version, "0.10.0.0") {
			if o.TsMs < 1600000000000 {
				add(run.fail("logappend-timestamp", "message %d: broker answered with LogAppendTime but the success carries timestamp %d", o.Idx, o.TsMs))
				continue
			}
		}
	}
	if len(fails) == 0 {
		return nil
	}
	fails[0].Also = fails[1:]
	return fails[0]
}

func vfAllLeadersKnown(c *vfProdCase) bool {
	for _, t := range c.Topics {
		for _, l := range t.Leaders {
			if l < 0 {
				return false
			}
		}
	}
	// leader moves never make a partition leaderless in this generator
	return true
}

func vfAnsweredDuplicate(v *vfProdView, key string, idx int) bool {
	for _, e := range v.produces {
		if e.Key == "produce/"+key && e.Code == 46 {
			for _, id := range e.Ids {
				if id == idx {
					return true
				}
			}
		}
	}
	return false
}

// ------------------------------------------------------------------------------------ C05

func vfOracleC05(run *vfProdRun) *vfcore.Failure {
	c := run.c
	if !run.created || !c.Conf.Idempotent {
		return nil
	}
	v := run.view()
	// Every clause is judged on its own and all failures are handed on (Failure.Also): a symptom that a known finding
	// explains must not hide one that it does not.
	var fails []*vfcore.Failure
	// (1) nothing twice
dup:
	for key, log := range v.logs {
		at := map[int]int64{}
		for i := range log {
			id := vfIdentOf(&log[i])
			if prev, dup := at[id]; dup {
				fails = append(fails, run.fail("duplicate-in-log", "partition %s holds message %d twice (offsets %d and %d)", key, id, prev, log[i].Offset))
				break dup
			}
			at[id] = log[i].Offset
		}
	}
	// (2) successes exactly once (presence; uniqueness follows from (1))
	logged := vfLoggedIds(run)
	for _, o := range run.outcomes {
		if o.Ok && o.Idx >= 0 && !logged[o.Idx] {
			fails = append(fails, run.fail("success-not-in-log", "message %d reported successful but is in no log", o.Idx))
			break
		}
	}
	// (3) a batch that was on the wire comes again with the same records and the same first sequence: it must carry the same
	// epoch (batches are stamped when they are created; only messages re-queued one by one after a connection-level failure
	// are batched anew)
	type wkey struct {
		key   string
		pid   int64
		first int64
		ids   string
	}
	epochOf := map[wkey]int64{}
	for _, e := range v.produces {
		if len(e.Vals) < 8 || e.Vals[4] < 0 {
			continue
		}
		k := wkey{e.Key, e.Vals[4], e.Vals[6], fmt.Sprint(e.Ids)}
		if ep, seen := epochOf[k]; seen && ep != e.Vals[5] {
			fails = append(fails, run.failAt(e.Seq, "resend-under-other-epoch", "%s pid=%d: the batch with first sequence %d and messages %s was sent under epoch %d and again under epoch %d",
				e.Key, k.pid, k.first, k.ids, ep, e.Vals[5]))
			break
		}
		epochOf[k] = e.Vals[5]
	}
	// (4) sequence continuity per partition and epoch, as received; resends identical
	type bkey struct {
		key   string
		pid   int64
		epoch int64
	}
	type batch struct {
		first int64
		ids   string
		n     int
	}
	last := map[bkey]int64{}    // next expected sequence
	seenB := map[bkey][]batch{} // batches seen
seq:
	for _, e := range v.produces {
		if len(e.Vals) < 8 || e.Vals[4] < 0 {
			fails = append(fails, run.fail("no-producer-id", "idempotent producer sent a batch without producer id on %s", e.Key))
			break
		}
		k := bkey{e.Key, e.Vals[4], e.Vals[5]}
		first := e.Vals[6]
		ids := fmt.Sprint(e.Ids)
		resend := false
		for _, b := range seenB[k] {
			if b.first == first {
				resend = true
				if b.ids != ids {
					fails = append(fails, run.failAt(e.Seq+1, "resend-differs", "%s pid=%d epoch=%d: batch with first sequence %d was sent with messages %s and later with %s", e.Key, k.pid, k.epoch, first, b.ids, ids))
					break seq
				}
			}
		}
		if resend {
			continue
		}
		want := last[k]
		if first != want {
			fails = append(fails, run.failAt(e.Seq, "sequence-gap", "%s pid=%d epoch=%d: new batch starts at sequence %d, expected %d (messages %s)", e.Key, k.pid, k.epoch, first, want, ids))
			break
		}
		last[k] = first + int64(e.N)
		seenB[k] = append(seenB[k], batch{first, ids, e.N})
	}
	// Not judged: a broker answering OUT_OF_ORDER_SEQUENCE_NUMBER / INVALID_PRODUCER_EPOCH. After a batch fails for good, the
	// batches already sequenced behind it are legitimately refused (they end as errors, nothing is written twice).
	if len(fails) == 0 {
		return nil
	}
	fails[0].Also = fails[1:]
	return fails[0]
}

// ------------------------------------------------------------------------------------ C16

// vfMsgKVBytes: key + value bytes of message i as the producer has to send it, i.e. after the "pad" interceptors of the
// case (which enlarge every non-nil value by a fixed trailer each).
func vfMsgKVBytes(i int, c *vfProdCase) int {
	n := len(vfMsgKey(i, &c.Msgs[i])) + len(vfMsgValue(i, &c.Msgs[i]))
	if vfMsgValue(i, &c.Msgs[i]) != nil {
		for _, k := range c.Conf.Interceptors {
			if k == "pad" {
				n += len(vfPadBytes)
			}
		}
	}
	return n
}

// vfOnlyPads: the case has no interceptors other than "pad" (whose effect vfMsgKVBytes accounts for).
func vfOnlyPads(c *vfProdCase) bool {
	for _, k := range c.Conf.Interceptors {
		if k != "pad" {
			return false
		}
	}
	return true
}

func vfOracleC16(run *vfProdRun) *vfcore.Failure {
	c := run.c
	if !run.created {
		return nil
	}
	v := run.view()
	// group produce-part events by request (same conn, consecutive, Vals[3] = parts in request)
	type req struct {
		total int
		wire  int64
	}
	var reqs []req
	i := 0
	for i < len(v.produces) {
		e := v.produces[i]
		n := int(e.Vals[3])
		r := req{wire: e.Vals[2]}
		for j := 0; j < n && i+j < len(v.produces); j++ {
			pe := v.produces[i+j]
			r.total += pe.N
			kv := 0
			for _, id := range pe.Ids {
				if id >= 0 && id < len(c.Msgs) {
					kv += vfMsgKVBytes(id, c)
				}
			}
			if pe.N > 1 && kv > c.Conf.MaxMessageBytes {
				return run.fail("batch-over-maxmessagebytes", "%s: batch of %d messages carries %d key+value bytes, MaxMessageBytes=%d", pe.Key, pe.N, kv, c.Conf.MaxMessageBytes)
			}
		}
		i += n
		reqs = append(reqs, r)
	}
	maxReq := int64(MaxRequestSize)
	if c.Conf.MaxRequestSize > 0 {
		maxReq = int64(c.Conf.MaxRequestSize)
	}
	for _, r := range reqs {
		if c.Conf.FlushMaxMessages > 0 && r.total > c.Conf.FlushMaxMessages {
			return run.fail("request-over-maxmessages", "a produce request carried %d messages, Flush.MaxMessages=%d", r.total, c.Conf.FlushMaxMessages)
		}
		if r.wire > maxReq {
			return run.fail("request-over-maxrequestsize", "a produce request of %d bytes on the wire, MaxRequestSize=%d", r.wire, maxReq)
		}
	}
	if len(run.unflushed) > 0 {
		return run.fail("not-flushed", "messages %v stayed buffered although a flush trigger is configured (Flush.Messages=%d Bytes=%d Frequency=%dus): nothing pending, no event for %v",
			run.unflushed, c.Conf.FlushMessages, c.Conf.FlushBytes, c.Conf.FlushFreqUs, vfTq())
	}
	// oversize messages are rejected and never sent
	version := 1
	if vfVersionAtLeast(c.Conf.Version, "0.11.0.0") {
		version = 2
	}
	sent := map[int]bool{}
	for _, pe := range v.produces {
		for _, id := range pe.Ids {
			sent[id] = true
		}
	}
	outOf := map[int]vfOutcome{}
	for _, o := range run.outcomes {
		if o.Idx >= 0 {
			outOf[o.Idx] = o
		}
	}
	// nothing but latency happens in a calm run: a message that is within every limit has no reason to fail
	calm := run.calm()
	maxReqLimit := int64(MaxRequestSize)
	if c.Conf.MaxRequestSize > 0 {
		maxReqLimit = int64(c.Conf.MaxRequestSize)
	}
	for _, idx := range run.submitted {
		if o, ok := outOf[idx]; calm && ok && !o.Ok && vfOnlyPads(c) && !run.closedEarly {
			kv := int64(vfMsgKVBytes(idx, c))
			if kv+200 <= int64(c.Conf.MaxMessageBytes) && 2*(kv+1024) <= maxReqLimit && !strings.Contains(o.Err, "headers requires") {
				return run.fail("in-limits-message-failed", "message %d (%d key+value bytes; MaxMessageBytes=%d, MaxRequestSize=%d) failed with %q although nothing but latency happened", idx, kv, c.Conf.MaxMessageBytes, maxReqLimit, o.Err)
			}
		}
	}
	for _, idx := range run.submitted {
		over := 26
		if version == 2 {
			over = 36
			for _, h := range vfMsgHeaders(idx, &c.Msgs[idx]) {
				over += len(h.Key) + len(h.Value) + 10
			}
		}
		if o, ok := outOf[idx]; ok && !o.Ok && strings.Contains(o.Err, "Message was too large") && vfMsgKVBytes(idx, c)+over <= c.Conf.MaxMessageBytes && vfOnlyPads(c) && !sent[idx] {
			return run.fail("undersize-rejected", "message %d (%d key+value bytes, %d with the documented overhead) was rejected as too large for MaxMessageBytes=%d", idx, vfMsgKVBytes(idx, c), vfMsgKVBytes(idx, c)+over, c.Conf.MaxMessageBytes)
		}
		if vfMsgKVBytes(idx, c) > c.Conf.MaxMessageBytes {
			if sent[idx] {
				return run.fail("oversize-sent", "message %d has %d key+value bytes > MaxMessageBytes=%d but was sent to a broker", idx, vfMsgKVBytes(idx, c), c.Conf.MaxMessageBytes)
			}
			if o, ok := outOf[idx]; ok && vfOnlyPads(c) {
				if o.Ok {
					return run.fail("oversize-succeeded", "message %d exceeds MaxMessageBytes but was reported successful", idx)
				}
				if !strings.Contains(o.Err, "Message was too large") && !strings.Contains(o.Err, "headers requires") {
					return run.fail("oversize-wrong-error", "message %d exceeds MaxMessageBytes but failed with %q instead of ErrMessageSizeTooLarge", idx, o.Err)
				}
			}
		}
	}
	return nil
}

// ------------------------------------------------------------------------------------ entry points

func vfProdSpec(id, emph string, oracles ...func(*vfProdRun) *vfcore.Failure) vfcore.Spec {
	return vfcore.Spec{
		ID:  id,
		New: func() interface{} { return &vfProdCase{} },
		Gen: func(t *rapid.T) interface{} { return vfGenProdCase(t, emph) },
		Run: func(ci interface{}, r *vfcore.Rec) *vfcore.Failure {
			c := ci.(*vfProdCase)
			t0 := time.Now()
			run := vfExecProd(c)
			switch d := time.Since(t0); {
			case d < 10*time.Millisecond:
				r.Class("ms<10")
			case d < 50*time.Millisecond:
				r.Class("ms<50")
			case d < 300*time.Millisecond:
				r.Class("ms<300")
			}
			if d := time.Since(t0); d > 300*time.Millisecond {
				r.Class("slow>300ms")
				if vfcore.EnvInt("VF_TRACE_SLOW", 0) > 0 {
					fmt.Printf("SLOW %v readTimeout=%d close=%s sync=%d acks=%d retryMax=%d flush=%d/%d/%d brokers=%d hang=%q created=%v\n", d, c.Conf.ReadTimeoutMs, c.CloseMode, c.Sync, c.Conf.Acks, c.Conf.RetryMax, c.Conf.FlushMessages, c.Conf.FlushBytes, c.Conf.FlushFreqUs, c.Brokers, run.hang, run.created)
				}
			}
			r.Count("exec_ms", int64(time.Since(t0)/time.Millisecond))
			if dump := os.Getenv("VF_DUMP_HISTORY"); dump != "" {
				b, _ := json.MarshalIndent(map[string]interface{}{"case": c, "history": run.historyForFailure(), "symptom": "dump", "message": "history dump"}, "", " ")
				_ = os.WriteFile(dump, b, 0o644)
			}
			failed, firstFail := vfClassifyProd(run, r)
			// every oracle is consulted; the pipeline reports the first failure no known finding explains (Failure.Also)
			var first *vfcore.Failure
			for _, o := range oracles {
				if f := o(run); f != nil {
					if first == nil {
						first = f
					} else {
						first.Also = append(append(first.Also, f), f.Also...)
						f.Also = nil
					}
				}
			}
			if first != nil && first.Symptom == "not-flushed" && first.Also == nil && !vfcore.IsReplay() {
				// "Nothing was sent although a trigger has fired" is judged by the absence of any event, and one such event in
				// about 800 000 thorough cases could not be reproduced (1 800 replays of the case, also under load) nor explained
				// from its history. A stall that is a property of the case shows again when the case is run again; one that does
				// not is counted, kept for inspection, and not reported.
				again := 0
				for i := 0; i < 2 && again == 0; i++ {
					rerun := vfExecProd(c)
					for _, o := range oracles {
						if f := o(rerun); f != nil && f.Symptom == "not-flushed" {
							again++
						}
					}
				}
				if again == 0 {
					r.Count("unconfirmed:not-flushed", 1)
					if dir := os.Getenv("VF_FAILDIR"); dir != "" {
						b, _ := json.MarshalIndent(map[string]interface{}{"case": c, "history": first.History, "symptom": "unconfirmed:not-flushed", "message": first.Message}, "", " ")
						_ = os.WriteFile(filepath.Join(dir, "..", "unconfirmed-not-flushed-"+os.Getenv("VF_SHARD")+".json"), b, 0o644)
					}
					first = nil
				}
			}
			if first != nil {
				return first
			}
			vfNonTrivialProd(id, run, r, failed, firstFail)
			return nil
		},
	}
}

func vfNonTrivialProd(id string, run *vfProdRun, r *vfcore.Rec, failed bool, firstFail int64) {
	c := run.c
	if !run.created {
		return
	}
	v := run.view()
	switch id {
	case "C01", "C12":
		// >=1 produce request failed or lost its connection AND >=1 message was submitted after the first failure
		if failed {
			for _, e := range v.events {
				if e.Kind == "submit" && e.Seq > firstFail {
					r.NonTrivial("")
					r.Class("submit-during-retry")
					return
				}
			}
		}
		if c.Sync > 0 && failed {
			r.NonTrivial("")
		}
	case "C02":
		// >=2 messages of one partition in the log and >=1 produce for it failed or its leader moved
		for key, log := range v.logs {
			if len(log) < 2 {
				continue
			}
			for _, e := range v.events {
				if (e.Kind == "produce-part" && e.Key == "produce/"+key && (e.Code != 0 || e.Fault != "ok")) || (e.Kind == "leader-move" && e.Key == key) {
					r.NonTrivial("")
					return
				}
			}
		}
	case "C04":
		multi := false
		for _, e := range v.produces {
			if e.N >= 2 || e.Vals[3] >= 2 {
				multi = true
			}
		}
		if multi || c.Conf.Codec != 0 || failed {
			r.NonTrivial("")
		}
	case "C05":
		// >=1 resend whose original had been appended, or a batch sent under a later producer epoch
		seen := map[string]bool{}
		for _, e := range v.produces {
			if len(e.Vals) < 8 {
				continue
			}
			if e.Vals[5] > 0 {
				r.NonTrivial("")
				r.Class("sent-under-later-epoch")
				return
			}
			k := fmt.Sprintf("%s/%d/%d/%d", e.Key, e.Vals[4], e.Vals[5], e.Vals[6])
			if seen[k] {
				r.NonTrivial("")
				r.Class("resend-after-append")
				return
			}
			if e.Base > 0 || (e.Code == 0 && (e.Fault == "ok" || e.Fault == "dropAfter" || e.Fault == "silentApplied")) || e.Fault == "errApplied" {
				seen[k] = true
			}
		}
	case "C17":
		leaderless := false
		for _, tp := range c.Topics {
			for _, l := range tp.Leaders {
				if l < 0 {
					leaderless = true
				}
			}
		}
		if leaderless {
			r.Class("leaderless-subset")
		}
		r.Class("partitioner=" + c.Conf.Partitioner)
		if leaderless || c.Conf.Partitioner == "bad" || c.Conf.Partitioner == "hash" || c.Conf.Partitioner == "refhash" {
			r.NonTrivial("")
		}
	case "C18":
		// a message retried at least once
		if failed {
			r.NonTrivial("")
		}
	case "C16":
		// a size within +-8 bytes of a limit, or >=2 requests forced by a limit, or a lone-message flush probe that had to wait
		near := false
		for _, i := range run.submitted {
			kv := vfMsgKVBytes(i, c)
			for _, lim := range []int{c.Conf.MaxMessageBytes, c.Conf.MaxMessageBytes - 26, c.Conf.MaxMessageBytes - 36} {
				if kv-lim <= 8 && lim-kv <= 8 {
					near = true
				}
			}
		}
		if near {
			r.Class("size-near-limit")
		}
		if c.Conf.FlushMaxMessages > 0 && len(v.produces) >= 2 {
			r.Class("maxmessages-forced-split")
			near = true
		}
		if c.Conf.MaxRequestSize > 0 {
			r.Class("small-maxrequestsize")
		}
		if near {
			r.NonTrivial("")
		}
	}
}

func TestVF_C01(t *testing.T) { vfcore.Main(t, vfProdSpec("C01", "C01", vfOracleC01)) }
func TestVF_C02(t *testing.T) { vfcore.Main(t, vfProdSpec("C02", "C02", vfOracleC02)) }
func TestVF_C04(t *testing.T) { vfcore.Main(t, vfProdSpec("C04", "C04", vfOracleC04)) }

// ------------------------------------------------------------------------------------ C18 (producer half)

func vfOracleC18Prod(run *vfProdRun) *vfcore.Failure {
	c := run.c
	if !run.created {
		return nil
	}
	n := len(c.Conf.Interceptors)
	want := make([]int, n)
	for i := range want {
		want[i] = i
	}
	seen := map[int][]int{}
	for _, ic := range run.intercepts {
		if ic.Idx < 0 {
			return run.fail("interceptor-saw-stranger", "interceptor %d was invoked for a message the application did not submit (retries=%d flags=%d)", ic.Who, ic.Retries, ic.Flags)
		}
		if ic.Retries != 0 {
			return run.fail("interceptor-on-retry", "interceptor %d was invoked for message %d on a retry pass (retries=%d)", ic.Who, ic.Idx, ic.Retries)
		}
		seen[ic.Idx] = append(seen[ic.Idx], ic.Who)
	}
	for _, idx := range run.submitted {
		if fmt.Sprint(seen[idx]) != fmt.Sprint(want) {
			return run.fail("interceptor-invocations", "message %d was seen by interceptors %v, expected exactly once each in configuration order %v", idx, seen[idx], want)
		}
	}
	// one application of each mutation is visible in what the brokers stored
	wantHdr, wantMut := 0, 0
	for _, k := range c.Conf.Interceptors {
		switch k {
		case "hdr":
			wantHdr++
		case "mut":
			wantMut++
		}
	}
	v := run.view()
	for key, log := range v.logs {
		for i := range log {
			id := vfIdentOf(&log[i])
			if id < 0 || id >= len(c.Msgs) {
				continue
			}
			if log[i].Magic == 2 {
				got := 0
				for _, h := range log[i].Headers {
					if string(h.K) == "ic" {
						got++
					}
				}
				if got != wantHdr {
					return run.fail("interceptor-mutation-count", "%s offset %d (message %d) carries %d interceptor headers, expected %d", key, log[i].Offset, id, got, wantHdr)
				}
			}
			if c.Msgs[id].ValKind == 0 {
				base := len(vfMsgValue(id, &c.Msgs[id]))
				if len(log[i].Value)-base != wantMut {
					return run.fail("interceptor-mutation-count", "%s offset %d (message %d): value grew by %d bytes, expected %d (one per mutating interceptor)", key, log[i].Offset, id, len(log[i].Value)-base, wantMut)
				}
			}
		}
	}
	return nil
}

func TestVF_C18_Producer(t *testing.T) {
	vfcore.Main(t, vfProdSpec("C18", "C18", vfOracleC18Prod, vfOracleC01))
}

// ------------------------------------------------------------------------------------ C17 (routing)

func vfOracleC17Routing(run *vfProdRun) *vfcore.Failure {
	c := run.c
	if !run.created {
		return nil
	}
	if run.hang != "" {
		return run.fail("hang", "%s", run.hang)
	}
	v := run.view()
	sentTo := map[int]map[string]bool{}
	for _, e := range v.produces {
		for _, id := range e.Ids {
			if sentTo[id] == nil {
				sentTo[id] = map[string]bool{}
			}
			sentTo[id][strings.TrimPrefix(e.Key, "produce/")] = true
		}
	}
	outOf := map[int]vfOutcome{}
	for _, o := range run.outcomes {
		if o.Idx >= 0 {
			outOf[o.Idx] = o
		}
	}
	choice := map[int]vfPartChoice{}
	for _, ch := range run.choices {
		if _, dup := choice[ch.Idx]; dup {
			return run.fail("partitioner-asked-twice", "the partitioner was consulted twice for message %d", ch.Idx)
		}
		choice[ch.Idx] = ch
	}
	for _, idx := range run.submitted {
		spec := &c.Msgs[idx]
		topic := c.Topics[spec.Topic]
		keyed := spec.KeyKind != 0
		consistent := false
		switch c.Conf.Partitioner {
		case "manual":
			consistent = true
		case "hash", "refhash":
			consistent = keyed
		}
		var offered []int32
		for p, l := range topic.Leaders {
			if consistent || l >= 0 {
				offered = append(offered, int32(p))
			}
		}
		o, hasOut := outOf[idx]
		if !hasOut {
			return run.fail("lost-outcome", "message %d has no outcome", idx)
		}
		notSent := func(why string, wantErr string) *vfcore.Failure {
			if len(sentTo[idx]) > 0 {
				return run.fail("sent-despite-"+why, "message %d (%s) was sent to %v", idx, why, sentTo[idx])
			}
			if o.Ok {
				return run.fail("success-despite-"+why, "message %d (%s) was reported successful", idx, why)
			}
			if wantErr != "" && o.Err != wantErr && !strings.Contains(o.Err, "circuit breaker") {
				return run.fail("wrong-error-for-"+why, "message %d (%s) failed with %q, expected %q", idx, why, o.Err, wantErr)
			}
			return nil
		}
		ch, asked := choice[idx]
		if len(offered) == 0 {
			if f := notSent("no-partition-available", ErrLeaderNotAvailable.Error()); f != nil {
				return f
			}
			continue
		}
		if !asked {
			if strings.Contains(o.Err, "circuit breaker") {
				continue
			}
			return run.fail("partitioner-not-asked", "message %d: %d partitions could be offered but the partitioner was never consulted (outcome %q)", idx, len(offered), o.Err)
		}
		if int(ch.N) != len(offered) {
			return run.fail("partitioner-offered", "message %d (keyed=%v, partitioner %s): offered %d partitions, expected %d (%v)", idx, keyed, c.Conf.Partitioner, ch.N, len(offered), offered)
		}
		switch {
		case ch.Err:
			if f := notSent("partitioner-error", "vf: scripted partitioner error"); f != nil {
				return f
			}
		case ch.Choice < 0 || ch.Choice >= ch.N:
			if f := notSent("invalid-choice", ErrInvalidPartition.Error()); f != nil {
				return f
			}
		default:
			target := offered[ch.Choice]
			key := fmt.Sprintf("%s/%d", topic.Name, target)
			for k := range sentTo[idx] {
				if k != key {
					return run.fail("sent-to-wrong-partition", "message %d: partitioner chose index %d = partition %d, but it was sent to %s", idx, ch.Choice, target, k)
				}
			}
			if topic.Leaders[target] < 0 {
				if f := notSent("leaderless-target", ""); f != nil {
					return f
				}
				continue
			}
			if o.Ok && o.Part != target {
				return run.fail("partition-mismatch", "message %d: partitioner chose partition %d, success reports %d", idx, target, o.Part)
			}
			if o.Ok && !sentTo[idx][key] {
				return run.fail("success-without-send", "message %d reported successful on %s but no broker received it", idx, key)
			}
		}
	}
	return nil
}

func TestVF_C17_Routing(t *testing.T) {
	vfcore.Main(t, vfProdSpec("C17", "C17", vfOracleC17Routing, vfOracleC01))
}

func TestVF_C16(t *testing.T) { vfcore.Main(t, vfProdSpec("C16", "C16", vfOracleC16)) }
func TestVF_C05(t *testing.T) {
	vfcore.Main(t, vfProdSpec("C05", "C05", vfOracleC05, vfOracleC01))
}

var _ = time.Second
