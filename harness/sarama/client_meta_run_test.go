//go:build go1.18 && verif

package sarama

// C15 executor: builds the simulated cluster of a case, creates one client through the observing dialer and
// runs the step script (phase A sequential, phase B with reader goroutines), recording every API call with
// its answer and two stamps from the simulator's global event counter.

import (
	"fmt"
	"runtime"
	"sort"
	"sync"
	"sync/atomic"
	"time"

	"github.com/Shopify/sarama/internal/vfcore"
	metrics "github.com/rcrowley/go-metrics"
)

type vfc15Ans struct {
	Ids     []int32          `json:"ids,omitempty"`
	Names   []string         `json:"names,omitempty"`
	Brokers map[int32]string `json:"brokers,omitempty"`
	Leader  int32            `json:"leader,omitempty"`
	Addr    string           `json:"addr,omitempty"`
	Err     string           `json:"err,omitempty"`
	Created bool             `json:"created,omitempty"` // NewClient returned a client
}

type vfc15OpRec struct {
	Idx    int             `json:"idx"`
	Actor  string          `json:"actor"`
	Phase  string          `json:"phase"` // new | A | B | close
	Step   vfc15Step       `json:"step"`
	S      int64           `json:"s"`
	E      int64           `json:"e"`
	Ans    vfc15Ans        `json:"ans"`
	Health map[string]bool `json:"health,omitempty"` // address -> would answer a metadata request now (taken at S, sequential ops only)
	Conc   bool            `json:"conc,omitempty"`   // other actors may run during this op
}

type vfc15Run struct {
	c    *vfc15Case
	sim  *vfSim
	net  *vfc15Net
	cl   Client
	mu   sync.Mutex
	ops  []*vfc15OpRec
	nOps int64

	concurrent int32 // atomic: phase B running
	panicV     interface{}
	panicSite  string
	hang       string
	stacks     string
	mixed      string // probe: a reader holding the read lock saw metadata and derived lists of different states
	nProbes    int64
}

func vfc15ErrName(err error) string {
	if err == nil {
		return ""
	}
	if ke, ok := err.(KError); ok {
		return fmt.Sprintf("K%d", int16(ke))
	}
	if err == ErrOutOfBrokers {
		return "OOB"
	}
	return "other:" + err.Error()
}

func (c *vfc15Case) config(n *vfc15Net) *Config {
	conf := NewConfig()
	conf.Version = vfVersions[c.Version]
	conf.ClientID = "vf"
	conf.MetricRegistry = metrics.NewRegistry()
	conf.Net.Proxy.Enable = true
	conf.Net.Proxy.Dialer = n
	conf.Net.MaxOpenRequests = c.MaxOpen
	conf.Net.ReadTimeout = time.Duration(c.TimeoutMs) * time.Millisecond
	conf.Net.DialTimeout = time.Duration(c.TimeoutMs) * time.Millisecond
	conf.Net.WriteTimeout = time.Second
	conf.Metadata.Retry.Max = c.RetryMax
	conf.Metadata.Retry.Backoff = time.Millisecond
	conf.Metadata.RefreshFrequency = time.Duration(c.BgUs) * time.Microsecond
	conf.Metadata.Full = c.Full
	conf.Metadata.Timeout = 0
	return conf
}

func (run *vfc15Run) health() map[string]bool {
	s := run.sim
	type ent struct {
		id   int32
		addr string
		up   bool
	}
	var ents []ent
	s.mu.Lock()
	for id, b := range s.brokers {
		ents = append(ents, ent{id, b.Addr, b.Up})
	}
	s.mu.Unlock()
	h := map[string]bool{}
	for _, e := range ents {
		h[e.addr] = e.up && !s.vfc15PendingFault(e.id) && !run.net.staleConn(e.addr)
	}
	return h
}

func (run *vfc15Run) begin(actor, phase string, st *vfc15Step) *vfc15OpRec {
	rec := &vfc15OpRec{Actor: actor, Phase: phase, Step: *st}
	rec.Conc = run.c.BgUs > 0 || atomic.LoadInt32(&run.concurrent) != 0
	if !rec.Conc && (st.Op == "refresh" || st.Op == "read" || st.Op == "new") {
		rec.Health = run.health()
	}
	rec.S = run.net.stamp()
	return rec
}

func (run *vfc15Run) end(rec *vfc15OpRec) {
	rec.E = run.net.stamp()
	run.mu.Lock()
	rec.Idx = len(run.ops)
	run.ops = append(run.ops, rec)
	run.mu.Unlock()
	atomic.AddInt64(&run.nOps, 1)
}

// vfc15Copy keeps the order the client returned (Partitions/WritablePartitions must come back sorted).
func vfc15Copy(a []int32) []int32 { return append([]int32{}, a...) }

func (run *vfc15Run) doRead(actor, phase string, st *vfc15Step) {
	rec := run.begin(actor, phase, st)
	cl := run.cl
	var err error
	switch st.Kind {
	case "topics":
		var names []string
		names, err = cl.Topics()
		sort.Strings(names)
		rec.Ans.Names = names
	case "brokers":
		bs := cl.Brokers()
		rec.Ans.Brokers = map[int32]string{}
		for _, b := range bs {
			if _, dup := rec.Ans.Brokers[b.ID()]; dup {
				rec.Ans.Err = "other:duplicate broker id in Brokers()"
			}
			rec.Ans.Brokers[b.ID()] = b.Addr()
		}
	case "partitions":
		var ids []int32
		ids, err = cl.Partitions(st.Topic)
		rec.Ans.Ids = vfc15Copy(ids)
	case "writable":
		var ids []int32
		ids, err = cl.WritablePartitions(st.Topic)
		rec.Ans.Ids = vfc15Copy(ids)
	case "leader":
		var b *Broker
		b, err = cl.Leader(st.Topic, int32(st.Part))
		if b != nil {
			rec.Ans.Leader = b.ID()
			rec.Ans.Addr = b.Addr()
		} else if err == nil {
			rec.Ans.Err = "other:nil broker and nil error"
		}
	case "replicas":
		var ids []int32
		ids, err = cl.Replicas(st.Topic, int32(st.Part))
		rec.Ans.Ids = vfc15Copy(ids)
	case "isr":
		var ids []int32
		ids, err = cl.InSyncReplicas(st.Topic, int32(st.Part))
		rec.Ans.Ids = vfc15Copy(ids)
	case "offline":
		var ids []int32
		ids, err = cl.OfflineReplicas(st.Topic, int32(st.Part))
		rec.Ans.Ids = vfc15Copy(ids)
	}
	if rec.Ans.Err == "" {
		rec.Ans.Err = vfc15ErrName(err)
	}
	run.end(rec)
}

func (run *vfc15Run) doRefresh(actor, phase string, st *vfc15Step) {
	rec := run.begin(actor, phase, st)
	err := run.cl.RefreshMetadata(st.Topics...)
	rec.Ans.Err = vfc15ErrName(err)
	run.end(rec)
}

// sweep reads everything the model currently has (plus one partition id beyond each topic).
func (run *vfc15Run) doSweep(actor, phase string) {
	s := run.sim
	type tp struct {
		name string
		ids  []int32
	}
	var tps []tp
	s.mu.Lock()
	for name, t := range s.topics {
		ids := vfc15SortedPartIDs(t)
		if len(ids) > 0 {
			ids = append(ids, ids[len(ids)-1]+1)
		}
		tps = append(tps, tp{name, ids})
	}
	s.mu.Unlock()
	sort.Slice(tps, func(i, j int) bool { return tps[i].name < tps[j].name })
	run.doRead(actor, phase, &vfc15Step{Op: "read", Kind: "topics"})
	run.doRead(actor, phase, &vfc15Step{Op: "read", Kind: "brokers"})
	for _, t := range tps {
		run.doRead(actor, phase, &vfc15Step{Op: "read", Kind: "partitions", Topic: t.name})
		run.doRead(actor, phase, &vfc15Step{Op: "read", Kind: "writable", Topic: t.name})
		for _, id := range t.ids {
			for _, k := range []string{"leader", "replicas", "isr", "offline"} {
				run.doRead(actor, phase, &vfc15Step{Op: "read", Kind: k, Topic: t.name, Part: int(id)})
			}
		}
	}
}

func (run *vfc15Run) step(actor, phase string, st *vfc15Step) {
	switch st.Op {
	case "refresh":
		run.doRefresh(actor, phase, st)
	case "read":
		run.doRead(actor, phase, st)
	case "sweep":
		run.doSweep(actor, phase)
	case "sleep":
		us := st.DelayUs
		if us > 3000 {
			us = 3000
		}
		time.Sleep(time.Duration(us) * time.Microsecond)
	default:
		rec := &vfc15OpRec{Actor: actor, Phase: phase, Step: *st}
		rec.S = run.net.stamp()
		if st.Op == "downSeeds" {
			st = &vfc15Step{Op: "downSeeds", Topics: run.c.Seeds}
		}
		run.sim.vfc15Mutate(st)
		run.end(rec)
	}
}

const vfc15ReaderCap = 240

func (run *vfc15Run) script() {
	c := run.c
	run.net.register("main")
	for i := range c.Pre {
		if vfc15IsMutation(c.Pre[i].Op) {
			run.step("main", "pre", &c.Pre[i])
		}
	}
	conf := c.config(run.net)
	rec := run.begin("main", "new", &vfc15Step{Op: "new"})
	cl, err := NewClient(append([]string(nil), c.Seeds...), conf)
	rec.Ans.Err = vfc15ErrName(err)
	rec.Ans.Created = cl != nil && err == nil
	run.end(rec)
	if err != nil || cl == nil {
		return
	}
	run.cl = cl
	for i := range c.StepsA {
		run.step("main", "A", &c.StepsA[i])
	}
	if len(c.Readers) > 0 {
		atomic.StoreInt32(&run.concurrent, 1)
		var stop int32
		var wg sync.WaitGroup
		for ri := range c.Readers {
			reads := c.Readers[ri]
			if len(reads) == 0 {
				continue
			}
			name := fmt.Sprintf("r%d", ri)
			wg.Add(1)
			go func() {
				defer wg.Done()
				defer run.recoverPanic()
				run.net.register(name)
				for n := 0; n < vfc15ReaderCap && atomic.LoadInt32(&stop) == 0; n++ {
					st := reads[n%len(reads)]
					if st.Op == "read" {
						run.doRead(name, "B", &st)
					}
					runtime.Gosched()
					if n%8 == 7 {
						time.Sleep(30 * time.Microsecond)
					}
				}
			}()
		}
		if ic, ok := cl.(*client); ok {
			wg.Add(1)
			go func() {
				defer wg.Done()
				defer run.recoverPanic()
				run.probe(ic, &stop)
			}()
		}
		for i := range c.StepsB {
			run.step("main", "B", &c.StepsB[i])
		}
		atomic.StoreInt32(&stop, 1)
		wg.Wait()
		// the reader goroutines are gone; only the background updater (if any) still runs beside main
		atomic.StoreInt32(&run.concurrent, 0)
		run.doSweep("main", "A")
	}
	crec := &vfc15OpRec{Actor: "main", Phase: "close", Step: vfc15Step{Op: "close"}}
	crec.S = run.net.stamp()
	crec.Ans.Err = vfc15ErrName(cl.Close())
	run.end(crec)
	run.cl = nil
}

// probe is a reader like any other: it takes the client's read lock, as every read path does, and looks at the
// partition metadata and the derived partition lists together. Whatever a reader can see while it holds the lock must be
// one state: the lists of every stored topic are exactly the sorted ids (all / not LeaderNotAvailable) of its metadata.
// The public API never returns both in one call, so two API calls can show the same mixture only in a window of
// nanoseconds; the probe makes that window observable.
func (run *vfc15Run) probe(ic *client, stop *int32) {
	for n := 0; atomic.LoadInt32(stop) == 0; n++ {
		ic.lock.RLock()
		msg := ""
		if ic.metadata != nil {
			for name, parts := range ic.metadata {
				lists, ok := ic.cachedPartitionsResults[name]
				if !ok {
					msg = fmt.Sprintf("topic %q has partition metadata but no derived partition lists", name)
					break
				}
				var all, wr []int32
				for id, pm := range parts {
					all = append(all, id)
					if pm.Err != ErrLeaderNotAvailable {
						wr = append(wr, id)
					}
				}
				sort.Slice(all, func(a, b int) bool { return all[a] < all[b] })
				sort.Slice(wr, func(a, b int) bool { return wr[a] < wr[b] })
				if !vfc15EqIDs(all, lists[allPartitions]) || !vfc15EqIDs(wr, lists[writablePartitions]) {
					msg = fmt.Sprintf("topic %q: partition metadata has ids %v (writable %v) while the derived lists say %v (writable %v)", name, all, wr, lists[allPartitions], lists[writablePartitions])
					break
				}
			}
			if msg == "" {
				for name := range ic.cachedPartitionsResults {
					if _, ok := ic.metadata[name]; !ok {
						msg = fmt.Sprintf("derived partition lists exist for topic %q which has no partition metadata", name)
						break
					}
				}
			}
		}
		ic.lock.RUnlock()
		atomic.AddInt64(&run.nProbes, 1)
		if msg != "" {
			run.mu.Lock()
			if run.mixed == "" {
				run.mixed = msg
			}
			run.mu.Unlock()
			return
		}
		runtime.Gosched()
		if n%16 == 15 {
			time.Sleep(20 * time.Microsecond)
		}
	}
}

func (run *vfc15Run) recoverPanic() {
	if v := recover(); v != nil {
		run.mu.Lock()
		if run.panicV == nil {
			run.panicV = v
			run.panicSite = vfcore.PanicSite(v, "github.com/Shopify/sarama.", "vf")
		}
		run.mu.Unlock()
	}
}

// vfc15Exec runs the case under a watchdog that applies the quiescence rule: a hang is declared only when the
// script is still running, nothing is pending in the simulator and no harness-visible event happened for Tq.
func vfc15Exec(c *vfc15Case) *vfc15Run {
	run := &vfc15Run{c: c}
	sim := newVfSim(0)
	sim.hist.max = 0
	for _, b := range c.Brokers {
		sim.addBrokerAt(b.ID, b.Addr)
	}
	if len(c.Brokers) > 0 {
		sim.controller = c.Brokers[0].ID
	}
	for _, t := range c.Topics {
		ts := sim.addTopic(t.Name, t.Leaders)
		ts.Err = t.Err
	}
	run.sim = sim
	run.net = newVfc15Net(sim)
	run.net.bgOn = c.BgUs > 0

	prevPanic := PanicHandler
	PanicHandler = func(v interface{}) {
		run.mu.Lock()
		if run.panicV == nil {
			run.panicV = v
			run.panicSite = vfcore.PanicSite(v, "github.com/Shopify/sarama.", "vf")
		}
		run.mu.Unlock()
	}
	defer func() { PanicHandler = prevPanic }()

	done := make(chan struct{})
	go func() {
		defer close(done)
		defer run.recoverPanic()
		run.script()
	}()

	tq := vfTq()
	last := int64(-1)
	lastChange := time.Now()
	start := time.Now()
	tick := time.NewTicker(2 * time.Millisecond)
	defer tick.Stop()
loop:
	for {
		select {
		case <-done:
			break loop
		case <-tick.C:
		}
		p := atomic.LoadInt64(&run.net.progress) + atomic.LoadInt64(&run.nOps)
		if p != last || atomic.LoadInt64(&sim.pending) > 0 {
			last, lastChange = p, time.Now()
		}
		if time.Since(lastChange) > tq || time.Since(start) > 180*time.Second {
			run.hang = fmt.Sprintf("script did not finish: no harness-visible progress for %v (sim pending=%d)", time.Since(lastChange).Round(time.Millisecond), atomic.LoadInt64(&sim.pending))
			run.stacks = vfcore.Stacks()
			break loop
		}
	}
	if run.hang == "" && run.cl != nil {
		// a panic ended the script early: still close the client
		_ = run.cl.Close()
	}
	sim.shutdown()
	return run
}
