//go:build go1.18 && verif

package sarama

// Producer engine shared by C01, C02, C04, C05, C16, C17 (routing), C18 (producer half): one executor,
// several oracles over the same history. DESIGN.md section 4.

import (
	"bytes"
	"fmt"
	"sort"
	"strconv"
	"strings"
	"sync"
	"sync/atomic"
	"time"

	"github.com/Shopify/sarama/internal/vfcore"
	"github.com/rcrowley/go-metrics"
)

type vfProdConf struct {
	Version          string   `json:"version"`
	Codec            int      `json:"codec"`
	Level            int      `json:"level"` // -1000 = default
	Acks             int16    `json:"acks"`
	Idempotent       bool     `json:"idempotent"`
	RetryMax         int      `json:"retryMax"`
	BackoffUs        int      `json:"backoffUs"`
	FlushMessages    int      `json:"flushMessages"`
	FlushBytes       int      `json:"flushBytes"`
	FlushFreqUs      int      `json:"flushFreqUs"`
	FlushMaxMessages int      `json:"flushMaxMessages"`
	MaxMessageBytes  int      `json:"maxMessageBytes"`
	ChanBuf          int      `json:"chanBuf"`
	MaxOpen          int      `json:"maxOpen"`
	Partitioner      string   `json:"partitioner"` // manual | hash | refhash | roundrobin | random | bad
	ReadTimeoutMs    int      `json:"readTimeoutMs"`
	DupAsError       bool     `json:"dupAsError"`
	LogAppend        bool     `json:"logAppend"`
	MaxRequestSize   int32    `json:"maxRequestSize,omitempty"`
	NoSuccesses      bool     `json:"noSuccesses,omitempty"`
	Interceptors     []string `json:"interceptors,omitempty"` // C18: "hdr" | "mut" | "panic"; C16: "pad"
	MetaRetryMax     int      `json:"metaRetryMax"`
}

type vfTopicSpec struct {
	Name    string  `json:"name"`
	Leaders []int32 `json:"leaders"` // per partition; -1 = leaderless
}

type vfMsgSpec struct {
	Topic    int   `json:"topic"`
	Part     int32 `json:"part"`    // intended partition (manual partitioner) / scripted answer of the "bad" partitioner
	KeyKind  int   `json:"keyKind"` // 0 nil, 1 empty, 2 ident, 3 fixed small key ("a".."d")
	KeyLen   int   `json:"keyLen"`
	ValKind  int   `json:"valKind"` // 0 ident+pad, 1 nil, 2 empty
	ValLen   int   `json:"valLen"`
	NHeaders int   `json:"nHeaders"`
	HasTs    bool  `json:"hasTs"`
	TsOff    int   `json:"tsOff,omitempty"`  // supplied timestamp = base + TsOff seconds (not monotonic in submission order)
	BadErr   bool  `json:"badErr,omitempty"` // "bad" partitioner returns an error for this message
}

type vfStep struct {
	Op   string `json:"op"` // send | await | release | waitOutcomes | moveLeader | leaderless | brokerDown | brokerUp | sleep | hookBlock | hookWait | hookRelease
	A    int    `json:"a,omitempty"`
	B    int    `json:"b,omitempty"`
	Key  string `json:"key,omitempty"`
	Gate string `json:"gate,omitempty"`
}

type vfProdCase struct {
	Conf        vfProdConf           `json:"conf"`
	Brokers     int                  `json:"brokers"`
	Topics      []vfTopicSpec        `json:"topics"`
	Msgs        []vfMsgSpec          `json:"msgs"`
	Faults      map[string][]vfFault `json:"faults"`
	Script      []vfStep             `json:"script"`
	CloseMode   string               `json:"closeMode"`            // close | async
	Delays      map[string][]int     `json:"delays,omitempty"`     // hook point -> delay class per occurrence (mod len)
	FlushProbe  bool                 `json:"flushProbe,omitempty"` // C16: before closing, wait until every buffered message was sent (a configured trigger must fire without further input)
	C12         *vfC12Ctl            `json:"c12,omitempty"`
	StormDelays bool                 `json:"stormDelays,omitempty"`
	Recycle     bool                 `json:"recycle,omitempty"` // the application re-uses the message objects the producer hands back (C01/C05)
	Sync        int                  `json:"sync,omitempty"`    // >0: SyncProducer variant driven from this many goroutines
	SyncBatch   bool                 `json:"syncBatch,omitempty"`
}

type vfOutcome struct {
	Idx      int    `json:"idx"`
	Ok       bool   `json:"ok"`
	Err      string `json:"err,omitempty"`
	Part     int32  `json:"part"`
	Offset   int64  `json:"offset"`
	TsMs     int64  `json:"tsMs,omitempty"`
	Seq      int64  `json:"seq"`
	Stranger string `json:"stranger,omitempty"`
}

type vfPartChoice struct {
	Idx    int   `json:"idx"`
	N      int32 `json:"n"`
	Choice int32 `json:"choice"`
	Err    bool  `json:"err,omitempty"`
}

type vfProdRun struct {
	c           *vfProdCase
	sim         *vfSim
	msgs        []*ProducerMessage
	submitted   []int
	outcomes    []vfOutcome
	choices     []vfPartChoice
	mu          sync.Mutex
	nOutcomes   int64
	closedOK    bool
	hang        string
	stacks      string
	free        []*ProducerMessage // message objects handed back by the producer, for re-use (Recycle)
	created     bool
	createErr   string
	intercepts  []vfIntercept
	panics      []string
	syncRets    []vfSyncRet
	unflushed   []int
	abandoned   bool
	stop        *vfStopper
	eventsEnd   int64 // observable events when the script was over (dry run of C12)
	closedEarly bool
}

type vfIntercept struct {
	Who     int    `json:"who"`
	Idx     int    `json:"idx"` // -1: message the application did not submit
	Retries int    `json:"retries"`
	Flags   int    `json:"flags"`
	Seq     int64  `json:"seq"`
	Note    string `json:"note,omitempty"`
}

type vfSyncRet struct {
	Idx    int    `json:"idx"`
	Part   int32  `json:"part"`
	Offset int64  `json:"offset"`
	Err    string `json:"err,omitempty"`
}

var vfVersions = map[string]KafkaVersion{
	"0.8.2.0": V0_8_2_0, "0.9.0.0": V0_9_0_0, "0.10.0.0": V0_10_0_0, "0.10.2.0": V0_10_2_0,
	"0.11.0.0": V0_11_0_0, "1.0.0.0": V1_0_0_0, "2.1.0.0": V2_1_0_0, "2.8.0.0": V2_8_0_0,
}
var vfVersionList = []string{"0.8.2.0", "0.9.0.0", "0.10.0.0", "0.10.2.0", "0.11.0.0", "1.0.0.0", "2.1.0.0", "2.8.0.0"}

func vfMsgKey(i int, m *vfMsgSpec) []byte {
	switch m.KeyKind {
	case 0:
		return nil
	case 1:
		return []byte{}
	case 2:
		s := "k" + strconv.Itoa(i) + ":"
		for len(s) < m.KeyLen {
			s += "y"
		}
		return []byte(s)
	default:
		return []byte{byte('a' + m.KeyLen%4)}
	}
}

func vfMsgValue(i int, m *vfMsgSpec) []byte {
	switch m.ValKind {
	case 1:
		return nil
	case 2:
		return []byte{}
	}
	s := "m" + strconv.Itoa(i) + ":"
	b := make([]byte, 0, len(s)+m.ValLen)
	b = append(b, s...)
	for len(b) < m.ValLen {
		b = append(b, byte('a'+len(b)%26))
	}
	return b
}

func vfMsgHeaders(i int, m *vfMsgSpec) []RecordHeader {
	if m.NHeaders == 0 {
		return nil
	}
	out := make([]RecordHeader, m.NHeaders)
	for h := range out {
		out[h] = RecordHeader{Key: []byte("h" + strconv.Itoa(h)), Value: []byte("v" + strconv.Itoa(i) + "." + strconv.Itoa(h))}
		if h == 2 {
			out[h].Value = nil
		}
	}
	return out
}

// vfIdentOf maps a log record back to the submitted message index (-1 if it carries no identity).
func vfIdentOf(rec *vfsRecord) int {
	parse := func(p []byte, tag byte) int {
		if len(p) < 3 || p[0] != tag {
			return -1
		}
		j := bytes.IndexByte(p, ':')
		if j < 2 {
			return -1
		}
		n, err := strconv.Atoi(string(p[1:j]))
		if err != nil {
			return -1
		}
		return n
	}
	if id := parse(rec.Value, 'm'); id >= 0 {
		return id
	}
	return parse(rec.Key, 'k')
}

type vfByteEnc []byte

func (b vfByteEnc) Encode() ([]byte, error) { return b, nil }
func (b vfByteEnc) Length() int             { return len(b) }

// recording partitioner
type vfProdRecPartitioner struct {
	run   *vfProdRun
	inner Partitioner
	kind  string
}

func (p *vfProdRecPartitioner) Partition(msg *ProducerMessage, n int32) (int32, error) {
	idx, _ := msg.Metadata.(int)
	var choice int32
	var err error
	if p.kind == "bad" {
		spec := &p.run.c.Msgs[idx]
		if spec.BadErr {
			err = fmt.Errorf("vf: scripted partitioner error")
		}
		choice = spec.Part
	} else {
		choice, err = p.inner.Partition(msg, n)
	}
	p.run.mu.Lock()
	p.run.choices = append(p.run.choices, vfPartChoice{Idx: idx, N: n, Choice: choice, Err: err != nil})
	p.run.mu.Unlock()
	return choice, err
}

func (p *vfProdRecPartitioner) RequiresConsistency() bool {
	if p.kind == "bad" {
		return false
	}
	return p.inner.RequiresConsistency()
}

func (p *vfProdRecPartitioner) MessageRequiresConsistency(m *ProducerMessage) bool {
	if d, ok := p.inner.(DynamicConsistencyPartitioner); ok {
		return d.MessageRequiresConsistency(m)
	}
	return p.RequiresConsistency()
}

func (run *vfProdRun) partitionerFor(kind string) PartitionerConstructor {
	return func(topic string) Partitioner {
		var inner Partitioner
		switch kind {
		case "hash":
			inner = NewHashPartitioner(topic)
		case "refhash":
			inner = NewReferenceHashPartitioner(topic)
		case "roundrobin":
			inner = NewRoundRobinPartitioner(topic)
		case "random":
			inner = NewRandomPartitioner(topic)
		default:
			inner = NewManualPartitioner(topic)
		}
		return &vfProdRecPartitioner{run: run, inner: inner, kind: kind}
	}
}

func (c *vfProdCase) config(run *vfProdRun) *Config {
	conf := NewConfig()
	cc := &c.Conf
	conf.Version = vfVersions[cc.Version]
	conf.ClientID = "vf"
	conf.MetricRegistry = metrics.NewRegistry()
	conf.Net.Proxy.Enable = true
	conf.Net.Proxy.Dialer = run.sim.net
	conf.Net.MaxOpenRequests = cc.MaxOpen
	conf.Net.ReadTimeout = time.Duration(cc.ReadTimeoutMs) * time.Millisecond
	conf.Net.DialTimeout = time.Second
	conf.Net.WriteTimeout = time.Second
	conf.Metadata.Retry.Max = cc.MetaRetryMax
	conf.Metadata.Retry.Backoff = time.Millisecond
	conf.Metadata.RefreshFrequency = 0
	conf.ChannelBufferSize = cc.ChanBuf
	conf.Producer.RequiredAcks = RequiredAcks(cc.Acks)
	conf.Producer.Idempotent = cc.Idempotent
	conf.Producer.Retry.Max = cc.RetryMax
	conf.Producer.Retry.Backoff = time.Duration(cc.BackoffUs) * time.Microsecond
	conf.Producer.Flush.Messages = cc.FlushMessages
	conf.Producer.Flush.Bytes = cc.FlushBytes
	conf.Producer.Flush.Frequency = time.Duration(cc.FlushFreqUs) * time.Microsecond
	conf.Producer.Flush.MaxMessages = cc.FlushMaxMessages
	conf.Producer.MaxMessageBytes = cc.MaxMessageBytes
	conf.Producer.Compression = CompressionCodec(cc.Codec)
	if cc.Level != -1000 {
		conf.Producer.CompressionLevel = cc.Level
	}
	conf.Producer.Return.Successes = !cc.NoSuccesses
	conf.Producer.Return.Errors = true
	conf.Producer.Timeout = 100 * time.Millisecond
	conf.Producer.Partitioner = run.partitionerFor(cc.Partitioner)
	for i, kind := range cc.Interceptors {
		conf.Producer.Interceptors = append(conf.Producer.Interceptors, &vfProdInterceptor{run: run, who: i, kind: kind})
	}
	return conf
}

type vfProdInterceptor struct {
	run  *vfProdRun
	who  int
	kind string
}

func (pi *vfProdInterceptor) OnSend(msg *ProducerMessage) {
	idx := -1
	if v, ok := msg.Metadata.(int); ok && v >= 0 && v < len(pi.run.msgs) && pi.run.msgs[v] == msg {
		idx = v
	}
	pi.run.mu.Lock()
	pi.run.intercepts = append(pi.run.intercepts, vfIntercept{Who: pi.who, Idx: idx, Retries: msg.retries, Flags: int(msg.flags), Seq: atomic.LoadInt64(&pi.run.sim.hist.seq)})
	pi.run.mu.Unlock()
	switch pi.kind {
	case "hdr":
		msg.Headers = append(msg.Headers, RecordHeader{Key: []byte("ic"), Value: []byte(strconv.Itoa(pi.who))})
	case "mut":
		if b, ok := msg.Value.(vfByteEnc); ok && b != nil {
			msg.Value = vfByteEnc(append(append([]byte{}, b...), byte('A'+pi.who)))
		}
	case "pad":
		// enlarges the value (an envelope, a trailer): what the producer sends - and measures against its limits - is the
		// message as the interceptors leave it
		if b, ok := msg.Value.(vfByteEnc); ok && b != nil {
			msg.Value = vfByteEnc(append(append([]byte{}, b...), vfPadBytes...))
		}
	case "panic":
		if idx >= 0 && idx%2 == 0 {
			panic("vf: scripted interceptor panic")
		}
	}
}

var vfPadBytes = []byte("|0123456789abcdefghijklmnopqrstuvwxyz0123456789|") // 48 bytes

const vfTqQuick = 5 * time.Second

func vfTq() time.Duration {
	if ms := vfcore.EnvInt("VF_TQ_MS", 0); ms > 0 {
		return time.Duration(ms) * time.Millisecond
	}
	if vfcore.Tier() == "thorough" {
		return 8 * time.Second
	}
	return vfTqQuick
}

// waitQuiescent waits until done() is true. It gives up (returns false) only if the harness has nothing
// pending in the simulator and the relevant-event counter has not moved for Tq, or after an absolute cap.
func (run *vfProdRun) waitQuiescent(done func() bool, extraProgress func() int64) bool {
	tq := vfTq()
	last := int64(-1)
	lastChange := time.Now()
	start := time.Now()
	for {
		if done() {
			return true
		}
		p := run.sim.hist.progress() + atomic.LoadInt64(&run.nOutcomes)
		if extraProgress != nil {
			p += extraProgress()
		}
		if p != last || atomic.LoadInt64(&run.sim.pending) > 0 {
			last = p
			lastChange = time.Now()
		}
		if time.Since(lastChange) > tq {
			return false
		}
		if time.Since(start) > 120*time.Second {
			return false
		}
		time.Sleep(2 * time.Millisecond)
	}
}

// idleWait is a scheduling aid of the script (never an oracle): it waits for cond, but gives up as soon as
// nothing is pending in the simulator and no relevant event has happened for 40 ms (sarama timers in a case
// are <= 5 ms), or after 2 s.
func (run *vfProdRun) idleWait(cond func() bool) bool {
	start := time.Now()
	last := int64(-1)
	lastChange := time.Now()
	for !cond() {
		if run.stop.stopped() {
			return false
		}
		p := run.sim.hist.progress() + atomic.LoadInt64(&run.nOutcomes)
		if p != last || atomic.LoadInt64(&run.sim.pending) > atomic.LoadInt64(&run.sim.held) {
			last, lastChange = p, time.Now()
		}
		if time.Since(lastChange) > 40*time.Millisecond || time.Since(start) > 2*time.Second {
			return false
		}
		time.Sleep(100 * time.Microsecond)
	}
	return true
}

func vfSetupSim(c *vfProdCase) *vfSim {
	sim := newVfSim(c.Brokers)
	for _, t := range c.Topics {
		ts := sim.addTopic(t.Name, t.Leaders)
		ts.LogAppend = c.Conf.LogAppend
	}
	sim.dupAsError = c.Conf.DupAsError
	sim.identOf = vfIdentOf
	sim.setFaults(c.Faults)
	return sim
}

func (run *vfProdRun) buildMsgs() {
	c := run.c
	run.msgs = make([]*ProducerMessage, len(c.Msgs))
	for i := range c.Msgs {
		m := &c.Msgs[i]
		pm := &ProducerMessage{Topic: c.Topics[m.Topic].Name, Partition: m.Part, Metadata: i}
		if k := vfMsgKey(i, m); k != nil {
			pm.Key = vfByteEnc(k)
		}
		if v := vfMsgValue(i, m); v != nil {
			pm.Value = vfByteEnc(v)
		}
		pm.Headers = vfMsgHeaders(i, m)
		if m.HasTs {
			pm.Timestamp = time.Unix(1500000000+int64(m.TsOff), int64(i%1000)*int64(time.Millisecond))
		}
		run.msgs[i] = pm
	}
}

func (run *vfProdRun) record(msg *ProducerMessage, ok bool, err error) {
	o := vfOutcome{Idx: -1, Ok: ok}
	if msg == nil {
		o.Stranger = "nil message"
	} else {
		o.Part, o.Offset = msg.Partition, msg.Offset
		if !msg.Timestamp.IsZero() {
			o.TsMs = msg.Timestamp.UnixNano() / int64(time.Millisecond)
		}
		run.mu.Lock() // (run.msgs[i] is replaced by the submitting goroutine when message objects are recycled)
		idx, isInt := msg.Metadata.(int)
		own := isInt && idx >= 0 && idx < len(run.msgs) && run.msgs[idx] == msg
		run.mu.Unlock()
		if own {
			o.Idx = idx
		} else {
			o.Stranger = fmt.Sprintf("event for a message the application did not submit (topic=%q partition=%d metadata=%v flags=%d)", msg.Topic, msg.Partition, msg.Metadata, msg.flags)
		}
	}
	if err != nil {
		o.Err = err.Error()
	}
	o.Seq = run.sim.ev(vfEvent{Kind: "outcome", N: o.Idx, Note: o.Err}, true)
	run.mu.Lock()
	run.outcomes = append(run.outcomes, o)
	if run.c.Recycle && msg != nil && o.Idx >= 0 {
		run.free = append(run.free, msg)
	}
	run.mu.Unlock()
	atomic.AddInt64(&run.nOutcomes, 1)
}

// vfExecProd runs the case against the real producer.
func vfExecProd(c *vfProdCase) *vfProdRun {
	run := &vfProdRun{c: c}
	run.sim = vfSetupSim(c)
	defer run.sim.shutdown()
	run.buildMsgs()
	restoreHooks := vfInstallHooks(c.Delays, run.sim)
	defer restoreHooks()
	run.stop = newVfStopper(c.C12, run.sim)
	defer run.stop.finish()
	if c.Conf.MaxRequestSize > 0 {
		old := MaxRequestSize
		MaxRequestSize = c.Conf.MaxRequestSize
		defer func() { MaxRequestSize = old }()
	}
	oldPH := PanicHandler
	PanicHandler = func(v interface{}) {
		run.mu.Lock()
		run.panics = append(run.panics, fmt.Sprintf("%v\n%s", v, vfShortStack()))
		run.mu.Unlock()
	}
	defer func() { PanicHandler = oldPH }()

	conf := c.config(run)
	if err := conf.Validate(); err != nil {
		run.createErr = "invalid config: " + err.Error()
		return run
	}
	if c.Sync > 0 {
		run.sim.noGates = true
		run.execSync(conf)
		return run
	}
	p, err := NewAsyncProducer(run.sim.seedAddrs(), conf)
	if err != nil {
		run.createErr = err.Error()
		return run
	}
	run.created = true

	var wg sync.WaitGroup
	var succClosed, errClosed int32
	wg.Add(2)
	go func() {
		defer wg.Done()
		for m := range p.Successes() {
			run.record(m, true, nil)
		}
		atomic.StoreInt32(&succClosed, 1)
	}()
	go func() {
		defer wg.Done()
		for e := range p.Errors() {
			if e == nil {
				run.record(nil, false, fmt.Errorf("nil ProducerError"))
				continue
			}
			run.record(e.Msg, false, e.Err)
		}
		atomic.StoreInt32(&errClosed, 1)
	}()

	var stepProgress int64
	var hookBlocks map[string]*vfHookBlock
	stuck := false
	for _, st := range c.Script {
		if stuck || run.stop.stopped() {
			break
		}
		atomic.AddInt64(&stepProgress, 1)
		switch st.Op {
		case "send":
			for i := st.A; i < st.B && i < len(run.msgs) && !stuck && !run.stop.stopped(); i++ {
				sent := int32(0)
				msg := run.msgs[i]
				if c.Recycle {
					// an application that recycles message objects: what the producer handed back (on Successes() / Errors())
					// is filled with the next message and submitted again; the producer must treat it like a fresh object
					run.mu.Lock()
					var old *ProducerMessage
					if n := len(run.free); n > 0 {
						old, run.free = run.free[n-1], run.free[:n-1]
					}
					run.mu.Unlock()
					if old != nil {
						old.Topic, old.Key, old.Value, old.Headers, old.Metadata = msg.Topic, msg.Key, msg.Value, msg.Headers, msg.Metadata
						old.Partition, old.Timestamp, old.Offset = msg.Partition, msg.Timestamp, 0
						run.mu.Lock()
						run.msgs[i] = old
						run.mu.Unlock()
						msg = old
					}
				}
				okc := make(chan struct{})
				run.sim.ev(vfEvent{Kind: "submit-begin", N: i}, false) // recorded before the message can be in the pipeline
				go func() {
					select {
					case p.Input() <- msg:
						atomic.StoreInt32(&sent, 1)
					case <-run.stop.ch:
						atomic.StoreInt32(&sent, 2) // the feeder stops: this message is never submitted
					}
					close(okc)
				}()
				// a send that blocks because the pipeline waits for a response the script still holds at a gate would
				// only end at the client's read timeout: hand the held responses out instead (scheduling aid, not an oracle)
				for w := 0; atomic.LoadInt32(&sent) == 0 && w < 200; w++ {
					time.Sleep(100 * time.Microsecond)
				}
				if atomic.LoadInt32(&sent) == 0 && atomic.LoadInt64(&run.sim.held) > 0 {
					run.sim.releaseHeld()
				}
				if !run.waitQuiescent(func() bool { return atomic.LoadInt32(&sent) != 0 }, func() int64 { return atomic.LoadInt64(&stepProgress) }) {
					run.hang = fmt.Sprintf("Input() blocked forever while submitting message %d", i)
					run.stacks = vfcore.Stacks()
					stuck = true
					break
				}
				<-okc
				if atomic.LoadInt32(&sent) == 2 {
					break
				}
				run.submitted = append(run.submitted, i)
				run.sim.ev(vfEvent{Kind: "submit", N: i}, true)
			}
		case "await":
			run.idleWait(func() bool { return run.sim.occOf(st.Key) >= st.A })
		case "release":
			run.sim.release(st.Gate)
		case "waitOutcomes":
			want := int64(st.A)
			run.idleWait(func() bool { return atomic.LoadInt64(&run.nOutcomes) >= want })
		case "moveLeader":
			parts := strings.Split(st.Key, "/")
			pn, _ := strconv.Atoi(parts[1])
			run.sim.moveLeader(parts[0], int32(pn), int32(st.A))
		case "leaderless":
			parts := strings.Split(st.Key, "/")
			pn, _ := strconv.Atoi(parts[1])
			run.sim.moveLeader(parts[0], int32(pn), -1)
		case "hookBlock":
			// directed window: the A-th hit of hook point Key blocks (for at most B ms) until "hookRelease"
			if hs, ok := vfHooks.Load().(*vfHookState); ok && hs != nil {
				if hookBlocks == nil {
					hookBlocks = map[string]*vfHookBlock{}
				}
				hookBlocks[st.Key] = hs.blockAt(st.Key, st.A, time.Duration(st.B)*time.Millisecond)
			}
		case "hookWait":
			// scheduling aid, not an oracle: go on when the point was reached, or after B ms if it never is
			if b := hookBlocks[st.Key]; b != nil {
				select {
				case <-b.reached:
				case <-time.After(time.Duration(st.B) * time.Millisecond):
				case <-run.stop.ch:
				}
			}
		case "hookRelease":
			if b := hookBlocks[st.Key]; b != nil {
				b.release()
			}
		case "brokerDown":
			run.sim.setBrokerUp(int32(st.A), false)
		case "brokerUp":
			run.sim.setBrokerUp(int32(st.A), true)
		case "sleep":
			time.Sleep(time.Duration(st.A) * time.Microsecond)
		}
	}
	for _, b := range hookBlocks {
		b.release()
	}
	run.eventsEnd = vfEventCount(run.sim)
	run.closedEarly = run.stop.stopped()
	// the script is over: nothing stays held
	run.sim.mu.Lock()
	for _, g := range run.sim.gates {
		select {
		case <-g:
		default:
			close(g)
		}
	}
	run.sim.mu.Unlock()

	if stuck {
		// leave the producer; it is wedged
		return run
	}
	if c.FlushProbe && c.flushGuaranteed() {
		pendingIdx := func() []int {
			done := map[int]bool{}
			for _, e := range run.sim.hist.snapshot() {
				switch e.Kind {
				case "produce-part":
					for _, id := range e.Ids {
						done[id] = true
					}
				case "outcome":
					done[e.N] = true
				}
			}
			var out []int
			for _, i := range run.submitted {
				if !done[i] {
					out = append(out, i)
				}
			}
			return out
		}
		if !run.waitQuiescent(func() bool { return len(pendingIdx()) == 0 }, nil) {
			run.unflushed = pendingIdx()
			run.stacks = vfcore.Stacks()
		}
	}
	if c.FlushProbe && !c.flushGuaranteed() {
		// count/bytes trigger without a frequency: a partly filled buffer legitimately stays put ("messages may not get
		// flushed", Config.Validate) and Close would wait for it for ever (known finding KF-C01-4, judged by C01/C12, not here):
		// if anything is still buffered the producer is abandoned instead of closed.
		run.idleWait(func() bool { return false })
		unsentNow := func() (unsent []int, kv int) {
			sentOrDone := map[int]bool{}
			for _, e := range run.sim.hist.snapshot() {
				if e.Kind == "produce-part" {
					for _, id := range e.Ids {
						sentOrDone[id] = true
					}
				} else if e.Kind == "outcome" {
					sentOrDone[e.N] = true
				}
			}
			for _, i := range run.submitted {
				if !sentOrDone[i] {
					unsent = append(unsent, i)
					kv += vfMsgKVBytes(i, c)
				}
			}
			return
		}
		// ... unless a trigger has certainly fired. Buffers are per broker and the partition of an unsent message is not
		// observable, so the count and the bytes are judged by pigeonhole over the brokers; key+value bytes are a lower bound
		// of what the producer counts per message. One buffer per broker only holds while nothing but latency happens: after
		// a failed request (a leader moved) a broker can have a second, abandoned worker with a buffer of its own.
		fired := func(unsent []int, kv int) bool {
			cc := &c.Conf
			nb := c.Brokers
			return nb > 0 && len(unsent) > 0 && ((cc.FlushMessages > 0 && len(unsent) >= nb*(cc.FlushMessages-1)+1) || (cc.FlushBytes > 0 && kv >= nb*cc.FlushBytes))
		}
		unsent, kv := unsentNow()
		if fired(unsent, kv) && run.calm() {
			// idleWait above is a scheduling aid with a wall-clock cap (the first version of this clause judged right after it,
			// which on a loaded machine reported messages that were merely still on their way): the verdict needs the
			// quiescence rule - nothing pending in the simulator and no relevant event for Tq
			if !run.waitQuiescent(func() bool { u, k := unsentNow(); return !fired(u, k) }, nil) {
				unsent, kv = unsentNow()
				if fired(unsent, kv) && run.calm() {
					run.unflushed = unsent
					run.stacks = vfcore.Stacks()
				}
			}
			unsent, kv = unsentNow()
		}
		if len(unsent) > 0 {
			run.abandoned = true
		}
		if run.abandoned {
			return run
		}
	}
	closeDone := int32(0)
	if c.CloseMode == "async" {
		p.AsyncClose()
		go func() { wg.Wait(); atomic.StoreInt32(&closeDone, 1) }()
	} else {
		go func() {
			// Close() drains both channels itself; our collectors compete for the events, which the API allows
			if err := p.Close(); err != nil {
				if pes, ok := err.(ProducerErrors); ok {
					for _, pe := range pes {
						run.record(pe.Msg, false, pe.Err)
					}
				} else {
					run.record(nil, false, fmt.Errorf("Close returned a non-ProducerErrors error: %v", err))
				}
			}
			wg.Wait()
			atomic.StoreInt32(&closeDone, 1)
		}()
	}
	if !run.waitQuiescent(func() bool { return atomic.LoadInt32(&closeDone) == 1 }, nil) {
		run.hang = fmt.Sprintf("%s did not complete: successes closed=%v errors closed=%v", map[string]string{"async": "AsyncClose+drain", "close": "Close"}[c.CloseMode],
			atomic.LoadInt32(&succClosed) == 1, atomic.LoadInt32(&errClosed) == 1)
		run.stacks = vfcore.Stacks()
		return run
	}
	run.closedOK = true
	return run
}

// flushGuaranteed: does the configuration promise that a buffered message is sent without further input?
// (no trigger configured = immediately; a frequency = when it elapses; Messages==1 = every message reaches the count)
func (c *vfProdCase) flushGuaranteed() bool {
	cc := &c.Conf
	if cc.FlushMessages == 0 && cc.FlushBytes == 0 && cc.FlushFreqUs == 0 {
		return true
	}
	return cc.FlushFreqUs > 0 || cc.FlushMessages == 1
}

// ---------------------------------------------------------------------------------------------
// SyncProducer variant

func (run *vfProdRun) execSync(conf *Config) {
	c := run.c
	conf.Producer.Return.Successes = true
	sp, err := NewSyncProducer(run.sim.seedAddrs(), conf)
	if err != nil {
		run.createErr = err.Error()
		return
	}
	run.created = true
	// messages are dealt to the senders round-robin; each sender sends its share in index order
	var wg sync.WaitGroup
	var done int64
	for g := 0; g < c.Sync; g++ {
		wg.Add(1)
		go func(g int) {
			defer wg.Done()
			var mine []int
			for i := g; i < len(run.msgs); i += c.Sync {
				mine = append(mine, i)
			}
			if c.SyncBatch {
				for len(mine) > 0 {
					k := 3
					if k > len(mine) {
						k = len(mine)
					}
					batch := mine[:k]
					mine = mine[k:]
					var ms []*ProducerMessage
					for _, i := range batch {
						ms = append(ms, run.msgs[i])
					}
					err := sp.SendMessages(ms)
					failed := map[*ProducerMessage]string{}
					if err != nil {
						if pes, ok := err.(ProducerErrors); ok {
							for _, pe := range pes {
								failed[pe.Msg] = pe.Err.Error()
							}
						} else {
							for _, m := range ms {
								failed[m] = "non-ProducerErrors: " + err.Error()
							}
						}
					}
					run.mu.Lock()
					for _, i := range batch {
						m := run.msgs[i]
						run.submitted = append(run.submitted, i)
						run.syncRets = append(run.syncRets, vfSyncRet{Idx: i, Part: m.Partition, Offset: m.Offset, Err: failed[m]})
						delete(failed, m)
					}
					for m, e := range failed {
						run.syncRets = append(run.syncRets, vfSyncRet{Idx: -1, Err: fmt.Sprintf("ProducerErrors names a message outside the call (%v): %s", m.Metadata, e)})
					}
					run.mu.Unlock()
					atomic.AddInt64(&done, int64(len(batch)))
				}
				return
			}
			for _, i := range mine {
				part, off, err := sp.SendMessage(run.msgs[i])
				r := vfSyncRet{Idx: i, Part: part, Offset: off}
				if err != nil {
					r.Err = err.Error()
				}
				run.mu.Lock()
				run.submitted = append(run.submitted, i)
				run.syncRets = append(run.syncRets, r)
				run.mu.Unlock()
				atomic.AddInt64(&done, 1)
				run.sim.ev(vfEvent{Kind: "sync-return", N: i, Note: r.Err}, true)
			}
		}(g)
	}
	allDone := int32(0)
	go func() { wg.Wait(); atomic.StoreInt32(&allDone, 1) }()
	if !run.waitQuiescent(func() bool { return atomic.LoadInt32(&allDone) == 1 }, func() int64 { return atomic.LoadInt64(&done) }) {
		run.hang = "SendMessage/SendMessages did not return"
		run.stacks = vfcore.Stacks()
		return
	}
	closeDone := int32(0)
	go func() { _ = sp.Close(); atomic.StoreInt32(&closeDone, 1) }()
	if !run.waitQuiescent(func() bool { return atomic.LoadInt32(&closeDone) == 1 }, nil) {
		run.hang = "SyncProducer.Close did not return"
		run.stacks = vfcore.Stacks()
		return
	}
	run.closedOK = true
}

// ---------------------------------------------------------------------------------------------
// history helpers for the oracles

type vfProdView struct {
	logs     map[string][]vfsRecord // "topic/part" -> log
	produces []vfEvent
	viol     []vfEvent
	events   []vfEvent
}

func (run *vfProdRun) view() *vfProdView {
	v := &vfProdView{logs: map[string][]vfsRecord{}}
	run.sim.mu.Lock()
	for name, t := range run.sim.topics {
		for id, p := range t.Parts {
			v.logs[fmt.Sprintf("%s/%d", name, id)] = append([]vfsRecord(nil), p.Log...)
		}
	}
	run.sim.mu.Unlock()
	v.events = run.sim.hist.snapshot()
	for _, e := range v.events {
		switch e.Kind {
		case "produce-part":
			v.produces = append(v.produces, e)
		case "client-wire-violation":
			v.viol = append(v.viol, e)
		}
	}
	return v
}

func (run *vfProdRun) historyForFailure() interface{} {
	v := run.view()
	type logDump struct {
		Part string `json:"part"`
		Ids  []int  `json:"ids"`
	}
	var logs []logDump
	var keys []string
	for k := range v.logs {
		keys = append(keys, k)
	}
	sort.Strings(keys)
	for _, k := range keys {
		var ids []int
		for i := range v.logs[k] {
			ids = append(ids, vfIdentOf(&v.logs[k][i]))
		}
		logs = append(logs, logDump{k, ids})
	}
	ev := v.events
	if len(ev) > 400 {
		ev = ev[len(ev)-400:]
	}
	out := map[string]interface{}{"submitted": run.submitted, "outcomes": run.outcomes, "logs": logs, "events": ev, "choices": run.choices,
		"hang": run.hang, "createErr": run.createErr, "panics": run.panics}
	if run.syncRets != nil {
		out["syncReturns"] = run.syncRets
	}
	if run.intercepts != nil {
		out["intercepts"] = run.intercepts
	}
	if run.stacks != "" {
		s := run.stacks
		if len(s) > 300000 {
			s = s[:300000]
		}
		out["goroutines"] = s
	}
	return out
}

// failAt is fail for a symptom that shows at a known history position: only what happened before it defines the region.
// calm reports that nothing but latency happened in this run: no failing answer was scripted, the script moved no leader
// and bounced no broker, and the producer never took its connection-level failure path.
func (run *vfProdRun) calm() bool {
	for _, st := range run.c.Script {
		if st.Op == "moveLeader" || st.Op == "brokerDown" || st.Op == "leaderless" {
			return false
		}
	}
	for _, l := range run.c.Faults {
		for _, f := range l {
			if f.Kind != "ok" || f.MoveLeader != "" {
				return false
			}
		}
	}
	for _, e := range run.sim.hist.snapshot() {
		if e.Kind == "client-conn-error" {
			return false
		}
	}
	return true
}

func (run *vfProdRun) failAt(before int64, symptom, format string, a ...interface{}) *vfcore.Failure {
	f := run.fail(symptom, format, a...)
	f.Regions = vfProdRegionsAt(run, before)
	return f
}

func (run *vfProdRun) fail(symptom, format string, a ...interface{}) *vfcore.Failure {
	f := vfcore.Failf(symptom, format, a...)
	f.History = run.historyForFailure()
	f.Regions = vfProdRegions(run)
	return f
}
