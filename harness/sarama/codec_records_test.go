//go:build go1.18 && verif

package sarama

// C09 layer 3 (a): models, the harness's OWN writer and OWN parser for the record
// formats, written from the Kafka protocol definition ("Message sets" / "Record
// batch" sections of the protocol guide, KIP-31/32, KIP-98) and independent of
// message.go, message_set.go, record.go, record_batch.go, records.go, length_field.go,
// crc32_field.go:
//
//	legacy message set  := { offset INT64, message_size INT32, message }*
//	message (magic 0)   := crc UINT32 (IEEE, over magic..end), magic INT8, attributes INT8, key BYTES, value BYTES
//	message (magic 1)   := crc, magic, attributes, timestamp INT64, key, value
//	   attributes: bits 0-2 codec (0 none 1 gzip 2 snappy 3 lz4), bit 3 timestamp type (magic 1)
//	   compressed wrapper: value = codec(message set); inner offsets absolute (magic 0) / relative 0..n-1 (magic 1)
//	record batch (v2)   := base_offset INT64, batch_length INT32, partition_leader_epoch INT32, magic INT8 (=2),
//	                       crc UINT32 (Castagnoli, over attributes..end), attributes INT16, last_offset_delta INT32,
//	                       first_timestamp INT64, max_timestamp INT64, producer_id INT64, producer_epoch INT16,
//	                       base_sequence INT32, record_count INT32, records (codec applied to the concatenation)
//	   attributes: bits 0-2 codec (+4 zstd), bit 3 timestamp type, bit 4 transactional, bit 5 control
//	record              := length VARINT, attributes INT8, timestamp_delta VARLONG, offset_delta VARINT,
//	                       key_length VARINT (-1 null), key, value_length VARINT, value, header_count VARINT,
//	                       { key_length VARINT, key, value_length VARINT, value }*
//
// Compression uses the same third-party libraries sarama links (stdlib gzip, xerial
// snappy, pierrec lz4, klauspost zstd) through the harness's own instances; compressed
// payloads are compared after decompression.

import (
	"bytes"
	"compress/gzip"
	"errors"
	"fmt"
	"hash/crc32"
	"io"
	"sort"

	snappy "github.com/eapache/go-xerial-snappy"
	rawsnappy "github.com/golang/snappy"
	"github.com/klauspost/compress/zstd"
	"github.com/pierrec/lz4"
)

// ---------------------------------------------------------------- models (plain data)

type vfMHeader struct {
	Key   []byte `json:"k"` // nil = null
	Value []byte `json:"v"`
}

type vfMRecord struct {
	Attr     int8        `json:"attr"`
	TsDelta  int64       `json:"tsd"` // milliseconds, may be negative
	OffDelta int64       `json:"od"`
	Key      []byte      `json:"key"` // nil = null, empty = empty
	Value    []byte      `json:"val"`
	Headers  []vfMHeader `json:"hdr,omitempty"`
}

type vfMBatch struct {
	FirstOffset     int64       `json:"first_offset"`
	LeaderEpoch     int32       `json:"leader_epoch"`
	Codec           int8        `json:"codec"`
	Level           int         `json:"level"` // not on the wire; CompressionLevelDefault = -1000
	Control         bool        `json:"control,omitempty"`
	LogAppend       bool        `json:"log_append,omitempty"`
	Txn             bool        `json:"txn,omitempty"`
	LastOffsetDelta int32       `json:"last_offset_delta"`
	FirstTs         int64       `json:"first_ts"` // ms, -1 = none
	MaxTs           int64       `json:"max_ts"`
	ProducerID      int64       `json:"pid"`
	ProducerEpoch   int16       `json:"pepoch"`
	FirstSeq        int32       `json:"first_seq"`
	Records         []vfMRecord `json:"records"`
}

type vfMMessage struct {
	Magic     int8       `json:"magic"`
	Codec     int8       `json:"codec"`
	Level     int        `json:"level"`
	LogAppend bool       `json:"log_append,omitempty"`
	Ts        int64      `json:"ts"` // magic 1 only; -1 = none
	Key       []byte     `json:"key"`
	Value     []byte     `json:"val"`             // plain message payload
	Inner     []vfMBlock `json:"inner,omitempty"` // compressed wrapper: the inner set (Value unused)
	Wrapper   bool       `json:"wrapper,omitempty"`
}

type vfMBlock struct {
	Offset int64      `json:"offset"`
	Msg    vfMMessage `json:"msg"`
}

type vfMSet struct {
	Blocks []vfMBlock `json:"blocks"`
}

// vfMRecords is what sits in one "records" field: a legacy set or one v2 batch.
type vfMRecords struct {
	Set   *vfMSet   `json:"set,omitempty"`
	Batch *vfMBatch `json:"batch,omitempty"`
}

// ---------------------------------------------------------------- normal form for comparison

func vfNormBatch(b *vfMBatch) {
	b.Level = 0
	if len(b.Records) == 0 {
		b.Records = nil
	}
	for i := range b.Records {
		if len(b.Records[i].Headers) == 0 {
			b.Records[i].Headers = nil
		}
	}
}

func vfNormSet(s *vfMSet) {
	if len(s.Blocks) == 0 {
		s.Blocks = nil
	}
	for i := range s.Blocks {
		m := &s.Blocks[i].Msg
		m.Level = 0
		if m.Magic == 0 {
			m.Ts = 0
		}
		if m.Wrapper {
			in := vfMSet{Blocks: m.Inner}
			vfNormSet(&in)
			m.Inner = in.Blocks
		} else {
			m.Inner = nil
		}
	}
}

func vfNormRecords(r *vfMRecords) {
	if r.Set != nil {
		vfNormSet(r.Set)
	}
	if r.Batch != nil {
		vfNormBatch(r.Batch)
	}
}

// ---------------------------------------------------------------- compression (harness instances)

var (
	vfZstdEnc, _ = zstd.NewWriter(nil, zstd.WithZeroFrames(true))
	vfZstdDec, _ = zstd.NewReader(nil)
)

var vfXerialMagic = []byte{130, 'S', 'N', 'A', 'P', 'P', 'Y', 0}

const vfLevelDefault = -1000

func vfCompress(codec int8, level int, data []byte) ([]byte, error) {
	switch codec {
	case 0:
		return data, nil
	case 1:
		var buf bytes.Buffer
		lv := gzip.DefaultCompression
		if level != vfLevelDefault {
			lv = level
		}
		zw, err := gzip.NewWriterLevel(&buf, lv)
		if err != nil {
			return nil, err
		}
		if _, err := zw.Write(data); err != nil {
			return nil, err
		}
		if err := zw.Close(); err != nil {
			return nil, err
		}
		return buf.Bytes(), nil
	case 2:
		return snappy.Encode(data), nil
	case 3:
		var buf bytes.Buffer
		zw := lz4.NewWriter(&buf)
		if _, err := zw.Write(data); err != nil {
			return nil, err
		}
		if err := zw.Close(); err != nil {
			return nil, err
		}
		return buf.Bytes(), nil
	case 4:
		return vfZstdEnc.EncodeAll(data, nil), nil
	}
	return nil, fmt.Errorf("vf: no codec %d", codec)
}

func vfDecompress(codec int8, data []byte) ([]byte, error) {
	switch codec {
	case 0:
		return data, nil
	case 1:
		zr, err := gzip.NewReader(bytes.NewReader(data))
		if err != nil {
			return nil, err
		}
		return io.ReadAll(zr)
	case 2:
		// Kafka accepts the xerial-framed stream and the plain snappy block; the pinned
		// xerial library refuses any input shorter than its 8-byte magic, which a plain
		// block of fewer than 6 bytes of data is, so plain blocks go to snappy directly
		if len(data) < len(vfXerialMagic) || !bytes.Equal(data[:len(vfXerialMagic)], vfXerialMagic) {
			return rawsnappy.Decode(nil, data)
		}
		return snappy.Decode(data)
	case 3:
		return io.ReadAll(lz4.NewReader(bytes.NewReader(data)))
	case 4:
		return vfZstdDec.DecodeAll(data, nil)
	}
	return nil, fmt.Errorf("vf: no codec %d", codec)
}

// ---------------------------------------------------------------- own writer

var vfCastagnoli = crc32.MakeTable(crc32.Castagnoli)

func vfWriteRecord(w *vfW, r *vfMRecord) {
	var body vfW
	body.site = "record"
	body.vfI8(r.Attr)
	body.vfVarint(r.TsDelta)
	body.vfVarint(r.OffDelta)
	body.vfVBytes(r.Key)
	body.vfVBytes(r.Value)
	o := len(body.b)
	body.vfPutUvarint(vfZigZag(int64(len(r.Headers))))
	body.vfLog(o, vfKVCount)
	for i := range r.Headers {
		body.vfVBytes(r.Headers[i].Key)
		body.vfVBytes(r.Headers[i].Value)
	}
	w.site = "record"
	o = len(w.b)
	w.vfPutUvarint(vfZigZag(int64(len(body.b))))
	w.vfLog(o, vfKVSize)
	w.vfAppend(&body)
}

// vfWriteBatch writes one v2 record batch. The field log covers the uncompressed
// header; for compressed batches the records area is one vfKData field.
func vfWriteBatch(w *vfW, b *vfMBatch) error {
	w.site = "batch"
	w.vfI64(b.FirstOffset)
	lenAt := w.vfReserve32(vfKSize)
	w.vfI32(b.LeaderEpoch)
	w.vfI8(2)
	crcAt := w.vfReserve32(vfKCRC)
	attr := int16(b.Codec) & 0x07
	if b.LogAppend {
		attr |= 0x08
	}
	if b.Txn {
		attr |= 0x10
	}
	if b.Control {
		attr |= 0x20
	}
	w.vfI16(attr)
	w.vfI32(b.LastOffsetDelta)
	w.vfI64(b.FirstTs)
	w.vfI64(b.MaxTs)
	w.vfI64(b.ProducerID)
	w.vfI16(b.ProducerEpoch)
	w.vfI32(b.FirstSeq)
	w.vfArrayLen(len(b.Records))
	var recs vfW
	for i := range b.Records {
		vfWriteRecord(&recs, &b.Records[i])
	}
	if b.Codec == 0 {
		w.vfAppend(&recs)
	} else {
		c, err := vfCompress(b.Codec, b.Level, recs.b)
		if err != nil {
			return err
		}
		w.site = "batch.compressed-records"
		w.vfData(c)
	}
	w.vfPatch32(lenAt, uint32(len(w.b)-lenAt-4))
	w.vfPatch32(crcAt, crc32.Checksum(w.b[crcAt+4:], vfCastagnoli))
	return nil
}

func vfWriteMessage(w *vfW, m *vfMMessage) error {
	w.site = "message"
	crcAt := w.vfReserve32(vfKCRC)
	w.vfI8(m.Magic)
	attr := m.Codec & 0x07
	if m.LogAppend {
		attr |= 0x08
	}
	w.vfI8(attr)
	if m.Magic >= 1 {
		w.vfI64(m.Ts)
	}
	w.vfBytes(m.Key)
	if m.Wrapper {
		var in vfW
		if err := vfWriteSet(&in, &vfMSet{Blocks: m.Inner}); err != nil {
			return err
		}
		if in.b == nil {
			in.b = []byte{}
		}
		c, err := vfCompress(m.Codec, m.Level, in.b)
		if err != nil {
			return err
		}
		if c == nil {
			c = []byte{}
		}
		w.site = "message.compressed-set"
		w.vfBytes(c)
	} else {
		w.vfBytes(m.Value)
	}
	w.vfPatch32(crcAt, crc32.ChecksumIEEE(w.b[crcAt+4:]))
	return nil
}

func vfWriteSet(w *vfW, s *vfMSet) error {
	for i := range s.Blocks {
		w.site = "messageset"
		w.vfI64(s.Blocks[i].Offset)
		sizeAt := w.vfReserve32(vfKSize)
		if err := vfWriteMessage(w, &s.Blocks[i].Msg); err != nil {
			return err
		}
		w.vfPatch32(sizeAt, uint32(len(w.b)-sizeAt-4))
	}
	return nil
}

func vfWriteRecords(w *vfW, r *vfMRecords) error {
	if r.Set != nil {
		return vfWriteSet(w, r.Set)
	}
	if r.Batch != nil {
		return vfWriteBatch(w, r.Batch)
	}
	return nil
}

// ---------------------------------------------------------------- own parser

var vfErrParse = errors.New("vf record parser")

func vfPErr(format string, a ...interface{}) error {
	return fmt.Errorf("%w: %s", vfErrParse, fmt.Sprintf(format, a...))
}

func vfParseRecord(rd *vfRd) (vfMRecord, error) {
	var r vfMRecord
	n, err := rd.vfVarint()
	if err != nil {
		return r, vfPErr("record length: %v", err)
	}
	if n < 0 || n > int64(rd.vfRemaining()) {
		return r, vfPErr("record length %d with %d bytes left", n, rd.vfRemaining())
	}
	body, _ := rd.vfRaw(int(n))
	br := vfRd{b: body}
	if r.Attr, err = br.vfI8(); err != nil {
		return r, vfPErr("record attributes: %v", err)
	}
	if r.TsDelta, err = br.vfVarint(); err != nil {
		return r, vfPErr("timestamp delta: %v", err)
	}
	if r.OffDelta, err = br.vfVarint(); err != nil {
		return r, vfPErr("offset delta: %v", err)
	}
	if r.Key, err = br.vfVBytes(); err != nil {
		return r, vfPErr("record key: %v", err)
	}
	if r.Value, err = br.vfVBytes(); err != nil {
		return r, vfPErr("record value: %v", err)
	}
	hc, err := br.vfVarint()
	if err != nil {
		return r, vfPErr("header count: %v", err)
	}
	if hc < 0 || hc > int64(br.vfRemaining()) {
		return r, vfPErr("header count %d", hc)
	}
	for i := int64(0); i < hc; i++ {
		var h vfMHeader
		if h.Key, err = br.vfVBytes(); err != nil {
			return r, vfPErr("header key: %v", err)
		}
		if h.Value, err = br.vfVBytes(); err != nil {
			return r, vfPErr("header value: %v", err)
		}
		r.Headers = append(r.Headers, h)
	}
	if br.vfRemaining() != 0 {
		return r, vfPErr("record length %d but the record fields occupy %d bytes", n, br.off)
	}
	return r, nil
}

// vfParseBatch parses exactly one v2 batch at rd and checks every redundancy the
// format has: batch length, magic, CRC-32C over attributes..end, record count versus
// records present, per-record varint length, no bytes left over, reserved attribute
// bits zero, last offset delta not below the largest record offset delta.
func vfParseBatch(rd *vfRd) (*vfMBatch, error) {
	b := &vfMBatch{}
	var err error
	if b.FirstOffset, err = rd.vfI64(); err != nil {
		return nil, vfPErr("base offset: %v", err)
	}
	blen, err := rd.vfI32()
	if err != nil {
		return nil, vfPErr("batch length: %v", err)
	}
	if blen < 49 || int(blen) > rd.vfRemaining() {
		return nil, vfPErr("batch length %d with %d bytes left (minimum 49)", blen, rd.vfRemaining())
	}
	raw, _ := rd.vfRaw(int(blen))
	br := vfRd{b: raw}
	b.LeaderEpoch, _ = br.vfI32()
	magic, _ := br.vfI8()
	if magic != 2 {
		return nil, vfPErr("batch magic %d", magic)
	}
	crc, _ := br.vfU32()
	if got := crc32.Checksum(raw[br.off:], vfCastagnoli); got != crc {
		return nil, vfPErr("batch CRC-32C %#x, computed %#x over attributes..end", crc, got)
	}
	attr, _ := br.vfI16()
	if attr&^0x3f != 0 {
		return nil, vfPErr("reserved attribute bits set: %#x", attr)
	}
	b.Codec = int8(attr & 0x07)
	if b.Codec > 4 {
		return nil, vfPErr("unknown codec %d", b.Codec)
	}
	b.LogAppend = attr&0x08 != 0
	b.Txn = attr&0x10 != 0
	b.Control = attr&0x20 != 0
	b.LastOffsetDelta, _ = br.vfI32()
	b.FirstTs, _ = br.vfI64()
	b.MaxTs, _ = br.vfI64()
	b.ProducerID, _ = br.vfI64()
	b.ProducerEpoch, _ = br.vfI16()
	b.FirstSeq, _ = br.vfI32()
	count, err := br.vfI32()
	if err != nil {
		return nil, vfPErr("record count: %v", err)
	}
	if count < 0 {
		return nil, vfPErr("record count %d", count)
	}
	area, err := vfDecompress(b.Codec, raw[br.off:])
	if err != nil {
		return nil, vfPErr("records do not decompress with codec %d: %v", b.Codec, err)
	}
	rr := vfRd{b: area}
	var maxDelta int64 = -1
	for i := int32(0); i < count; i++ {
		rec, err := vfParseRecord(&rr)
		if err != nil {
			return nil, fmt.Errorf("record %d of %d: %w", i, count, err)
		}
		if rec.OffDelta > maxDelta {
			maxDelta = rec.OffDelta
		}
		b.Records = append(b.Records, rec)
	}
	if rr.vfRemaining() != 0 {
		return nil, vfPErr("%d bytes left after %d records", rr.vfRemaining(), count)
	}
	if count > 0 && int64(b.LastOffsetDelta) < maxDelta {
		return nil, vfPErr("last offset delta %d below the largest record offset delta %d", b.LastOffsetDelta, maxDelta)
	}
	return b, nil
}

func vfParseMessage(raw []byte, depth int) (vfMMessage, error) {
	var m vfMMessage
	rd := vfRd{b: raw}
	crc, err := rd.vfU32()
	if err != nil {
		return m, vfPErr("message crc: %v", err)
	}
	if got := crc32.ChecksumIEEE(raw[4:]); got != crc {
		return m, vfPErr("message CRC-32 %#x, computed %#x over magic..end", crc, got)
	}
	if m.Magic, err = rd.vfI8(); err != nil {
		return m, vfPErr("magic: %v", err)
	}
	if m.Magic != 0 && m.Magic != 1 {
		return m, vfPErr("legacy message with magic %d", m.Magic)
	}
	attr, err := rd.vfI8()
	if err != nil {
		return m, vfPErr("attributes: %v", err)
	}
	if attr&^0x0f != 0 {
		return m, vfPErr("reserved attribute bits set: %#x", attr)
	}
	m.Codec = attr & 0x07
	m.LogAppend = attr&0x08 != 0
	if m.Magic == 1 {
		if m.Ts, err = rd.vfI64(); err != nil {
			return m, vfPErr("timestamp: %v", err)
		}
	}
	if m.Key, err = rd.vfBytes(); err != nil {
		return m, vfPErr("key: %v", err)
	}
	val, err := rd.vfBytes()
	if err != nil {
		return m, vfPErr("value: %v", err)
	}
	if rd.vfRemaining() != 0 {
		return m, vfPErr("%d bytes left inside the message", rd.vfRemaining())
	}
	if m.Codec != 0 && val != nil {
		if depth > 2 {
			return m, vfPErr("wrappers nested too deep")
		}
		plain, err := vfDecompress(m.Codec, val)
		if err != nil {
			return m, vfPErr("wrapper payload does not decompress with codec %d: %v", m.Codec, err)
		}
		in, err := vfParseSet(plain, depth+1)
		if err != nil {
			return m, fmt.Errorf("inner set: %w", err)
		}
		m.Wrapper = true
		m.Inner = in.Blocks
		return m, nil
	}
	m.Value = val
	return m, nil
}

// vfParseSet parses a complete legacy message set (no partial trailing message).
func vfParseSet(b []byte, depth int) (*vfMSet, error) {
	s := &vfMSet{}
	rd := vfRd{b: b}
	for rd.vfRemaining() > 0 {
		var blk vfMBlock
		var err error
		if blk.Offset, err = rd.vfI64(); err != nil {
			return nil, vfPErr("offset: %v", err)
		}
		size, err := rd.vfI32()
		if err != nil {
			return nil, vfPErr("message size: %v", err)
		}
		if size < 14 || int(size) > rd.vfRemaining() {
			return nil, vfPErr("message size %d with %d bytes left (minimum 14)", size, rd.vfRemaining())
		}
		raw, _ := rd.vfRaw(int(size))
		if blk.Msg, err = vfParseMessage(raw, depth); err != nil {
			return nil, fmt.Errorf("message at offset %d: %w", blk.Offset, err)
		}
		s.Blocks = append(s.Blocks, blk)
	}
	return s, nil
}

// vfParseRecordsArea parses the content of a "records" field: legacy messages and/or
// v2 batches back to back (magic byte at offset 16 of each entry decides).
func vfParseRecordsArea(b []byte) ([]vfMRecords, error) {
	var out []vfMRecords
	rd := vfRd{b: b}
	for rd.vfRemaining() > 0 {
		if rd.vfRemaining() < 17 {
			return nil, vfPErr("%d trailing bytes, too short for any entry", rd.vfRemaining())
		}
		magic := int8(rd.b[rd.off+16])
		if magic >= 2 {
			bt, err := vfParseBatch(&rd)
			if err != nil {
				return nil, err
			}
			out = append(out, vfMRecords{Batch: bt})
			continue
		}
		// a run of legacy messages forms one set
		start := rd.off
		for rd.vfRemaining() >= 17 && int8(rd.b[rd.off+16]) < 2 {
			if _, err := rd.vfI64(); err != nil {
				return nil, err
			}
			size, err := rd.vfI32()
			if err != nil || size < 0 || int(size) > rd.vfRemaining() {
				return nil, vfPErr("message size %d with %d bytes left", size, rd.vfRemaining())
			}
			rd.off += int(size)
		}
		set, err := vfParseSet(rd.b[start:rd.off], 0)
		if err != nil {
			return nil, err
		}
		out = append(out, vfMRecords{Set: set})
	}
	return out, nil
}

// ---------------------------------------------------------------- Produce / Fetch envelopes

type vfMProducePart struct {
	ID  int32      `json:"id"`
	Rec vfMRecords `json:"rec"`
}

type vfMProduceTopic struct {
	Name  string           `json:"name"`
	Parts []vfMProducePart `json:"parts"`
}

type vfMProduce struct {
	Version int16             `json:"version"`
	TxnID   *string           `json:"txn_id"` // v3+
	Acks    int16             `json:"acks"`
	Timeout int32             `json:"timeout"`
	Topics  []vfMProduceTopic `json:"topics"`
}

type vfMAborted struct {
	ProducerID  int64 `json:"pid"`
	FirstOffset int64 `json:"first"`
}

type vfMFetchPart struct {
	ID          int32        `json:"id"`
	Err         int16        `json:"err"`
	HWM         int64        `json:"hwm"`
	LSO         int64        `json:"lso"`       // v4+
	LogStart    int64        `json:"log_start"` // v5+
	AbortedNull bool         `json:"aborted_null,omitempty"`
	Aborted     []vfMAborted `json:"aborted,omitempty"` // v4+
	Preferred   int32        `json:"preferred"`         // v11+
	Records     []vfMRecords `json:"records,omitempty"`
}

type vfMFetchTopic struct {
	Name  string         `json:"name"`
	Parts []vfMFetchPart `json:"parts"`
}

type vfMFetch struct {
	Version    int16           `json:"version"`
	ThrottleMs int32           `json:"throttle_ms"` // v1+
	ErrCode    int16           `json:"err"`         // v7+
	SessionID  int32           `json:"session"`     // v7+
	Topics     []vfMFetchTopic `json:"topics"`
}

func vfNormProduce(p *vfMProduce) {
	if p.Version < 3 {
		p.TxnID = nil
	}
	if len(p.Topics) == 0 {
		p.Topics = nil
	}
	sort.Slice(p.Topics, func(i, j int) bool { return p.Topics[i].Name < p.Topics[j].Name })
	for i := range p.Topics {
		ps := p.Topics[i].Parts
		if len(ps) == 0 {
			p.Topics[i].Parts = nil
		}
		sort.Slice(ps, func(a, b int) bool { return ps[a].ID < ps[b].ID })
		for j := range ps {
			vfNormRecords(&ps[j].Rec)
		}
	}
}

func vfNormFetch(f *vfMFetch) {
	if f.Version < 1 {
		f.ThrottleMs = 0
	}
	if f.Version < 7 {
		f.ErrCode, f.SessionID = 0, 0
	}
	if len(f.Topics) == 0 {
		f.Topics = nil
	}
	sort.Slice(f.Topics, func(i, j int) bool { return f.Topics[i].Name < f.Topics[j].Name })
	for i := range f.Topics {
		ps := f.Topics[i].Parts
		if len(ps) == 0 {
			f.Topics[i].Parts = nil
		}
		sort.Slice(ps, func(a, b int) bool { return ps[a].ID < ps[b].ID })
		for j := range ps {
			p := &ps[j]
			if f.Version < 4 {
				p.LSO, p.Aborted = 0, nil
			}
			if f.Version < 5 {
				p.LogStart = 0
			}
			if f.Version < 11 {
				p.Preferred = 0
			}
			p.AbortedNull = false
			if len(p.Aborted) == 0 {
				p.Aborted = nil
			}
			if len(p.Records) == 0 {
				p.Records = nil
			}
			for k := range p.Records {
				vfNormRecords(&p.Records[k])
			}
		}
	}
}

func vfWriteProduce(w *vfW, p *vfMProduce) error {
	w.site = "produce"
	if p.Version >= 3 {
		w.vfNStr(p.TxnID)
	}
	w.vfI16(p.Acks)
	w.vfI32(p.Timeout)
	w.vfArrayLen(len(p.Topics))
	for i := range p.Topics {
		w.site = "produce.topic"
		w.vfStr(p.Topics[i].Name, false)
		w.vfArrayLen(len(p.Topics[i].Parts))
		for j := range p.Topics[i].Parts {
			pt := &p.Topics[i].Parts[j]
			w.site = "produce.partition"
			w.vfI32(pt.ID)
			sizeAt := w.vfReserve32(vfKSize)
			if err := vfWriteRecords(w, &pt.Rec); err != nil {
				return err
			}
			w.vfPatch32(sizeAt, uint32(len(w.b)-sizeAt-4))
		}
	}
	return nil
}

func vfParseProduce(b []byte, version int16) (*vfMProduce, error) {
	p := &vfMProduce{Version: version}
	rd := vfRd{b: b}
	var err error
	if version >= 3 {
		if p.TxnID, err = rd.vfNStr(); err != nil {
			return nil, vfPErr("transactional id: %v", err)
		}
	}
	if p.Acks, err = rd.vfI16(); err != nil {
		return nil, vfPErr("acks: %v", err)
	}
	if p.Timeout, err = rd.vfI32(); err != nil {
		return nil, vfPErr("timeout: %v", err)
	}
	nt, err := rd.vfArrayLen()
	if err != nil || nt < 0 {
		return nil, vfPErr("topic count %d: %v", nt, err)
	}
	for i := 0; i < nt; i++ {
		var t vfMProduceTopic
		if t.Name, err = rd.vfStrNN(); err != nil {
			return nil, vfPErr("topic name: %v", err)
		}
		np, err := rd.vfArrayLen()
		if err != nil || np < 0 {
			return nil, vfPErr("partition count %d: %v", np, err)
		}
		for j := 0; j < np; j++ {
			var pt vfMProducePart
			if pt.ID, err = rd.vfI32(); err != nil {
				return nil, vfPErr("partition id: %v", err)
			}
			area, err := rd.vfBytes()
			if err != nil {
				return nil, vfPErr("records size: %v", err)
			}
			recs, err := vfParseRecordsArea(area)
			if err != nil {
				return nil, fmt.Errorf("topic %q partition %d: %w", t.Name, pt.ID, err)
			}
			if len(recs) != 1 {
				return nil, vfPErr("topic %q partition %d: %d record sets/batches in a produce partition", t.Name, pt.ID, len(recs))
			}
			pt.Rec = recs[0]
			t.Parts = append(t.Parts, pt)
		}
		p.Topics = append(p.Topics, t)
	}
	if rd.vfRemaining() != 0 {
		return nil, vfPErr("%d bytes left after the produce request", rd.vfRemaining())
	}
	return p, nil
}

func vfWriteFetch(w *vfW, f *vfMFetch) error {
	v := f.Version
	w.site = "fetch"
	if v >= 1 {
		w.vfI32(f.ThrottleMs)
	}
	if v >= 7 {
		w.vfI16(f.ErrCode)
		w.vfI32(f.SessionID)
	}
	w.vfArrayLen(len(f.Topics))
	for i := range f.Topics {
		w.site = "fetch.topic"
		w.vfStr(f.Topics[i].Name, false)
		w.vfArrayLen(len(f.Topics[i].Parts))
		for j := range f.Topics[i].Parts {
			p := &f.Topics[i].Parts[j]
			w.site = "fetch.partition"
			w.vfI32(p.ID)
			w.vfI16(p.Err)
			w.vfI64(p.HWM)
			if v >= 4 {
				w.vfI64(p.LSO)
				if v >= 5 {
					w.vfI64(p.LogStart)
				}
				if p.AbortedNull && len(p.Aborted) == 0 {
					w.vfArrayLen(-1)
				} else {
					w.vfArrayLen(len(p.Aborted))
				}
				for _, a := range p.Aborted {
					w.vfI64(a.ProducerID)
					w.vfI64(a.FirstOffset)
				}
			}
			if v >= 11 {
				w.vfI32(p.Preferred)
			}
			sizeAt := w.vfReserve32(vfKSize)
			for k := range p.Records {
				if err := vfWriteRecords(w, &p.Records[k]); err != nil {
					return err
				}
			}
			w.vfPatch32(sizeAt, uint32(len(w.b)-sizeAt-4))
		}
	}
	return nil
}

func vfParseFetch(b []byte, v int16) (*vfMFetch, error) {
	f := &vfMFetch{Version: v}
	rd := vfRd{b: b}
	var err error
	if v >= 1 {
		if f.ThrottleMs, err = rd.vfI32(); err != nil {
			return nil, vfPErr("throttle: %v", err)
		}
	}
	if v >= 7 {
		if f.ErrCode, err = rd.vfI16(); err != nil {
			return nil, vfPErr("error code: %v", err)
		}
		if f.SessionID, err = rd.vfI32(); err != nil {
			return nil, vfPErr("session id: %v", err)
		}
	}
	nt, err := rd.vfArrayLen()
	if err != nil || nt < 0 {
		return nil, vfPErr("topic count %d: %v", nt, err)
	}
	for i := 0; i < nt; i++ {
		var t vfMFetchTopic
		if t.Name, err = rd.vfStrNN(); err != nil {
			return nil, vfPErr("topic name: %v", err)
		}
		np, err := rd.vfArrayLen()
		if err != nil || np < 0 {
			return nil, vfPErr("partition count %d: %v", np, err)
		}
		for j := 0; j < np; j++ {
			var p vfMFetchPart
			if p.ID, err = rd.vfI32(); err != nil {
				return nil, vfPErr("partition id: %v", err)
			}
			if p.Err, err = rd.vfI16(); err != nil {
				return nil, vfPErr("partition error: %v", err)
			}
			if p.HWM, err = rd.vfI64(); err != nil {
				return nil, vfPErr("high watermark: %v", err)
			}
			if v >= 4 {
				if p.LSO, err = rd.vfI64(); err != nil {
					return nil, vfPErr("last stable offset: %v", err)
				}
				if v >= 5 {
					if p.LogStart, err = rd.vfI64(); err != nil {
						return nil, vfPErr("log start offset: %v", err)
					}
				}
				na, err := rd.vfArrayLen()
				if err != nil {
					return nil, vfPErr("aborted transaction count: %v", err)
				}
				for k := 0; k < na; k++ {
					var a vfMAborted
					if a.ProducerID, err = rd.vfI64(); err != nil {
						return nil, vfPErr("aborted producer id: %v", err)
					}
					if a.FirstOffset, err = rd.vfI64(); err != nil {
						return nil, vfPErr("aborted first offset: %v", err)
					}
					p.Aborted = append(p.Aborted, a)
				}
			}
			if v >= 11 {
				if p.Preferred, err = rd.vfI32(); err != nil {
					return nil, vfPErr("preferred read replica: %v", err)
				}
			}
			area, err := rd.vfBytes()
			if err != nil {
				return nil, vfPErr("records size: %v", err)
			}
			if p.Records, err = vfParseRecordsArea(area); err != nil {
				return nil, fmt.Errorf("topic %q partition %d: %w", t.Name, p.ID, err)
			}
			t.Parts = append(t.Parts, p)
		}
		f.Topics = append(f.Topics, t)
	}
	if rd.vfRemaining() != 0 {
		return nil, vfPErr("%d bytes left after the fetch response", rd.vfRemaining())
	}
	return f, nil
}
