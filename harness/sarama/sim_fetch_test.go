//go:build go1.18 && verif

package sarama

// ListOffsets and Fetch handling of the simulated cluster (consumer side), own wire format.

import (
	"fmt"
	"sync/atomic"
	"time"
)

// vfsLogModel is the consumer-side content of one partition: stored units (wire bytes as a broker holds
// them) of which the first `revealed` are in the log, plus the bookkeeping a broker derives from them.
type vfsLogModel struct {
	Units    []vfsStoredUnit
	revealed int
	LogStart int64
	// read-committed support
	LSOAfter []int64           // last stable offset once unit i is the last revealed one
	Aborted  []vfAbortedTxn    // complete aborted-transaction index of the log
	AbortOrd int               // permutation selector for the aborted index served
}

func (m *vfsLogModel) hwm() int64 {
	if m.revealed == 0 {
		return m.LogStart
	}
	return m.Units[m.revealed-1].Last + 1
}

func (m *vfsLogModel) lso() int64 {
	if m.LSOAfter == nil || m.revealed == 0 {
		return m.hwm()
	}
	return m.LSOAfter[m.revealed-1]
}

// setLog installs the consumer-side log of a partition.
func (s *vfSim) setLog(topic string, part int32, m *vfsLogModel) {
	s.mu.Lock()
	defer s.mu.Unlock()
	if s.logs == nil {
		s.logs = map[string]*vfsLogModel{}
	}
	s.logs[fmt.Sprintf("%s/%d", topic, part)] = m
}

func (s *vfSim) reveal(topic string, part int32, n int) {
	s.mu.Lock()
	m := s.logs[fmt.Sprintf("%s/%d", topic, part)]
	if m != nil {
		m.revealed += n
		if m.revealed > len(m.Units) {
			m.revealed = len(m.Units)
		}
	}
	s.mu.Unlock()
	s.ev(vfEvent{Kind: "append", Key: fmt.Sprintf("%s/%d", topic, part), N: n}, true)
}

func (c *vfSimConn) handleListOffsets(version int16, body []byte) ([]byte, string) {
	s := c.sim
	r := &vfsR{b: body}
	_ = r.i32() // replica id
	if version >= 2 {
		_ = r.i8()
	}
	nt := int(r.i32())
	type q struct {
		topic string
		part  int32
		ts    int64
	}
	var qs []q
	for i := 0; i < nt && r.err == nil; i++ {
		topic := r.str()
		np := int(r.i32())
		for j := 0; j < np && r.err == nil; j++ {
			p := r.i32()
			ts := r.i64()
			if version == 0 {
				_ = r.i32() // max number of offsets
			}
			qs = append(qs, q{topic, p, ts})
		}
	}
	if r.err != nil || r.remaining() != 0 {
		s.ev(vfEvent{Kind: "client-wire-violation", Broker: c.broker.ID, Note: fmt.Sprintf("ListOffsets v%d malformed", version)}, true)
		return nil, "close"
	}
	s.mu.Lock()
	f, occ := s.nextFaultLocked("listOffsets")
	s.mu.Unlock()
	s.ev(vfEvent{Kind: "list-offsets", Broker: c.broker.ID, Occ: occ, Fault: f.Kind}, false)
	s.applyDelayAndGate(f)
	switch f.Kind {
	case "dropBefore", "dropAfter":
		return nil, "close"
	case "silent":
		return nil, "silent"
	}
	s.mu.Lock()
	defer s.mu.Unlock()
	w := &vfsW{}
	if version >= 2 {
		w.i32(0)
	}
	// group by topic preserving order
	var order []string
	byTopic := map[string][]q{}
	for _, x := range qs {
		if _, ok := byTopic[x.topic]; !ok {
			order = append(order, x.topic)
		}
		byTopic[x.topic] = append(byTopic[x.topic], x)
	}
	w.i32(int32(len(order)))
	for _, tp := range order {
		w.str(tp)
		w.i32(int32(len(byTopic[tp])))
		for _, x := range byTopic[tp] {
			w.i32(x.part)
			code := int16(0)
			var off int64 = -1
			t := s.topics[tp]
			m := s.logs[fmt.Sprintf("%s/%d", tp, x.part)]
			switch {
			case f.Kind == "err":
				code = f.Code
			case t == nil || t.Parts[x.part] == nil:
				code = 3
			case t.Parts[x.part].Leader != c.broker.ID:
				code = 6
			default:
				lo, hi := int64(0), int64(0)
				if m != nil {
					lo, hi = m.LogStart, m.hwm()
				} else {
					p := t.Parts[x.part]
					lo, hi = p.LogStart, p.LogStart+int64(len(p.Log))
				}
				if x.ts == -2 {
					off = lo
				} else {
					off = hi
				}
			}
			w.i16(code)
			if version == 0 {
				if code == 0 {
					w.i32(1)
					w.i64(off)
				} else {
					w.i32(0)
				}
			} else {
				w.i64(-1)
				w.i64(off)
			}
		}
	}
	return w.b, ""
}

type vfsFetchPart struct {
	topic    string
	part     int32
	offset   int64
	maxBytes int32
}

func (c *vfSimConn) handleFetch(version int16, body []byte) ([]byte, string) {
	s := c.sim
	r := &vfsR{b: body}
	_ = r.i32() // replica id
	maxWait := r.i32()
	_ = r.i32() // min bytes
	if version >= 3 {
		_ = r.i32() // max bytes
	}
	isolation := int8(0)
	if version >= 4 {
		isolation = r.i8()
	}
	if version >= 7 {
		_ = r.i32()
		_ = r.i32()
	}
	nt := int(r.i32())
	var parts []vfsFetchPart
	for i := 0; i < nt && r.err == nil; i++ {
		topic := r.str()
		np := int(r.i32())
		for j := 0; j < np && r.err == nil; j++ {
			fp := vfsFetchPart{topic: topic}
			fp.part = r.i32()
			if version >= 9 {
				_ = r.i32()
			}
			fp.offset = r.i64()
			if version >= 5 {
				_ = r.i64()
			}
			fp.maxBytes = r.i32()
			parts = append(parts, fp)
		}
	}
	if version >= 7 {
		nf := int(r.i32())
		for i := 0; i < nf && r.err == nil; i++ {
			_ = r.str()
			_ = r.i32arr()
		}
	}
	if version >= 11 {
		_ = r.str()
	}
	if r.err != nil || r.remaining() != 0 {
		s.ev(vfEvent{Kind: "client-wire-violation", Broker: c.broker.ID, Note: fmt.Sprintf("fetch v%d malformed (%v, %d stray)", version, r.err, r.remaining())}, true)
		return nil, "close"
	}

	type planned struct {
		fp   vfsFetchPart
		f    vfFault
		occ  int
		code int16
		data []byte
		hwm  int64
		lso  int64
		lst  int64
		abrt []vfAbortedTxn
		omit bool
	}
	var plan []planned
	reqAction := ""
	throttled := false
	var timing []vfFault
	anyData := false
	s.mu.Lock()
	firstNonEmpty := true
	for _, fp := range parts {
		key := fmt.Sprintf("fetch/%s/%d", fp.topic, fp.part)
		f, occ := s.nextFaultLocked(key)
		if s.lastFetchOff == nil {
			s.lastFetchOff = map[string]int64{}
		}
		s.lastFetchOff[key] = fp.offset
		pl := planned{fp: fp, f: f, occ: occ, hwm: -1, lso: -1}
		switch f.Kind {
		case "dropBefore", "dropAfter":
			reqAction = "close"
		case "silent", "silentApplied":
			reqAction = "silent"
		case "throttled":
			throttled = true
		case "omit":
			pl.omit = true
		}
		if f.DelayUs > 0 || f.Gate != "" {
			timing = append(timing, f)
		}
		if f.MoveLeader == "before" {
			s.moveLeaderLocked(fp.topic, fp.part, -2)
		}
		if f.LeaderlessFor > 0 {
			s.leaderlessLocked(fp.topic, fp.part, f.LeaderlessFor)
		}
		t := s.topics[fp.topic]
		m := s.logs[key[len("fetch/"):]]
		switch {
		case f.Kind == "err":
			pl.code = f.Code
		case t == nil || t.Parts[fp.part] == nil || m == nil:
			pl.code = 3
		case t.Parts[fp.part].Leader != c.broker.ID:
			pl.code = 6
		default:
			pl.hwm, pl.lso, pl.lst = m.hwm(), m.lso(), m.LogStart
			if fp.offset < m.LogStart || fp.offset > m.hwm() {
				pl.code = 1 // OFFSET_OUT_OF_RANGE
				break
			}
			limit := m.hwm()
			if isolation == 1 {
				limit = m.lso()
			}
			budget := int(fp.maxBytes)
			var lastServed int64 = -1
			for i := 0; i < m.revealed; i++ {
				u := &m.Units[i]
				if u.Last < fp.offset {
					continue
				}
				if u.Last >= limit {
					break
				}
				if len(pl.data)+len(u.Bytes) <= budget || (len(pl.data) == 0 && version >= 3 && firstNonEmpty) {
					pl.data = append(pl.data, u.Bytes...)
					lastServed = u.Last
					continue
				}
				// partial trailing data, cut verbatim at the byte budget
				room := budget - len(pl.data)
				if room > 0 {
					pl.data = append(pl.data, u.Bytes[:room]...)
				}
				break
			}
			if len(pl.data) > 0 {
				firstNonEmpty = false
				anyData = true
			}
			if isolation == 1 && lastServed >= 0 {
				for _, a := range m.Aborted {
					if a.LastOffset >= fp.offset && a.FirstOffset <= lastServed {
						pl.abrt = append(pl.abrt, a)
					}
				}
				// a faithful broker may list them in any order
				if n := len(pl.abrt); n > 1 {
					switch m.AbortOrd % 3 {
					case 1:
						for i, j := 0, n-1; i < j; i, j = i+1, j-1 {
							pl.abrt[i], pl.abrt[j] = pl.abrt[j], pl.abrt[i]
						}
					case 2:
						pl.abrt = append(pl.abrt[1:], pl.abrt[0])
					}
				}
			}
		}
		if f.MoveLeader == "after" {
			s.moveLeaderLocked(fp.topic, fp.part, -2)
		}
		if f.Kind == "ok" && pl.code == 0 && len(pl.data) > 0 {
			if s.dataRounds == nil {
				s.dataRounds = map[string]int64{}
			}
			s.dataRounds[key]++
		}
		relevant := f.Kind != "ok" || len(pl.data) > 0 || pl.code != 0
		s.hist.add(vfEvent{Kind: "fetch-part", Broker: c.broker.ID, Conn: c.id, Key: key, Occ: occ, Fault: f.Kind, Code: pl.code, Base: fp.offset, N: len(pl.data),
			Vals: []int64{int64(version), int64(fp.maxBytes), int64(isolation)}}, relevant)
		atomic.AddInt64(&s.fetchRounds, 1)
		plan = append(plan, pl)
	}
	s.mu.Unlock()
	for _, f := range timing {
		s.applyDelayAndGate(f)
	}
	switch reqAction {
	case "close":
		return nil, "close"
	case "silent":
		return nil, "silent"
	}
	if !anyData && !throttled {
		// honour max_wait on an empty fetch (bounded so that idle polling stays cheap but does not spin)
		d := time.Duration(maxWait) * time.Millisecond
		if d > 5*time.Millisecond {
			d = 5 * time.Millisecond
		}
		if d > 0 {
			time.Sleep(d)
		}
	}
	w := &vfsW{}
	if version >= 1 {
		if throttled {
			w.i32(50)
		} else {
			w.i32(0)
		}
	}
	if version >= 7 {
		w.i16(0)
		w.i32(0)
	}
	if throttled {
		w.i32(0)
		return w.b, ""
	}
	var order []string
	byTopic := map[string][]int{}
	for i, pl := range plan {
		if pl.omit {
			continue
		}
		if _, ok := byTopic[pl.fp.topic]; !ok {
			order = append(order, pl.fp.topic)
		}
		byTopic[pl.fp.topic] = append(byTopic[pl.fp.topic], i)
	}
	w.i32(int32(len(order)))
	for _, tp := range order {
		w.str(tp)
		w.i32(int32(len(byTopic[tp])))
		for _, i := range byTopic[tp] {
			pl := plan[i]
			w.i32(pl.fp.part)
			w.i16(pl.code)
			w.i64(pl.hwm)
			if version >= 4 {
				w.i64(pl.lso)
				if version >= 5 {
					w.i64(pl.lst)
				}
				if isolation == 1 {
					w.i32(int32(len(pl.abrt)))
					for _, a := range pl.abrt {
						w.i64(a.PID)
						w.i64(a.FirstOffset)
					}
				} else {
					w.i32(-1)
				}
			}
			if version >= 11 {
				w.i32(-1)
			}
			w.i32(int32(len(pl.data)))
			w.raw(pl.data)
		}
	}
	return w.b, ""
}
