//go:build go1.18 && verif

package sarama

// ListOffsets and Fetch handling of the simulated cluster (consumer side).

func (c *vfSimConn) handleFetch(version int16, body []byte) ([]byte, string) { return nil, "close" }

func (c *vfSimConn) handleListOffsets(version int16, body []byte) ([]byte, string) { return nil, "close" }
