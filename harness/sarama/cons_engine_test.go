//go:build go1.18 && verif

package sarama

// Consumer engine shared by C03, C11 and the consumer half of C18: a log model laid out as stored
// units (legacy messages, compressed wrappers, v2 batches), served by the simulated cluster's own
// fetch writer, consumed through the real Consumer / PartitionConsumer. DESIGN.md 5.3 / 5.11.

import (
	"bytes"
	"fmt"
	"strconv"
	"sync"
	"sync/atomic"
	"time"

	"github.com/Shopify/sarama/internal/vfcore"
	"github.com/rcrowley/go-metrics"
)

type vfcRec struct {
	Off   int64 `json:"off"`
	KeyK  int   `json:"keyK"` // 0 nil, 1 empty, 2 "k<off>"
	ValK  int   `json:"valK"` // 0 "v<part>.<off>"+pad, 1 nil, 2 empty
	ValN  int   `json:"valN"`
	NHdr  int   `json:"nHdr"`
	TsOff int64 `json:"tsOff"` // timestamp = 1500000000000 + TsOff
}

type vfcUnit struct {
	Kind      string   `json:"kind"` // msg0 | msg1 | wrap0 | wrap1 | batch
	Codec     int      `json:"codec"`
	Recs      []vfcRec `json:"recs"`
	Base      int64    `json:"base"`      // batch: base offset (<= first record offset)
	LastDelta int32    `json:"lastDelta"` // batch: lastOffsetDelta (>= last record delta)
	LogAppend bool     `json:"logAppend,omitempty"`
	// transactions (C11)
	PID     int64 `json:"pid,omitempty"`
	Txn     bool  `json:"txn,omitempty"`
	Control int   `json:"control,omitempty"` // 0 data, 1 abort marker, 2 commit marker, 3 unknown control type
	Aborted bool  `json:"aborted,omitempty"` // data batch belongs to a transaction that ends aborted (model knowledge, not on the wire)
	LSO     int64 `json:"lso,omitempty"`     // last stable offset once this unit is the newest one
}

type vfcPart struct {
	Units    []vfcUnit `json:"units"`
	LogStart int64     `json:"logStart"`
	Initial  int       `json:"initial"` // units in the log when the consumer starts; the rest is appended by the script
	Start    int64     `json:"start"`   // literal, -1 newest, -2 oldest
	Faults   []vfFault `json:"faults,omitempty"`
	SlowAt   []int     `json:"slowAt,omitempty"` // reader sleeps > 2*MaxProcessingTime before taking the i-th message
	AbortOrd int       `json:"abortOrd,omitempty"`
}

type vfConsCase struct {
	Version      string    `json:"version"`
	FetchDefault int32     `json:"fetchDefault"`
	ChanBuf      int       `json:"chanBuf"`
	MaxProcMs    int       `json:"maxProcMs"`
	MaxWaitMs    int       `json:"maxWaitMs"`
	Isolation    int       `json:"isolation"` // 0 read uncommitted, 1 read committed
	Parts        []vfcPart `json:"parts"`
	Interceptors []string  `json:"interceptors,omitempty"`
	ReadTimeoutMs int      `json:"readTimeoutMs"`
	Delays       map[string][]int `json:"delays,omitempty"`
	C12          *vfC12Ctl `json:"c12,omitempty"`
	Brokers      int  `json:"brokers,omitempty"` // 0/1 = one broker; 2 = leader moves are possible
	PauseReadersAtClose bool `json:"pauseReadersAtClose,omitempty"` // Close() must not depend on somebody still reading Messages()
}

type vfcDelivered struct {
	Off   int64    `json:"off"`
	Key   []byte   `json:"key"`
	Val   []byte   `json:"val"`
	Hdrs  []string `json:"hdrs,omitempty"`
	TsMs  int64    `json:"ts"`
	Topic string   `json:"topic"`
	Part  int32    `json:"part"`
	Seq   int64    `json:"seq"`
}

type vfcExpected struct {
	Off  int64
	Key  []byte
	Val  []byte
	Hdrs []string
	TsMs int64 // -1 = zero time (magic 0)
}

type vfConsRun struct {
	c        *vfConsCase
	sim      *vfSim
	mu       sync.Mutex
	got      [][]vfcDelivered
	errs     [][]string
	closedCh []bool
	hang     string
	stuck    string
	stacks   string
	createErr string
	startErr []string
	panics   []string
	intercepts []vfcIntercept
	nDelivered int64
	slowFired  bool
	stop       *vfStopper
	eventsEnd  int64
	closedEarly bool
	secondClose string
}

type vfcIntercept struct {
	Who  int   `json:"who"`
	Part int32 `json:"part"`
	Off  int64 `json:"off"`
}

const vfcTsBase = int64(1500000000000)

func vfcKey(r *vfcRec) []byte {
	switch r.KeyK {
	case 0:
		return nil
	case 1:
		return []byte{}
	}
	return []byte("k" + strconv.FormatInt(r.Off, 10))
}

func vfcVal(part int, r *vfcRec) []byte {
	switch r.ValK {
	case 1:
		return nil
	case 2:
		return []byte{}
	}
	b := []byte("v" + strconv.Itoa(part) + "." + strconv.FormatInt(r.Off, 10) + ":")
	for len(b) < r.ValN {
		b = append(b, byte('a'+len(b)%26))
	}
	return b
}

func vfcHdrs(r *vfcRec) []vfsHdr {
	var out []vfsHdr
	for h := 0; h < r.NHdr; h++ {
		hv := []byte("hv" + strconv.Itoa(h))
		if h == 1 {
			hv = nil
		}
		out = append(out, vfsHdr{K: []byte("h" + strconv.Itoa(h)), V: hv})
	}
	return out
}

func vfcHdrStrings(hs []vfsHdr) []string {
	var out []string
	for _, h := range hs {
		out = append(out, fmt.Sprintf("%q=%q/%v", h.K, h.V, h.V == nil))
	}
	return out
}

// vfcEncodeUnit renders a unit to the bytes a broker stores, with the harness's own writer.
func vfcEncodeUnit(part int, u *vfcUnit) (vfsStoredUnit, error) {
	first, last := u.Recs[0].Off, u.Recs[len(u.Recs)-1].Off
	switch u.Kind {
	case "msg0", "msg1":
		magic := int8(0)
		if u.Kind == "msg1" {
			magic = 1
		}
		r := &u.Recs[0]
		m := vfsWriteMessage(magic, 0, u.LogAppend, vfcTsBase+r.TsOff, vfcKey(r), vfcVal(part, r))
		return vfsStoredUnit{First: r.Off, Last: r.Off, Bytes: vfsWriteMessageSetEntry(r.Off, m), Magic: magic}, nil
	case "wrap0", "wrap1":
		magic := int8(0)
		if u.Kind == "wrap1" {
			magic = 1
		}
		var inner []byte
		maxTs := int64(0)
		for i := range u.Recs {
			r := &u.Recs[i]
			off := r.Off
			if magic == 1 {
				off = r.Off - first // relative offsets (gaps allowed after compaction)
			}
			m := vfsWriteMessage(magic, 0, u.LogAppend, vfcTsBase+r.TsOff, vfcKey(r), vfcVal(part, r))
			inner = append(inner, vfsWriteMessageSetEntry(off, m)...)
			if vfcTsBase+r.TsOff > maxTs {
				maxTs = vfcTsBase + r.TsOff
			}
		}
		comp, err := vfsCompress(u.Codec, -1000, inner)
		if err != nil {
			return vfsStoredUnit{}, err
		}
		w := vfsWriteMessage(magic, u.Codec, u.LogAppend, maxTs, nil, comp)
		return vfsStoredUnit{First: first, Last: last, Bytes: vfsWriteMessageSetEntry(last, w), Magic: magic}, nil
	default:
		var recs []vfsRecord
		for i := range u.Recs {
			r := &u.Recs[i]
			recs = append(recs, vfsRecord{Offset: r.Off, Key: vfcKey(r), Value: vfcVal(part, r), Headers: vfcHdrs(r), TsMs: vfcTsBase + r.TsOff})
		}
		if u.Control != 0 {
			typ := int16(0)
			switch u.Control {
			case 2:
				typ = 1
			case 3:
				typ = 7
			}
			recs = []vfsRecord{vfsControlRecord(u.Recs[0].Off, vfcTsBase+u.Recs[0].TsOff, typ)}
		}
		firstTs := recs[0].TsMs
		pid := int64(-1)
		if u.PID > 0 {
			pid = u.PID
		}
		b, err := vfsWriteBatch(u.Base, u.LastDelta, u.Codec, -1000, firstTs, pid, 0, 0, u.Txn, u.Control != 0, u.LogAppend, recs, 0)
		if err != nil {
			return vfsStoredUnit{}, err
		}
		return vfsStoredUnit{First: u.Base, Last: u.Base + int64(u.LastDelta), Bytes: b, Magic: 2}, nil
	}
}

// vfcExpect computes, from the model alone, what the application must see for a partition from start offset S on.
func vfcExpect(c *vfConsCase, pi int, upto int, S int64) []vfcExpected {
	p := &c.Parts[pi]
	var out []vfcExpected
	finalLSO := int64(-1)
	if c.Isolation == 1 && upto > 0 && upto <= len(p.Units) {
		finalLSO = p.Units[upto-1].LSO
	}
	for ui := 0; ui < upto && ui < len(p.Units); ui++ {
		u := &p.Units[ui]
		if finalLSO >= 0 && u.Base+int64(u.LastDelta) >= finalLSO {
			break // read committed: nothing at or beyond the last stable offset is served
		}
		if u.Control != 0 {
			continue
		}
		if c.Isolation == 1 && u.Txn && u.Aborted {
			continue
		}
		maxTs := int64(0)
		for i := range u.Recs {
			if vfcTsBase+u.Recs[i].TsOff > maxTs {
				maxTs = vfcTsBase + u.Recs[i].TsOff
			}
		}
		for i := range u.Recs {
			r := &u.Recs[i]
			if r.Off < S {
				continue
			}
			e := vfcExpected{Off: r.Off, Key: vfcKey(r), Val: vfcVal(pi, r), TsMs: vfcTsBase + r.TsOff}
			switch u.Kind {
			case "msg0", "wrap0":
				e.TsMs = -1
			case "msg1":
			case "wrap1":
				if u.LogAppend {
					e.TsMs = maxTs
				}
			default:
				e.Hdrs = vfcHdrStrings(vfcHdrs(r))
				if u.LogAppend {
					e.TsMs = maxTs
				}
			}
			out = append(out, e)
		}
	}
	return out
}

type vfConsInterceptor struct {
	run  *vfConsRun
	who  int
	kind string
}

func (ci *vfConsInterceptor) OnConsume(msg *ConsumerMessage) {
	ci.run.mu.Lock()
	ci.run.intercepts = append(ci.run.intercepts, vfcIntercept{Who: ci.who, Part: msg.Partition, Off: msg.Offset})
	ci.run.mu.Unlock()
	switch ci.kind {
	case "hdr":
		msg.Headers = append(msg.Headers, &RecordHeader{Key: []byte("ic"), Value: []byte(strconv.Itoa(ci.who))})
	case "panic":
		if msg.Offset%2 == 0 {
			panic("vf: scripted consumer interceptor panic")
		}
	}
}

func (c *vfConsCase) config(run *vfConsRun) *Config {
	conf := NewConfig()
	conf.Version = vfVersions[c.Version]
	conf.ClientID = "vf"
	conf.MetricRegistry = metrics.NewRegistry()
	conf.Net.Proxy.Enable = true
	conf.Net.Proxy.Dialer = run.sim.net
	conf.Net.ReadTimeout = time.Duration(c.ReadTimeoutMs) * time.Millisecond
	conf.Net.DialTimeout = time.Second
	conf.Metadata.Retry.Max = 2
	conf.Metadata.Retry.Backoff = time.Millisecond
	conf.Metadata.RefreshFrequency = 0
	conf.ChannelBufferSize = c.ChanBuf
	conf.Consumer.Fetch.Default = c.FetchDefault
	conf.Consumer.Fetch.Min = 1
	conf.Consumer.MaxWaitTime = time.Duration(c.MaxWaitMs) * time.Millisecond
	conf.Consumer.MaxProcessingTime = time.Duration(c.MaxProcMs) * time.Millisecond
	conf.Consumer.Retry.Backoff = time.Millisecond
	conf.Consumer.Return.Errors = true
	if c.Isolation == 1 {
		conf.Consumer.IsolationLevel = ReadCommitted
	}
	for i, k := range c.Interceptors {
		conf.Consumer.Interceptors = append(conf.Consumer.Interceptors, &vfConsInterceptor{run: run, who: i, kind: k})
	}
	return conf
}

// vfExecCons runs the case against the real consumer.
func vfExecCons(c *vfConsCase) *vfConsRun {
	run := &vfConsRun{c: c}
	nb := c.Brokers
	if nb < 1 {
		nb = 1
	}
	sim := newVfSim(nb)
	run.sim = sim
	defer sim.shutdown()
	leaders := make([]int32, len(c.Parts))
	for i := range leaders {
		leaders[i] = 1
	}
	sim.addTopic("t", leaders)
	faults := map[string][]vfFault{}
	for pi := range c.Parts {
		p := &c.Parts[pi]
		m := &vfsLogModel{LogStart: p.LogStart, AbortOrd: p.AbortOrd}
		for ui := range p.Units {
			su, err := vfcEncodeUnit(pi, &p.Units[ui])
			if err != nil {
				run.createErr = "harness: " + err.Error()
				return run
			}
			m.Units = append(m.Units, su)
			if c.Isolation == 1 || p.Units[ui].LSO > 0 {
				m.LSOAfter = append(m.LSOAfter, p.Units[ui].LSO)
			}
		}
		if len(m.LSOAfter) != len(m.Units) {
			m.LSOAfter = nil
		}
		m.Aborted = vfcAbortedIndex(p)
		m.revealed = p.Initial
		sim.setLog("t", int32(pi), m)
		if len(p.Faults) > 0 {
			faults[fmt.Sprintf("fetch/t/%d", pi)] = p.Faults
		}
	}
	sim.setFaults(faults)
	restoreHooks := vfInstallHooks(c.Delays, sim)
	defer restoreHooks()
	run.stop = newVfStopper(c.C12, sim)
	defer run.stop.finish()
	oldPH := PanicHandler
	PanicHandler = func(v interface{}) {
		run.mu.Lock()
		run.panics = append(run.panics, fmt.Sprintf("%v\n%s", v, vfShortStack()))
		run.mu.Unlock()
	}
	defer func() { PanicHandler = oldPH }()

	conf := c.config(run)
	if err := conf.Validate(); err != nil {
		run.createErr = "invalid config: " + err.Error()
		return run
	}
	cons, err := NewConsumer(sim.seedAddrs(), conf)
	if err != nil {
		run.createErr = err.Error()
		return run
	}
	n := len(c.Parts)
	run.got = make([][]vfcDelivered, n)
	run.errs = make([][]string, n)
	run.closedCh = make([]bool, n)
	run.startErr = make([]string, n)
	pcs := make([]PartitionConsumer, n)
	var wg sync.WaitGroup
	pauseCh, resumeCh := make(chan struct{}), make(chan struct{})
	maxProc := time.Duration(c.MaxProcMs) * time.Millisecond
	for pi := range c.Parts {
		pc, err := cons.ConsumePartition("t", int32(pi), c.Parts[pi].Start)
		if err != nil {
			run.startErr[pi] = err.Error()
			continue
		}
		pcs[pi] = pc
		wg.Add(2)
		go func(pi int, pc PartitionConsumer) {
			defer wg.Done()
			slow := map[int]bool{}
			for _, i := range c.Parts[pi].SlowAt {
				slow[i] = true
			}
			k := 0
			for {
				if slow[k] {
					time.Sleep(2*maxProc + 2*time.Millisecond)
					run.mu.Lock()
					run.slowFired = true
					run.mu.Unlock()
				}
				var m *ConsumerMessage
				var ok bool
				select {
				case m, ok = <-pc.Messages():
				case <-pauseCh:
					<-resumeCh
					m, ok = <-pc.Messages()
				}
				if !ok {
					run.mu.Lock()
					run.closedCh[pi] = true
					run.mu.Unlock()
					return
				}
				d := vfcDelivered{Off: m.Offset, Key: m.Key, Val: m.Value, Topic: m.Topic, Part: m.Partition, TsMs: -1}
				if !m.Timestamp.IsZero() {
					d.TsMs = m.Timestamp.UnixNano() / int64(time.Millisecond)
				}
				for _, h := range m.Headers {
					if h == nil {
						d.Hdrs = append(d.Hdrs, "<nil header>")
						continue
					}
					d.Hdrs = append(d.Hdrs, fmt.Sprintf("%q=%q/%v", h.Key, h.Value, h.Value == nil))
				}
				d.Seq = sim.ev(vfEvent{Kind: "delivered", Key: fmt.Sprintf("t/%d", pi), Base: m.Offset}, true)
				run.mu.Lock()
				run.got[pi] = append(run.got[pi], d)
				run.mu.Unlock()
				atomic.AddInt64(&run.nDelivered, 1)
				k++
			}
		}(pi, pc)
		go func(pi int, pc PartitionConsumer) {
			defer wg.Done()
			for e := range pc.Errors() {
				run.mu.Lock()
				run.errs[pi] = append(run.errs[pi], e.Err.Error())
				run.mu.Unlock()
				sim.ev(vfEvent{Kind: "consumer-error", Key: fmt.Sprintf("t/%d", pi), Note: e.Err.Error()}, true)
			}
		}(pi, pc)
	}

	// drive: reveal the remaining units step by step, then wait until everything expected has arrived (or the consumer is stuck)
	for step := 0; ; step++ {
		more := false
		for pi := range c.Parts {
			p := &c.Parts[pi]
			if p.Initial+step < len(p.Units) {
				more = true
				sim.reveal("t", int32(pi), 1)
			}
		}
		if !more {
			break
		}
		time.Sleep(300 * time.Microsecond)
	}
	want := make([]int, n)
	total := 0
	for pi := range c.Parts {
		if pcs[pi] == nil {
			continue
		}
		want[pi] = len(vfcExpect(c, pi, len(c.Parts[pi].Units), run.resolveStart(pi)))
		total += want[pi]
	}
	reached := func() bool {
		run.mu.Lock()
		defer run.mu.Unlock()
		for pi := range c.Parts {
			if pcs[pi] == nil {
				continue
			}
			if len(run.got[pi]) < want[pi] && !run.closedCh[pi] {
				return false
			}
		}
		return true
	}
	// progress in protocol rounds, per partition: a partition consumer is stuck if the simulator has served it many further
	// fault-free fetch answers that carried data at or beyond its fetch offset and neither a message was delivered nor its
	// fetch offset advanced. Independently: nobody sends fetch requests any more for Tq.
	type prog struct {
		delivered int
		off       int64
		rounds    int64
	}
	lastP := make([]prog, n)
	snap := func(pi int) prog {
		run.mu.Lock()
		d := len(run.got[pi])
		run.mu.Unlock()
		key := fmt.Sprintf("fetch/t/%d", pi)
		return prog{d, sim.fetchOffsetOf(key), sim.dataRoundsOf(key)}
	}
	for pi := range lastP {
		lastP[pi] = snap(pi)
	}
	lastRounds := atomic.LoadInt64(&sim.fetchRounds)
	lastChange := time.Now()
	lastOcc := make([]int64, n)
	idleOcc, idleRounds, idleSince := make([]int64, n), make([]int64, n), make([]time.Time, n)
	for pi := range idleSince {
		idleOcc[pi], idleSince[pi] = -1, time.Now()
	}
	exhausted := false
	for !reached() && !run.stop.stopped() && run.stuck == "" && !exhausted {
		for pi := range c.Parts {
			if pcs[pi] == nil {
				continue
			}
			cur := snap(pi)
			if cur.delivered != lastP[pi].delivered || cur.off != lastP[pi].off {
				lastP[pi] = cur
				lastOcc[pi] = 0
				continue
			}
			run.mu.Lock()
			doneP := len(run.got[pi]) >= want[pi] || run.closedCh[pi]
			run.mu.Unlock()
			if !doneP {
				// the consumer already asks at or beyond the end of what it may see: nothing more will ever arrive for it
				sim.mu.Lock()
				m := sim.logs[fmt.Sprintf("t/%d", pi)]
				end := m.hwm()
				if c.Isolation == 1 {
					end = m.lso()
				}
				sim.mu.Unlock()
				occ := int64(sim.occOf(fmt.Sprintf("fetch/t/%d", pi)))
				if lastOcc[pi] == 0 || cur.off < end {
					lastOcc[pi] = occ
				} else if occ-lastOcc[pi] > 60 {
					exhausted = true
				}
			}
			if !doneP {
				// the partition is not fetched at all any more although the others are (e.g. its broker worker is gone)
				occ := int64(sim.occOf(fmt.Sprintf("fetch/t/%d", pi)))
				gr := atomic.LoadInt64(&sim.fetchRounds)
				if occ != idleOcc[pi] {
					idleOcc[pi], idleRounds[pi], idleSince[pi] = occ, gr, time.Now()
				} else if gr-idleRounds[pi] > 800 && time.Since(idleSince[pi]) > 1500*time.Millisecond {
					run.stuck = fmt.Sprintf("partition %d is no longer fetched: %d fetch rounds of other partitions went by without a single fetch for it (delivered %d of %d)", pi, gr-idleRounds[pi], cur.delivered, want[pi])
				}
			}
			if !doneP && cur.rounds-lastP[pi].rounds > 200 {
				run.stuck = fmt.Sprintf("partition %d: no delivery and no fetch-offset advance although %d further fault-free fetch answers carried data for it (delivered %d of %d)", pi, cur.rounds-lastP[pi].rounds, cur.delivered, want[pi])
			}
		}
		if r := atomic.LoadInt64(&sim.fetchRounds); r != lastRounds || atomic.LoadInt64(&sim.pending) > 0 {
			lastRounds, lastChange = r, time.Now()
		}
		if time.Since(lastChange) > vfTq() {
			run.stuck = fmt.Sprintf("consumer went silent: no fetch request for %v (delivered %d of %d)", vfTq(), atomic.LoadInt64(&run.nDelivered), total)
			run.stacks = vfcore.Stacks()
		}
		if time.Since(lastChange) > 60*time.Second {
			run.stuck = "no progress for 60 s"
		}
		time.Sleep(200 * time.Microsecond)
	}
	run.eventsEnd = vfEventCount(sim)
	run.closedEarly = run.stop.stopped()
	if run.stuck == "" && !run.closedEarly {
		// a few more rounds so that duplicates or strays would show
		r0 := atomic.LoadInt64(&sim.fetchRounds)
		t0 := time.Now()
		for atomic.LoadInt64(&sim.fetchRounds)-r0 < 3 && time.Since(t0) < 30*time.Millisecond {
			time.Sleep(200 * time.Microsecond)
		}
	}
	// close in the documented order: partition consumers, then the consumer
	closed := int32(0)
	go func() {
		if c.PauseReadersAtClose {
			close(pauseCh) // nobody takes messages while Close runs
		}
		for pi := range pcs {
			if pcs[pi] != nil {
				_ = pcs[pi].Close()
			}
		}
		close(resumeCh)
		if !c.PauseReadersAtClose {
			close(pauseCh)
		}
		wg.Wait()
		_ = cons.Close()
		if c.C12 != nil && c.C12.DoubleClose {
			// closing a partition consumer twice is documented as harmless
			for pi := range pcs {
				if pcs[pi] != nil {
					func() {
						defer func() {
							if v := recover(); v != nil {
								run.secondClose = fmt.Sprintf("second Close of partition consumer %d panicked: %v", pi, v)
							}
						}()
						_ = pcs[pi].Close()
					}()
				}
			}
		}
		atomic.StoreInt32(&closed, 1)
	}()
	if !vfWaitQuiescent(sim, func() bool { return atomic.LoadInt32(&closed) == 1 }) {
		run.hang = "closing the partition consumers / consumer did not complete"
		run.stacks = vfcore.Stacks()
	}
	return run
}

func (run *vfConsRun) progressKey() string {
	s := strconv.FormatInt(atomic.LoadInt64(&run.nDelivered), 10)
	for pi := range run.c.Parts {
		s += "," + strconv.FormatInt(run.sim.fetchOffsetOf(fmt.Sprintf("fetch/t/%d", pi)), 10)
	}
	return s
}

func (run *vfConsRun) faultsConsumed() bool {
	for pi := range run.c.Parts {
		if run.sim.occOf(fmt.Sprintf("fetch/t/%d", pi)) < len(run.c.Parts[pi].Faults) {
			return false
		}
	}
	return true
}

// resolveStart maps the symbolic start positions to the offset the consumer must begin at.
func (run *vfConsRun) resolveStart(pi int) int64 {
	p := &run.c.Parts[pi]
	switch p.Start {
	case -2:
		return p.LogStart
	case -1:
		if p.Initial == 0 {
			return p.LogStart
		}
		u := &p.Units[p.Initial-1]
		if u.Kind == "batch" {
			return u.Base + int64(u.LastDelta) + 1
		}
		return u.Recs[len(u.Recs)-1].Off + 1
	}
	return p.Start
}

func vfcAbortedIndex(p *vfcPart) []vfAbortedTxn {
	// an aborted transaction spans from the first data batch of that producer id after its previous marker to its abort marker
	open := map[int64]int64{}
	var out []vfAbortedTxn
	for ui := range p.Units {
		u := &p.Units[ui]
		if !u.Txn {
			continue
		}
		if u.Control == 0 {
			if _, ok := open[u.PID]; !ok {
				open[u.PID] = u.Base
			}
			continue
		}
		if u.Control != 1 && u.Control != 2 {
			continue // an unknown control type ends nothing
		}
		if first, ok := open[u.PID]; ok {
			if u.Control == 1 {
				out = append(out, vfAbortedTxn{PID: u.PID, FirstOffset: first, LastOffset: u.Base})
			}
			delete(open, u.PID)
		}
	}
	return out
}

func (run *vfConsRun) history() interface{} {
	ev := run.sim.hist.snapshot()
	if len(ev) > 300 {
		ev = ev[len(ev)-300:]
	}
	type exp struct {
		Part int     `json:"part"`
		Want []int64 `json:"wantOffsets"`
		Got  []int64 `json:"gotOffsets"`
	}
	var exps []exp
	for pi := range run.c.Parts {
		e := exp{Part: pi}
		for _, x := range vfcExpect(run.c, pi, len(run.c.Parts[pi].Units), run.resolveStart(pi)) {
			e.Want = append(e.Want, x.Off)
		}
		if pi < len(run.got) {
			for _, g := range run.got[pi] {
				e.Got = append(e.Got, g.Off)
			}
		}
		exps = append(exps, e)
	}
	out := map[string]interface{}{"offsets": exps, "errors": run.errs, "startErr": run.startErr, "stuck": run.stuck, "hang": run.hang, "panics": run.panics, "events": ev}
	if run.stacks != "" {
		s := run.stacks
		if len(s) > 20000 {
			s = s[:20000]
		}
		out["goroutines"] = s
	}
	return out
}

func (run *vfConsRun) fail(symptom, format string, a ...interface{}) *vfcore.Failure {
	f := vfcore.Failf(symptom, format, a...)
	f.History = run.history()
	return f
}

// vfOracleCons: delivered stream == expected stream, field by field, once, in order; progress; nothing panicked.
func vfOracleCons(run *vfConsRun, checkProgress bool) *vfcore.Failure {
	c := run.c
	if run.createErr != "" {
		if bytes.HasPrefix([]byte(run.createErr), []byte("harness")) {
			return vfcore.Failf("harness", "%s", run.createErr)
		}
		return nil
	}
	if len(run.panics) > 0 {
		return run.fail("panic-in-pipeline", "PanicHandler caught: %v", run.panics)
	}
	for pi := range c.Parts {
		p := &c.Parts[pi]
		if run.startErr[pi] != "" {
			hw := int64(0)
			if p.Initial > 0 {
				hw = run.resolveStartAt(pi, -1)
			} else {
				hw = p.LogStart
			}
			if p.Start >= 0 && (p.Start < p.LogStart || p.Start > hw) {
				continue // documented: out of range literal start is refused
			}
			if run.startErr[pi] != ErrOffsetOutOfRange.Error() {
				// the start failed for a reason that has nothing to do with the offset (e.g. the spurious ErrNotConnected of
				// known finding KF-C15-1 when two goroutines open the same broker): the statement is about consumers that started
				continue
			}
			return run.fail("start-refused", "ConsumePartition(t,%d,%d) failed: %s (log start %d, end %d)", pi, p.Start, run.startErr[pi], p.LogStart, hw)
		}
		S := run.resolveStart(pi)
		want := vfcExpect(c, pi, len(p.Units), S)
		got := run.got[pi]
		outOfRange := false
		for _, f := range p.Faults {
			if f.Kind == "err" && f.Code == 1 {
				outOfRange = true
			}
		}
		for i := 0; i < len(got); i++ {
			g := &got[i]
			if i > 0 && g.Off <= got[i-1].Off {
				return run.fail("not-increasing", "partition %d: offset %d delivered after offset %d", pi, g.Off, got[i-1].Off)
			}
			if i >= len(want) {
				return run.fail("extra-delivery", "partition %d: offset %d delivered but only %d records are visible from offset %d", pi, g.Off, len(want), S)
			}
			w := &want[i]
			if g.Off != w.Off {
				if g.Off > w.Off {
					return run.fail("skipped", "partition %d: expected offset %d next, got %d (record skipped)", pi, w.Off, g.Off)
				}
				return run.fail("unexpected-offset", "partition %d: expected offset %d next, got %d (invisible or already delivered record)", pi, w.Off, g.Off)
			}
			if !bytes.Equal(g.Key, w.Key) || !bytes.Equal(g.Val, w.Val) {
				return run.fail("altered", "partition %d offset %d: delivered key=%q value=%q, log has key=%q value=%q", pi, g.Off, g.Key, g.Val, w.Key, w.Val)
			}
			if (g.Val == nil) != (w.Val == nil) || (g.Key == nil) != (w.Key == nil) {
				return run.fail("altered:nil", "partition %d offset %d: nil-ness of key/value differs (delivered key nil=%v value nil=%v; log key nil=%v value nil=%v)", pi, g.Off, g.Key == nil, g.Val == nil, w.Key == nil, w.Val == nil)
			}
			if g.TsMs != w.TsMs {
				return run.fail("altered:timestamp", "partition %d offset %d: delivered timestamp %d, log has %d", pi, g.Off, g.TsMs, w.TsMs)
			}
			if len(c.Interceptors) == 0 && fmt.Sprint(g.Hdrs) != fmt.Sprint(w.Hdrs) {
				return run.fail("altered:headers", "partition %d offset %d: delivered headers %v, log has %v", pi, g.Off, g.Hdrs, w.Hdrs)
			}
			if g.Topic != "t" || g.Part != int32(pi) {
				return run.fail("altered:origin", "partition %d offset %d delivered as %s/%d", pi, g.Off, g.Topic, g.Part)
			}
		}
		if len(got) < len(want) && checkProgress {
			if outOfRange {
				ok := false
				for _, e := range run.errs[pi] {
					if e == ErrOffsetOutOfRange.Error() {
						ok = true
					}
				}
				if !ok && run.closedCh[pi] {
					return run.fail("outofrange-not-reported", "partition %d: consumer shut down without reporting OffsetOutOfRange", pi)
				}
				continue
			}
			if run.stuck != "" {
				return run.fail("no-progress", "partition %d: %s; next expected offset %d", pi, run.stuck, want[len(got)].Off)
			}
			return run.fail("incomplete", "partition %d: %d of %d delivered when the consumer ended", pi, len(got), len(want))
		}
	}
	if run.hang != "" {
		return run.fail("close-hang", "%s", run.hang)
	}
	return nil
}

func (run *vfConsRun) resolveStartAt(pi int, sym int64) int64 {
	save := run.c.Parts[pi].Start
	run.c.Parts[pi].Start = sym
	v := run.resolveStart(pi)
	run.c.Parts[pi].Start = save
	return v
}
