//go:build go1.18 && verif

package sarama

// C12: shutdown always completes. Every scenario is first run to its normal end to count its observable
// events K (simulator events of every kind + hook hits); then it is re-run and closed after the k-th event
// for a set of k (quick: drawn permilles of K; thorough: every k). DESIGN.md 5.12.

import (
	"fmt"
	"sync"
	"sync/atomic"
	"testing"
	"time"

	"github.com/Shopify/sarama/internal/vfcore"
	"github.com/rcrowley/go-metrics"
	"pgregory.net/rapid"
)

type vfClientScenario struct {
	Version   string               `json:"version"`
	Brokers   int                  `json:"brokers"`
	Topics    int                  `json:"topics"`
	Faults    map[string][]vfFault `json:"faults,omitempty"`
	Ops       []string             `json:"ops"` // refresh | refreshTopic | leader | partitions | coordinator | sleep
	RefreshMs int                  `json:"refreshMs"`
}

type vfC12Case struct {
	Scenario    string            `json:"scenario"` // producer | consumer | group | offsets | client
	Prod        *vfProdCase       `json:"prod,omitempty"`
	Cons        *vfConsCase       `json:"cons,omitempty"`
	Grp         *vfGrpCase        `json:"grp,omitempty"`
	OM          *vfOMCase         `json:"om,omitempty"`
	Client      *vfClientScenario `json:"client,omitempty"`
	Permille    []int             `json:"permille"`          // close points as permille of K
	K           []int64           `json:"k,omitempty"`       // explicit close points (replay of a shrunk failure)
	Unreach     int               `json:"unreach,omitempty"` // permille of K at which the cluster becomes unreachable (0 = never)
	UnreachKind string            `json:"unreachKind,omitempty"`
}

type vfC12Result struct {
	events      int64
	hang        string
	panics      []string
	other       *vfcore.Failure
	closedEarly bool
	atClose     string
	history     interface{}
}

func vfGenC12Case(t *rapid.T) *vfC12Case {
	c := &vfC12Case{Scenario: rapid.SampledFrom([]string{"producer", "producer", "consumer", "consumer", "group", "group", "offsets", "client"}).Draw(t, "scenario")}
	switch c.Scenario {
	case "producer":
		c.Prod = vfGenProdCase(t, "C12")
	case "consumer":
		c.Cons = vfGenConsCase(t, "C12")
		c.Cons.PauseReadersAtClose = rapid.Bool().Draw(t, "pauseReadersAtClose")
	case "group":
		c.Grp = vfGenGrpCase(t)
		// widen the window between the closed-check and the send in consumerGroup.handleError (bounded delays only)
		if c.Grp.Delays == nil {
			c.Grp.Delays = map[string][]int{}
		}
		v := make([]int, 8)
		for i := range v {
			v[i] = rapid.SampledFrom([]int{0, 0, 2, 3, 4, 4}).Draw(t, fmt.Sprintf("d.handleError.%d", i))
		}
		c.Grp.Delays["group.handleError.mid"] = v
	case "offsets":
		c.OM = vfGenOMCase(t)
	case "client":
		cs := &vfClientScenario{Version: rapid.SampledFrom(vfVersionList).Draw(t, "version"), Brokers: rapid.IntRange(1, 3).Draw(t, "brokers"), Topics: rapid.IntRange(1, 2).Draw(t, "topics"), RefreshMs: 1}
		n := rapid.IntRange(1, 10).Draw(t, "nOps")
		for i := 0; i < n; i++ {
			cs.Ops = append(cs.Ops, rapid.SampledFrom([]string{"refresh", "refreshTopic", "leader", "partitions", "sleep", "sleep"}).Draw(t, fmt.Sprintf("op%d", i)))
		}
		cs.Faults = map[string][]vfFault{}
		nf := rapid.IntRange(0, 3).Draw(t, "nFaults")
		for i := 0; i < nf; i++ {
			pad := rapid.IntRange(1, 6).Draw(t, fmt.Sprintf("f%d.pad", i))
			l := cs.Faults["metadata"]
			for j := 0; j < pad; j++ {
				l = append(l, vfFault{Kind: "ok"})
			}
			cs.Faults["metadata"] = append(l, rapid.SampledFrom([]vfFault{{Kind: "dropBefore"}, {Kind: "err", Code: 5}, {Kind: "ok", DelayUs: 3000}}).Draw(t, fmt.Sprintf("f%d.f", i)))
		}
		c.Client = cs
	}
	n := 12
	for i := 0; i < n; i++ {
		c.Permille = append(c.Permille, rapid.IntRange(0, 1000).Draw(t, fmt.Sprintf("k%d", i)))
	}
	if rapid.IntRange(0, 2).Draw(t, "unreachable") == 0 {
		c.Unreach = rapid.IntRange(1, 900).Draw(t, "unreachAt")
		c.UnreachKind = rapid.SampledFrom([]string{"refuse", "refuse", "silent"}).Draw(t, "unreachKind")
	}
	return c
}

func vfRunC12Once(c *vfC12Case, ctl *vfC12Ctl) vfC12Result {
	res := vfC12Result{}
	switch c.Scenario {
	case "producer":
		pc := *c.Prod
		pc.C12 = ctl
		if ctl != nil && ctl.UnreachKind == "silent" {
			pc.Conf.ReadTimeoutMs = 150
		}
		run := vfExecProd(&pc)
		res.events, res.hang, res.panics, res.closedEarly = run.eventsEnd, run.hang, run.panics, run.closedEarly
		if run.stop != nil {
			res.atClose = run.stop.atClose
		}
		if run.hang != "" || len(run.panics) > 0 {
			res.history = run.historyForFailure()
		}
		if run.created && run.hang == "" && !run.closedOK && !run.abandoned {
			res.hang = "producer channels were not observed closed"
		}
	case "consumer":
		cc := *c.Cons
		cc.C12 = ctl
		if ctl != nil && ctl.UnreachKind == "silent" {
			cc.ReadTimeoutMs = 150
		}
		run := vfExecCons(&cc)
		res.events, res.hang, res.panics, res.closedEarly = run.eventsEnd, run.hang, run.panics, run.closedEarly
		if run.stop != nil {
			res.atClose = run.stop.atClose
		}
		if run.secondClose != "" {
			res.other = vfcore.Failf("second-close", "%s", run.secondClose)
		}
		if run.createErr == "" && run.hang == "" {
			for pi := range run.closedCh {
				if run.startErr[pi] == "" && !run.closedCh[pi] {
					res.hang = fmt.Sprintf("Messages() of partition consumer %d was not closed after Close", pi)
				}
			}
		}
		if res.hang != "" || len(res.panics) > 0 || res.other != nil {
			res.history = run.history()
		}
	case "group":
		gc := *c.Grp
		gc.C12 = ctl
		run := vfExecGrp(&gc)
		res.events, res.hang, res.panics, res.closedEarly = run.eventsEnd, run.hang, run.panics, run.closedEarly
		if run.stop != nil {
			res.atClose = run.stop.atClose
		}
		if run.secondClose != "" {
			res.other = vfcore.Failf("second-close", "%s", run.secondClose)
		}
		if res.hang != "" || len(res.panics) > 0 || res.other != nil {
			f := run.fail("x", "x")
			res.history = f.History
		}
	case "offsets":
		oc := *c.OM
		if ctl == nil {
			ctl = &vfC12Ctl{}
		}
		oc.C12 = ctl
		rec := &vfcore.Rec{}
		f := vfRunOMCase(&oc, rec)
		res.events = vfLastOMEvents
		if f != nil {
			if f.Symptom == "hang" {
				res.hang = f.Message
				res.history = f.History
			} else if f.Symptom != "manage-failed" && f.Symptom != "harness" {
				// safety verdicts of C06 are not this check's business, but a failure here means the scenario did not reach its close
				res.other = nil
			}
		}
		res.closedEarly = ctl.CloseAt > 0
	case "client":
		res = vfRunClientScenario(c.Client, ctl)
	}
	return res
}

var vfLastOMEvents int64

func vfRunClientScenario(cs *vfClientScenario, ctl *vfC12Ctl) vfC12Result {
	res := vfC12Result{}
	sim := newVfSim(cs.Brokers)
	defer sim.shutdown()
	for ti := 0; ti < cs.Topics; ti++ {
		sim.addTopic(fmt.Sprintf("t%d", ti), []int32{1, int32(1 + ti%cs.Brokers)})
	}
	sim.enableGroups()
	sim.setFaults(cs.Faults)
	restore := vfInstallHooks(nil, sim)
	defer restore()
	var mu sync.Mutex
	oldPH := PanicHandler
	PanicHandler = func(v interface{}) {
		mu.Lock()
		res.panics = append(res.panics, fmt.Sprintf("%v\n%s", v, vfShortStack()))
		mu.Unlock()
	}
	defer func() { PanicHandler = oldPH }()
	stop := newVfStopper(ctl, sim)
	defer stop.finish()
	conf := NewConfig()
	conf.Version = vfVersions[cs.Version]
	conf.ClientID = "cl"
	conf.MetricRegistry = metrics.NewRegistry()
	conf.Net.Proxy.Enable = true
	conf.Net.Proxy.Dialer = sim.net
	conf.Net.ReadTimeout = 150 * time.Millisecond
	conf.Net.DialTimeout = 150 * time.Millisecond
	conf.Metadata.Retry.Max = 1
	conf.Metadata.Retry.Backoff = time.Millisecond
	conf.Metadata.RefreshFrequency = time.Duration(cs.RefreshMs) * time.Millisecond
	client, err := NewClient(sim.seedAddrs(), conf)
	if err != nil {
		return res
	}
	for _, op := range cs.Ops {
		if stop.stopped() {
			break
		}
		switch op {
		case "refresh":
			_ = client.RefreshMetadata()
		case "refreshTopic":
			_ = client.RefreshMetadata("t0")
		case "leader":
			_, _ = client.Leader("t0", 0)
		case "partitions":
			_, _ = client.Partitions("t0")
		case "sleep":
			t0 := time.Now()
			for time.Since(t0) < 2*time.Millisecond && !stop.stopped() {
				time.Sleep(100 * time.Microsecond)
			}
		}
	}
	res.events = vfEventCount(sim)
	res.closedEarly = stop.stopped()
	res.atClose = stop.atClose
	done := int32(0)
	var second error
	go func() {
		_ = client.Close()
		second = client.Close() // closing a client twice is documented as harmless
		atomic.StoreInt32(&done, 1)
	}()
	if !vfWaitQuiescent(sim, func() bool { return atomic.LoadInt32(&done) == 1 }) {
		res.hang = "Client.Close did not return"
		ev := sim.hist.snapshot()
		if len(ev) > 100 {
			ev = ev[len(ev)-100:]
		}
		res.history = map[string]interface{}{"events": ev, "goroutines": vfcore.Stacks()}
		return res
	}
	_ = second
	if !client.Closed() {
		res.other = vfcore.Failf("client-not-closed", "Closed() is false after Close returned")
	}
	return res
}

func vfRunC12(c *vfC12Case, r *vfcore.Rec) *vfcore.Failure {
	r.Class("scenario=" + c.Scenario)
	// dry run: count the observable events
	dry := vfRunC12Once(c, nil)
	if f := vfC12Verdict(c, dry, -1, 0); f != nil {
		return f
	}
	K := dry.events
	if K <= 0 {
		r.Class("scenario-did-not-start")
		return nil
	}
	r.Count("c12_K_total", K)
	var ks []int64
	if len(c.K) > 0 {
		ks = c.K
	} else if vfcore.Tier() == "thorough" && K <= 400 {
		for k := int64(1); k <= K; k++ {
			ks = append(ks, k)
		}
		r.Class("all-close-points")
	} else {
		for _, pm := range c.Permille {
			ks = append(ks, 1+K*int64(pm)/1000)
		}
	}
	inside := 0
	for _, k := range ks {
		ctl := &vfC12Ctl{CloseAt: k, DoubleClose: true}
		if c.Unreach > 0 {
			ctl.UnreachAt = 1 + K*int64(c.Unreach)/1000
			ctl.UnreachKind = c.UnreachKind
		}
		res := vfRunC12Once(c, ctl)
		r.Count("c12_close_points", 1)
		if f := vfC12Verdict(c, res, k, K); f != nil {
			return f
		}
		if res.closedEarly {
			inside++
			if res.atClose != "" && res.atClose != "pending=0 held=0" {
				r.Class("closed-with-request-pending")
			}
		}
	}
	if c.Unreach > 0 {
		r.Class("cluster-becomes-unreachable=" + c.UnreachKind)
	}
	if inside > 0 {
		r.NonTrivial("")
	}
	return nil
}

func vfC12Verdict(c *vfC12Case, res vfC12Result, k, K int64) *vfcore.Failure {
	where := "normal end"
	if k >= 0 {
		where = fmt.Sprintf("close after observable event %d of %d", k, K)
	}
	mk := func(sym, msg string) *vfcore.Failure {
		f := vfcore.Failf(sym, "%s scenario, %s: %s", c.Scenario, where, msg)
		f.History = map[string]interface{}{"closeAt": k, "K": K, "run": res.history}
		if c.Scenario == "producer" && c.Prod != nil {
			f.Regions = vfProdRegions(&vfProdRun{c: c.Prod, sim: newVfSim(1)})
		}
		return f
	}
	if len(res.panics) > 0 {
		return mk("panic", res.panics[0])
	}
	if res.hang != "" {
		return mk("hang", res.hang)
	}
	if res.other != nil {
		return mk(res.other.Symptom, res.other.Message)
	}
	return nil
}

func TestVF_C12(t *testing.T) {
	vfcore.Main(t, vfcore.Spec{
		ID:      "C12",
		Persist: true,
		New:     func() interface{} { return &vfC12Case{} },
		Gen:     func(t *rapid.T) interface{} { return vfGenC12Case(t) },
		Run:     func(ci interface{}, r *vfcore.Rec) *vfcore.Failure { return vfRunC12(ci.(*vfC12Case), r) },
	})
}
