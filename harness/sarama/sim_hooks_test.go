//go:build go1.18 && verif

package sarama

// Schedule perturbation through the verifHook instrumentation points (DESIGN.md 2.2 / 3.6).
// A case carries, per hook point, a vector of delay classes indexed by occurrence (mod length);
// everything is drawn up front by rapid, so a run is a function of the case.

import (
	"fmt"
	"log"
	"os"
	"runtime"
	"runtime/debug"
	"strings"
	"sync"
	"sync/atomic"
	"time"
)

var vfDelayClasses = []time.Duration{0, -1, 20 * time.Microsecond, 200 * time.Microsecond, 2 * time.Millisecond}

type vfHookState struct {
	mu     sync.Mutex
	counts map[string]int
	delays map[string][]int
	total  int64
	// gates: point -> channel that blocks the n-th hit until released (directed windows)
	block map[string]*vfHookBlock
	onHit func(point string, n int)
	sim   *vfSim
}

type vfHookBlock struct {
	occ     int
	ch      chan struct{}
	reached chan struct{}
	bounded time.Duration
}

var vfHooks atomic.Value // *vfHookState

func vfInstallHooks(delays map[string][]int, sim *vfSim) func() {
	if os.Getenv("VF_SARAMA_LOG") != "" { // development aid: the library's own log on stdout
		Logger = log.New(os.Stdout, "[sarama] ", log.Lmicroseconds)
	}
	st := &vfHookState{counts: map[string]int{}, delays: delays, block: map[string]*vfHookBlock{}, sim: sim}
	vfHooks.Store(st)
	verifHookFn.Store(func(point string) { st.hit(point) })
	return func() {
		verifHookFn.Store(func(string) {})
		st.mu.Lock()
		for _, b := range st.block {
			select {
			case <-b.ch:
			default:
				close(b.ch)
			}
		}
		st.mu.Unlock()
	}
}

func (st *vfHookState) hit(point string) {
	atomic.AddInt64(&st.total, 1)
	st.mu.Lock()
	n := st.counts[point]
	st.counts[point] = n + 1
	var class int
	if d := st.delays[point]; len(d) > 0 {
		class = d[n%len(d)]
	}
	b := st.block[point]
	cb := st.onHit
	st.mu.Unlock()
	if cb != nil {
		cb(point, n)
	}
	if point == "prod.broker.connerror" && st.sim != nil {
		// the producer took its connection-level failure path (handleError): what the known idempotence findings start from.
		// Recorded before the messages are re-queued, hence before anything re-batched can reach a broker.
		st.sim.ev(vfEvent{Kind: "client-conn-error"}, true)
	}
	if b != nil && b.occ == n {
		select {
		case <-b.reached:
		default:
			close(b.reached)
		}
		if b.bounded > 0 {
			select {
			case <-b.ch:
			case <-time.After(b.bounded):
			}
		} else {
			<-b.ch
		}
	}
	if class > 0 && class < len(vfDelayClasses) {
		if d := vfDelayClasses[class]; d < 0 {
			runtime.Gosched()
		} else {
			time.Sleep(d)
		}
	}
}

// blockAt arranges for the occ-th hit of point to block until release() (or for at most `bounded` if > 0).
func (st *vfHookState) blockAt(point string, occ int, bounded time.Duration) *vfHookBlock {
	b := &vfHookBlock{occ: occ, ch: make(chan struct{}), reached: make(chan struct{}), bounded: bounded}
	st.mu.Lock()
	st.block[point] = b
	st.mu.Unlock()
	return b
}

func (b *vfHookBlock) release() {
	select {
	case <-b.ch:
	default:
		close(b.ch)
	}
}

func (st *vfHookState) hits() int64 { return atomic.LoadInt64(&st.total) }

// vfShortStack returns the frames of the current (panicking) goroutine, trimmed.
func vfShortStack() string {
	st := string(debug.Stack())
	if i := strings.Index(st, "panic("); i >= 0 {
		st = st[i:]
	}
	if len(st) > 2500 {
		st = st[:2500]
	}
	return st
}

// vfC12Ctl asks an engine to end its scenario early: after the CloseAt-th observable event (simulator events of every
// kind + hook hits) the feeders stop and the component is closed in the documented order; at the UnreachAt-th event the
// whole cluster becomes unreachable (brokers refuse connections and drop the open ones, or fall silent).
type vfC12Ctl struct {
	CloseAt     int64  `json:"closeAt"`
	UnreachAt   int64  `json:"unreachAt,omitempty"`
	UnreachKind string `json:"unreachKind,omitempty"` // refuse | silent
	DoubleClose bool   `json:"doubleClose,omitempty"`
}

type vfStopper struct {
	ctl     *vfC12Ctl
	sim     *vfSim
	ch      chan struct{}
	done    chan struct{}
	fired   int32
	atClose string
}

func vfEventCount(sim *vfSim) int64 {
	n := atomic.LoadInt64(&sim.hist.seq)
	if st, ok := vfHooks.Load().(*vfHookState); ok && st != nil {
		n += st.hits()
	}
	return n
}

func newVfStopper(ctl *vfC12Ctl, sim *vfSim) *vfStopper {
	s := &vfStopper{ctl: ctl, sim: sim, ch: make(chan struct{}), done: make(chan struct{})}
	if ctl == nil || (ctl.CloseAt <= 0 && ctl.UnreachAt <= 0) {
		return s
	}
	go func() {
		unreached := ctl.UnreachAt <= 0
		for {
			select {
			case <-s.done:
				return
			default:
			}
			n := vfEventCount(sim)
			if !unreached && n >= ctl.UnreachAt {
				unreached = true
				sim.makeUnreachable(ctl.UnreachKind)
			}
			if ctl.CloseAt > 0 && n >= ctl.CloseAt {
				s.atClose = fmt.Sprintf("pending=%d held=%d", atomic.LoadInt64(&sim.pending), atomic.LoadInt64(&sim.held))
				atomic.StoreInt32(&s.fired, 1)
				close(s.ch)
				if unreached {
					return
				}
				ctl = &vfC12Ctl{UnreachAt: ctl.UnreachAt, UnreachKind: ctl.UnreachKind}
			}
			time.Sleep(20 * time.Microsecond)
		}
	}()
	return s
}

func (s *vfStopper) stopped() bool { return s != nil && atomic.LoadInt32(&s.fired) == 1 }
func (s *vfStopper) finish() {
	if s != nil {
		select {
		case <-s.done:
		default:
			close(s.done)
		}
	}
}

// vfWaitQuiescent waits until done() holds. It gives up (false) only under the quiescence rule: nothing is pending in
// the simulator and the relevant-event counter (which includes swallowed requests and refused dials, i.e. a client
// working through its timeouts) has not moved for Tq; or after an absolute cap of 120 s.
func vfWaitQuiescent(sim *vfSim, done func() bool) bool {
	tq := vfTq()
	last := int64(-1)
	lastChange := time.Now()
	start := time.Now()
	for !done() {
		p := sim.hist.progress()
		if p != last || atomic.LoadInt64(&sim.pending) > 0 {
			last, lastChange = p, time.Now()
		}
		if time.Since(lastChange) > tq || time.Since(start) > 120*time.Second {
			return false
		}
		time.Sleep(300 * time.Microsecond)
	}
	return true
}
