//go:build go1.18 && verif

package sarama

// C10 test functions: the rapid-driven search, the native fuzz targets (thorough tier),
// the seed-corpus writer and the call-site enumeration used to write the known-finding
// reproducers.

import (
	"encoding/json"
	"fmt"
	"os"
	"path/filepath"
	"runtime/debug"
	"sort"
	"strings"
	"sync"
	"testing"

	"github.com/Shopify/sarama/internal/vfcore"
	"pgregory.net/rapid"
)

func vfxSpec() vfcore.Spec {
	return vfcore.Spec{
		ID:      "C10",
		New:     func() interface{} { return &vfxCase{} },
		Gen:     func(rt *rapid.T) interface{} { return vfxGenCase(rt) },
		Run:     vfxRun,
		Persist: true,
	}
}

func vfxProcessSetup() {
	// fewer collections: sarama's pooled gzip / lz4 readers survive longer, so the cheap
	// allocation counter is rarely disturbed by their re-creation (no effect on verdicts)
	debug.SetGCPercent(400)
	vfxWarmPools()
}

// TestVF_C10 is the search: -rapid.checks cases per shard, each persisted before it runs.
func TestVF_C10(t *testing.T) {
	vfxProcessSetup()
	vfcore.Main(t, vfxSpec())
}

// ---------------------------------------------------------------- native fuzz targets (same oracle)

var vfxFuzzSetup sync.Once

// vfxFuzzMaxInput caps fuzz inputs: a few KB reach every decoder path, and a crafted
// compressed payload of that size cannot legitimately expand beyond what the memory cap
// and the watchdog tolerate (zstd run-length blocks: 128 KB per 4 bytes).
const vfxFuzzMaxInput = 8192

func vfxFuzzJudge(t *testing.T, c *vfxCase) {
	vfxFuzzSetup.Do(vfxProcessSetup)
	if len(c.Input) > vfxFuzzMaxInput {
		c.Input = c.Input[:vfxFuzzMaxInput]
	}
	c.Mut = "fuzz"
	f := vfxRun(c, &vfcore.Rec{})
	if f != nil && !vfxIsKnown(f) {
		raw, _ := json.Marshal(c)
		t.Fatalf("VF-FAIL property=C10 symptom=%s: %s\ncase: %s", f.Symptom, f.Message, raw)
	}
}

// FuzzVF_C10_Response: data is handed to versionedDecode of response type typeIdx at the given version.
func FuzzVF_C10_Response(f *testing.F) {
	f.Add(uint16(14), uint8(0), []byte{0, 0, 0x0d, 0xc0, 0, 0, 0, 0, 0}) // 9-byte SaslHandshakeResponse announcing 2^27.. strings
	f.Fuzz(func(t *testing.T, typeIdx uint16, version uint8, data []byte) {
		p := vfxRespPairs[0]
		// typeIdx selects the response type, version its version (both reduced modulo the table)
		var types []int
		for i := range vfBodies {
			if vfBodies[i].Kind == "response" {
				types = append(types, i)
			}
		}
		p.Type = types[int(typeIdx)%len(types)]
		p.Version = int16(version) % (vfBodies[p.Type].MaxV + 1)
		vfxFuzzJudge(t, &vfxCase{Entry: vfxEResp, Type: vfBodies[p.Type].Name, Version: p.Version, Input: append([]byte{}, data...)})
	})
}

// FuzzVF_C10_Header: response header v0 / v1 and the body-length arithmetic of responseReceiver.
func FuzzVF_C10_Header(f *testing.F) {
	f.Add(uint8(0), []byte{0, 0, 0, 5, 0, 0, 0, 1})
	f.Add(uint8(1), []byte{0x80, 0, 0, 0, 0, 0, 0, 1, 0})
	f.Fuzz(func(t *testing.T, version uint8, data []byte) {
		vfxFuzzJudge(t, &vfxCase{Entry: vfxEHeader, Version: int16(version % 2), Input: append([]byte{}, data...)})
	})
}

var vfxRecordEntries = []string{vfxERecords, vfxEBatch, vfxEMsgSet, vfxEMessage, vfxERecord}

// FuzzVF_C10_Records: Records / RecordBatch / MessageSet / Message / Record decode.
func FuzzVF_C10_Records(f *testing.F) {
	f.Add(uint8(4), []byte{0x12, 0x04, 0x00, 0x1c, 0x00, 0x06, 0x74, 0x08, 0x34, 0xfe, 0xff, 0xff, 0xff, 0x0f}) // record with 2^31-1 headers
	f.Fuzz(func(t *testing.T, kind uint8, data []byte) {
		vfxFuzzJudge(t, &vfxCase{Entry: vfxRecordEntries[int(kind)%len(vfxRecordEntries)], Input: append([]byte{}, data...)})
	})
}

// FuzzVF_C10_Fetch: FetchResponse decode followed by partitionConsumer.parseResponse for topic "t" partition 0.
func FuzzVF_C10_Fetch(f *testing.F) {
	f.Add(uint8(4), false, int64(0), []byte{0, 0, 0, 0, 0, 0, 0, 1, 0, 1, 't', 0, 0, 0, 1, 0, 0, 0, 0, 0, 0, 0, 0, 0, 0, 0, 0, 0, 9, 0, 0, 0, 0, 0, 0, 0, 9, 0xff, 0xff, 0xff, 0xff, 0, 0, 0, 0})
	f.Fuzz(func(t *testing.T, version uint8, readCommitted bool, offset int64, data []byte) {
		v := int16(version) % (vfBodies[vfxFetchIndex].MaxV + 1)
		vfxFuzzJudge(t, &vfxCase{Entry: vfxEFetch, Version: v, Topic: "t", Partition: 0, ChildOffset: offset, ReadCommitted: readCommitted, Input: append([]byte{}, data...)})
	})
}

var vfxGroupEntries = []string{vfxEMeta, vfxEAssign, vfxEUserData}

// FuzzVF_C10_Group: member metadata / member assignment / sticky user data.
func FuzzVF_C10_Group(f *testing.F) {
	f.Add(uint8(0), []byte{0x11, 0x00, 0xd0, 0x0a, 0x03, 0x01, 0xcf, 0x3c, 0x41, 0x03}) // metadata announcing 3.5e9 topics
	f.Fuzz(func(t *testing.T, kind uint8, data []byte) {
		vfxFuzzJudge(t, &vfxCase{Entry: vfxGroupEntries[int(kind)%len(vfxGroupEntries)], Input: append([]byte{}, data...)})
	})
}

// FuzzVF_C10_Plan: the fuzz bytes are the draw tape of the plan generator (members,
// subscriptions, well-formed / damaged / random user data), so coverage steers its shape.
func FuzzVF_C10_Plan(f *testing.F) {
	f.Add([]byte{1, 2, 3, 4, 5, 6, 7, 8, 9, 10, 11, 12, 13, 14, 15, 16})
	f.Fuzz(func(t *testing.T, tape []byte) {
		if len(tape) > 4096 {
			tape = tape[:4096]
		}
		c := vfxDrawPlan(&vfDraws{seed: tape})
		vfxFuzzJudge(t, c)
	})
}

// ---------------------------------------------------------------- seed corpus writer

func vfxQuoteBytes(b []byte) string { return fmt.Sprintf("%q", b) }

// TestVF_C10_Corpus writes seed inputs (valid encodings of every entry / type / version
// plus the hostile constants of the known findings) in the native fuzzer's corpus file
// format under VF_CORPUS_OUT/<target>/ (the committed files live in /verif/corpus/).
func TestVF_C10_Corpus(t *testing.T) {
	root := os.Getenv("VF_CORPUS_OUT")
	if root == "" {
		t.Skip("VF_CORPUS_OUT not set")
	}
	write := func(target, name, body string) {
		dir := filepath.Join(root, target)
		if err := os.MkdirAll(dir, 0o755); err != nil {
			t.Fatal(err)
		}
		if err := os.WriteFile(filepath.Join(dir, name), []byte("go test fuzz v1\n"+body), 0o644); err != nil {
			t.Fatal(err)
		}
	}
	// the largest of N drawn valid encodings per (entry, pair)
	best := func(entry string, pair vfPair) *vfxValid {
		var out *vfxValid
		rapid.Check(t, func(rt *rapid.T) {
			d := &vfDraws{t: rt}
			v := vfxValidFor(d, entry, pair)
			if v != nil && len(v.R) <= 1500 && (out == nil || len(v.R) > len(out.R)) {
				out = v
			}
		})
		return out
	}
	var types []int
	for i := range vfBodies {
		if vfBodies[i].Kind == "response" {
			types = append(types, i)
		}
	}
	for k, ti := range types {
		for v := int16(0); v <= vfBodies[ti].MaxV; v++ {
			if x := best(vfxEResp, vfPair{ti, v}); x != nil {
				write("FuzzVF_C10_Response", fmt.Sprintf("seed-%s-v%d", vfBodies[ti].Name, v),
					fmt.Sprintf("uint16(%d)\nbyte(%q)\n[]byte(%s)\n", k, byte(v), vfxQuoteBytes(x.R)))
			}
		}
	}
	for v := int16(0); v <= 1; v++ {
		if x := best(vfxEHeader, vfPair{}); x != nil {
			write("FuzzVF_C10_Header", fmt.Sprintf("seed-header-%d", v), fmt.Sprintf("byte(%q)\n[]byte(%s)\n", byte(v), vfxQuoteBytes(x.R)))
		}
	}
	for k, e := range vfxRecordEntries {
		for n := 0; n < 4; n++ {
			if x := best(e, vfPair{}); x != nil {
				write("FuzzVF_C10_Records", fmt.Sprintf("seed-%s-%d", e, n), fmt.Sprintf("byte(%q)\n[]byte(%s)\n", byte(k), vfxQuoteBytes(x.R)))
			}
		}
	}
	for k, e := range vfxGroupEntries {
		for n := 0; n < 3; n++ {
			if x := best(e, vfPair{}); x != nil {
				write("FuzzVF_C10_Group", fmt.Sprintf("seed-%s-%d", e, n), fmt.Sprintf("byte(%q)\n[]byte(%s)\n", byte(k), vfxQuoteBytes(x.R)))
			}
		}
	}
	for v := int16(0); v <= vfBodies[vfxFetchIndex].MaxV; v++ {
		// the consumer's partition must be "t"/0 in the seed
		var out []byte
		var off int64
		rapid.Check(t, func(rt *rapid.T) {
			d := &vfDraws{t: rt}
			x := vfxValidFetch(d, v, true)
			if x == nil || len(x.R) > 1500 || len(x.R) < len(out) {
				return
			}
			f := vfCopyFetch(x.Fetch)
			f.Topics[0].Name = "t"
			f.Topics[0].Parts[0].ID = 0
			var w vfW
			if vfWriteFetch(&w, f) == nil {
				out = w.b
				off = 0
				if rs := f.Topics[0].Parts[0].Records; len(rs) > 0 && rs[0].Batch != nil {
					off = rs[0].Batch.FirstOffset
				}
			}
		})
		if out != nil {
			write("FuzzVF_C10_Fetch", fmt.Sprintf("seed-fetch-v%d", v), fmt.Sprintf("byte(%q)\nbool(false)\nint64(%d)\n[]byte(%s)\n", byte(v), off, vfxQuoteBytes(out)))
		}
	}
	for n := 0; n < 8; n++ {
		var tape []byte
		rapid.Check(t, func(rt *rapid.T) {
			d := &vfDraws{t: rt}
			vfxDrawPlan(d)
			if len(d.rec) > len(tape) && len(d.rec) < 600 {
				tape = append([]byte{}, d.rec...)
			}
		})
		write("FuzzVF_C10_Plan", fmt.Sprintf("seed-plan-%d", n), fmt.Sprintf("[]byte(%s)\n", vfxQuoteBytes(tape)))
	}
	// hostile constants: the inputs of the committed reproducers
	if dir := os.Getenv("VF_KNOWN_DIR"); dir != "" {
		files, _ := filepath.Glob(filepath.Join(dir, "KF-C10-*.json"))
		sort.Strings(files)
		for _, fn := range files {
			raw, err := os.ReadFile(fn)
			if err != nil {
				continue
			}
			var doc struct {
				Case vfxCase `json:"case"`
			}
			if json.Unmarshal(raw, &doc) != nil {
				continue
			}
			c := doc.Case
			name := "hostile-" + strings.TrimSuffix(filepath.Base(fn), ".json")
			switch vfxGroup(c.Entry) {
			case "response":
				for k, ti := range types {
					if vfBodies[ti].Name == c.Type {
						write("FuzzVF_C10_Response", name, fmt.Sprintf("uint16(%d)\nbyte(%q)\n[]byte(%s)\n", k, byte(c.Version), vfxQuoteBytes(c.Input)))
					}
				}
			case "records":
				for k, e := range vfxRecordEntries {
					if e == c.Entry {
						write("FuzzVF_C10_Records", name, fmt.Sprintf("byte(%q)\n[]byte(%s)\n", byte(k), vfxQuoteBytes(c.Input)))
					}
				}
			case "group":
				for k, e := range vfxGroupEntries {
					if e == c.Entry {
						write("FuzzVF_C10_Group", name, fmt.Sprintf("byte(%q)\n[]byte(%s)\n", byte(k), vfxQuoteBytes(c.Input)))
					}
				}
			}
		}
	}
}

// ---------------------------------------------------------------- call-site enumeration (development tool)

// TestVF_C10_Enumerate sets every ARRAY count of valid encodings of every response
// type and version (and of the group structures) to -1, one at a time, and lists the
// distinct failure symptoms with one reproducer each (VF_ENUM_OUT = output directory).
// It is how the per-call-site known findings of region null-array-count were listed.
func TestVF_C10_Enumerate(t *testing.T) {
	out := os.Getenv("VF_ENUM_OUT")
	if out == "" {
		t.Skip("VF_ENUM_OUT not set")
	}
	type hit struct {
		Symptom string   `json:"symptom"`
		Regions []string `json:"regions"`
		Message string   `json:"message"`
		Case    *vfxCase `json:"case"`
	}
	found := map[string]*hit{}
	try := func(c *vfxCase) {
		f := vfxRun(c, &vfcore.Rec{})
		if f == nil {
			return
		}
		key := f.Symptom + "|" + strings.Join(f.Regions, ",")
		if h, ok := found[key]; !ok || len(c.Input) < len(h.Case.Input) {
			found[key] = &hit{Symptom: f.Symptom, Regions: f.Regions, Message: f.Message, Case: c}
		}
	}
	entries := []string{vfxEResp, vfxEMeta, vfxEAssign, vfxEUserData}
	for _, e := range entries {
		pairs := []vfPair{{}}
		if e == vfxEResp {
			pairs = vfxRespPairs
		}
		for _, p := range pairs {
			p := p
			rapid.Check(t, func(rt *rapid.T) {
				d := &vfDraws{t: rt}
				v := vfxValidFor(d, e, p)
				if v == nil {
					return
				}
				for _, f := range v.Fields {
					if f.Kind != vfKArrayLen || f.Len != 4 {
						continue
					}
					in := vfxClone(v.R)
					in[f.Off], in[f.Off+1], in[f.Off+2], in[f.Off+3] = 0xff, 0xff, 0xff, 0xff
					try(&vfxCase{Entry: e, Type: v.Type, Version: v.Version, Mut: "len:arraylen=-1", Input: in})
				}
			})
		}
	}
	var keys []string
	for k := range found {
		keys = append(keys, k)
	}
	sort.Strings(keys)
	var list []*hit
	for _, k := range keys {
		list = append(list, found[k])
	}
	raw, _ := json.MarshalIndent(list, "", " ")
	if err := os.WriteFile(filepath.Join(out, "enumerated.json"), raw, 0o644); err != nil {
		t.Fatal(err)
	}
	fmt.Printf("VF-ENUM %d distinct symptoms\n", len(list))
	for _, h := range list {
		fmt.Printf("VF-ENUM %s regions=%v input=%d bytes\n", h.Symptom, h.Regions, len(h.Case.Input))
	}
}
