//go:build go1.18 && verif

package sarama

// C15 generator and test entry. All randomness is drawn here; the case is plain data.

import (
	"fmt"
	"testing"

	"github.com/Shopify/sarama/internal/vfcore"
	"pgregory.net/rapid"
)

var vfc15TopicPool = []string{"t0", "t1", "t2", "t3"}
var vfc15Versions = []string{"0.8.2.0", "0.10.0.0", "1.0.0.0", "2.1.0.0"}
var vfc15ReadKinds = []string{"topics", "brokers", "partitions", "writable", "leader", "replicas", "isr", "offline", "partitions", "writable", "leader", "leader"}
var vfc15TopicErrs = []int16{5, 3, 17, 29, 7, 13, 0, 0}

type vfc15GenCtx struct {
	t       *rapid.T
	silent  bool
	bg      bool
	brokers int
}

func (g *vfc15GenCtx) leaderID(label string) int32 {
	k := rapid.IntRange(0, 11).Draw(g.t, label)
	switch {
	case k == 0:
		return -1
	case k == 1:
		return 99 // an id that is never in the broker list
	default:
		return int32(1 + (k-2)%5)
	}
}

func (g *vfc15GenCtx) leaders(label string, min, max int) []int32 {
	n := rapid.IntRange(min, max).Draw(g.t, label+".n")
	out := make([]int32, n)
	for i := range out {
		out[i] = g.leaderID(fmt.Sprintf("%s.%d", label, i))
	}
	return out
}

func (g *vfc15GenCtx) ids(label string) []int32 {
	n := rapid.IntRange(0, 3).Draw(g.t, label+".n")
	out := make([]int32, 0, n)
	for i := 0; i < n; i++ {
		out = append(out, int32(rapid.IntRange(1, 6).Draw(g.t, fmt.Sprintf("%s.%d", label, i))))
	}
	return out
}

func (g *vfc15GenCtx) topic(label string) string {
	k := rapid.IntRange(0, 8).Draw(g.t, label)
	if k == 8 {
		return "tx" // never created
	}
	return vfc15TopicPool[k%len(vfc15TopicPool)]
}

func (g *vfc15GenCtx) read(label string) vfc15Step {
	return vfc15Step{Op: "read",
		Kind:  rapid.SampledFrom(vfc15ReadKinds).Draw(g.t, label+".kind"),
		Topic: g.topic(label + ".topic"),
		Part:  rapid.IntRange(0, 5).Draw(g.t, label+".part")}
}

func (g *vfc15GenCtx) mutation(label string) vfc15Step {
	t := g.t
	k := rapid.IntRange(0, 74).Draw(t, label+".mut")
	st := vfc15Step{}
	switch {
	case k < 6:
		st.Op = "addTopic"
		st.Topic = g.topic(label + ".topic")
		st.Leaders = g.leaders(label+".leaders", 1, 5)
		if rapid.IntRange(0, 5).Draw(t, label+".terr") == 0 {
			st.Code = rapid.SampledFrom(vfc15TopicErrs).Draw(t, label+".code")
		}
	case k < 10:
		st.Op = "delTopic"
		st.Topic = g.topic(label + ".topic")
	case k < 17:
		st.Op = "topicErr"
		st.Topic = g.topic(label + ".topic")
		st.Code = rapid.SampledFrom(vfc15TopicErrs).Draw(t, label+".code")
	case k < 22:
		st.Op = "addParts"
		st.Topic = g.topic(label + ".topic")
		st.Leaders = g.leaders(label+".leaders", 1, 3)
	case k < 28:
		st.Op = "rmPart"
		st.Topic = g.topic(label + ".topic")
		st.Part = rapid.IntRange(0, 5).Draw(t, label+".part")
		st.N = rapid.IntRange(1, 2).Draw(t, label+".n")
	case k < 35:
		st.Op = "leader"
		st.Topic = g.topic(label + ".topic")
		st.Part = rapid.IntRange(0, 5).Draw(t, label+".part")
		st.Leader = g.leaderID(label + ".leader")
	case k < 39:
		st.Op = "replicas"
		st.Topic = g.topic(label + ".topic")
		st.Part = rapid.IntRange(0, 5).Draw(t, label+".part")
		st.Ids = g.ids(label + ".replicas")
		st.Isr = g.ids(label + ".isr")
		st.Offline = g.ids(label + ".offline")
	case k < 43:
		st.Op = "partErr"
		st.Topic = g.topic(label + ".topic")
		st.Part = rapid.IntRange(0, 5).Draw(t, label+".part")
		st.Code = rapid.SampledFrom([]int16{5, 9, 7, 0}).Draw(t, label+".code")
	case k < 46:
		st.Op = "addBroker"
		st.Broker = rapid.IntRange(1, 5).Draw(t, label+".id")
		st.Variant = rapid.IntRange(0, 2).Draw(t, label+".variant")
	case k < 49:
		st.Op = "rmBroker"
		st.Broker = rapid.IntRange(0, 4).Draw(t, label+".broker")
	case k < 53:
		st.Op = "readdr"
		st.Broker = rapid.IntRange(0, 4).Draw(t, label+".broker")
		st.Variant = rapid.IntRange(0, 3).Draw(t, label+".variant")
	case k < 56:
		st.Op = "down"
		st.Broker = rapid.IntRange(0, 4).Draw(t, label+".broker")
	case k < 57:
		st.Op = "up"
		st.Broker = rapid.IntRange(0, 4).Draw(t, label+".broker")
	case k < 59:
		st.Op = "failNext"
		st.Broker = rapid.IntRange(0, 4).Draw(t, label+".broker")
		st.Kind = "dropBefore"
		st.N = rapid.IntRange(1, 3).Draw(t, label+".n")
		if g.silent && rapid.Bool().Draw(t, label+".silent") {
			st.Kind = "silent"
			st.N = 1
		}
	case k < 60:
		st.Op = "heal"
		st.Broker = rapid.IntRange(0, 4).Draw(t, label+".broker")
	case k < 62:
		st.Op = "scriptNext"
		st.N = rapid.IntRange(1, 3).Draw(t, label+".n")
		if rapid.Bool().Draw(t, label+".witherr") {
			st.Code = rapid.SampledFrom(vfc15TopicErrs).Draw(t, label+".code")
		}
		st.DelayUs = rapid.SampledFrom([]int{0, 0, 100, 400, 1500}).Draw(t, label+".delay")
	case k < 64:
		st.Op = "downSeeds"
	case k < 66:
		st.Op = "upAll"
	case k < 67:
		st.Op = "readdr"
		st.Broker = rapid.IntRange(0, 4).Draw(t, label+".broker")
		st.Variant = rapid.IntRange(0, 3).Draw(t, label+".variant")
	case k < 69:
		st.Op = "swapBroker"
		st.Broker = rapid.IntRange(0, 4).Draw(t, label+".broker")
		st.N = rapid.IntRange(1, 6).Draw(t, label+".newid")
		st.Variant = rapid.IntRange(0, 2).Draw(t, label+".variant")
	case k < 74:
		st.Op = "replicas"
		st.Topic = g.topic(label + ".topic")
		st.Part = rapid.IntRange(0, 5).Draw(t, label+".part")
		st.Ids = g.ids(label + ".replicas")
		st.Isr = g.ids(label + ".isr")
		st.Offline = g.ids(label + ".offline")
	default:
		st.Op = "scriptNext"
		st.N = rapid.IntRange(1, 2).Draw(t, label+".n")
		st.DelayUs = rapid.SampledFrom([]int{100, 400, 1500}).Draw(t, label+".delay")
	}
	return st
}

func (g *vfc15GenCtx) step(label string, phaseB bool) vfc15Step {
	t := g.t
	k := rapid.IntRange(0, 99).Draw(t, label+".what")
	switch {
	case k < 24:
		st := vfc15Step{Op: "refresh"}
		if rapid.IntRange(0, 9).Draw(t, label+".all") >= 5 {
			n := rapid.IntRange(1, 2).Draw(t, label+".nt")
			seen := map[string]bool{}
			for i := 0; i < n; i++ {
				name := g.topic(fmt.Sprintf("%s.rt%d", label, i))
				if !seen[name] {
					seen[name] = true
					st.Topics = append(st.Topics, name)
				}
			}
		}
		return st
	case k < 40 && !phaseB:
		return g.read(label)
	case k < 49:
		return vfc15Step{Op: "sweep"}
	case k < 52 && (g.bg || phaseB):
		return vfc15Step{Op: "sleep", DelayUs: rapid.IntRange(100, 2500).Draw(t, label+".us")}
	}
	return g.mutation(label)
}

func vfc15Gen(t *rapid.T) *vfc15Case {
	g := &vfc15GenCtx{t: t}
	c := &vfc15Case{}
	c.Version = rapid.SampledFrom(vfc15Versions).Draw(t, "version")
	c.Full = rapid.IntRange(0, 9).Draw(t, "full") < 7
	c.RetryMax = rapid.IntRange(0, 3).Draw(t, "retryMax")
	if rapid.IntRange(0, 9).Draw(t, "bg") < 4 {
		c.BgUs = rapid.IntRange(1000, 2000).Draw(t, "bgUs")
		g.bg = true
	}
	c.MaxOpen = rapid.IntRange(1, 3).Draw(t, "maxOpen")
	g.silent = rapid.IntRange(0, 11).Draw(t, "useSilent") == 0
	c.TimeoutMs = 2000
	if g.silent {
		c.TimeoutMs = rapid.IntRange(100, 150).Draw(t, "timeoutMs")
		if c.RetryMax > 1 {
			c.RetryMax = 1
		}
	}
	nb := rapid.IntRange(1, 4).Draw(t, "brokers")
	g.brokers = nb
	for i := 1; i <= nb; i++ {
		c.Brokers = append(c.Brokers, vfc15Broker{ID: int32(i), Addr: vfBrokerAddr(int32(i))})
	}
	ns := rapid.IntRange(1, 3).Draw(t, "seeds")
	seen := map[string]bool{}
	for i := 0; i < ns; i++ {
		k := rapid.IntRange(0, 9).Draw(t, fmt.Sprintf("seed%d", i))
		addr := vfBrokerAddr(int32(1 + k%nb))
		if k >= 9 {
			addr = fmt.Sprintf("nowhere%d:9092", k)
		}
		if !seen[addr] {
			seen[addr] = true
			c.Seeds = append(c.Seeds, addr)
		}
	}
	nt := rapid.IntRange(0, 3).Draw(t, "topics")
	for i := 0; i < nt; i++ {
		tp := vfc15Topic{Name: vfc15TopicPool[i]}
		np := rapid.IntRange(1, 4).Draw(t, fmt.Sprintf("topic%d.parts", i))
		for p := 0; p < np; p++ {
			l := int32(1 + rapid.IntRange(0, nb-1).Draw(t, fmt.Sprintf("topic%d.leader%d", i, p)))
			tp.Leaders = append(tp.Leaders, l)
		}
		if rapid.IntRange(0, 14).Draw(t, fmt.Sprintf("topic%d.err", i)) == 0 {
			tp.Err = 5
		}
		c.Topics = append(c.Topics, tp)
	}
	if nb >= 2 && rapid.IntRange(0, 5).Draw(t, "pre") == 0 {
		st := vfc15Step{Broker: rapid.IntRange(0, 3).Draw(t, "pre.broker")}
		if rapid.Bool().Draw(t, "pre.kind") {
			st.Op = "down"
		} else {
			st.Op, st.Kind, st.N = "failNext", "dropBefore", rapid.IntRange(1, 2).Draw(t, "pre.n")
		}
		c.Pre = append(c.Pre, st)
	}
	na := rapid.IntRange(6, 18).Draw(t, "stepsA")
	for i := 0; i < na; i++ {
		c.StepsA = append(c.StepsA, g.step(fmt.Sprintf("a%d", i), false))
	}
	if rapid.IntRange(0, 9).Draw(t, "phaseB") < 5 {
		nr := rapid.IntRange(2, 4).Draw(t, "readers")
		for r := 0; r < nr; r++ {
			n := rapid.IntRange(2, 5).Draw(t, fmt.Sprintf("reader%d.n", r))
			var reads []vfc15Step
			for i := 0; i < n; i++ {
				reads = append(reads, g.read(fmt.Sprintf("reader%d.%d", r, i)))
			}
			c.Readers = append(c.Readers, reads)
		}
		nbs := rapid.IntRange(3, 9).Draw(t, "stepsB")
		for i := 0; i < nbs; i++ {
			c.StepsB = append(c.StepsB, g.step(fmt.Sprintf("b%d", i), true))
		}
	}
	return c
}

func vfc15Check(c *vfc15Case, r *vfcore.Rec) *vfcore.Failure {
	if _, ok := vfVersions[c.Version]; !ok || len(c.Brokers) == 0 || len(c.Seeds) == 0 || c.MaxOpen < 1 || c.RetryMax < 0 || c.TimeoutMs < 50 {
		r.Discard()
		return nil
	}
	run := vfc15Exec(c)
	return vfc15JudgeRun(run, r)
}

func TestVF_C15(t *testing.T) {
	vfcore.Main(t, vfcore.Spec{
		ID:  "C15",
		New: func() interface{} { return &vfc15Case{} },
		Gen: func(t *rapid.T) interface{} { return vfc15Gen(t) },
		Run: func(c interface{}, r *vfcore.Rec) *vfcore.Failure { return vfc15Check(c.(*vfc15Case), r) },
	})
}
