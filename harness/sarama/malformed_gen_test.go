//go:build go1.18 && verif

package sarama

// C10 generators: valid encodings come from the C09 machinery (generating decoder with
// its field log, hand-written record-format models with the harness's own writer); this
// file turns them into hostile inputs. All randomness flows through vfDraws (rapid).

import (
	"encoding/binary"
	"fmt"
	"hash/crc32"
	"math"

	"pgregory.net/rapid"
)

// ---------------------------------------------------------------- valid encodings with structure

// vfxUnit is one checksummed unit (legacy message or v2 batch) inside a valid encoding.
type vfxUnit struct {
	Start   int // offset field of the unit (or the CRC itself for a bare message)
	End     int // one past the unit
	SizeOff int // int32 message size / batch length field (-1: bare message)
	CRCOff  int // the CRC field; it covers [CRCOff+4, End)
	Batch   bool
	Topic   string
	Part    int32
	Before  int // flattened records of the same area before this unit
	N       int // flattened records in this unit
	AreaOff int // int32 records-size field of the enclosing fetch partition (-1: none)
}

type vfxValid struct {
	Entry   string
	Type    string
	Version int16
	R       []byte
	Fields  []vfField
	Units   []vfxUnit
	Fetch   *vfMFetch
}

func vfxI32At(b []byte, off int) int32 { return int32(binary.BigEndian.Uint32(b[off:])) }

func vfxCountRecords(r *vfMRecords) []int {
	var out []int
	if r.Batch != nil {
		out = append(out, len(r.Batch.Records))
	}
	if r.Set != nil {
		for i := range r.Set.Blocks {
			if r.Set.Blocks[i].Msg.Wrapper {
				out = append(out, len(r.Set.Blocks[i].Msg.Inner))
			} else {
				out = append(out, 1)
			}
		}
	}
	return out
}

// vfxUnitsOf derives the checksummed units from the field log of the harness writer:
// a vfKSize field logged by vfWriteBatch / vfWriteSet announces a unit, the next vfKCRC
// field is its checksum. counts lists the flattened record count of every unit in
// writing order; areas (optional) lists the fetch partitions in writing order.
func vfxUnitsOf(R []byte, fields []vfField, counts []int, areas []vfxTP) []vfxUnit {
	var units []vfxUnit
	areaIdx, areaOff, before := -1, -1, 0
	ci := 0
	for i := 0; i < len(fields); i++ {
		f := fields[i]
		if f.Kind == vfKSize && f.Site == "fetch.partition" {
			areaIdx++
			areaOff = f.Off
			before = 0
			continue
		}
		if f.Kind != vfKSize || (f.Site != "batch" && f.Site != "messageset") {
			continue
		}
		u := vfxUnit{Start: f.Off - 8, SizeOff: f.Off, End: f.Off + 4 + int(vfxI32At(R, f.Off)), Batch: f.Site == "batch", CRCOff: -1, AreaOff: areaOff}
		for j := i + 1; j < len(fields); j++ {
			if fields[j].Kind == vfKCRC {
				u.CRCOff = fields[j].Off
				break
			}
		}
		if areaIdx >= 0 && areaIdx < len(areas) {
			u.Topic, u.Part = areas[areaIdx].Topic, areas[areaIdx].Partition
		}
		u.Before = before
		if ci < len(counts) {
			u.N = counts[ci]
		}
		ci++
		before += u.N
		if u.CRCOff >= 0 && u.End <= len(R) && u.Start >= 0 {
			units = append(units, u)
		}
	}
	return units
}

// vfxMonotonic rewrites the offsets of a partition's record units so that they increase
// from start (what a broker's log looks like): then a consumer positioned at start is
// handed every record, in order.
func vfxMonotonic(recs []vfMRecords, start int64) {
	next := start
	for i := range recs {
		if b := recs[i].Batch; b != nil {
			b.FirstOffset = next
			b.Control = false
			maxDelta := int64(b.LastOffsetDelta)
			for j := range b.Records {
				if b.Records[j].OffDelta > maxDelta {
					maxDelta = b.Records[j].OffDelta
				}
			}
			next += maxDelta + 1
		}
		if s := recs[i].Set; s != nil {
			for j := range s.Blocks {
				blk := &s.Blocks[j]
				if blk.Msg.Wrapper {
					k := int64(len(blk.Msg.Inner))
					for x := range blk.Msg.Inner {
						if blk.Msg.Magic >= 1 {
							blk.Msg.Inner[x].Offset = int64(x)
						} else {
							blk.Msg.Inner[x].Offset = next + int64(x)
						}
					}
					blk.Offset = next + k - 1
					next += k
				} else {
					blk.Offset = next
					next++
				}
			}
		}
	}
}

// vfxValidFetch draws a FetchResponse model of version v and writes it.
func vfxValidFetch(d *vfDraws, v int16, forParse bool) *vfxValid {
	f := vfDrawFetch(d, v)
	if forParse {
		// the consumer reads one partition: make sure there is one with records and no
		// partition-level error, offsets as in a log
		if len(f.Topics) == 0 {
			f.Topics = append(f.Topics, vfMFetchTopic{Name: "t"})
		}
		t := &f.Topics[0]
		if len(t.Parts) == 0 {
			t.Parts = append(t.Parts, vfMFetchPart{ID: int32(d.vfN(3))})
		}
		p := &t.Parts[0]
		p.Err = 0
		if len(p.Records) == 0 || d.vfBool() {
			p.Records = nil
			switch {
			case v >= 4 && !d.vfOneIn(4):
				for k := 1 + int(d.vfN(2)); k > 0; k-- {
					p.Records = append(p.Records, vfMRecords{Batch: vfDrawBatch(d, 1)})
				}
			case v >= 2:
				p.Records = append(p.Records, vfMRecords{Set: vfDrawSet(d, int8(d.vfN(1)), 1)})
			default:
				p.Records = append(p.Records, vfMRecords{Set: vfDrawSet(d, 0, 1)})
			}
		}
		vfxMonotonic(p.Records, int64(d.vfN(1000)))
	}
	var w vfW
	if err := vfWriteFetch(&w, f); err != nil {
		return nil
	}
	if w.b == nil {
		w.b = []byte{}
	}
	var counts []int
	var areas []vfxTP
	for i := range f.Topics {
		for j := range f.Topics[i].Parts {
			areas = append(areas, vfxTP{f.Topics[i].Name, f.Topics[i].Parts[j].ID})
			for k := range f.Topics[i].Parts[j].Records {
				counts = append(counts, vfxCountRecords(&f.Topics[i].Parts[j].Records[k])...)
			}
		}
	}
	return &vfxValid{Entry: vfxEResp, Type: "FetchResponse", Version: v, R: w.b, Fields: w.fields, Units: vfxUnitsOf(w.b, w.fields, counts, areas), Fetch: f}
}

// vfxValidRecords draws a valid encoding for one of the record-level entries.
func vfxValidRecords(d *vfDraws, entry string) *vfxValid {
	var w vfW
	var counts []int
	switch entry {
	case vfxEBatch:
		b := vfDrawBatch(d, 0)
		if vfWriteBatch(&w, b) != nil {
			return nil
		}
		counts = []int{len(b.Records)}
	case vfxEMsgSet:
		s := vfDrawSet(d, int8(d.vfN(1)), 1)
		if vfWriteSet(&w, s) != nil {
			return nil
		}
		counts = vfxCountRecords(&vfMRecords{Set: s})
	case vfxERecords:
		var r vfMRecords
		if d.vfBool() {
			r.Batch = vfDrawBatch(d, 0)
		} else {
			r.Set = vfDrawSet(d, int8(d.vfN(1)), 1)
		}
		if vfWriteRecords(&w, &r) != nil {
			return nil
		}
		counts = vfxCountRecords(&r)
	case vfxEMessage:
		s := vfDrawSet(d, int8(d.vfN(1)), 1)
		m := &s.Blocks[0].Msg
		if vfWriteMessage(&w, m) != nil {
			return nil
		}
		n := 1
		if m.Wrapper {
			n = len(m.Inner)
		}
		v := &vfxValid{Entry: entry, R: w.b, Fields: w.fields}
		v.Units = []vfxUnit{{Start: 0, End: len(w.b), SizeOff: -1, CRCOff: 0, N: n, AreaOff: -1}}
		return v
	case vfxERecord:
		b := vfDrawBatch(d, 1)
		vfWriteRecord(&w, &b.Records[0])
		return &vfxValid{Entry: entry, R: w.b, Fields: w.fields}
	}
	if w.b == nil {
		w.b = []byte{}
	}
	return &vfxValid{Entry: entry, R: w.b, Fields: w.fields, Units: vfxUnitsOf(w.b, w.fields, counts, nil)}
}

var vfxRespPairs = vfDecodableResponses()

func vfxAuxIndex(entry string, d *vfDraws) (int, int16) {
	switch entry {
	case vfxEHeader:
		return vfBodyIndex["responseHeader"], int16(d.vfN(1))
	case vfxEMeta:
		return vfBodyIndex["ConsumerGroupMemberMetadata"], 0
	case vfxEAssign:
		return vfBodyIndex["ConsumerGroupMemberAssignment"], 0
	case vfxEUserData:
		if d.vfBool() {
			return vfBodyIndex["StickyAssignorUserDataV0"], 0
		}
		return vfBodyIndex["StickyAssignorUserDataV1"], 0
	}
	return -1, 0
}

// vfxValidDriven draws a valid encoding through the generating decoder (C09); nil when
// the draw was discarded there.
func vfxValidDriven(d *vfDraws, entry string, ti int, v int16) *vfxValid {
	for try := 0; try < 4; try++ {
		_, R, fields, info := vfGenFromDraws(d, ti, v)
		if info.Over || info.Rejected != nil || info.Panic != nil || info.Unsupp {
			continue
		}
		if R == nil {
			R = []byte{}
		}
		out := &vfxValid{Entry: entry, Version: v, R: R, Fields: fields}
		if entry == vfxEResp {
			out.Type = vfBodies[ti].Name
		}
		return out
	}
	return nil
}

// vfxValidFor draws a valid encoding for the entry (for resp: of the given pair).
func vfxValidFor(d *vfDraws, entry string, pair vfPair) *vfxValid {
	switch entry {
	case vfxEResp:
		if vfBodies[pair.Type].Hand {
			return vfxValidFetch(d, pair.Version, false)
		}
		return vfxValidDriven(d, entry, pair.Type, pair.Version)
	case vfxEFetch:
		v := vfxValidFetch(d, pair.Version, true)
		if v != nil {
			v.Entry = vfxEFetch
			v.Type = ""
		}
		return v
	case vfxEHeader, vfxEMeta, vfxEAssign, vfxEUserData:
		ti, v := vfxAuxIndex(entry, d)
		return vfxValidDriven(d, entry, ti, v)
	case vfxERecords, vfxEBatch, vfxEMsgSet, vfxEMessage, vfxERecord:
		return vfxValidRecords(d, entry)
	}
	return nil
}

// ---------------------------------------------------------------- byte-level helpers

func vfxClone(b []byte) []byte { return append([]byte{}, b...) }

func vfxPutUvarint(v uint64) []byte {
	var w vfW
	w.vfPutUvarint(v)
	return w.b
}

func vfxReplace(R []byte, off, n int, with []byte) []byte {
	out := make([]byte, 0, len(R)-n+len(with))
	out = append(out, R[:off]...)
	out = append(out, with...)
	return append(out, R[off+n:]...)
}

var vfxSmallAlphabet = []byte{0, 0, 0, 0, 1, 1, 2, 3, 4, 8, 0x10, 0x7f, 0x80, 0xff, 0xff, 0xfe}

func vfxRandomBytes(d *vfDraws, small bool) []byte {
	var n int
	switch d.vfN(5) {
	case 0:
		n = int(d.vfN(8))
	case 1, 2:
		n = 8 + int(d.vfN(40))
	case 3, 4:
		n = 40 + int(d.vfN(160))
	default:
		n = 200 + int(d.vfN(1800))
	}
	p := make([]byte, n)
	if n > 400 {
		// long noise: a drawn 8-byte pattern repeated with a drawn stride (cheap on draws)
		var pat [8]byte
		for i := range pat {
			pat[i] = byte(d.vfN(255))
			if small {
				pat[i] = vfxSmallAlphabet[int(pat[i])%len(vfxSmallAlphabet)]
			}
		}
		for i := range p {
			p[i] = pat[i%8]
		}
		for k := int(d.vfN(16)); k > 0; k-- {
			p[d.vfIntn(n)] = byte(d.vfN(255))
		}
		return p
	}
	for i := range p {
		if small {
			p[i] = vfxSmallAlphabet[d.vfIntn(len(vfxSmallAlphabet))]
		} else {
			p[i] = byte(d.vfN(255))
		}
	}
	return p
}

// vfxHostileInt draws a hostile value for a length / count field that is followed by
// rem bytes and currently holds cur.
func vfxHostileInt(d *vfDraws, rem int, cur int64) int64 {
	switch d.vfN(15) {
	case 0:
		return -1
	case 1:
		return -2
	case 2:
		return 0
	case 3:
		return 1
	case 4:
		return int64(rem)
	case 5:
		return int64(rem) + 1
	case 6:
		return 1 << 15
	case 7:
		return math.MaxInt32
	case 8:
		return math.MaxUint32
	case 9:
		return math.MinInt32
	case 10:
		return cur + 1
	case 11:
		return cur - 1
	case 12:
		return int64(rem) / 2
	case 13:
		return 2*math.MaxUint16 + int64(d.vfN(2)) - 1 // around getArrayLength's cap
	case 14:
		return int64(d.vfN(uint64(rem) + 8))
	}
	return int64(d.vfN(math.MaxUint32))
}

// vfxHostileUvarint draws the raw bytes of a hostile UNSIGNED_VARINT (compact lengths
// carry length+1).
func vfxHostileUvarint(d *vfDraws, rem int) []byte {
	switch d.vfN(14) {
	case 0:
		return vfxPutUvarint(0)
	case 1:
		return vfxPutUvarint(1)
	case 2:
		return vfxPutUvarint(2)
	case 3:
		return vfxPutUvarint(uint64(rem) + 1)
	case 4:
		return vfxPutUvarint(uint64(rem) + 2)
	case 5:
		return vfxPutUvarint(1 << 15)
	case 6:
		return vfxPutUvarint(1 << 31)
	case 7:
		return vfxPutUvarint(1 << 32)
	case 8:
		return vfxPutUvarint(1 << 63)
	case 9:
		return vfxPutUvarint(math.MaxUint64)
	case 10:
		return vfxPutUvarint(1<<63 + 1)
	case 11:
		return []byte{0xff, 0xff, 0xff, 0xff, 0xff, 0xff, 0xff, 0xff, 0xff, 0xff, 0xff, 0x01} // overflow
	case 12:
		return []byte{0x80, 0x80, 0x80, 0x80, 0x00} // overlong zero
	case 13:
		return vfxPutUvarint(uint64(rem)/4 + uint64(d.vfN(3)))
	}
	return vfxPutUvarint(d.vfN(math.MaxUint64))
}

func vfxHostileVarint(d *vfDraws, rem int, cur int64) []byte {
	if d.vfOneIn(8) {
		return []byte{0xff, 0xff, 0xff, 0xff, 0xff, 0xff, 0xff, 0xff, 0xff, 0xff, 0xff, 0x01}
	}
	var v int64
	switch d.vfN(3) {
	case 0:
		v = []int64{math.MaxInt64, math.MinInt64, math.MaxInt64 - 1, 1 << 40, 1 << 62, -(1 << 40)}[d.vfN(5)]
	default:
		v = vfxHostileInt(d, rem, cur)
	}
	return vfxPutUvarint(vfZigZag(v))
}

// vfxSetField rewrites one field of R with a hostile value; returns the new bytes and
// a description.
func vfxSetField(d *vfDraws, R []byte, f vfField) ([]byte, string) {
	rem := len(R) - f.Off - f.Len
	cur := vfxFieldInt(R, f)
	switch f.Kind {
	case vfKCArrayLen, vfKCStrLen, vfKCBytesLen, vfKTagged, vfKUvarint:
		enc := vfxHostileUvarint(d, rem)
		return vfxReplace(R, f.Off, f.Len, enc), fmt.Sprintf("%s=%x", f.Kind, enc)
	case vfKVBytesLen, vfKVSize, vfKVCount, vfKVarint:
		enc := vfxHostileVarint(d, rem, cur)
		return vfxReplace(R, f.Off, f.Len, enc), fmt.Sprintf("%s=%x", f.Kind, enc)
	}
	v := vfxHostileInt(d, rem, cur)
	out := vfxClone(R)
	switch f.Len {
	case 1:
		out[f.Off] = byte(v)
	case 2:
		if v == 1<<15 && d.vfBool() {
			v = math.MaxInt16
		}
		binary.BigEndian.PutUint16(out[f.Off:], uint16(v))
	case 4:
		binary.BigEndian.PutUint32(out[f.Off:], uint32(v))
	case 8:
		binary.BigEndian.PutUint64(out[f.Off:], uint64(v))
	default:
		return out, "unsupported-width"
	}
	return out, fmt.Sprintf("%s=%d", f.Kind, v)
}

// vfxFieldInt reads the integer a field of the log holds.
func vfxFieldInt(b []byte, f vfField) int64 {
	if (f.Kind == vfKVSize || f.Kind == vfKVCount) && f.Off+f.Len <= len(b) {
		r := vfRd{b: b[f.Off : f.Off+f.Len]}
		v, _ := r.vfVarint()
		return v
	}
	return vfFieldInt(b, f)
}

func vfxLengthFields(fields []vfField) []int {
	var out []int
	for i, f := range fields {
		if f.Kind.vfIsLength() {
			out = append(out, i)
		}
	}
	return out
}

func vfxIntFields(fields []vfField) []int {
	var out []int
	for i, f := range fields {
		switch f.Kind {
		case vfKInt8, vfKInt16, vfKInt32, vfKInt64, vfKVarint, vfKUvarint, vfKBool:
			out = append(out, i)
		}
	}
	return out
}

// vfxFixCRCs recomputes the checksum of every unit whose bytes still lie inside b (a
// hostile peer can do that); used after same-width mutations.
func vfxFixCRCs(b []byte, units []vfxUnit) {
	for _, u := range units {
		if u.CRCOff < 0 || u.End > len(b) || u.CRCOff+4 > u.End {
			continue
		}
		var sum uint32
		if u.Batch {
			sum = crc32.Checksum(b[u.CRCOff+4:u.End], vfCastagnoli)
		} else {
			sum = crc32.ChecksumIEEE(b[u.CRCOff+4 : u.End])
		}
		binary.BigEndian.PutUint32(b[u.CRCOff:], sum)
	}
}

// ---------------------------------------------------------------- wrappers around hostile inner data

// vfxWrapBatch builds a v2 batch with a correct batch length and CRC-32C around an
// arbitrary records area (compressed with codec) and an arbitrary record count.
func vfxWrapBatch(hdr *vfMBatch, codec int8, count int32, area []byte) ([]byte, error) {
	c, err := vfCompress(codec, vfLevelDefault, area)
	if err != nil {
		return nil, err
	}
	var w vfW
	w.nolog = true
	w.vfI64(hdr.FirstOffset)
	lenAt := w.vfReserve32(vfKSize)
	w.vfI32(hdr.LeaderEpoch)
	w.vfI8(2)
	crcAt := w.vfReserve32(vfKCRC)
	attr := int16(codec) & 0x07
	if hdr.LogAppend {
		attr |= 0x08
	}
	if hdr.Txn {
		attr |= 0x10
	}
	if hdr.Control {
		attr |= 0x20
	}
	w.vfI16(attr)
	w.vfI32(hdr.LastOffsetDelta)
	w.vfI64(hdr.FirstTs)
	w.vfI64(hdr.MaxTs)
	w.vfI64(hdr.ProducerID)
	w.vfI16(hdr.ProducerEpoch)
	w.vfI32(hdr.FirstSeq)
	w.vfI32(count)
	w.b = append(w.b, c...)
	w.vfPatch32(lenAt, uint32(len(w.b)-lenAt-4))
	w.vfPatch32(crcAt, crc32.Checksum(w.b[crcAt+4:], vfCastagnoli))
	return w.b, nil
}

// vfxWrapMessage builds a one-entry legacy message set whose message (magic 0/1) is a
// compressed wrapper with correct size and CRC around arbitrary inner bytes.
func vfxWrapMessage(magic, codec int8, offset, ts int64, key, inner []byte) ([]byte, error) {
	c, err := vfCompress(codec, vfLevelDefault, inner)
	if err != nil {
		return nil, err
	}
	if c == nil {
		c = []byte{}
	}
	var w vfW
	w.nolog = true
	w.vfI64(offset)
	sizeAt := w.vfReserve32(vfKSize)
	crcAt := w.vfReserve32(vfKCRC)
	w.vfI8(magic)
	w.vfI8(codec & 0x07)
	if magic >= 1 {
		w.vfI64(ts)
	}
	w.vfBytes(key)
	w.vfBytes(c)
	w.vfPatch32(crcAt, crc32.ChecksumIEEE(w.b[crcAt+4:]))
	w.vfPatch32(sizeAt, uint32(len(w.b)-sizeAt-4))
	return w.b, nil
}

// ---------------------------------------------------------------- generic mutations

// vfxMutate applies one drawn generic mutation to a valid encoding.
func vfxMutate(d *vfDraws, v *vfxValid, other func() *vfxValid) ([]byte, string) {
	R := v.R
	lens := vfxLengthFields(v.Fields)
	for tries := 0; tries < 4; tries++ {
		switch k := d.vfN(15); {
		case k <= 4 && len(lens) > 0: // a length / count / size field lies
			f := v.Fields[lens[d.vfIntn(len(lens))]]
			out, desc := vfxSetField(d, R, f)
			if len(out) == len(R) && len(v.Units) > 0 && d.vfBool() {
				vfxFixCRCs(out, v.Units)
				return out, "len+crcfix:" + desc
			}
			return out, "len:" + desc
		case k == 5: // any integer field set to a hostile value
			ints := vfxIntFields(v.Fields)
			if len(ints) == 0 {
				continue
			}
			f := v.Fields[ints[d.vfIntn(len(ints))]]
			out, desc := vfxSetField(d, R, f)
			if len(out) == len(R) && len(v.Units) > 0 && d.vfBool() {
				vfxFixCRCs(out, v.Units)
				return out, "int+crcfix:" + desc
			}
			return out, "int:" + desc
		case k == 6 || k == 7: // truncate
			if len(R) == 0 {
				continue
			}
			at := d.vfIntn(len(R))
			if len(v.Fields) > 0 && d.vfBool() {
				f := v.Fields[d.vfIntn(len(v.Fields))]
				at = f.Off + d.vfIntn(f.Len+1)
				if at > len(R) {
					at = len(R)
				}
			}
			return vfxClone(R[:at]), "trunc"
		case k == 8 || k == 9: // flip one bit
			if len(R) == 0 {
				continue
			}
			out := vfxClone(R)
			bit := d.vfIntn(len(R) * 8)
			out[bit/8] ^= 1 << uint(bit%8)
			if len(v.Units) > 0 && d.vfOneIn(3) {
				vfxFixCRCs(out, v.Units)
				return out, "bitflip+crcfix"
			}
			return out, "bitflip"
		case k == 10: // set one byte
			if len(R) == 0 {
				continue
			}
			out := vfxClone(R)
			out[d.vfIntn(len(R))] = []byte{0, 1, 0x7f, 0x80, 0xff, byte(d.vfN(255))}[d.vfN(5)]
			if len(v.Units) > 0 && d.vfOneIn(3) {
				vfxFixCRCs(out, v.Units)
				return out, "byteset+crcfix"
			}
			return out, "byteset"
		case k == 11 || k == 12: // splice two encodings
			o := other()
			if o == nil {
				continue
			}
			cut := func(x *vfxValid) int {
				if len(x.Fields) > 0 && !d.vfOneIn(4) {
					return x.Fields[d.vfIntn(len(x.Fields))].Off
				}
				return d.vfIntn(len(x.R) + 1)
			}
			i, j := cut(v), cut(o)
			out := append(vfxClone(R[:i]), o.R[j:]...)
			return out, "splice"
		case k == 13: // trailing garbage / duplicated tail
			if d.vfBool() {
				return append(vfxClone(R), vfxRandomBytes(d, true)...), "append"
			}
			if len(R) == 0 {
				continue
			}
			at := d.vfIntn(len(R))
			return append(vfxClone(R), R[at:]...), "append"
		case k == 14: // remove a field, or duplicate it
			if len(v.Fields) == 0 {
				continue
			}
			f := v.Fields[d.vfIntn(len(v.Fields))]
			if d.vfBool() {
				return vfxReplace(R, f.Off, f.Len, nil), "dropfield"
			}
			return vfxReplace(R, f.Off, 0, R[f.Off:f.Off+f.Len]), "dupfield"
		}
	}
	return vfxClone(R), "valid"
}

// vfxHostileArea draws the plain content to be wrapped in a valid compressed wrapper:
// a mutated message set / record area, or noise.
func vfxHostileArea(d *vfDraws, records bool) (area []byte, count int32, desc string) {
	if d.vfOneIn(5) {
		p := vfxRandomBytes(d, d.vfBool())
		return p, int32(d.vfN(4)), "noise"
	}
	if records {
		b := vfDrawBatch(d, 1)
		var w vfW
		for i := range b.Records {
			vfWriteRecord(&w, &b.Records[i])
		}
		v := &vfxValid{R: w.b, Fields: w.fields}
		out, desc := vfxMutate(d, v, func() *vfxValid { return nil })
		count = int32(len(b.Records))
		if d.vfOneIn(4) {
			count = int32(vfxHostileInt(d, len(out), int64(count)))
			desc += "+count"
		}
		return out, count, desc
	}
	s := vfDrawSet(d, int8(d.vfN(1)), 1)
	var w vfW
	if vfWriteSet(&w, s) != nil {
		return []byte{}, 0, "noise"
	}
	v := &vfxValid{R: w.b, Fields: w.fields, Units: vfxUnitsOf(w.b, w.fields, vfxCountRecords(&vfMRecords{Set: s}), nil)}
	out, desc := vfxMutate(d, v, func() *vfxValid { return nil })
	return out, 0, desc
}

// ---------------------------------------------------------------- the generator

var vfxEntryWeights = []struct {
	entry string
	w     int
}{
	{vfxEResp, 40}, {vfxEHeader, 3}, {vfxERecords, 6}, {vfxEBatch, 9}, {vfxEMsgSet, 9}, {vfxEMessage, 4}, {vfxERecord, 4},
	{vfxEMeta, 4}, {vfxEAssign, 4}, {vfxEUserData, 4}, {vfxEPlan, 4}, {vfxEFetch, 9},
}

func vfxPickEntry(d *vfDraws) string {
	total := 0
	for _, e := range vfxEntryWeights {
		total += e.w
	}
	x := d.vfIntn(total)
	for _, e := range vfxEntryWeights {
		if x < e.w {
			return e.entry
		}
		x -= e.w
	}
	return vfxEResp
}

var vfxFetchIndex = vfBodyIndex["FetchResponse"]

func vfxPickPair(d *vfDraws, entry string) vfPair {
	switch entry {
	case vfxEResp:
		if d.vfOneIn(5) {
			return vfPair{vfxFetchIndex, int16(d.vfN(uint64(vfBodies[vfxFetchIndex].MaxV)))}
		}
		return vfxRespPairs[d.vfIntn(len(vfxRespPairs))]
	case vfxEFetch:
		return vfPair{vfxFetchIndex, int16(d.vfN(uint64(vfBodies[vfxFetchIndex].MaxV)))}
	}
	return vfPair{}
}

func vfxGenCase(rt *rapid.T) *vfxCase {
	d := &vfDraws{t: rt}
	return vfxDrawCase(d, "")
}

// vfxDrawCase draws one case; only names an entry to restrict the draw to it.
func vfxDrawCase(d *vfDraws, only string) *vfxCase {
	entry := only
	if entry == "" {
		entry = vfxPickEntry(d)
	}
	if entry == vfxEPlan {
		return vfxDrawPlan(d)
	}
	pair := vfxPickPair(d, entry)
	c := &vfxCase{Entry: entry, Version: pair.Version}
	if entry == vfxEResp {
		c.Type = vfBodies[pair.Type].Name
	}
	recordLevel := entry == vfxERecords || entry == vfxEBatch || entry == vfxEMsgSet || entry == vfxEMessage
	isFetch := entry == vfxEFetch || (entry == vfxEResp && pair.Type == vfxFetchIndex)

	kind := d.vfN(24)
	if entry == vfxEHeader && d.vfBool() {
		// the header's whole domain is a length, a correlation id and (v1) a tagged-field section: walk the length through
		// every boundary of the arithmetic around it (0 .. a few bytes beyond the header itself, both ends of int32, both
		// sides of MaxResponseSize with and without the header's own bytes)
		c.Version = int16(d.vfN(1))
		var length int64
		switch d.vfN(5) {
		case 0, 1:
			length = int64(d.vfN(24)) - 4 // -4 .. 20
		case 2:
			length = int64(MaxResponseSize) + int64(d.vfN(24)) - 12
		case 3:
			length = []int64{math.MinInt32, math.MinInt32 + 1, math.MaxInt32, math.MaxInt32 - 1, math.MaxInt32 - 8, -1 << 16}[d.vfN(5)]
		default:
			length = int64(d.vfInt32())
		}
		c.Input = make([]byte, 8, 12)
		binary.BigEndian.PutUint32(c.Input, uint32(int32(length)))
		binary.BigEndian.PutUint32(c.Input[4:], uint32(d.vfInt32()))
		if c.Version == 1 {
			c.Input = append(c.Input, []byte{0, 0, 0, 1, 0x7f, 0x80, 0xff}[d.vfN(6)])
		}
		c.Mut = "header-length-boundary"
		return c
	}
	// pure noise
	if kind <= 1 {
		c.Input = vfxRandomBytes(d, kind == 1)
		c.Mut = []string{"random-uniform", "random-small"}[kind]
		if entry == vfxEHeader {
			c.Version = int16(d.vfN(1))
			// noise with a plausible length field now and then
			if len(c.Input) >= 4 && d.vfBool() {
				binary.BigEndian.PutUint32(c.Input, uint32(vfxHostileInt(d, len(c.Input), 100)))
			}
		}
		if entry == vfxEFetch {
			c.Topic, c.Partition = "t", 0
		}
		return c
	}
	v := vfxValidFor(d, entry, pair)
	if v == nil {
		c.Input = vfxRandomBytes(d, true)
		c.Mut = "random-small"
		return c
	}
	c.Version = v.Version
	if entry == vfxEFetch {
		c.Topic, c.Partition = v.Fetch.Topics[0].Name, v.Fetch.Topics[0].Parts[0].ID
		c.ReadCommitted = d.vfOneIn(4) && v.Version >= 4
		if len(v.Units) > 0 {
			first := v.Fetch.Topics[0].Parts[0].Records
			if len(first) > 0 {
				if first[0].Batch != nil {
					c.ChildOffset = first[0].Batch.FirstOffset
				} else if len(first[0].Set.Blocks) > 0 {
					blk := first[0].Set.Blocks[0]
					c.ChildOffset = blk.Offset
					if blk.Msg.Wrapper {
						c.ChildOffset = blk.Offset - int64(len(blk.Msg.Inner)) + 1
					}
				}
			}
		}
	}

	switch {
	case kind == 2: // the valid encoding itself
		c.Input, c.Mut = vfxClone(v.R), "valid"
		return c

	case (kind == 3 || kind == 4 || kind == 5) && len(v.Units) > 0 && (recordLevel || isFetch):
		// checksum clause: one bit or one byte changes inside the CRC-covered span of a unit
		units := v.Units
		if entry == vfxEFetch {
			units = vfxUnitsOfPartition(v.Units, c.Topic, c.Partition)
			if len(units) == 0 {
				break
			}
		}
		u := units[d.vfIntn(len(units))]
		span := u.End - (u.CRCOff + 4)
		if span <= 0 {
			break
		}
		out := vfxClone(v.R)
		if d.vfBool() {
			bit := d.vfIntn(span * 8)
			out[u.CRCOff+4+bit/8] ^= 1 << uint(bit%8)
			c.Mut = "crc-flip"
		} else {
			at := u.CRCOff + 4 + d.vfIntn(span)
			nb := byte(d.vfN(255))
			if nb == out[at] {
				nb ^= 0x55
			}
			out[at] = nb
			c.Mut = "crc-byte"
		}
		c.Input, c.Orig, c.Clause = out, vfxClone(v.R), "crc"
		c.Before = u.Before
		if entry != vfxEFetch {
			c.Topic, c.Partition = u.Topic, u.Part
		}
		return c

	case (kind == 6 || kind == 7) && len(v.Units) > 0 && (recordLevel || isFetch):
		// length clause: a batch length / message size / records size lies
		units := v.Units
		if entry == vfxEFetch {
			units = vfxUnitsOfPartition(v.Units, c.Topic, c.Partition)
			if len(units) == 0 {
				break
			}
		}
		u := units[d.vfIntn(len(units))]
		off := u.SizeOff
		site := "unit-size"
		if u.AreaOff >= 0 && d.vfOneIn(3) {
			off, site = u.AreaOff, "records-size"
		}
		if off < 0 {
			break
		}
		cur := int64(vfxI32At(v.R, off))
		rem := len(v.R) - off - 4
		var nv int64
		switch d.vfN(7) {
		case 0:
			nv = cur + 1
		case 1:
			nv = cur - 1
		case 2:
			nv = cur + 1 + int64(d.vfN(40))
		case 3:
			nv = cur - 1 - int64(d.vfN(40))
		case 4:
			nv = int64(d.vfN(uint64(rem) + 4))
		default:
			nv = vfxHostileInt(d, rem, cur)
		}
		if int32(nv) == int32(cur) {
			nv = cur + 2
		}
		out := vfxClone(v.R)
		binary.BigEndian.PutUint32(out[off:], uint32(nv))
		c.Input, c.Orig, c.Clause, c.Mut = out, vfxClone(v.R), "size", "size-lie:"+site
		c.Before = u.Before
		c.Reframe = site == "records-size"
		if site == "unit-size" {
			// what the decoder sees behind the size field: the rest of the records area
			seen := len(v.R) - off - 4
			if u.AreaOff >= 0 {
				seen = u.AreaOff + 4 + int(vfxI32At(v.R, u.AreaOff)) - off - 4
			}
			c.MustError = int64(int32(nv)) <= int64(seen)
		}
		if entry != vfxEFetch {
			c.Topic, c.Partition = u.Topic, u.Part
		}
		return c

	case kind == 11 && (entry == vfxEResp || entry == vfxEBatch || entry == vfxEMessage || entry == vfxERecord || entry == vfxEMeta || entry == vfxEAssign):
		// length clause, whole-buffer form: a complete valid encoding followed by bytes nobody announced
		extra := vfxRandomBytes(d, true)
		if len(extra) == 0 {
			extra = []byte{0}
		}
		if len(extra) > 24 {
			extra = extra[:1+d.vfIntn(24)]
		}
		c.Input, c.Orig, c.Clause, c.Mut = append(vfxClone(v.R), extra...), vfxClone(v.R), "trailing", "trailing-bytes"
		return c

	case kind == 8 && (entry == vfxEBatch || entry == vfxERecords || isFetch):
		// length clause inside a batch with the checksum recomputed: a record's varint
		// length lies, batch length and CRC-32C are correct (all codecs)
		if c2 := vfxDrawRecordSizeLie(d, c, v); c2 != nil {
			return c2
		}

	case (kind == 21 || kind == 22) && (entry == vfxEBatch || entry == vfxERecords || isFetch):
		// length clause inside a batch with the checksum recomputed: the record COUNT
		// disagrees with a complete records section, or bytes follow the counted records;
		// batch length and CRC-32C are correct, the section is re-compressed (all codecs)
		if c2 := vfxDrawCountLie(d, c, v); c2 != nil {
			return c2
		}

	case (kind == 23 || kind == 24) && (entry == vfxEMsgSet || entry == vfxERecords || entry == vfxEMessage || isFetch):
		// the same one level up for legacy sets: bytes follow the complete messages of the
		// inner set of a VALID compressed wrapper
		if c2 := vfxDrawInnerTrailing(d, c, v); c2 != nil {
			return c2
		}

	case (kind == 9 || kind == 10) && (recordLevel || isFetch || entry == vfxERecord):
		// a hostile inner set / record area inside a VALID wrapper (correct size, CRC, codec)
		if c2 := vfxDrawWrapped(d, c, v); c2 != nil {
			return c2
		}
	}

	// generic field-aware / byte-level mutation
	out, desc := vfxMutate(d, v, func() *vfxValid { return vfxValidFor(d, entry, vfxPickPair(d, entry)) })
	c.Input, c.Mut = out, desc
	return c
}

func vfxUnitsOfPartition(units []vfxUnit, topic string, part int32) []vfxUnit {
	var out []vfxUnit
	for _, u := range units {
		if u.Topic == topic && u.Part == part {
			out = append(out, u)
		}
	}
	return out
}

// vfxPlaceRecords puts one records blob (a batch or a set) where the entry expects it:
// bare for the record-level entries, as the only records of the consumer's partition of
// a fetch response otherwise. Returns nil when the entry cannot carry it.
func vfxPlaceRecords(c *vfxCase, v *vfxValid, blob []byte) []byte {
	switch c.Entry {
	case vfxERecords, vfxEBatch, vfxEMsgSet:
		return blob
	case vfxEResp, vfxEFetch:
		if v.Fetch == nil || len(v.Fetch.Topics) == 0 || len(v.Fetch.Topics[0].Parts) == 0 {
			return nil
		}
		// rewrite the response with the first partition's records replaced by the blob
		f := vfCopyFetch(v.Fetch)
		f.Topics[0].Parts[0].Records = nil
		f.Topics[0].Parts[0].Err = 0
		var w vfW
		if vfWriteFetch(&w, f) != nil {
			return nil
		}
		// the first vfKSize field of site fetch.partition is that partition's records size (0 now)
		for _, fl := range w.fields {
			if fl.Kind == vfKSize && fl.Site == "fetch.partition" {
				out := vfxReplace(w.b, fl.Off+4, 0, blob)
				binary.BigEndian.PutUint32(out[fl.Off:], uint32(len(blob)))
				return out
			}
		}
	}
	return nil
}

func vfxDrawRecordSizeLie(d *vfDraws, c *vfxCase, v *vfxValid) *vfxCase {
	b := vfDrawBatch(d, 1)
	b.Control = false
	if c.Entry == vfxEFetch {
		b.FirstOffset = c.ChildOffset
	}
	var w vfW
	for i := range b.Records {
		vfWriteRecord(&w, &b.Records[i])
	}
	var sizes []int
	for i, f := range w.fields {
		if f.Kind == vfKVSize {
			sizes = append(sizes, i)
		}
	}
	if len(sizes) == 0 {
		return nil
	}
	f := w.fields[sizes[d.vfIntn(len(sizes))]]
	cur := vfxFieldInt(w.b, f)
	var nv int64
	switch d.vfN(4) {
	case 0:
		nv = cur + 1
	case 1:
		nv = cur - 1
	case 2:
		nv = cur + 1 + int64(d.vfN(100))
	default:
		nv = vfxHostileInt(d, len(w.b)-f.Off-f.Len, cur)
	}
	if nv == cur {
		nv = cur + 3
	}
	area := vfxReplace(w.b, f.Off, f.Len, vfxPutUvarint(vfZigZag(nv)))
	codec := int8(d.vfN(4))
	good, err1 := vfxWrapBatch(b, codec, int32(len(b.Records)), w.b)
	bad, err2 := vfxWrapBatch(b, codec, int32(len(b.Records)), area)
	if err1 != nil || err2 != nil {
		return nil
	}
	c.Orig, c.Input = vfxPlaceRecords(c, v, good), vfxPlaceRecords(c, v, bad)
	if c.Orig == nil || c.Input == nil {
		return nil
	}
	c.Clause, c.Mut, c.Before = "size", fmt.Sprintf("size-lie:record-length codec=%d", codec), 0
	c.MustError = true // the record's fields are all there; only its announced length disagrees
	if v.Fetch != nil {
		c.Topic, c.Partition = v.Fetch.Topics[0].Name, v.Fetch.Topics[0].Parts[0].ID
	}
	return c
}

func vfxDrawCountLie(d *vfDraws, c *vfxCase, v *vfxValid) *vfxCase {
	b := vfDrawBatch(d, 0)
	b.Control = false
	if c.Entry == vfxEFetch {
		b.FirstOffset = c.ChildOffset
	}
	var w vfW
	for i := range b.Records {
		vfWriteRecord(&w, &b.Records[i])
	}
	if w.b == nil {
		w.b = []byte{}
	}
	n := int64(len(b.Records))
	area := w.b
	count := n
	what := ""
	switch k := d.vfN(5); {
	case k <= 1 && n > 0: // fewer records announced than the section holds
		count = int64(d.vfN(uint64(n - 1)))
		if d.vfOneIn(6) {
			count = -1 - int64(d.vfN(2))
		}
		what = "count-low"
		c.MustError = true
	case k == 2 || (k <= 1 && n == 0): // bytes follow the counted records
		extra := vfxRandomBytes(d, true)
		if len(extra) == 0 {
			extra = []byte{0}
		}
		if len(extra) > 40 {
			extra = extra[:1+d.vfIntn(40)]
		}
		if n > 0 && d.vfOneIn(3) {
			// ... or a further complete record that the count does not cover
			var x vfW
			vfWriteRecord(&x, &b.Records[d.vfIntn(len(b.Records))])
			extra = x.b
		}
		area = append(vfxClone(w.b), extra...)
		what = "section-trailing"
		c.MustError = true
	default: // more records announced than the section holds: an error or a flagged partial batch
		count = n + 1 + int64(d.vfN(3))
		if d.vfOneIn(4) {
			count = int64(len(area)) // the most getArrayLength lets through
		}
		what = "count-high"
	}
	codec := int8(d.vfN(4))
	good, err1 := vfxWrapBatch(b, codec, int32(n), w.b)
	bad, err2 := vfxWrapBatch(b, codec, int32(count), area)
	if err1 != nil || err2 != nil {
		return nil
	}
	c.Orig, c.Input = vfxPlaceRecords(c, v, good), vfxPlaceRecords(c, v, bad)
	if c.Orig == nil || c.Input == nil {
		return nil
	}
	c.Clause, c.Mut, c.Before = "count", fmt.Sprintf("count-lie:%s codec=%d", what, codec), 0
	if v.Fetch != nil {
		c.Topic, c.Partition = v.Fetch.Topics[0].Name, v.Fetch.Topics[0].Parts[0].ID
	}
	return c
}

func vfxDrawInnerTrailing(d *vfDraws, c *vfxCase, v *vfxValid) *vfxCase {
	magic := int8(d.vfN(1))
	if (c.Entry == vfxEResp || c.Entry == vfxEFetch) && c.Version < 2 {
		magic = 0
	}
	k := 1 + int(d.vfN(2))
	base := int64(d.vfN(1000))
	if c.Entry == vfxEFetch {
		base = c.ChildOffset
	}
	var blocks []vfMBlock
	for j := 0; j < k; j++ {
		off := base + int64(j)
		if magic >= 1 {
			off = int64(j)
		}
		blocks = append(blocks, vfMBlock{Offset: off, Msg: vfDrawPlainMessage(d, magic)})
	}
	var in vfW
	if vfWriteSet(&in, &vfMSet{Blocks: blocks}) != nil {
		return nil
	}
	extra := vfxRandomBytes(d, true)
	if len(extra) == 0 {
		extra = []byte{0}
	}
	if len(extra) > 60 {
		extra = extra[:1+d.vfIntn(60)]
	}
	what := "noise"
	if d.vfOneIn(3) {
		// the head of a further message, cut short
		var x vfW
		_ = vfWriteSet(&x, &vfMSet{Blocks: []vfMBlock{{Offset: base + int64(k), Msg: vfDrawPlainMessage(d, magic)}}})
		if len(x.b) > 1 {
			extra = x.b[:1+d.vfIntn(len(x.b)-1)]
			what = "cut-message"
		}
	}
	codec := int8(1 + d.vfN(2))
	ts := d.vfTimestampMs()
	key := vfDrawPayload(d)
	woff := base + int64(k) - 1
	good, err1 := vfxWrapMessage(magic, codec, woff, ts, key, in.b)
	bad, err2 := vfxWrapMessage(magic, codec, woff, ts, key, append(vfxClone(in.b), extra...))
	if err1 != nil || err2 != nil {
		return nil
	}
	if c.Entry == vfxEMessage {
		c.Orig, c.Input = good[12:], bad[12:]
	} else {
		c.Orig, c.Input = vfxPlaceRecords(c, v, good), vfxPlaceRecords(c, v, bad)
	}
	if c.Orig == nil || c.Input == nil {
		return nil
	}
	c.Clause, c.Mut, c.Before = "inner", fmt.Sprintf("inner-trailing:%s magic=%d codec=%d", what, magic, codec), 0
	if v.Fetch != nil {
		c.Topic, c.Partition = v.Fetch.Topics[0].Name, v.Fetch.Topics[0].Parts[0].ID
	}
	return c
}

func vfxDrawWrapped(d *vfDraws, c *vfxCase, v *vfxValid) *vfxCase {
	if c.Entry == vfxERecord {
		// the record area itself, unwrapped
		area, _, desc := vfxHostileArea(d, true)
		c.Input, c.Mut = area, "area:"+desc
		return c
	}
	if c.Entry == vfxEMessage {
		area, _, desc := vfxHostileArea(d, false)
		codec := int8(1 + d.vfN(3))
		set, err := vfxWrapMessage(int8(d.vfN(1)), codec, 0, d.vfTimestampMs(), vfDrawPayload(d), area)
		if err != nil {
			return nil
		}
		c.Input, c.Mut = set[12:], fmt.Sprintf("wrap-msg:codec=%d %s", codec, desc)
		return c
	}
	useBatch := c.Entry == vfxEBatch || (c.Entry != vfxEMsgSet && d.vfBool())
	if (c.Entry == vfxEResp || c.Entry == vfxEFetch) && c.Version < 4 {
		useBatch = false
	}
	var blob []byte
	if useBatch {
		area, count, desc := vfxHostileArea(d, true)
		hdr := vfDrawBatch(d, 0)
		hdr.Control = false
		if c.Entry == vfxEFetch {
			hdr.FirstOffset = c.ChildOffset
		}
		codec := int8(d.vfN(4))
		var err error
		if blob, err = vfxWrapBatch(hdr, codec, count, area); err != nil {
			return nil
		}
		c.Mut = fmt.Sprintf("wrap-batch:codec=%d %s", codec, desc)
	} else {
		area, _, desc := vfxHostileArea(d, false)
		codec := int8(1 + d.vfN(3)) // gzip, snappy, lz4, zstd (sarama's decompress accepts any codec bits here)
		off := int64(d.vfN(1000))
		if c.Entry == vfxEFetch {
			off = c.ChildOffset + int64(d.vfN(3))
		}
		var err error
		if blob, err = vfxWrapMessage(int8(d.vfN(1)), codec, off, d.vfTimestampMs(), vfDrawPayload(d), area); err != nil {
			return nil
		}
		if d.vfOneIn(3) {
			// a second level: the wrapper itself inside another wrapper
			codec2 := int8(1 + d.vfN(2))
			if b2, err := vfxWrapMessage(int8(d.vfN(1)), codec2, off, d.vfTimestampMs(), nil, blob); err == nil {
				blob = b2
				desc += " nested"
			}
		}
		c.Mut = fmt.Sprintf("wrap-msg:codec=%d %s", codec, desc)
	}
	c.Input = vfxPlaceRecords(c, v, blob)
	if c.Input == nil {
		return nil
	}
	if v.Fetch != nil {
		c.Topic, c.Partition = v.Fetch.Topics[0].Name, v.Fetch.Topics[0].Parts[0].ID
	}
	return c
}

// ---------------------------------------------------------------- sticky plan over hostile user data

func vfxWriteUserData(d *vfDraws, topics []vfxPlanTopic, v1 bool) []byte {
	var w vfW
	n := int(d.vfN(uint64(len(topics))))
	if d.vfOneIn(6) {
		n++
	}
	w.vfArrayLen(n)
	for i := 0; i < n; i++ {
		name := "unknown"
		var parts []int32
		if i < len(topics) && !d.vfOneIn(8) {
			name = topics[i].Name
			parts = topics[i].Partitions
		}
		w.vfStr(name, false)
		k := int(d.vfN(6))
		w.vfArrayLen(k)
		for j := 0; j < k; j++ {
			switch {
			case len(parts) > 0 && !d.vfOneIn(6):
				w.vfI32(parts[d.vfIntn(len(parts))])
			default:
				w.vfI32(d.vfInt32())
			}
		}
	}
	if v1 {
		switch d.vfN(3) {
		case 0:
			w.vfI32(int32(d.vfN(3)))
		case 1:
			w.vfI32(d.vfInt32())
		default:
			w.vfI32(int32(d.vfN(3)) - 1)
		}
	}
	if w.b == nil {
		w.b = []byte{}
	}
	return w.b
}

func vfxDrawPlan(d *vfDraws) *vfxCase {
	c := &vfxCase{Entry: vfxEPlan}
	nt := 1 + int(d.vfN(2))
	for i := 0; i < nt; i++ {
		t := vfxPlanTopic{Name: fmt.Sprintf("t%d", i)}
		np := int(d.vfN(6))
		for p := 0; p < np; p++ {
			t.Partitions = append(t.Partitions, int32(p))
		}
		c.Topics = append(c.Topics, t)
	}
	nm := 1 + int(d.vfN(3))
	muts := ""
	for i := 0; i < nm; i++ {
		m := vfxMember{ID: fmt.Sprintf("m%d", i)}
		for _, t := range c.Topics {
			if !d.vfOneIn(4) {
				m.Topics = append(m.Topics, t.Name)
			}
		}
		if d.vfOneIn(6) {
			m.Topics = append(m.Topics, "not-a-topic")
		}
		switch d.vfN(7) {
		case 0:
			m.UserData = nil
			muts += "n"
		case 1:
			m.UserData = vfxRandomBytes(d, true)
			muts += "r"
		case 2, 3:
			ud := vfxWriteUserData(d, c.Topics, d.vfBool())
			vv := &vfxValid{R: ud}
			// byte-level damage of well-formed user data
			out, _ := vfxMutate(d, vv, func() *vfxValid { return nil })
			m.UserData = out
			muts += "m"
		default:
			m.UserData = vfxWriteUserData(d, c.Topics, !d.vfOneIn(4))
			muts += "v"
		}
		c.Members = append(c.Members, m)
	}
	c.Mut = "plan:" + muts
	c.Input = []byte{}
	return c
}
