//go:build go1.18 && verif

package sarama

// C09 layer 1: the harness's OWN primitive writer and reader for the Kafka wire
// types, written from the Kafka protocol definition ("Protocol Primitive Types")
// and independent of real_encoder.go / real_decoder.go / prep_encoder.go:
//
//	INT8/16/32/64  big endian two's complement
//	BOOLEAN        one byte, 0 = false, 1 = true
//	VARINT/VARLONG zig-zag, then base-128 little endian groups, high bit = "more"
//	UNSIGNED_VARINT base-128 little endian groups
//	STRING         INT16 byte length N, then N bytes; NULLABLE_STRING: N = -1 is null
//	COMPACT_STRING UNSIGNED_VARINT N+1, then N bytes; COMPACT_NULLABLE_STRING: 0 is null
//	BYTES          INT32 N, N bytes; NULLABLE_BYTES: N = -1 is null
//	COMPACT_BYTES  UNSIGNED_VARINT N+1
//	ARRAY          INT32 element count N (-1 = null), COMPACT_ARRAY: UNSIGNED_VARINT N+1 (0 = null)
//	tagged fields  UNSIGNED_VARINT number of tagged fields (the harness only writes 0)
//	record fields  VARINT byte length (-1 = null) for key/value/header key/header value
//
// The writer records where every field sits (the field log) so that the C10
// mutator can aim at length / count / size / checksum fields.

import (
	"errors"
	"fmt"
)

type vfKind uint8

const (
	vfKInt8      vfKind = iota // INT8
	vfKInt16                   // INT16
	vfKInt32                   // INT32
	vfKInt64                   // INT64
	vfKBool                    // BOOLEAN
	vfKVarint                  // zig-zag VARINT / VARLONG carrying a plain value
	vfKUvarint                 // UNSIGNED_VARINT carrying a plain value
	vfKArrayLen                // INT32 element count of an ARRAY (-1 = null)
	vfKCArrayLen               // UNSIGNED_VARINT count+1 of a COMPACT_ARRAY (0 = null)
	vfKStrLen                  // INT16 byte length of a (NULLABLE_)STRING
	vfKCStrLen                 // UNSIGNED_VARINT length+1 of a COMPACT_(NULLABLE_)STRING
	vfKBytesLen                // INT32 byte length of (NULLABLE_)BYTES
	vfKCBytesLen               // UNSIGNED_VARINT length+1 of COMPACT_BYTES
	vfKVBytesLen               // VARINT byte length of a record key / value / header field (-1 = null)
	vfKData                    // payload of a string / bytes field
	vfKTagged                  // UNSIGNED_VARINT number of tagged fields
	vfKSize                    // INT32 size prefix of the region that follows (request, message, batch, records)
	vfKVSize                   // VARINT size prefix of a record
	vfKCRC                     // 4-byte checksum
	vfKVCount                  // VARINT element count (record headers)
)

var vfKindNames = [...]string{"int8", "int16", "int32", "int64", "bool", "varint", "uvarint", "arraylen", "carraylen", "strlen", "cstrlen",
	"byteslen", "cbyteslen", "vbyteslen", "data", "tagged", "size", "vsize", "crc", "vcount"}

func (k vfKind) String() string {
	if int(k) < len(vfKindNames) {
		return vfKindNames[k]
	}
	return fmt.Sprintf("kind%d", k)
}

// vfIsLength reports whether a field of this kind announces how much follows
// (bytes or elements); these are the fields a hostile peer lies about.
func (k vfKind) vfIsLength() bool {
	switch k {
	case vfKArrayLen, vfKCArrayLen, vfKStrLen, vfKCStrLen, vfKBytesLen, vfKCBytesLen, vfKVBytesLen, vfKSize, vfKVSize, vfKVCount, vfKTagged:
		return true
	}
	return false
}

// vfField is one entry of the field log: R[Off:Off+Len] holds a field of kind Kind.
// Site names the decoder function that read it (decode-driven generation) or the
// structure element it belongs to (hand-written record formats).
type vfField struct {
	Off  int    `json:"off"`
	Len  int    `json:"len"`
	Kind vfKind `json:"kind"`
	Site string `json:"site,omitempty"`
}

// ---------------------------------------------------------------- writer

type vfW struct {
	b      []byte
	fields []vfField
	site   string // attached to the fields logged next
	nolog  bool
}

func (w *vfW) vfLog(off int, k vfKind) {
	if !w.nolog {
		w.fields = append(w.fields, vfField{Off: off, Len: len(w.b) - off, Kind: k, Site: w.site})
	}
}

func (w *vfW) vfPut8(v uint8)   { w.b = append(w.b, v) }
func (w *vfW) vfPut16(v uint16) { w.b = append(w.b, byte(v>>8), byte(v)) }
func (w *vfW) vfPut32(v uint32) { w.b = append(w.b, byte(v>>24), byte(v>>16), byte(v>>8), byte(v)) }
func (w *vfW) vfPut64(v uint64) {
	w.b = append(w.b, byte(v>>56), byte(v>>48), byte(v>>40), byte(v>>32), byte(v>>24), byte(v>>16), byte(v>>8), byte(v))
}

func (w *vfW) vfPutUvarint(v uint64) {
	for v >= 0x80 {
		w.b = append(w.b, byte(v)|0x80)
		v >>= 7
	}
	w.b = append(w.b, byte(v))
}

func vfZigZag(v int64) uint64   { return uint64(v<<1) ^ uint64(v>>63) }
func vfUnZigZag(u uint64) int64 { return int64(u>>1) ^ -int64(u&1) }

func (w *vfW) vfI8(v int8)   { o := len(w.b); w.vfPut8(uint8(v)); w.vfLog(o, vfKInt8) }
func (w *vfW) vfI16(v int16) { o := len(w.b); w.vfPut16(uint16(v)); w.vfLog(o, vfKInt16) }
func (w *vfW) vfI32(v int32) { o := len(w.b); w.vfPut32(uint32(v)); w.vfLog(o, vfKInt32) }
func (w *vfW) vfI64(v int64) { o := len(w.b); w.vfPut64(uint64(v)); w.vfLog(o, vfKInt64) }
func (w *vfW) vfBool(v bool) {
	o := len(w.b)
	if v {
		w.vfPut8(1)
	} else {
		w.vfPut8(0)
	}
	w.vfLog(o, vfKBool)
}
func (w *vfW) vfVarint(v int64)   { o := len(w.b); w.vfPutUvarint(vfZigZag(v)); w.vfLog(o, vfKVarint) }
func (w *vfW) vfUvarint(v uint64) { o := len(w.b); w.vfPutUvarint(v); w.vfLog(o, vfKUvarint) }

// vfArrayLen writes an ARRAY count; n = -1 is the null array.
func (w *vfW) vfArrayLen(n int) { o := len(w.b); w.vfPut32(uint32(int32(n))); w.vfLog(o, vfKArrayLen) }

// vfCArrayLen writes a COMPACT_ARRAY count; n = -1 is the null array.
func (w *vfW) vfCArrayLen(n int) {
	o := len(w.b)
	w.vfPutUvarint(uint64(n + 1))
	w.vfLog(o, vfKCArrayLen)
}

func (w *vfW) vfTagged() { o := len(w.b); w.vfPutUvarint(0); w.vfLog(o, vfKTagged) }

func (w *vfW) vfData(p []byte) {
	if len(p) == 0 {
		return
	}
	o := len(w.b)
	w.b = append(w.b, p...)
	w.vfLog(o, vfKData)
}

// vfStr writes a STRING; null=true writes the null marker (length -1).
func (w *vfW) vfStr(s string, null bool) {
	o := len(w.b)
	if null {
		w.vfPut16(0xffff)
		w.vfLog(o, vfKStrLen)
		return
	}
	w.vfPut16(uint16(len(s)))
	w.vfLog(o, vfKStrLen)
	w.vfData([]byte(s))
}

func (w *vfW) vfNStr(s *string) {
	if s == nil {
		w.vfStr("", true)
	} else {
		w.vfStr(*s, false)
	}
}

// vfCStr writes a COMPACT_STRING; null=true writes 0.
func (w *vfW) vfCStr(s string, null bool) {
	o := len(w.b)
	if null {
		w.vfPutUvarint(0)
		w.vfLog(o, vfKCStrLen)
		return
	}
	w.vfPutUvarint(uint64(len(s)) + 1)
	w.vfLog(o, vfKCStrLen)
	w.vfData([]byte(s))
}

// vfBytes writes BYTES; a nil slice is the null marker.
func (w *vfW) vfBytes(p []byte) {
	o := len(w.b)
	if p == nil {
		w.vfPut32(0xffffffff)
		w.vfLog(o, vfKBytesLen)
		return
	}
	w.vfPut32(uint32(len(p)))
	w.vfLog(o, vfKBytesLen)
	w.vfData(p)
}

// vfCBytes writes COMPACT_BYTES (never null in the bodies sarama implements).
func (w *vfW) vfCBytes(p []byte) {
	o := len(w.b)
	w.vfPutUvarint(uint64(len(p)) + 1)
	w.vfLog(o, vfKCBytesLen)
	w.vfData(p)
}

// vfVBytes writes a record-level byte field: VARINT length (-1 = null) + data.
func (w *vfW) vfVBytes(p []byte) {
	o := len(w.b)
	if p == nil {
		w.vfPutUvarint(vfZigZag(-1))
		w.vfLog(o, vfKVBytesLen)
		return
	}
	w.vfPutUvarint(vfZigZag(int64(len(p))))
	w.vfLog(o, vfKVBytesLen)
	w.vfData(p)
}

// vfReserve32 reserves a 4-byte field to be patched later (size prefix / CRC).
func (w *vfW) vfReserve32(k vfKind) int {
	o := len(w.b)
	w.vfPut32(0)
	w.vfLog(o, k)
	return o
}

func (w *vfW) vfPatch32(off int, v uint32) {
	w.b[off], w.b[off+1], w.b[off+2], w.b[off+3] = byte(v>>24), byte(v>>16), byte(v>>8), byte(v)
}

// vfAppend appends another writer's bytes and (shifted) field log.
func (w *vfW) vfAppend(o *vfW) {
	base := len(w.b)
	w.b = append(w.b, o.b...)
	if !w.nolog {
		for _, f := range o.fields {
			f.Off += base
			w.fields = append(w.fields, f)
		}
	}
}

// ---------------------------------------------------------------- reader

var (
	vfErrShort     = errors.New("vf reader: input too short")
	vfErrVarint    = errors.New("vf reader: varint longer than 10 bytes")
	vfErrBool      = errors.New("vf reader: boolean byte is neither 0 nor 1")
	vfErrNegLen    = errors.New("vf reader: negative length other than -1")
	vfErrNullNotOK = errors.New("vf reader: null marker where the field is not nullable")
)

type vfRd struct {
	b   []byte
	off int
}

func (r *vfRd) vfRemaining() int { return len(r.b) - r.off }

func (r *vfRd) vfNeed(n int) error {
	if n < 0 || r.vfRemaining() < n {
		return vfErrShort
	}
	return nil
}

func (r *vfRd) vfU8() (uint8, error) {
	if err := r.vfNeed(1); err != nil {
		return 0, err
	}
	v := r.b[r.off]
	r.off++
	return v, nil
}

func (r *vfRd) vfI8() (int8, error) { v, err := r.vfU8(); return int8(v), err }

func (r *vfRd) vfI16() (int16, error) {
	if err := r.vfNeed(2); err != nil {
		return 0, err
	}
	v := uint16(r.b[r.off])<<8 | uint16(r.b[r.off+1])
	r.off += 2
	return int16(v), nil
}

func (r *vfRd) vfU32() (uint32, error) {
	if err := r.vfNeed(4); err != nil {
		return 0, err
	}
	p := r.b[r.off:]
	v := uint32(p[0])<<24 | uint32(p[1])<<16 | uint32(p[2])<<8 | uint32(p[3])
	r.off += 4
	return v, nil
}

func (r *vfRd) vfI32() (int32, error) { v, err := r.vfU32(); return int32(v), err }

func (r *vfRd) vfI64() (int64, error) {
	if err := r.vfNeed(8); err != nil {
		return 0, err
	}
	var v uint64
	for i := 0; i < 8; i++ {
		v = v<<8 | uint64(r.b[r.off+i])
	}
	r.off += 8
	return int64(v), nil
}

func (r *vfRd) vfBool() (bool, error) {
	v, err := r.vfU8()
	if err != nil {
		return false, err
	}
	switch v {
	case 0:
		return false, nil
	case 1:
		return true, nil
	}
	return false, vfErrBool
}

func (r *vfRd) vfUvarint() (uint64, error) {
	var v uint64
	for i := 0; i < 10; i++ {
		b, err := r.vfU8()
		if err != nil {
			return 0, err
		}
		if i == 9 && b > 1 {
			return 0, vfErrVarint
		}
		v |= uint64(b&0x7f) << (7 * uint(i))
		if b&0x80 == 0 {
			return v, nil
		}
	}
	return 0, vfErrVarint
}

func (r *vfRd) vfVarint() (int64, error) {
	u, err := r.vfUvarint()
	return vfUnZigZag(u), err
}

func (r *vfRd) vfRaw(n int) ([]byte, error) {
	if err := r.vfNeed(n); err != nil {
		return nil, err
	}
	p := r.b[r.off : r.off+n : r.off+n]
	r.off += n
	return p, nil
}

// vfStr reads a (NULLABLE_)STRING.
func (r *vfRd) vfStr() (s string, null bool, err error) {
	n, err := r.vfI16()
	if err != nil {
		return "", false, err
	}
	if n == -1 {
		return "", true, nil
	}
	if n < 0 {
		return "", false, vfErrNegLen
	}
	p, err := r.vfRaw(int(n))
	return string(p), false, err
}

// vfStrNN reads a STRING that must not be null.
func (r *vfRd) vfStrNN() (string, error) {
	s, null, err := r.vfStr()
	if err == nil && null {
		err = vfErrNullNotOK
	}
	return s, err
}

func (r *vfRd) vfNStr() (*string, error) {
	s, null, err := r.vfStr()
	if err != nil || null {
		return nil, err
	}
	return &s, nil
}

// vfBytes reads (NULLABLE_)BYTES; null yields a nil slice, empty a non-nil empty one.
func (r *vfRd) vfBytes() ([]byte, error) {
	n, err := r.vfI32()
	if err != nil {
		return nil, err
	}
	if n == -1 {
		return nil, nil
	}
	if n < 0 {
		return nil, vfErrNegLen
	}
	p, err := r.vfRaw(int(n))
	if err != nil {
		return nil, err
	}
	if p == nil {
		p = []byte{}
	}
	return p, nil
}

// vfVBytes reads a record-level byte field.
func (r *vfRd) vfVBytes() ([]byte, error) {
	n, err := r.vfVarint()
	if err != nil {
		return nil, err
	}
	if n == -1 {
		return nil, nil
	}
	if n < 0 || n > int64(r.vfRemaining()) {
		return nil, vfErrNegLen
	}
	p, err := r.vfRaw(int(n))
	if err != nil {
		return nil, err
	}
	if p == nil {
		p = []byte{}
	}
	return p, nil
}

// vfArrayLen reads an ARRAY count (-1 = null).
func (r *vfRd) vfArrayLen() (int, error) {
	n, err := r.vfI32()
	if err != nil {
		return 0, err
	}
	if n < -1 {
		return 0, vfErrNegLen
	}
	return int(n), nil
}
