//go:build go1.18 && verif

package sarama

// C09: the equality "≍" used by the round-trip oracles. Reflection based, sees
// unexported fields (they carry wire content in many bodies: blocks, partitions,
// replicaID ...), treats nil and empty slices/maps alike (the wire cannot tell a
// null from an empty collection where sarama's decoders fold them), compares
// time.Time with Equal and *Broker by the three fields that travel on the wire.

import (
	"fmt"
	"reflect"
	"sort"
	"time"
	"unsafe"
)

var (
	vfTimeType   = reflect.TypeOf(time.Time{})
	vfBrokerType = reflect.TypeOf(Broker{})
)

// vfSkipFields are derived or cache fields that do not carry wire content of their own.
var vfSkipFields = map[string]bool{
	"Record.length":                 true, // varint length of the record as last decoded / computed
	"RecordBatch.compressedRecords": true,
	"RecordBatch.recordsLen":        true,
	"Message.compressedCache":       true,
	"Message.compressedSize":        true,
}

// vfStrict makes nil and empty collections different (used to measure, not to judge).
type vfEqOpts struct {
	strict bool
	skip   map[string]bool // additional "Type.field" names to ignore
}

func vfEq(a, b interface{}) (bool, string) { return vfEqWith(a, b, vfEqOpts{}) }

func vfEqWith(a, b interface{}, o vfEqOpts) (bool, string) {
	d := vfDeep(vfClean(reflect.ValueOf(a)), vfClean(reflect.ValueOf(b)), "", &o, 0)
	return d == "", d
}

// vfClean returns v unchanged; values handed in from outside carry no read-only flag.
func vfClean(v reflect.Value) reflect.Value { return v }

// vfField returns field i of the addressable struct v without the read-only flag.
func vfFieldOf(v reflect.Value, i int) reflect.Value {
	f := v.Field(i)
	if f.CanInterface() {
		return f
	}
	return reflect.NewAt(f.Type(), unsafe.Pointer(f.UnsafeAddr())).Elem()
}

// vfAddressable copies a non-addressable struct value so its fields can be reached.
func vfAddressable(v reflect.Value) reflect.Value {
	if v.CanAddr() {
		return v
	}
	c := reflect.New(v.Type()).Elem()
	c.Set(v)
	return c
}

func vfDeep(a, b reflect.Value, path string, o *vfEqOpts, depth int) string {
	if depth > 64 {
		return path + ": nesting too deep"
	}
	if a.IsValid() != b.IsValid() {
		return fmt.Sprintf("%s: one side invalid", path)
	}
	if !a.IsValid() {
		return ""
	}
	if a.Type() != b.Type() {
		return fmt.Sprintf("%s: type %s vs %s", path, a.Type(), b.Type())
	}
	switch a.Kind() {
	case reflect.Ptr:
		if a.IsNil() || b.IsNil() {
			if a.IsNil() != b.IsNil() && a.Type().Elem() == vfBrokerType && !o.strict {
				// sarama has two representations of "no coordinator": a nil *Broker (what decode
				// yields for host "" port 0) and NoNode (id -1, ":-1"; what encode writes for nil
				// and what decode yields for Kafka's own "no node" triple)
				nb := a
				if a.IsNil() {
					nb = b
				}
				if br := nb.Interface().(*Broker); br.id == -1 && br.addr == ":-1" && br.rack == nil {
					return ""
				}
			}
			if a.IsNil() != b.IsNil() {
				return fmt.Sprintf("%s: nil pointer vs value (%v / %v)", path, a.IsNil(), b.IsNil())
			}
			return ""
		}
		return vfDeep(a.Elem(), b.Elem(), path, o, depth+1)
	case reflect.Interface:
		if a.IsNil() || b.IsNil() {
			if a.IsNil() != b.IsNil() {
				return fmt.Sprintf("%s: nil interface vs value", path)
			}
			return ""
		}
		return vfDeep(a.Elem(), b.Elem(), path, o, depth+1)
	case reflect.Struct:
		t := a.Type()
		if t == vfTimeType {
			ta := vfAddressable(a).Addr().Interface().(*time.Time)
			tb := vfAddressable(b).Addr().Interface().(*time.Time)
			if !ta.Equal(*tb) {
				return fmt.Sprintf("%s: time %v vs %v", path, *ta, *tb)
			}
			return ""
		}
		a, b = vfAddressable(a), vfAddressable(b)
		if t == vfBrokerType {
			ba := a.Addr().Interface().(*Broker)
			bb := b.Addr().Interface().(*Broker)
			if ba.id != bb.id || ba.addr != bb.addr || !vfStrPtrEq(ba.rack, bb.rack) {
				return fmt.Sprintf("%s: broker (%d,%q,%s) vs (%d,%q,%s)", path, ba.id, ba.addr, vfStrPtr(ba.rack), bb.id, bb.addr, vfStrPtr(bb.rack))
			}
			return ""
		}
		for i := 0; i < t.NumField(); i++ {
			name := t.Name() + "." + t.Field(i).Name
			if vfSkipFields[name] || o.skip[name] {
				continue
			}
			fa, fb := vfFieldOf(a, i), vfFieldOf(b, i)
			if t.Field(i).Name == "topicPartitions" {
				// derived from a map iteration: order is arbitrary, compare as a set
				if d := vfTopicPartitionsEq(fa, fb, path+"."+t.Field(i).Name); d != "" {
					return d
				}
				continue
			}
			if d := vfDeep(fa, fb, path+"."+t.Field(i).Name, o, depth+1); d != "" {
				return d
			}
		}
		return ""
	case reflect.Slice:
		if !o.strict {
			if a.Len() == 0 && b.Len() == 0 {
				return ""
			}
		} else if a.IsNil() != b.IsNil() {
			return fmt.Sprintf("%s: nil vs empty slice", path)
		}
		if a.Len() != b.Len() {
			return fmt.Sprintf("%s: slice length %d vs %d", path, a.Len(), b.Len())
		}
		if a.Type().Elem().Kind() == reflect.Uint8 {
			pa, pb := a.Bytes(), b.Bytes()
			for i := range pa {
				if pa[i] != pb[i] {
					return fmt.Sprintf("%s[%d]: byte %#x vs %#x", path, i, pa[i], pb[i])
				}
			}
			return ""
		}
		for i := 0; i < a.Len(); i++ {
			if d := vfDeep(a.Index(i), b.Index(i), fmt.Sprintf("%s[%d]", path, i), o, depth+1); d != "" {
				return d
			}
		}
		return ""
	case reflect.Array:
		for i := 0; i < a.Len(); i++ {
			if d := vfDeep(a.Index(i), b.Index(i), fmt.Sprintf("%s[%d]", path, i), o, depth+1); d != "" {
				return d
			}
		}
		return ""
	case reflect.Map:
		if !o.strict {
			if a.Len() == 0 && b.Len() == 0 {
				return ""
			}
		} else if a.IsNil() != b.IsNil() {
			return fmt.Sprintf("%s: nil vs empty map", path)
		}
		if a.Len() != b.Len() {
			return fmt.Sprintf("%s: map size %d vs %d", path, a.Len(), b.Len())
		}
		keys := a.MapKeys()
		sort.Slice(keys, func(i, j int) bool { return fmt.Sprint(keys[i]) < fmt.Sprint(keys[j]) })
		for _, k := range keys {
			vb := b.MapIndex(k)
			if !vb.IsValid() {
				return fmt.Sprintf("%s[%v]: key missing on one side", path, k)
			}
			if d := vfDeep(a.MapIndex(k), vb, fmt.Sprintf("%s[%v]", path, k), o, depth+1); d != "" {
				return d
			}
		}
		return ""
	case reflect.Bool:
		if a.Bool() != b.Bool() {
			return fmt.Sprintf("%s: %v vs %v", path, a.Bool(), b.Bool())
		}
	case reflect.Int, reflect.Int8, reflect.Int16, reflect.Int32, reflect.Int64:
		if a.Int() != b.Int() {
			return fmt.Sprintf("%s: %d vs %d", path, a.Int(), b.Int())
		}
	case reflect.Uint, reflect.Uint8, reflect.Uint16, reflect.Uint32, reflect.Uint64, reflect.Uintptr:
		if a.Uint() != b.Uint() {
			return fmt.Sprintf("%s: %d vs %d", path, a.Uint(), b.Uint())
		}
	case reflect.String:
		if a.String() != b.String() {
			return fmt.Sprintf("%s: %q vs %q", path, a.String(), b.String())
		}
	case reflect.Float32, reflect.Float64:
		if a.Float() != b.Float() {
			return fmt.Sprintf("%s: %v vs %v", path, a.Float(), b.Float())
		}
	case reflect.Func, reflect.Chan, reflect.UnsafePointer:
		// no wire content
	default:
		return fmt.Sprintf("%s: unsupported kind %s", path, a.Kind())
	}
	return ""
}

func vfStrPtr(s *string) string {
	if s == nil {
		return "<nil>"
	}
	return fmt.Sprintf("%q", *s)
}

func vfStrPtrEq(a, b *string) bool {
	if a == nil || b == nil {
		return a == b
	}
	return *a == *b
}

func vfTopicPartitionsEq(a, b reflect.Value, path string) string {
	ta, _ := a.Interface().([]topicPartitionAssignment)
	tb, _ := b.Interface().([]topicPartitionAssignment)
	if len(ta) != len(tb) {
		return fmt.Sprintf("%s: %d vs %d entries", path, len(ta), len(tb))
	}
	ca := append([]topicPartitionAssignment(nil), ta...)
	cb := append([]topicPartitionAssignment(nil), tb...)
	less := func(s []topicPartitionAssignment) func(i, j int) bool {
		return func(i, j int) bool {
			if s[i].Topic != s[j].Topic {
				return s[i].Topic < s[j].Topic
			}
			return s[i].Partition < s[j].Partition
		}
	}
	sort.Slice(ca, less(ca))
	sort.Slice(cb, less(cb))
	for i := range ca {
		if ca[i] != cb[i] {
			return fmt.Sprintf("%s: %v vs %v", path, ca[i], cb[i])
		}
	}
	return ""
}

// vfMaxMapLen returns the size of the largest map reachable from v (maps are the only
// source of encoding-order freedom: sarama's encoders iterate them directly).
func vfMaxMapLen(x interface{}) int {
	max := 0
	var walk func(v reflect.Value, depth int)
	walk = func(v reflect.Value, depth int) {
		if !v.IsValid() || depth > 64 {
			return
		}
		switch v.Kind() {
		case reflect.Ptr, reflect.Interface:
			if !v.IsNil() {
				walk(v.Elem(), depth+1)
			}
		case reflect.Struct:
			if v.Type() == vfTimeType || v.Type() == vfBrokerType {
				return
			}
			v = vfAddressable(v)
			for i := 0; i < v.NumField(); i++ {
				walk(vfFieldOf(v, i), depth+1)
			}
		case reflect.Slice, reflect.Array:
			if v.Type().Elem().Kind() == reflect.Uint8 {
				return
			}
			for i := 0; i < v.Len(); i++ {
				walk(v.Index(i), depth+1)
			}
		case reflect.Map:
			if v.Len() > max {
				max = v.Len()
			}
			it := v.MapRange()
			for it.Next() {
				walk(it.Value(), depth+1)
			}
		}
	}
	walk(reflect.ValueOf(x), 0)
	return max
}
