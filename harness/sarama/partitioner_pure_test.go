//go:build go1.18 && verif

package sarama

// C17, pure part (DESIGN 5.17): every partitioner constructor and option, sequences of
// Partition() calls on ONE instance, judged against the property statement and the doc
// comments of partitioner.go. The producer-routing part of C17 lives elsewhere.
//
// Oracle clauses and where they come from
//   range        statement: "returns a partition index within [0, numPartitions)"; for the manual partitioner the
//                index is the message's own Partition field (doc of NewManualPartitioner), so the range clause
//                is the caller's business there and only "returns msg.Partition" is asserted.
//   equal keys   statement: "hash partitioners map equal keys to equal partitions" - on the reused instance, on a
//                fresh instance from the same constructor, and across ByteEncoder/StringEncoder of the same bytes.
//   formula      doc of NewHashPartitioner ("FNV-1a hash of the encoded bytes ... modulus the number of partitions"),
//                doc of NewReferenceHashPartitioner / WithAbsFirst ("in the same way as the reference Java
//                implementation": toPositive(h) % n = (h & 0x7fffffff) % n); the default variant is |int32(h) % n|.
//                The hash is recomputed by the harness' own FNV-1a / FNV-1 / dictated-hash code.
//   key error    an Encoder that fails: the partitioner returns that very error.
//   keyless      doc of NewHashPartitioner ("If the message's key is nil then a random partition is chosen") -> range;
//                doc of WithCustomFallbackPartitioner ("what HashPartitioner should be used in case a Distribution Key
//                is empty") -> the configured fallback is asked exactly once per keyless message, with that message
//                and that partition count, and its answer (value and error) is what the caller gets; never for keyed ones.
//   consistency  doc of Partitioner.RequiresConsistency ("The obvious example is the HashPartitioner") and of
//                DynamicConsistencyPartitioner ("the HashPartitioner, which does not require consistency if the
//                message key is nil"): hash partitioners implement the dynamic interface, RequiresConsistency()==true,
//                MessageRequiresConsistency(msg) == (msg.Key != nil). The values of the other partitioners are not
//                documented; they are recorded in the class histogram (consistency:<ctor>=<bool>) and not judged.
//   round robin  statement: "round-robin cycles through all partitions"; doc: "walks through the available partitions
//                one at a time". (a) n consecutive calls with the same n return n distinct partitions; (b) each result
//                is the successor of the previous one among the partitions now available: prev+1 if that is < n,
//                otherwise 0 (TestRoundRobinPartitioner pins exactly this across a change of n: n=1 then n=7 gives 1).
//   manual       doc of NewManualPartitioner: the result is message.Partition.
//   own hasher   doc of NewCustomHashPartitioner ("each partition dispatcher gets its own hasher"): the factory is
//                called once per constructed partitioner.

import (
	"encoding/binary"
	"encoding/hex"
	"errors"
	"fmt"
	"hash"
	"hash/fnv"
	"math"
	"testing"

	"github.com/Shopify/sarama/internal/vfcore"
	"pgregory.net/rapid"
)

// ---------------------------------------------------------------------------------------------
// case

type vfPKey struct {
	Kind string `json:"kind"`          // nil | bytes | string | nilslice | error
	Hex  string `json:"hex,omitempty"` // key bytes (bytes, string)
}

type vfPOp struct {
	Key   vfPKey `json:"key"`
	N     int32  `json:"n"`               // numPartitions, >= 1
	Part  int32  `json:"part,omitempty"`  // ProducerMessage.Partition (read by the manual partitioner)
	Fb    uint32 `json:"fb,omitempty"`    // the recording fallback answers Fb % n
	FbErr bool   `json:"fberr,omitempty"` // ... or an error
}

type vfPCase struct {
	Ctor   string   `json:"ctor"`             // hash | reference | customhash | custom | random | roundrobin | manual
	Opts   []string `json:"opts,omitempty"`   // ctor=custom: absfirst | hashfn | fallback, in application order
	Hasher string   `json:"hasher,omitempty"` // customhash, custom+hashfn: dictated | fnv1 | fnv1a
	Ops    []vfPOp  `json:"ops"`
}

// ---------------------------------------------------------------------------------------------
// harness-side hashers, encoders, fallback

const (
	vfFNVBasis = uint32(2166136261)
	vfFNVPrime = uint32(16777619)
)

func vfFNV1a(b []byte) uint32 {
	h := vfFNVBasis
	for _, c := range b {
		h ^= uint32(c)
		h *= vfFNVPrime
	}
	return h
}

func vfFNV1(b []byte) uint32 {
	h := vfFNVBasis
	for _, c := range b {
		h *= vfFNVPrime
		h ^= uint32(c)
	}
	return h
}

// vfDictSum is the dictated hash: the first four key bytes, big endian, missing bytes are zero.
func vfDictSum(b []byte) uint32 {
	var q [4]byte
	copy(q[:], b)
	return binary.BigEndian.Uint32(q[:])
}

// vfDictHash is a hash.Hash32 with state: Write accumulates, Reset clears. A partitioner that does not
// reset it between messages keeps answering with the first key's hash.
type vfDictHash struct{ buf []byte }

func (h *vfDictHash) Write(p []byte) (int, error) {
	for _, c := range p {
		if len(h.buf) >= 4 {
			break
		}
		h.buf = append(h.buf, c)
	}
	return len(p), nil
}
func (h *vfDictHash) Reset()         { h.buf = h.buf[:0] }
func (h *vfDictHash) Sum32() uint32  { return vfDictSum(h.buf) }
func (h *vfDictHash) Size() int      { return 4 }
func (h *vfDictHash) BlockSize() int { return 1 }
func (h *vfDictHash) Sum(b []byte) []byte {
	v := h.Sum32()
	return append(b, byte(v>>24), byte(v>>16), byte(v>>8), byte(v))
}

type vfHashFactory struct {
	kind string
	made int
}

func (f *vfHashFactory) make() hash.Hash32 {
	f.made++
	switch f.kind {
	case "dictated":
		return &vfDictHash{}
	case "fnv1":
		return fnv.New32()
	default:
		return fnv.New32a()
	}
}

func vfRefHash(kind string, b []byte) uint32 {
	switch kind {
	case "dictated":
		return vfDictSum(b)
	case "fnv1":
		return vfFNV1(b)
	default:
		return vfFNV1a(b)
	}
}

var errVfKeyEncode = errors.New("vf: key encoder refuses")
var errVfFallback = errors.New("vf: fallback partitioner refuses")

type vfErrEncoder struct{}

func (vfErrEncoder) Encode() ([]byte, error) { return nil, errVfKeyEncode }
func (vfErrEncoder) Length() int             { return 3 }

// vfRecPartitioner is the recording fallback.
type vfRecPartitioner struct {
	calls   int
	lastMsg *ProducerMessage
	lastN   int32
	ans     int32
	err     error
}

func (p *vfRecPartitioner) Partition(m *ProducerMessage, n int32) (int32, error) {
	p.calls++
	p.lastMsg, p.lastN = m, n
	return p.ans, p.err
}
func (p *vfRecPartitioner) RequiresConsistency() bool { return false }

func vfPKeyBytes(k vfPKey) ([]byte, error) {
	switch k.Kind {
	case "bytes", "string":
		return hex.DecodeString(k.Hex)
	case "nil", "nilslice", "error":
		if k.Hex != "" {
			return nil, fmt.Errorf("key kind %q carries bytes", k.Kind)
		}
		return nil, nil
	}
	return nil, fmt.Errorf("unknown key kind %q", k.Kind)
}

// vfPEncoder builds the message key; flip swaps ByteEncoder and StringEncoder (same bytes, other encoder).
func vfPEncoder(k vfPKey, b []byte, flip bool) Encoder {
	switch k.Kind {
	case "nil":
		return nil
	case "error":
		return vfErrEncoder{}
	case "nilslice":
		if flip {
			return StringEncoder("")
		}
		return ByteEncoder(nil)
	case "string":
		if flip {
			return ByteEncoder(append([]byte{}, b...))
		}
		return StringEncoder(string(b))
	default:
		if flip {
			return StringEncoder(string(b))
		}
		return ByteEncoder(append([]byte{}, b...))
	}
}

// ---------------------------------------------------------------------------------------------
// construction of the partitioner under test

type vfPEnv struct {
	ctor     PartitionerConstructor
	rec      *vfRecPartitioner
	fac      *vfHashFactory
	built    int
	hashFam  bool   // one of the hash partitioners
	refAbs   bool   // reference (Java) sign handling expected
	hashKind string // hash function expected: fnv1a | fnv1 | dictated
	fallback bool   // WithCustomFallbackPartitioner in play
}

func (e *vfPEnv) build() Partitioner {
	e.built++
	return e.ctor("vf-topic")
}

func vfPHas(opts []string, o string) bool {
	for _, x := range opts {
		if x == o {
			return true
		}
	}
	return false
}

func vfPBuildEnv(c *vfPCase) (*vfPEnv, error) {
	e := &vfPEnv{rec: &vfRecPartitioner{}, hashKind: "fnv1a"}
	needHasher := false
	if c.Ctor != "custom" && len(c.Opts) != 0 {
		return nil, fmt.Errorf("options given for constructor %q", c.Ctor)
	}
	switch c.Ctor {
	case "hash":
		e.ctor, e.hashFam = NewHashPartitioner, true
	case "reference":
		e.ctor, e.hashFam, e.refAbs = NewReferenceHashPartitioner, true, true
	case "customhash":
		needHasher = true
		e.hashFam = true
	case "custom":
		e.hashFam = true
		seen := map[string]bool{}
		for _, o := range c.Opts {
			if seen[o] {
				return nil, fmt.Errorf("option %q given twice", o)
			}
			seen[o] = true
			switch o {
			case "absfirst":
				e.refAbs = true
			case "hashfn":
				needHasher = true
			case "fallback":
				e.fallback = true
			default:
				return nil, fmt.Errorf("unknown option %q", o)
			}
		}
	case "random":
		e.ctor = NewRandomPartitioner
	case "roundrobin":
		e.ctor = NewRoundRobinPartitioner
	case "manual":
		e.ctor = NewManualPartitioner
	default:
		return nil, fmt.Errorf("unknown constructor %q", c.Ctor)
	}
	if needHasher {
		switch c.Hasher {
		case "dictated", "fnv1", "fnv1a":
		default:
			return nil, fmt.Errorf("unknown hasher %q", c.Hasher)
		}
		e.hashKind = c.Hasher
		e.fac = &vfHashFactory{kind: c.Hasher}
	} else if c.Hasher != "" {
		return nil, fmt.Errorf("hasher given but not used")
	}
	switch c.Ctor {
	case "customhash":
		e.ctor = NewCustomHashPartitioner(e.fac.make)
	case "custom":
		var opts []HashPartitionerOption
		for _, o := range c.Opts {
			switch o {
			case "absfirst":
				opts = append(opts, WithAbsFirst())
			case "hashfn":
				opts = append(opts, WithCustomHashFunction(e.fac.make))
			case "fallback":
				// The option's parameter type is *hashPartitioner on the pinned tree, so the recorder is wrapped
				// in a hash partitioner of the harness: a keyless message handed to it goes straight to the recorder.
				fb := &hashPartitioner{random: e.rec, hasher: fnv.New32a()}
				opts = append(opts, WithCustomFallbackPartitioner(fb))
			}
		}
		e.ctor = NewCustomPartitioner(opts...)
	}
	return e, nil
}

func vfPExpectHash(h uint32, n int32, refAbs bool) int32 {
	if refAbs {
		return int32((int64(h) & 0x7fffffff) % int64(n))
	}
	v := int64(int32(h)) % int64(n)
	if v < 0 {
		v = -v
	}
	return int32(v)
}

// ---------------------------------------------------------------------------------------------
// execution and oracle

type vfPObs struct {
	I    int    `json:"i"`
	N    int32  `json:"n"`
	Key  string `json:"key"`
	Got  int32  `json:"got"`
	Err  string `json:"err,omitempty"`
	Hash string `json:"hash,omitempty"`
	Want string `json:"want,omitempty"`
}

type vfPClasses struct{ seen []string }

func (s *vfPClasses) add(r *vfcore.Rec, name string) {
	for _, x := range s.seen {
		if x == name {
			return
		}
	}
	s.seen = append(s.seen, name)
	r.Class(name)
}

func vfPNClass(n int32) string {
	pow2 := n&(n-1) == 0
	switch {
	case n == 1:
		return "n:1"
	case n == math.MaxInt32:
		return "n:maxint32"
	case n <= 16 && pow2:
		return "n:2..16:pow2"
	case n <= 16:
		return "n:3..15:nonpow2"
	case n <= 1<<16 && pow2:
		return "n:17..65536:pow2"
	case n <= 1<<16:
		return "n:17..65535:nonpow2"
	case pow2:
		return "n:>65536:pow2"
	default:
		return "n:>65536:nonpow2"
	}
}

func vfPHashClass(h uint32) string {
	switch {
	case h == 0:
		return "hash:0"
	case h == 0x7fffffff:
		return "hash:7fffffff"
	case h == 0x80000000:
		return "hash:80000000(minint32)"
	case h == 0xffffffff:
		return "hash:ffffffff"
	case h&0x80000000 != 0:
		return "hash:topbit"
	default:
		return "hash:positive"
	}
}

func vfRunPCase(c *vfPCase, r *vfcore.Rec) (fail *vfcore.Failure) {
	var hist []vfPObs
	defer func() {
		if v := recover(); v != nil {
			fail = vfcore.Failf(vfcore.PanicSite(v, "github.com/Shopify/sarama.", "vf", "TestVF"), "partitioner panicked: %v", v)
		}
		if fail != nil && fail.History == nil {
			fail.History = hist
		}
	}()
	if len(c.Ops) < 1 || len(c.Ops) > 64 {
		return vfcore.Failf("harness:bad-case", "%d operations", len(c.Ops))
	}
	env, err := vfPBuildEnv(c)
	if err != nil {
		return vfcore.Failf("harness:bad-case", "%v", err)
	}
	keyBytes := make([][]byte, len(c.Ops))
	for i, op := range c.Ops {
		if op.N < 1 {
			return vfcore.Failf("harness:bad-case", "op %d: numPartitions %d", i, op.N)
		}
		b, err := vfPKeyBytes(op.Key)
		if err != nil {
			return vfcore.Failf("harness:bad-case", "op %d: %v", i, err)
		}
		keyBytes[i] = b
	}

	cl := &vfPClasses{}
	ctorName := c.Ctor
	cl.add(r, "ctor:"+ctorName)
	if c.Ctor == "custom" {
		cl.add(r, fmt.Sprintf("custom:%d-options", len(c.Opts)))
		for _, o := range c.Opts {
			cl.add(r, "opt:"+o)
		}
		if len(c.Opts) > 0 {
			cl.add(r, "opt-first:"+c.Opts[0])
		}
	}
	if env.fac != nil {
		cl.add(r, "hasher:"+c.Hasher)
	}
	nontrivial := env.fac != nil || env.fallback

	p := env.build()
	dyn, isDyn := p.(DynamicConsistencyPartitioner)
	if env.hashFam {
		if !isDyn {
			return vfcore.Failf("consistency-flag", "%s partitioner does not implement DynamicConsistencyPartitioner", ctorName)
		}
		if !p.RequiresConsistency() {
			return vfcore.Failf("consistency-flag", "%s partitioner: RequiresConsistency() is false", ctorName)
		}
	} else {
		cl.add(r, fmt.Sprintf("consistency:%s=%v", ctorName, p.RequiresConsistency()))
		cl.add(r, fmt.Sprintf("dynamic-interface:%s=%v", ctorName, isDyn))
	}

	type seenKey struct {
		key string
		n   int32
	}
	first := map[seenKey]int32{}
	firstAt := map[seenKey]int{}
	var (
		rrHave bool
		rrPrev int32
		rrRunN int32
		rrRun  []int32
		// first violation of the successor rule (doc level)
		rrPending *vfcore.Failure
	)
	for i, op := range c.Ops {
		n := op.N
		kb := keyBytes[i]
		msg := &ProducerMessage{Topic: "vf-topic", Key: vfPEncoder(op.Key, kb, false), Value: StringEncoder("v"), Partition: op.Part}
		if i > 0 && n != c.Ops[i-1].N {
			cl.add(r, "n-changes")
		}
		cl.add(r, vfPNClass(n))
		keyClass := op.Key.Kind
		if (op.Key.Kind == "bytes" || op.Key.Kind == "string") && len(kb) == 0 {
			keyClass += "-empty"
		}
		cl.add(r, "key:"+keyClass)

		env.rec.ans, env.rec.err = int32(op.Fb%uint32(n)), nil
		if op.FbErr {
			env.rec.ans, env.rec.err = -1, errVfFallback
		}
		callsBefore := env.rec.calls
		got, perr := p.Partition(msg, n)
		ob := vfPObs{I: i, N: n, Key: op.Key.Kind + ":" + op.Key.Hex, Got: got}
		if perr != nil {
			ob.Err = perr.Error()
		}
		hist = append(hist, ob)
		last := &hist[len(hist)-1]
		calls := env.rec.calls - callsBefore

		inRange := func() *vfcore.Failure {
			if perr != nil {
				return vfcore.Failf("unexpected-error", "op %d: %s partitioner returned error %v (n=%d, key %s)", i, ctorName, perr, n, last.Key)
			}
			if got < 0 || got >= n {
				return vfcore.Failf("out-of-range", "op %d: %s partitioner returned %d for numPartitions=%d (key %s)", i, ctorName, got, n, last.Key)
			}
			return nil
		}

		switch {
		case env.hashFam:
			keyed := op.Key.Kind != "nil"
			if mrc := dyn.MessageRequiresConsistency(msg); mrc != keyed {
				return vfcore.Failf("consistency-flag", "op %d: MessageRequiresConsistency=%v for a message with key kind %q", i, mrc, op.Key.Kind)
			}
			switch op.Key.Kind {
			case "nil":
				if env.fallback {
					cl.add(r, "keyless:custom-fallback")
					if op.FbErr {
						cl.add(r, "keyless:custom-fallback-error")
					}
					if calls != 1 {
						return vfcore.Failf("fallback-not-called", "op %d: keyless message: the configured fallback partitioner was called %d times", i, calls)
					}
					if env.rec.lastMsg != msg || env.rec.lastN != n {
						return vfcore.Failf("fallback-wrong-arguments", "op %d: fallback was called with another message or numPartitions=%d instead of %d", i, env.rec.lastN, n)
					}
					if got != env.rec.ans || perr != env.rec.err {
						return vfcore.Failf("fallback-answer-lost", "op %d: fallback answered (%d, %v), caller got (%d, %v)", i, env.rec.ans, env.rec.err, got, perr)
					}
				} else {
					cl.add(r, "keyless:default-fallback")
					if f := inRange(); f != nil {
						return f
					}
				}
			case "error":
				if perr != errVfKeyEncode {
					return vfcore.Failf("key-error-lost", "op %d: the key's Encode failed, Partition returned (%d, %v) instead of that error", i, got, perr)
				}
				cl.add(r, fmt.Sprintf("key-error:partition=%d", got))
				if calls != 0 {
					return vfcore.Failf("fallback-called-for-keyed", "op %d: fallback called %d times for a keyed message", i, calls)
				}
			default:
				h := vfRefHash(env.hashKind, kb)
				if env.hashKind != "dictated" {
					// the harness' FNV must agree with the standard library's, or the harness is broken
					var std hash.Hash32 = fnv.New32a()
					if env.hashKind == "fnv1" {
						std = fnv.New32()
					}
					_, _ = std.Write(kb)
					if std.Sum32() != h {
						return vfcore.Failf("harness:fnv", "own %s of %x = %08x, hash/fnv says %08x", env.hashKind, kb, h, std.Sum32())
					}
				}
				want := vfPExpectHash(h, n, env.refAbs)
				last.Hash, last.Want = fmt.Sprintf("%08x", h), fmt.Sprint(want)
				cl.add(r, vfPHashClass(h))
				pow2 := n&(n-1) == 0
				if h&0x80000000 != 0 || !pow2 {
					nontrivial = true
				}
				if h&0x80000000 != 0 && !pow2 {
					cl.add(r, "keyed:topbit&nonpow2")
				}
				if f := inRange(); f != nil {
					return f
				}
				if calls != 0 {
					return vfcore.Failf("fallback-called-for-keyed", "op %d: fallback called %d times for a keyed message", i, calls)
				}
				sk := seenKey{string(kb), n}
				if prev, ok := first[sk]; ok {
					cl.add(r, "equal-key-repeated")
					if prev != got {
						return vfcore.Failf("unequal-same-key", "op %d: key %x with n=%d went to %d, the same key went to %d at op %d of the same instance", i, kb, n, got, prev, firstAt[sk])
					}
				} else {
					first[sk], firstAt[sk] = got, i
				}
				fresh := env.build()
				fmsg := &ProducerMessage{Topic: "vf-topic", Key: vfPEncoder(op.Key, kb, true), Value: StringEncoder("w")}
				fgot, ferr := fresh.Partition(fmsg, n)
				if ferr != nil || fgot != got {
					return vfcore.Failf("fresh-differs", "op %d: key %x with n=%d went to %d on the reused instance and to (%d, %v) on a fresh one (other encoder type, same bytes)", i, kb, n, got, fgot, ferr)
				}
				if got != want {
					variant := "default"
					if env.refAbs {
						variant = "reference"
					}
					return vfcore.Failf("hash-formula:"+variant, "op %d: key %x hash(%s)=%08x n=%d: got %d, the %s variant demands %d", i, kb, env.hashKind, h, n, got, variant, want)
				}
			}
		case c.Ctor == "random":
			if f := inRange(); f != nil {
				return f
			}
		case c.Ctor == "roundrobin":
			if f := inRange(); f != nil {
				return f
			}
			if rrHave {
				want := int32(0)
				if int64(rrPrev)+1 < int64(n) {
					want = rrPrev + 1
				}
				last.Want = fmt.Sprint(want)
				if got != want {
					sym := "rr-not-successor"
					if n != c.Ops[i-1].N {
						sym = "rr-not-successor:n-changed"
					}
					// keep going: if a window of n calls also fails to be a cycle, that statement-level symptom is reported instead
					if rrPending == nil {
						rrPending = vfcore.Failf(sym, "op %d: round-robin returned %d after %d with numPartitions %d (before: %d); walking one at a time gives %d", i, got, rrPrev, n, c.Ops[i-1].N, want)
					}
				}
			}
			rrHave, rrPrev = true, got
			if n != rrRunN {
				rrRunN, rrRun = n, rrRun[:0]
			}
			rrRun = append(rrRun, got)
			if int64(len(rrRun)) >= int64(n) {
				cl.add(r, "rr:full-cycle-observed")
				if n > 1 {
					cl.add(r, "rr:full-cycle-observed:n>1")
				}
				win := rrRun[len(rrRun)-int(n):]
				hit := map[int32]bool{}
				for _, x := range win {
					if hit[x] {
						return vfcore.Failf("rr-not-a-cycle", "op %d: the last %d calls with numPartitions=%d returned %v: partition %d twice, another one not at all", i, n, n, win, x)
					}
					hit[x] = true
				}
			}
		case c.Ctor == "manual":
			if perr != nil {
				return vfcore.Failf("unexpected-error", "op %d: manual partitioner returned error %v", i, perr)
			}
			if got != op.Part {
				return vfcore.Failf("manual-not-own-partition", "op %d: message.Partition=%d, manual partitioner returned %d", i, op.Part, got)
			}
			if op.Part < 0 || op.Part >= n {
				cl.add(r, "manual:own-partition-out-of-range")
			} else {
				cl.add(r, "manual:own-partition-in-range")
			}
		}
	}
	if rrPending != nil {
		return rrPending
	}
	if c.Ctor == "customhash" && env.fac.made != env.built {
		return vfcore.Failf("hasher-shared", "NewCustomHashPartitioner: %d partitioners constructed, hasher factory called %d times", env.built, env.fac.made)
	}
	if c.Ctor == "custom" && env.fac != nil {
		cl.add(r, fmt.Sprintf("hashfn-factory-calls-per-instance=%v", env.fac.made == env.built))
	}
	if nontrivial {
		r.NonTrivial("")
	}
	return nil
}

// ---------------------------------------------------------------------------------------------
// generator

var vfPSpecialPrefixes = []uint32{0, 0x7fffffff, 0x80000000, 0xffffffff, 0x80000001, 0x7ffffffe, 1}

// Keys whose FNV hash is a corner value (found by solving for the last byte; "1468509572224" is the
// repository's own example for FNV-1a = 0x80000000).
var vfPSpecialKeys = map[string][]string{
	"fnv1a": {
		"02b51d8ebb", "03195b5acc", // 0
		"000da5e3bb", "00856cd3ca", // 7fffffff
		"025796df4d", "05b1d0f990", hex.EncodeToString([]byte("1468509572224")), // 80000000
		"0229f7df07", "02b11ec756", // ffffffff
		"0216e1c0d3",               // 1
		"005bb6858a",               // 80000001
		"035f781b98", "03630f8d81", // 7ffffffe
	},
	"fnv1": {
		"01476c10f3", "0189c85bd8", // 0
		"0100172c6a", "064f0b8143", // 7fffffff
		"000546456d", "0061ff2366", // 80000000
		"0082ab2cd5", "00feda58dc", // ffffffff
		"01476c10f2", // 1
		"000546456c", // 80000001
		"0100172c6b", // 7ffffffe
	},
}

// vfPUni draws an (almost exactly) uniform integer in [0,n), n <= 256, from eight fair bits. rapid's own integer
// and SampledFrom generators favour small values, which would skew every weighted choice below towards its first
// alternative (seen in the first class histogram: n=1 in half of the cases, a nil key in 70%).
func vfPUni(t *rapid.T, label string, n int) int {
	v := 0
	for i := 0; i < 8; i++ {
		v <<= 1
		if rapid.Bool().Draw(t, label) {
			v |= 1
		}
	}
	return v * n >> 8
}

func vfPPick(t *rapid.T, label string, from []string) string {
	return from[vfPUni(t, label, len(from))]
}

func vfPDrawN(t *rapid.T, label string, small bool) int32 {
	w := vfPUni(t, label+".class", 100)
	if small && w < 75 {
		return int32(1 + vfPUni(t, label+".rr", 7))
	}
	switch {
	case w < 8:
		return 1
	case w < 48:
		return int32(2 + vfPUni(t, label+".small", 15))
	case w < 62:
		return int32(rapid.IntRange(17, 1000).Draw(t, label+".mid"))
	case w < 72:
		return int32(1) << uint(1+vfPUni(t, label+".pow", 30))
	case w < 82:
		v := int64(1)<<uint(2+vfPUni(t, label+".pow", 30)) + int64(2*vfPUni(t, label+".pm", 2)-1)
		if v > math.MaxInt32 {
			v = math.MaxInt32
		}
		return int32(v)
	case w < 88:
		return math.MaxInt32
	case w < 92:
		return math.MaxInt32 - int32(1+vfPUni(t, label+".below", 3))
	default:
		return rapid.Int32Range(1, math.MaxInt32).Draw(t, label+".any")
	}
}

func vfPDrawKey(t *rapid.T, label, hashKind string) vfPKey {
	w := vfPUni(t, label+".kind", 100)
	switch {
	case w < 20:
		return vfPKey{Kind: "nil"}
	case w < 24:
		return vfPKey{Kind: "error"}
	case w < 26:
		return vfPKey{Kind: "nilslice"}
	}
	kind := "bytes"
	if rapid.Bool().Draw(t, label+".string") {
		kind = "string"
	}
	if w < 32 {
		return vfPKey{Kind: kind} // empty
	}
	var b []byte
	if hashKind == "dictated" {
		mode := vfPUni(t, label+".mode", 10)
		switch {
		case mode == 0: // shorter than the four dictating bytes
			b = rapid.SliceOfN(rapid.Byte(), 1, 3).Draw(t, label+".short")
		default:
			var pre uint32
			if mode <= 6 {
				pre = vfPSpecialPrefixes[vfPUni(t, label+".special", len(vfPSpecialPrefixes))]
			} else {
				pre = rapid.Uint32().Draw(t, label+".prefix")
			}
			b = []byte{byte(pre >> 24), byte(pre >> 16), byte(pre >> 8), byte(pre)}
			b = append(b, rapid.SliceOfN(rapid.Byte(), 0, 6).Draw(t, label+".tail")...)
		}
	} else {
		if vfPUni(t, label+".mode", 4) == 0 {
			return vfPKey{Kind: kind, Hex: vfPPick(t, label+".special", vfPSpecialKeys[hashKind])}
		}
		b = rapid.SliceOfN(rapid.Byte(), 1, 24).Draw(t, label+".bytes")
	}
	return vfPKey{Kind: kind, Hex: hex.EncodeToString(b)}
}

func vfGenPCase(t *rapid.T) *vfPCase {
	c := &vfPCase{}
	c.Ctor = vfPPick(t, "ctor", []string{
		"hash", "hash", "reference", "reference", "customhash", "customhash",
		"custom", "custom", "custom", "custom", "custom", "custom",
		"random", "roundrobin", "roundrobin", "roundrobin", "manual", "manual",
	})
	hashKind := "fnv1a"
	needHasher := c.Ctor == "customhash"
	if c.Ctor == "custom" {
		var opts []string
		for _, o := range []string{"absfirst", "hashfn", "fallback"} {
			if rapid.Bool().Draw(t, "opt."+o) {
				opts = append(opts, o)
			}
		}
		if len(opts) > 1 {
			opts = rapid.Permutation(opts).Draw(t, "optorder")
		}
		c.Opts = opts
		needHasher = vfPHas(opts, "hashfn")
	}
	if needHasher {
		c.Hasher = vfPPick(t, "hasher", []string{"dictated", "dictated", "dictated", "fnv1", "fnv1a"})
		hashKind = c.Hasher
	}
	fallback := vfPHas(c.Opts, "fallback")
	rr := c.Ctor == "roundrobin"

	nKeys := 1 + vfPUni(t, "nKeys", 4)
	pool := make([]vfPKey, nKeys)
	for i := range pool {
		pool[i] = vfPDrawKey(t, fmt.Sprintf("key%d", i), hashKind)
	}
	nOps := 1 + vfPUni(t, "nOps", 20)
	nMode := vfPUni(t, "nMode", 10) // 0-5 constant, 6-8 changes now and then, 9 changes at every call
	cur := vfPDrawN(t, "n", rr)
	for i := 0; i < nOps; i++ {
		lab := fmt.Sprintf("op%d", i)
		if i > 0 && (nMode == 9 || (nMode >= 6 && vfPUni(t, lab+".change", 5) == 0)) {
			cur = vfPDrawN(t, lab+".n", rr)
		}
		op := vfPOp{N: cur, Key: pool[vfPUni(t, lab+".key", nKeys)]}
		if c.Ctor == "manual" {
			if vfPUni(t, lab+".partmode", 4) == 0 {
				op.Part = rapid.Int32().Draw(t, lab+".part")
			} else {
				op.Part = rapid.Int32Range(0, cur-1).Draw(t, lab+".part")
			}
		}
		if fallback && op.Key.Kind == "nil" {
			op.Fb = rapid.Uint32().Draw(t, lab+".fb")
			op.FbErr = vfPUni(t, lab+".fberr", 20) == 0
		}
		c.Ops = append(c.Ops, op)
	}
	return c
}

// ---------------------------------------------------------------------------------------------

func vfC17PureSpec() vfcore.Spec {
	return vfcore.Spec{
		ID:  "C17",
		New: func() interface{} { return &vfPCase{} },
		Gen: func(t *rapid.T) interface{} { return vfGenPCase(t) },
		Run: func(c interface{}, r *vfcore.Rec) *vfcore.Failure { return vfRunPCase(c.(*vfPCase), r) },
		// The pinned WithCustomFallbackPartitioner makes the partitioner its own fallback: a keyless message
		// recurses until the runtime kills the process (fatal stack overflow, not a panic). The case is on disk
		// before it runs so that the driver can name it.
		Persist: true,
	}
}

func TestVF_C17_Pure(t *testing.T) { vfcore.Main(t, vfC17PureSpec()) }
