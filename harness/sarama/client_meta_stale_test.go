//go:build go1.18 && verif

package sarama

// C15, directed regression check for a repaired defect (known_findings.json, KF-C15-2): client.deregisterBroker deleted the
// registry entry by broker ID, so a goroutine that still held the handle of a broker that had meanwhile been re-registered
// under the same id (same broker id at a new address) removed the *new*, healthy entry when its old handle failed:
// Brokers(), Broker(id) and Leader() then lacked a broker that the newest metadata response lists, although no request or
// dial to its address had failed. Found by the concurrent phase of TestVF_C15 (thorough tier) as a non-monotonic Brokers()
// read; this test drives the same sequence deterministically, the failing step of the other goroutine being the
// deregistration of the handle it holds.

import (
	"testing"
	"time"

	"github.com/Shopify/sarama/internal/vfcore"
	metrics "github.com/rcrowley/go-metrics"
	"pgregory.net/rapid"
)

type vfc15StaleCase struct {
	Brokers int `json:"brokers"`
	Target  int `json:"target"`  // id of the broker that moves to a new address
	Variant int `json:"variant"` // which alternative address
}

func vfc15StaleRun(c *vfc15StaleCase, r *vfcore.Rec) *vfcore.Failure {
	if c.Brokers < 2 || c.Brokers > 5 || c.Target < 1 || c.Target > c.Brokers || c.Variant < 1 || c.Variant > 3 {
		r.Discard()
		return nil
	}
	sim := newVfSim(c.Brokers)
	defer sim.shutdown()
	leaders := make([]int32, c.Brokers)
	for i := range leaders {
		leaders[i] = int32(i + 1)
	}
	sim.addTopic("t0", leaders)
	obs := newVfc15Net(sim)
	conf := NewConfig()
	conf.Version = V1_0_0_0
	conf.ClientID = "vf"
	conf.MetricRegistry = metrics.NewRegistry()
	conf.Net.Proxy.Enable = true
	conf.Net.Proxy.Dialer = obs
	conf.Net.ReadTimeout = 5 * time.Second
	conf.Net.DialTimeout = 5 * time.Second
	conf.Metadata.Retry.Max = 0
	conf.Metadata.RefreshFrequency = 0
	seed := c.Target%c.Brokers + 1 // a broker that stays where it is
	cl, err := NewClient([]string{vfBrokerAddr(int32(seed))}, conf)
	if err != nil {
		return vfcore.Failf("harness", "NewClient: %v", err)
	}
	defer cl.Close()
	id := int32(c.Target)
	old, err := cl.Broker(id)
	if err != nil {
		return vfcore.Failf("harness", "Broker(%d) after the initial refresh: %v", id, err)
	}
	newAddr := vfc15AltAddr(id, c.Variant)
	sim.vfc15Readdress(id, newAddr)
	if err := cl.RefreshMetadata(); err != nil {
		return vfcore.Failf("harness", "RefreshMetadata after the move: %v", err)
	}
	cur, err := cl.Broker(id)
	if err != nil || cur == old || cur.Addr() != newAddr {
		return vfcore.Failf("answer:broker", "after a response naming broker %d at %s, Broker(%d) = %v, %v", id, newAddr, id, cur, err)
	}
	// another goroutine that had fetched the handle before the refresh now sees it fail (it was closed by the refresh)
	// and reports it, as tryRefreshMetadata / any() / the coordinator and controller lookups do
	cl.(*client).deregisterBroker(old)
	r.NonTrivial("")
	after, err := cl.Broker(id)
	if err != nil || after != cur {
		return vfcore.Failf("stale-handle-deregisters-replacement", "broker %d had moved to %s and was registered there; when the handle of its OLD address (%s) was reported as failed, the client dropped the new entry: Broker(%d) = %v, %v; no request or dial to %s failed",
			id, newAddr, old.Addr(), id, after, err, newAddr)
	}
	lead, err := cl.Leader("t0", id-1)
	if err != nil || lead != cur {
		return vfcore.Failf("stale-handle-deregisters-replacement", "Leader(t0/%d) = %v, %v after the old handle of broker %d was reported as failed; the newest response names broker %d at %s as leader", id-1, lead, err, id, id, newAddr)
	}
	return nil
}

func TestVF_C15_StaleHandle(t *testing.T) {
	vfcore.Main(t, vfcore.Spec{
		ID:  "C15",
		New: func() interface{} { return &vfc15StaleCase{} },
		Gen: func(t *rapid.T) interface{} {
			n := rapid.IntRange(2, 5).Draw(t, "brokers")
			return &vfc15StaleCase{Brokers: n, Target: rapid.IntRange(1, n).Draw(t, "target"), Variant: rapid.IntRange(1, 3).Draw(t, "variant")}
		},
		Run: func(c interface{}, r *vfcore.Rec) *vfcore.Failure { return vfc15StaleRun(c.(*vfc15StaleCase), r) },
	})
}
