//go:build go1.18 && verif

package sarama

// C08 (every strategy yields a valid assignment) and C13 (balance / stickiness).
// Pure: Plan() is called directly with the inputs consumerGroup.balance would build.

import (
	"fmt"
	"sort"
	"strings"
	"testing"
	"time"

	"github.com/Shopify/sarama/internal/vfcore"
	"pgregory.net/rapid"
)

type vfUD struct {
	Kind   string             `json:"kind"` // none | prev | prevV0 | stale | custom | customV0 | garbage
	Gen    int32              `json:"gen,omitempty"`
	Topics map[string][]int32 `json:"topics,omitempty"`
	From   string             `json:"from,omitempty"` // prev/stale: take the previous plan of this member instead of one's own
	Step   int                `json:"step,omitempty"` // rejoin: report what this member was given by the plan of that (earlier) step
}

type vfGMember struct {
	ID     string   `json:"id"`
	Topics []string `json:"topics"`
	UD     vfUD     `json:"ud"`
}

type vfGStep struct {
	What       string             `json:"what"`
	Members    []vfGMember        `json:"members"`
	Partitions map[string][]int32 `json:"partitions"`
}

type vfGCase struct {
	Strategy string    `json:"strategy"`
	Steps    []vfGStep `json:"steps"`
	Honest   bool      `json:"honest"` // every member feeds back exactly what it was given, generations increase
}

func vfStrategy(name string) BalanceStrategy {
	switch name {
	case "range":
		return BalanceStrategyRange
	case "roundrobin":
		return BalanceStrategyRoundRobin
	default:
		return &stickyBalanceStrategy{}
	}
}

var vfTopicNames = []string{"t0", "t1", "t2", "t3", "t4", "t5"}

func vfSeq(n int) []int32 {
	out := make([]int32, n)
	for i := range out {
		out[i] = int32(i)
	}
	return out
}

// vfDrawPartitionIDs draws a sorted list of distinct partition ids (mostly 0..n-1, sometimes with holes).
func vfDrawPartitionIDs(t *rapid.T, maxN int, label string) []int32 {
	n := rapid.IntRange(1, maxN).Draw(t, label+".n")
	if rapid.IntRange(0, 5).Draw(t, label+".holes") != 0 {
		return vfSeq(n)
	}
	set := map[int32]bool{}
	for len(set) < n {
		set[int32(rapid.IntRange(0, maxN*2).Draw(t, label+".id"))] = true
	}
	out := make([]int32, 0, n)
	for id := range set {
		out = append(out, id)
	}
	sort.Slice(out, func(i, j int) bool { return out[i] < out[j] })
	return out
}

func vfDrawSubset(t *rapid.T, universe []string, label string) []string {
	for {
		var out []string
		for _, u := range universe {
			if rapid.Bool().Draw(t, label+"."+u) {
				out = append(out, u)
			}
		}
		if len(out) > 1 && rapid.Bool().Draw(t, label+".order") {
			// a member lists its topics in whatever order the application subscribed to them
			out = rapid.Permutation(out).Draw(t, label+".perm")
		}
		if len(out) > 0 {
			return out
		}
		// force one
		return []string{universe[rapid.IntRange(0, len(universe)-1).Draw(t, label+".one")]}
	}
}

func vfDrawMemberID(t *rapid.T, taken map[string]bool, label string) string {
	for i := 0; ; i++ {
		id := rapid.StringMatching(`[a-z][a-z0-9-]{0,5}`).Draw(t, fmt.Sprintf("%s.id%d", label, i))
		if !taken[id] {
			taken[id] = true
			return id
		}
		if i > 20 {
			id = fmt.Sprintf("%s-%d", id, len(taken))
			taken[id] = true
			return id
		}
	}
}

// vfGenGroupCase draws a chain of rebalances. maxM/maxT/maxP bound the shape; adversarial
// enables hostile user data (C08 only).
func vfGenGroupCase(t *rapid.T, strategy string, maxM, maxT, maxP, maxSteps int, adversarial bool) *vfGCase {
	c := &vfGCase{Strategy: strategy, Honest: true}
	nT := rapid.IntRange(1, maxT).Draw(t, "nTopics")
	universe := vfTopicNames[:nT]
	parts := map[string][]int32{}
	for _, tp := range universe {
		parts[tp] = vfDrawPartitionIDs(t, maxP, "parts."+tp)
	}
	taken := map[string]bool{}
	nM := rapid.IntRange(1, maxM).Draw(t, "nMembers")
	subMode := rapid.SampledFrom([]string{"identical", "identical", "random", "disjointish"}).Draw(t, "subMode")
	var members []vfGMember
	common := vfDrawSubset(t, universe, "common")
	mkSub := func(i int, label string) []string {
		switch subMode {
		case "identical":
			return append([]string(nil), common...)
		case "disjointish":
			return []string{universe[i%len(universe)]}
		default:
			return vfDrawSubset(t, universe, label)
		}
	}
	for i := 0; i < nM; i++ {
		members = append(members, vfGMember{ID: vfDrawMemberID(t, taken, fmt.Sprintf("m%d", i)), Topics: mkSub(i, fmt.Sprintf("sub%d", i)), UD: vfUD{Kind: "none"}})
	}
	type vfDeparted struct {
		m        vfGMember
		lastStep int
	}
	var departed []vfDeparted
	rejoinStep := 0
	steps := 1
	if strategy == "sticky" {
		steps = rapid.IntRange(1, maxSteps).Draw(t, "steps")
	}
	cpM := func(ms []vfGMember) []vfGMember {
		out := make([]vfGMember, len(ms))
		for i, m := range ms {
			out[i] = vfGMember{ID: m.ID, Topics: append([]string(nil), m.Topics...), UD: m.UD}
		}
		return out
	}
	cpP := func(p map[string][]int32) map[string][]int32 {
		out := map[string][]int32{}
		for k, v := range p {
			out[k] = append([]int32(nil), v...)
		}
		return out
	}
	for s := 0; s < steps; s++ {
		what := "initial"
		rejoined := ""
		if s > 0 {
			what = rapid.SampledFrom([]string{"same", "join", "leave", "subchange", "grow", "shrink", "droptopic", "join", "leave", "joinwide", "rejoin"}).Draw(t, fmt.Sprintf("step%d", s))
			switch what {
			case "rejoin":
				// a member that left earlier comes back and reports the last assignment it knows of (its generation is
				// older than everybody else's): what a consumer does after it fell out of the group for a while
				if len(departed) > 0 && len(members) < maxM+2 {
					i := rapid.IntRange(0, len(departed)-1).Draw(t, fmt.Sprintf("rejoin%d", s))
					d := departed[i]
					departed = append(departed[:i:i], departed[i+1:]...)
					members = append(members, vfGMember{ID: d.m.ID, Topics: append([]string(nil), d.m.Topics...)})
					rejoined, rejoinStep = d.m.ID, d.lastStep
				} else {
					what = "same"
				}
			case "joinwide":
				// whatever the subscription mode of the group, the newcomer subscribes to a random (often large) subset:
				// it competes with members that can each take only part of what it can take
				what = "join"
				if len(members) < maxM+2 {
					members = append(members, vfGMember{ID: vfDrawMemberID(t, taken, fmt.Sprintf("j%d", s)), Topics: vfDrawSubset(t, universe, fmt.Sprintf("jwsub%d", s))})
				} else {
					what = "same"
				}
			case "join":
				if len(members) < maxM+2 {
					members = append(members, vfGMember{ID: vfDrawMemberID(t, taken, fmt.Sprintf("j%d", s)), Topics: mkSub(len(members), fmt.Sprintf("jsub%d", s))})
				} else {
					what = "same"
				}
			case "leave":
				if len(members) > 1 {
					i := rapid.IntRange(0, len(members)-1).Draw(t, fmt.Sprintf("leave%d", s))
					departed = append(departed, vfDeparted{m: members[i], lastStep: s - 1})
					members = append(members[:i:i], members[i+1:]...)
				} else {
					what = "same"
				}
			case "subchange":
				i := rapid.IntRange(0, len(members)-1).Draw(t, fmt.Sprintf("subm%d", s))
				members[i].Topics = vfDrawSubset(t, universe, fmt.Sprintf("newsub%d", s))
			case "grow":
				tp := universe[rapid.IntRange(0, len(universe)-1).Draw(t, fmt.Sprintf("growt%d", s))]
				cur := parts[tp]
				next := int32(0)
				if len(cur) > 0 {
					next = cur[len(cur)-1] + 1
				}
				k := rapid.IntRange(1, 3).Draw(t, fmt.Sprintf("growk%d", s))
				for j := 0; j < k; j++ {
					cur = append(cur, next+int32(j))
				}
				parts[tp] = cur
			case "shrink":
				tp := universe[rapid.IntRange(0, len(universe)-1).Draw(t, fmt.Sprintf("shrinkt%d", s))]
				if len(parts[tp]) > 1 {
					parts[tp] = parts[tp][:len(parts[tp])-1]
				} else {
					what = "same"
				}
			case "droptopic":
				// the topic keeps being subscribed but loses all but its first partition and is
				// recreated with new ids: old ownership records point at partitions that no longer exist
				tp := universe[rapid.IntRange(0, len(universe)-1).Draw(t, fmt.Sprintf("dropt%d", s))]
				base := parts[tp][len(parts[tp])-1] + 1
				n := rapid.IntRange(1, maxP).Draw(t, fmt.Sprintf("dropn%d", s))
				np := make([]int32, n)
				for j := range np {
					np[j] = base + int32(j)
				}
				parts[tp] = np
			}
		}
		ms := cpM(members)
		for i := range ms {
			ud := vfUD{Kind: "none"}
			if s > 0 {
				ud = vfUD{Kind: "prev", Gen: int32(s)}
			}
			if rejoined != "" && ms[i].ID == rejoined {
				ud = vfUD{Kind: "rejoin", Step: rejoinStep, Gen: int32(rejoinStep + 1)}
			}
			if adversarial && s > 0 && rapid.IntRange(0, 3).Draw(t, fmt.Sprintf("adv%d.%d", s, i)) == 0 {
				c.Honest = false
				kind := rapid.SampledFrom([]string{"none", "prevV0", "stale", "custom", "customV0", "copy", "samegen"}).Draw(t, fmt.Sprintf("advk%d.%d", s, i))
				switch kind {
				case "none":
					ud = vfUD{Kind: "none"}
				case "prevV0":
					ud = vfUD{Kind: "prevV0"}
				case "stale":
					ud = vfUD{Kind: "prev", Gen: int32(rapid.IntRange(-1, s).Draw(t, fmt.Sprintf("advg%d.%d", s, i)))}
				case "copy":
					ud = vfUD{Kind: "prev", Gen: int32(rapid.IntRange(0, s+1).Draw(t, fmt.Sprintf("advg%d.%d", s, i))), From: ms[rapid.IntRange(0, len(ms)-1).Draw(t, fmt.Sprintf("advf%d.%d", s, i))].ID}
				case "samegen":
					ud = vfUD{Kind: "prev", Gen: int32(s), From: ms[rapid.IntRange(0, len(ms)-1).Draw(t, fmt.Sprintf("advf%d.%d", s, i))].ID}
				default:
					tp := map[string][]int32{}
					for _, name := range vfDrawSubset(t, vfTopicNames[:nT+1], fmt.Sprintf("advt%d.%d", s, i)) {
						tp[name] = vfDrawPartitionIDs(t, maxP+2, fmt.Sprintf("advp%d.%d.%s", s, i, name))
					}
					ud = vfUD{Kind: kind, Gen: int32(rapid.IntRange(-2, s+1).Draw(t, fmt.Sprintf("advg%d.%d", s, i))), Topics: tp}
				}
			}
			ms[i].UD = ud
		}
		c.Steps = append(c.Steps, vfGStep{What: what, Members: ms, Partitions: cpP(parts)})
	}
	return c
}

// topicsFor builds the topics argument exactly as consumerGroup.balance does: the union of all
// subscriptions, each with the partition list the client reports.
func vfTopicsFor(st *vfGStep) map[string][]int32 {
	out := map[string][]int32{}
	for _, m := range st.Members {
		for _, tp := range m.Topics {
			out[tp] = append([]int32(nil), st.Partitions[tp]...)
		}
	}
	return out
}

func vfEncodeUD(ud vfUD, prevPlan BalanceStrategyPlan, self string, plans ...BalanceStrategyPlan) ([]byte, error) {
	src := self
	if ud.From != "" {
		src = ud.From
	}
	switch ud.Kind {
	case "none", "":
		return nil, nil
	case "rejoin":
		// a member that was away for a while comes back with the last assignment it knows of
		tp := map[string][]int32{}
		if ud.Step >= 0 && ud.Step < len(plans) && plans[ud.Step][src] != nil {
			tp = plans[ud.Step][src]
		}
		return encode(&StickyAssignorUserDataV1{Topics: tp, Generation: ud.Gen}, nil)
	case "prev":
		tp := prevPlan[src]
		if tp == nil {
			tp = map[string][]int32{}
		}
		return encode(&StickyAssignorUserDataV1{Topics: tp, Generation: ud.Gen}, nil)
	case "prevV0":
		tp := prevPlan[src]
		if tp == nil {
			tp = map[string][]int32{}
		}
		return encode(&StickyAssignorUserDataV0{Topics: tp}, nil)
	case "custom":
		return encode(&StickyAssignorUserDataV1{Topics: ud.Topics, Generation: ud.Gen}, nil)
	case "customV0":
		return encode(&StickyAssignorUserDataV0{Topics: ud.Topics}, nil)
	}
	return nil, fmt.Errorf("unknown user data kind %q", ud.Kind)
}

type vfPlanView struct {
	owner map[string]map[int32]string // topic -> partition -> member
	count map[string]int
}

func vfCheckValid(st *vfGStep, topics map[string][]int32, plan BalanceStrategyPlan) (*vfPlanView, *vfcore.Failure) {
	subs := map[string]map[string]bool{}
	for _, m := range st.Members {
		subs[m.ID] = map[string]bool{}
		for _, tp := range m.Topics {
			subs[m.ID][tp] = true
		}
	}
	v := &vfPlanView{owner: map[string]map[int32]string{}, count: map[string]int{}}
	for mid, tps := range plan {
		if _, ok := subs[mid]; !ok {
			return nil, vfcore.Failf("stranger-member", "plan names member %q which is not in the group", mid)
		}
		for tp, ps := range tps {
			exist := map[int32]bool{}
			for _, p := range topics[tp] {
				exist[p] = true
			}
			for _, p := range ps {
				if !exist[p] {
					return nil, vfcore.Failf("nonexistent-partition", "member %q is given %s/%d which does not exist", mid, tp, p)
				}
				if !subs[mid][tp] {
					return nil, vfcore.Failf("not-subscribed", "member %q is given %s/%d but does not subscribe to %s", mid, tp, p, tp)
				}
				if v.owner[tp] == nil {
					v.owner[tp] = map[int32]string{}
				}
				if o, dup := v.owner[tp][p]; dup {
					return nil, vfcore.Failf("double-owner", "%s/%d is given to %q and %q", tp, p, o, mid)
				}
				v.owner[tp][p] = mid
				v.count[mid]++
			}
		}
	}
	for tp, ps := range topics {
		for _, p := range ps {
			if _, ok := v.owner[tp][p]; !ok {
				return nil, vfcore.Failf("unassigned", "%s/%d is subscribed to but assigned to nobody", tp, p)
			}
		}
	}
	return v, nil
}

func vfIdenticalSubs(ms []vfGMember) bool {
	key := func(m vfGMember) string {
		s := append([]string(nil), m.Topics...)
		sort.Strings(s)
		return strings.Join(s, ",")
	}
	for _, m := range ms[1:] {
		if key(m) != key(ms[0]) {
			return false
		}
	}
	return true
}

func vfPlanKey(plan BalanceStrategyPlan) string {
	var lines []string
	for m, tps := range plan {
		for tp, ps := range tps {
			s := append([]int32(nil), ps...)
			sort.Slice(s, func(i, j int) bool { return s[i] < s[j] })
			if len(s) > 0 {
				lines = append(lines, fmt.Sprintf("%s/%s=%v", m, tp, s))
			}
		}
	}
	sort.Strings(lines)
	return strings.Join(lines, ";")
}

// vfPlanBudget bounds one whole chain (at most a few dozen Plan calls over at most a few hundred partitions; the
// slowest chain observed on the unchanged tree takes well under 100 ms, so the bound is three orders of magnitude
// above that, and it is only ever reached when Plan does not come back at all).
var vfPlanBudget = time.Duration(vfcore.EnvInt("VF_PLAN_BUDGET_MS", 60000)) * time.Millisecond // the override is a development aid

// vfRunGroupCase executes a chain and applies the oracles selected by prop ("C08" or "C13"). Plan is a pure function
// that has to return; a chain that does not finish within vfPlanBudget is reported with the goroutine dump, and the
// process stops at once because the goroutine that is still inside Plan cannot be cancelled.
func vfRunGroupCase(c *vfGCase, r *vfcore.Rec, prop string) *vfcore.Failure {
	done := make(chan *vfcore.Failure, 1)
	go func() { done <- vfRunGroupCaseInner(c, r, prop) }()
	select {
	case f := <-done:
		return f
	case <-time.After(vfPlanBudget):
		f := vfcore.Failf("plan-hang", "strategy %s: Plan did not return within %v (see the goroutine dump for where it is)", c.Strategy, vfPlanBudget)
		f.History = vfcore.Stacks()
		f.Fatal = true
		return f
	}
}

func vfRunGroupCaseInner(c *vfGCase, r *vfcore.Rec, prop string) (fail *vfcore.Failure) {
	defer func() {
		if v := recover(); v != nil {
			fail = vfcore.Failf(vfcore.PanicSite(v, "github.com/Shopify/sarama.", "vf"), "Plan panicked: %v", v)
		}
	}()
	strat := vfStrategy(c.Strategy)
	var prevPlan BalanceStrategyPlan
	var prevView *vfPlanView
	var prevStep *vfGStep
	var plans []BalanceStrategyPlan
	nontrivial := false
	r.Class("strategy=" + c.Strategy)
	for si := range c.Steps {
		st := &c.Steps[si]
		topics := vfTopicsFor(st)
		members := map[string]ConsumerGroupMemberMetadata{}
		for _, m := range st.Members {
			ud, err := vfEncodeUD(m.UD, prevPlan, m.ID, plans...)
			if err != nil {
				return vfcore.Failf("harness", "encode user data: %v", err)
			}
			members[m.ID] = ConsumerGroupMemberMetadata{Topics: append([]string(nil), m.Topics...), UserData: ud}
		}
		plan, err := strat.Plan(members, topics)
		if err != nil {
			return vfcore.Failf("plan-error", "step %d: Plan returned %v for well-formed input", si, err)
		}
		view, f := vfCheckValid(st, topics, plan)
		if f != nil {
			f.Message = fmt.Sprintf("step %d (%s): %s", si, st.What, f.Message)
			return f
		}
		ident := vfIdenticalSubs(st.Members)
		if len(st.Members) >= 2 && !ident {
			nontrivial = true
			r.Class("subs=differing")
		}
		if si > 0 {
			r.Class("step=" + st.What)
			if st.What != "same" {
				nontrivial = true
			}
		}
		if prop == "C13" {
			if f := vfCheckBalance(c, st, topics, plan, view, ident); f != nil {
				f.Message = fmt.Sprintf("step %d (%s): %s", si, st.What, f.Message)
				return f
			}
			if c.Strategy == "sticky" && c.Honest {
				if f := vfCheckSticky(c, si, st, prevStep, topics, plan, view, prevPlan, prevView, ident); f != nil {
					f.Message = fmt.Sprintf("step %d (%s): %s", si, st.What, f.Message)
					return f
				}
			}
			total := 0
			for _, ps := range topics {
				total += len(ps)
			}
			if len(st.Members) >= 2 && total >= 2 && (c.Strategy != "sticky" || si > 0) {
				nontrivial = true
			}
		}
		prevPlan, prevView, prevStep = plan, view, st
		plans = append(plans, plan)
	}
	if !c.Honest {
		r.Class("userdata=adversarial")
	}
	r.Classf("steps=%d", len(c.Steps))
	if nontrivial {
		r.NonTrivial("")
	}
	return nil
}

func vfCheckBalance(c *vfGCase, st *vfGStep, topics map[string][]int32, plan BalanceStrategyPlan, view *vfPlanView, ident bool) *vfcore.Failure {
	switch c.Strategy {
	case "range":
		for tp, ps := range topics {
			var subscribers []string
			for _, m := range st.Members {
				for _, t := range m.Topics {
					if t == tp {
						subscribers = append(subscribers, m.ID)
						break
					}
				}
			}
			pos := map[int32]int{}
			for i, p := range ps {
				pos[p] = i
			}
			min, max := len(ps)+1, -1
			for _, mid := range subscribers {
				own := append([]int32(nil), plan[mid][tp]...)
				sort.Slice(own, func(i, j int) bool { return own[i] < own[j] })
				for i := 1; i < len(own); i++ {
					if pos[own[i]] != pos[own[i-1]]+1 {
						return vfcore.Failf("range-not-contiguous", "member %q holds %v of topic %s (partitions %v): not a contiguous range", mid, own, tp, ps)
					}
				}
				if len(own) < min {
					min = len(own)
				}
				if len(own) > max {
					max = len(own)
				}
			}
			if max-min > 1 {
				return vfcore.Failf("range-unbalanced", "topic %s: range sizes differ by %d", tp, max-min)
			}
		}
	case "roundrobin":
		if ident {
			min, max := 1<<30, -1
			for _, m := range st.Members {
				n := view.count[m.ID]
				if n < min {
					min = n
				}
				if n > max {
					max = n
				}
			}
			if max-min > 1 {
				return vfcore.Failf("roundrobin-unbalanced", "identical subscriptions but totals differ by %d", max-min)
			}
		}
	case "sticky":
		// Kafka's notion: a member holding >=2 more than another holds nothing the other could take
		for _, a := range st.Members {
			for _, b := range st.Members {
				if view.count[a.ID]-view.count[b.ID] < 2 {
					continue
				}
				for _, tp := range b.Topics {
					if _, known := topics[tp]; !known {
						continue
					}
					if len(plan[a.ID][tp]) > 0 {
						return vfcore.Failf("sticky-unbalanced", "member %q holds %d partitions, %q holds %d and subscribes to %s of which %q holds %v",
							a.ID, view.count[a.ID], b.ID, view.count[b.ID], tp, a.ID, plan[a.ID][tp])
					}
				}
			}
		}
	}
	return nil
}

func vfCheckSticky(c *vfGCase, si int, st, prev *vfGStep, topics map[string][]int32, plan BalanceStrategyPlan, view *vfPlanView, prevPlan BalanceStrategyPlan, prevView *vfPlanView, ident bool) *vfcore.Failure {
	// fixed point: feeding the plan just computed back with the next generation and unchanged input returns it unchanged
	members := map[string]ConsumerGroupMemberMetadata{}
	for _, m := range st.Members {
		ud, err := vfEncodeUD(vfUD{Kind: "prev", Gen: int32(si + 1)}, plan, m.ID)
		if err != nil {
			return vfcore.Failf("harness", "encode: %v", err)
		}
		members[m.ID] = ConsumerGroupMemberMetadata{Topics: append([]string(nil), m.Topics...), UserData: ud}
	}
	again, err := (&stickyBalanceStrategy{}).Plan(members, vfTopicsFor(st))
	if err != nil {
		return vfcore.Failf("plan-error", "re-plan returned %v", err)
	}
	if vfPlanKey(again) != vfPlanKey(plan) {
		return vfcore.Failf("sticky-not-fixed-point", "re-planning with unchanged input moved partitions:\n before %s\n after  %s", vfPlanKey(plan), vfPlanKey(again))
	}
	if prev == nil || st.What == "rejoin" {
		return nil // (a member reporting an older plan: the clauses below compare with what everybody reported)
	}
	// pairwise swaps within a topic
	type mv struct{ from, to string }
	for tp, owners := range view.owner {
		seen := map[mv]int32{}
		for p, now := range owners {
			was, ok := prevView.owner[tp][p]
			if !ok || was == now {
				continue
			}
			seen[mv{was, now}] = p
		}
		for m, p := range seen {
			if q, ok := seen[mv{m.to, m.from}]; ok {
				return vfcore.Failf("sticky-pairwise-swap", "topic %s: partition %d moved %s->%s while %d moved %s->%s", tp, p, m.from, m.to, q, m.to, m.from)
			}
		}
	}
	if !ident || !vfIdenticalSubs(prev.Members) {
		return nil
	}
	if fmt.Sprint(prev.Partitions) != fmt.Sprint(st.Partitions) {
		return nil
	}
	prevIDs := map[string]bool{}
	for _, m := range prev.Members {
		prevIDs[m.ID] = true
	}
	curIDs := map[string]bool{}
	for _, m := range st.Members {
		curIDs[m.ID] = true
	}
	sameSubs := func() bool {
		a := append([]string(nil), prev.Members[0].Topics...)
		b := append([]string(nil), st.Members[0].Topics...)
		sort.Strings(a)
		sort.Strings(b)
		return strings.Join(a, ",") == strings.Join(b, ",")
	}
	if !sameSubs() {
		return nil
	}
	holds := func(pl BalanceStrategyPlan, m, tp string, p int32) bool {
		for _, q := range pl[m][tp] {
			if q == p {
				return true
			}
		}
		return false
	}
	switch st.What {
	case "leave":
		// everybody who stays keeps everything they had
		for _, m := range st.Members {
			for tp, ps := range prevPlan[m.ID] {
				for _, p := range ps {
					if !holds(plan, m.ID, tp, p) {
						return vfcore.Failf("sticky-lost-on-leave", "after a member left, %q lost %s/%d it had before", m.ID, tp, p)
					}
				}
			}
		}
	case "join":
		// nothing moves between old members
		for _, m := range st.Members {
			if !prevIDs[m.ID] {
				continue
			}
			for tp, ps := range plan[m.ID] {
				for _, p := range ps {
					if !holds(prevPlan, m.ID, tp, p) {
						return vfcore.Failf("sticky-shuffle-on-join", "after a member joined, old member %q received %s/%d which it did not have", m.ID, tp, p)
					}
				}
			}
		}
	}
	return nil
}

// ---------------------------------------------------------------------------------------------

func vfC08Spec() vfcore.Spec {
	return vfcore.Spec{
		ID:  "C08",
		New: func() interface{} { return &vfGCase{} },
		Gen: func(t *rapid.T) interface{} {
			strategy := rapid.SampledFrom([]string{"range", "roundrobin", "sticky", "sticky"}).Draw(t, "strategy")
			return vfGenGroupCase(t, strategy, 6, 4, 8, 6, true)
		},
		Run: func(c interface{}, r *vfcore.Rec) *vfcore.Failure { return vfRunGroupCase(c.(*vfGCase), r, "C08") },
	}
}

func TestVF_C08(t *testing.T) { vfcore.Main(t, vfC08Spec()) }

func vfC13Spec(large bool) vfcore.Spec {
	return vfcore.Spec{
		ID:  "C13",
		New: func() interface{} { return &vfGCase{} },
		Gen: func(t *rapid.T) interface{} {
			strategy := rapid.SampledFrom([]string{"range", "roundrobin", "sticky", "sticky", "sticky"}).Draw(t, "strategy")
			if rapid.IntRange(0, 3).Draw(t, "large") == 0 {
				return vfGenGroupCase(t, strategy, 12, 6, 40, 8, false)
			}
			return vfGenGroupCase(t, strategy, 5, 3, 8, 8, false)
		},
		Run: func(c interface{}, r *vfcore.Rec) *vfcore.Failure { return vfRunGroupCase(c.(*vfGCase), r, "C13") },
	}
}

func TestVF_C13(t *testing.T) { vfcore.Main(t, vfC13Spec(true)) }

// TestVF_C13_Exhaustive enumerates the complete small space: members<=3, topics<=2, partitions<=3 per topic,
// all non-empty subscription subsets, three strategies; for sticky additionally every one-step successor
// (one join, one leave, one subscription change, one partition-count change).
func TestVF_C13_Exhaustive(t *testing.T) {
	if vfcore.IsReplay() {
		vfcore.Main(t, vfC13Spec(false))
		return
	}
	spec := vfC13Spec(false)
	run := vfcore.Direct(t, spec)
	ids := []string{"m-b", "m-a", "zz"}
	subsets := func(nT int) [][]string {
		var out [][]string
		for mask := 1; mask < 1<<nT; mask++ {
			var s []string
			for i := 0; i < nT; i++ {
				if mask&(1<<i) != 0 {
					s = append(s, vfTopicNames[i])
				}
			}
			out = append(out, s)
		}
		return out
	}
	shard, nshards := vfcore.EnvInt("VF_SHARD_INDEX", 0), vfcore.EnvInt("VF_NSHARDS", 1)
	n := 0
	for nT := 1; nT <= 2; nT++ {
		ss := subsets(nT)
		var partCombos []map[string][]int32
		for p0 := 1; p0 <= 3; p0++ {
			if nT == 1 {
				partCombos = append(partCombos, map[string][]int32{"t0": vfSeq(p0)})
				continue
			}
			for p1 := 1; p1 <= 3; p1++ {
				partCombos = append(partCombos, map[string][]int32{"t0": vfSeq(p0), "t1": vfSeq(p1)})
			}
		}
		for nM := 1; nM <= 3; nM++ {
			idx := make([]int, nM)
			for {
				var members []vfGMember
				for i := 0; i < nM; i++ {
					members = append(members, vfGMember{ID: ids[i], Topics: ss[idx[i]], UD: vfUD{Kind: "none"}})
				}
				for _, parts := range partCombos {
					n++
					if n%nshards != shard {
						continue
					}
					for _, strategy := range []string{"range", "roundrobin"} {
						run(&vfGCase{Strategy: strategy, Honest: true, Steps: []vfGStep{{What: "initial", Members: members, Partitions: parts}}})
					}
					first := vfGStep{What: "initial", Members: members, Partitions: parts}
					run(&vfGCase{Strategy: "sticky", Honest: true, Steps: []vfGStep{first}})
					for _, succ := range vfSuccessors(first, ss, ids) {
						run(&vfGCase{Strategy: "sticky", Honest: true, Steps: []vfGStep{first, succ}})
					}
				}
				// next subscription tuple
				k := 0
				for k < nM {
					idx[k]++
					if idx[k] < len(ss) {
						break
					}
					idx[k] = 0
					k++
				}
				if k == nM {
					break
				}
			}
		}
	}
	vfcore.AddCounter("exhaustive_small_space_completed", 1)
}

func vfSuccessors(first vfGStep, ss [][]string, ids []string) []vfGStep {
	var out []vfGStep
	withUD := func(ms []vfGMember) []vfGMember {
		o := make([]vfGMember, len(ms))
		for i, m := range ms {
			o[i] = vfGMember{ID: m.ID, Topics: m.Topics, UD: vfUD{Kind: "prev", Gen: 1}}
		}
		return o
	}
	base := withUD(first.Members)
	// same
	out = append(out, vfGStep{What: "same", Members: base, Partitions: first.Partitions})
	// one leave
	if len(base) > 1 {
		for i := range base {
			ms := append(append([]vfGMember(nil), base[:i]...), base[i+1:]...)
			out = append(out, vfGStep{What: "leave", Members: ms, Partitions: first.Partitions})
		}
	}
	// one join (new member, each subscription subset)
	if len(base) < 4 {
		for _, s := range ss {
			ms := append(append([]vfGMember(nil), base...), vfGMember{ID: "joiner", Topics: s, UD: vfUD{Kind: "none"}})
			out = append(out, vfGStep{What: "join", Members: ms, Partitions: first.Partitions})
		}
	}
	// one subscription change
	for i := range base {
		for _, s := range ss {
			if strings.Join(s, ",") == strings.Join(base[i].Topics, ",") {
				continue
			}
			ms := append([]vfGMember(nil), base...)
			ms[i] = vfGMember{ID: base[i].ID, Topics: s, UD: base[i].UD}
			out = append(out, vfGStep{What: "subchange", Members: ms, Partitions: first.Partitions})
		}
	}
	// one partition-count change
	for tp, ps := range first.Partitions {
		for _, n := range []int{len(ps) - 1, len(ps) + 1} {
			if n < 1 || n > 4 {
				continue
			}
			np := map[string][]int32{}
			for k, v := range first.Partitions {
				np[k] = v
			}
			np[tp] = vfSeq(n)
			what := "grow"
			if n < len(ps) {
				what = "shrink"
			}
			out = append(out, vfGStep{What: what, Members: base, Partitions: np})
		}
	}
	return out
}
