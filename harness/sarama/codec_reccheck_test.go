//go:build go1.18 && verif

package sarama

// C09 layer 3 (b): model <-> sarama conversions, generators and the oracle for the
// record formats and their nesting in ProduceRequest / FetchResponse, plus the
// produceSet path (the bytes the async producer really sends).

import (
	"bytes"
	"fmt"
	"math"
	"reflect"
	"strings"
	"testing"
	"time"

	"github.com/Shopify/sarama/internal/vfcore"
	"github.com/rcrowley/go-metrics"
	"pgregory.net/rapid"
)

// ---------------------------------------------------------------- model <-> sarama

func vfMsToTime(ms int64) time.Time {
	if ms < 0 {
		return time.Time{}
	}
	return time.Unix(ms/1000, (ms%1000)*int64(time.Millisecond))
}

func vfTimeToMs(t time.Time) int64 {
	if t.IsZero() {
		return -1
	}
	return t.Unix()*1000 + int64(t.Nanosecond())/int64(time.Millisecond)
}

func vfToSaramaBatch(m *vfMBatch) *RecordBatch {
	b := &RecordBatch{
		FirstOffset: m.FirstOffset, PartitionLeaderEpoch: m.LeaderEpoch, Version: 2,
		Codec: CompressionCodec(m.Codec), CompressionLevel: m.Level,
		Control: m.Control, LogAppendTime: m.LogAppend, IsTransactional: m.Txn,
		LastOffsetDelta: m.LastOffsetDelta, FirstTimestamp: vfMsToTime(m.FirstTs), MaxTimestamp: vfMsToTime(m.MaxTs),
		ProducerID: m.ProducerID, ProducerEpoch: m.ProducerEpoch, FirstSequence: m.FirstSeq,
	}
	for i := range m.Records {
		r := &m.Records[i]
		rec := &Record{Attributes: r.Attr, TimestampDelta: time.Duration(r.TsDelta) * time.Millisecond, OffsetDelta: r.OffDelta, Key: r.Key, Value: r.Value}
		for j := range r.Headers {
			rec.Headers = append(rec.Headers, &RecordHeader{Key: r.Headers[j].Key, Value: r.Headers[j].Value})
		}
		b.Records = append(b.Records, rec)
	}
	return b
}

func vfFromSaramaBatch(b *RecordBatch) *vfMBatch {
	m := &vfMBatch{
		FirstOffset: b.FirstOffset, LeaderEpoch: b.PartitionLeaderEpoch, Codec: int8(b.Codec),
		Control: b.Control, LogAppend: b.LogAppendTime, Txn: b.IsTransactional,
		LastOffsetDelta: b.LastOffsetDelta, FirstTs: vfTimeToMs(b.FirstTimestamp), MaxTs: vfTimeToMs(b.MaxTimestamp),
		ProducerID: b.ProducerID, ProducerEpoch: b.ProducerEpoch, FirstSeq: b.FirstSequence,
	}
	for _, r := range b.Records {
		if r == nil {
			m.Records = append(m.Records, vfMRecord{Attr: -128, OffDelta: math.MinInt64}) // a hole: never equal to a model record
			continue
		}
		rec := vfMRecord{Attr: r.Attributes, TsDelta: int64(r.TimestampDelta / time.Millisecond), OffDelta: r.OffsetDelta, Key: r.Key, Value: r.Value}
		for _, h := range r.Headers {
			if h != nil {
				rec.Headers = append(rec.Headers, vfMHeader{Key: h.Key, Value: h.Value})
			}
		}
		m.Records = append(m.Records, rec)
	}
	return m
}

func vfToSaramaSet(s *vfMSet) (*MessageSet, error) {
	ms := &MessageSet{}
	for i := range s.Blocks {
		mm := &s.Blocks[i].Msg
		msg := &Message{Codec: CompressionCodec(mm.Codec), CompressionLevel: mm.Level, LogAppendTime: mm.LogAppend, Key: mm.Key, Version: mm.Magic}
		if mm.Magic >= 1 {
			msg.Timestamp = vfMsToTime(mm.Ts)
		}
		if mm.Wrapper {
			inner, err := vfToSaramaSet(&vfMSet{Blocks: mm.Inner})
			if err != nil {
				return nil, err
			}
			// exactly what produceSet.buildRequest does: the wrapper's payload is the encoded inner set
			payload, err := encode(inner, nil)
			if err != nil {
				return nil, err
			}
			if payload == nil {
				payload = []byte{}
			}
			msg.Value = payload
			msg.Set = inner
		} else {
			msg.Value = mm.Value
		}
		ms.Messages = append(ms.Messages, &MessageBlock{Offset: s.Blocks[i].Offset, Msg: msg})
	}
	return ms, nil
}

func vfFromSaramaSet(ms *MessageSet) *vfMSet {
	s := &vfMSet{}
	for _, blk := range ms.Messages {
		m := blk.Msg
		mm := vfMMessage{Magic: m.Version, Codec: int8(m.Codec), LogAppend: m.LogAppendTime, Key: m.Key}
		if m.Version >= 1 {
			mm.Ts = vfTimeToMs(m.Timestamp)
		}
		if m.Codec != CompressionNone && m.Set != nil {
			mm.Wrapper = true
			mm.Inner = vfFromSaramaSet(m.Set).Blocks
		} else {
			mm.Value = m.Value
		}
		s.Blocks = append(s.Blocks, vfMBlock{Offset: blk.Offset, Msg: mm})
	}
	return s
}

func vfToSaramaRecords(r *vfMRecords) (Records, error) {
	if r.Set != nil {
		ms, err := vfToSaramaSet(r.Set)
		if err != nil {
			return Records{}, err
		}
		return newLegacyRecords(ms), nil
	}
	return newDefaultRecords(vfToSaramaBatch(r.Batch)), nil
}

func vfFromSaramaRecords(r *Records) vfMRecords {
	switch {
	case r.RecordBatch != nil:
		return vfMRecords{Batch: vfFromSaramaBatch(r.RecordBatch)}
	case r.MsgSet != nil:
		return vfMRecords{Set: vfFromSaramaSet(r.MsgSet)}
	}
	return vfMRecords{}
}

func vfToSaramaProduce(p *vfMProduce) (*ProduceRequest, error) {
	req := &ProduceRequest{TransactionalID: p.TxnID, RequiredAcks: RequiredAcks(p.Acks), Timeout: p.Timeout, Version: p.Version}
	for i := range p.Topics {
		req.ensureRecords(p.Topics[i].Name, 0) // a topic entry may carry no partition
		for j := range p.Topics[i].Parts {
			pt := &p.Topics[i].Parts[j]
			if pt.Rec.Set != nil {
				ms, err := vfToSaramaSet(pt.Rec.Set)
				if err != nil {
					return nil, err
				}
				req.AddSet(p.Topics[i].Name, pt.ID, ms)
			} else {
				req.AddBatch(p.Topics[i].Name, pt.ID, vfToSaramaBatch(pt.Rec.Batch))
			}
		}
	}
	return req, nil
}

func vfFromSaramaProduce(r *ProduceRequest) *vfMProduce {
	p := &vfMProduce{Version: r.Version, TxnID: r.TransactionalID, Acks: int16(r.RequiredAcks), Timeout: r.Timeout}
	for topic, parts := range r.records {
		t := vfMProduceTopic{Name: topic}
		for id, rec := range parts {
			rec := rec
			t.Parts = append(t.Parts, vfMProducePart{ID: id, Rec: vfFromSaramaRecords(&rec)})
		}
		p.Topics = append(p.Topics, t)
	}
	return p
}

func vfToSaramaFetch(f *vfMFetch) (*FetchResponse, error) {
	r := &FetchResponse{Version: f.Version, ThrottleTime: time.Duration(f.ThrottleMs) * time.Millisecond, ErrorCode: f.ErrCode, SessionID: f.SessionID,
		Blocks: map[string]map[int32]*FetchResponseBlock{}}
	for i := range f.Topics {
		t := &f.Topics[i]
		r.Blocks[t.Name] = map[int32]*FetchResponseBlock{}
		for j := range t.Parts {
			p := &t.Parts[j]
			blk := &FetchResponseBlock{Err: KError(p.Err), HighWaterMarkOffset: p.HWM, LastStableOffset: p.LSO, LogStartOffset: p.LogStart, PreferredReadReplica: p.Preferred}
			for _, a := range p.Aborted {
				blk.AbortedTransactions = append(blk.AbortedTransactions, &AbortedTransaction{ProducerID: a.ProducerID, FirstOffset: a.FirstOffset})
			}
			for k := range p.Records {
				rec, err := vfToSaramaRecords(&p.Records[k])
				if err != nil {
					return nil, err
				}
				blk.RecordsSet = append(blk.RecordsSet, &rec)
			}
			if len(blk.RecordsSet) > 0 {
				blk.Records = blk.RecordsSet[0]
			}
			r.Blocks[t.Name][p.ID] = blk
		}
	}
	return r, nil
}

func vfFromSaramaFetch(r *FetchResponse) (*vfMFetch, error) {
	f := &vfMFetch{Version: r.Version, ThrottleMs: int32(r.ThrottleTime / time.Millisecond), ErrCode: r.ErrorCode, SessionID: r.SessionID}
	for topic, parts := range r.Blocks {
		t := vfMFetchTopic{Name: topic}
		for id, blk := range parts {
			p := vfMFetchPart{ID: id, Err: int16(blk.Err), HWM: blk.HighWaterMarkOffset, LSO: blk.LastStableOffset, LogStart: blk.LogStartOffset, Preferred: blk.PreferredReadReplica}
			for _, a := range blk.AbortedTransactions {
				p.Aborted = append(p.Aborted, vfMAborted{ProducerID: a.ProducerID, FirstOffset: a.FirstOffset})
			}
			if blk.Partial {
				return nil, fmt.Errorf("topic %q partition %d decoded as partial", topic, id)
			}
			for k, rec := range blk.RecordsSet {
				if part, _ := rec.isPartial(); part {
					return nil, fmt.Errorf("topic %q partition %d records %d decoded as partial", topic, id, k)
				}
				p.Records = append(p.Records, vfFromSaramaRecords(rec))
			}
			if len(blk.RecordsSet) > 0 && blk.Records != blk.RecordsSet[0] {
				return nil, fmt.Errorf("topic %q partition %d: Records is not RecordsSet[0]", topic, id)
			}
			t.Parts = append(t.Parts, p)
		}
		f.Topics = append(f.Topics, t)
	}
	return f, nil
}

// ---------------------------------------------------------------- generators (all randomness through vfDraws)

// vfDrawPayload draws a nullable byte field: null, empty, short, or long enough for
// a two-byte varint length.
func vfDrawPayload(d *vfDraws) []byte {
	switch d.vfN(5) {
	case 0:
		return nil
	case 1:
		return []byte{}
	case 2, 3:
		p := make([]byte, 1+d.vfIntn(6))
		for i := range p {
			p[i] = byte(d.vfN(255))
		}
		return p
	case 4:
		// compressible
		return bytes.Repeat([]byte{byte('a' + d.vfN(3))}, 20+d.vfIntn(60))
	}
	p := make([]byte, 60+d.vfIntn(10)) // 63/64: one- to two-byte zig-zag varint length
	c := byte(d.vfN(255))
	for i := range p {
		p[i] = c + byte(i*7)
	}
	return p
}

func vfDrawTsDelta(d *vfDraws) int64 {
	switch d.vfN(5) {
	case 0:
		return 0
	case 1:
		return int64(d.vfN(2000)) - 1000
	case 2:
		return []int64{63, 64, -64, -65, 8191, 8192, -8192, -8193}[d.vfN(7)]
	case 3:
		return -int64(d.vfN(1 << 30))
	case 4:
		return int64(d.vfN(1<<41)) - (1 << 40)
	}
	return int64(d.vfN(1 << 20))
}

func vfDrawOffset(d *vfDraws) int64 {
	switch d.vfN(4) {
	case 0:
		return 0
	case 1:
		return int64(d.vfN(1000))
	case 2:
		return math.MaxInt64 - 10 - int64(d.vfN(100))
	case 3:
		return int64(d.vfN(math.MaxInt64 - 100))
	}
	return int64(math.MaxUint32) + int64(d.vfN(5))
}

var vfGzipLevels = []int{vfLevelDefault, -2, -1, 0, 1, 2, 3, 4, 5, 6, 7, 8, 9}

func vfDrawLevel(d *vfDraws, codec int8) int {
	if codec == 1 {
		return vfGzipLevels[d.vfIntn(len(vfGzipLevels))]
	}
	return vfLevelDefault
}

func vfDrawBatch(d *vfDraws, minRecords int) *vfMBatch {
	b := &vfMBatch{
		FirstOffset: vfDrawOffset(d), LeaderEpoch: d.vfInt32(), Codec: int8(d.vfN(4)),
		Control: d.vfOneIn(4), LogAppend: d.vfOneIn(3), Txn: d.vfOneIn(3),
		FirstTs: d.vfTimestampMs(), MaxTs: d.vfTimestampMs(),
		ProducerID: d.vfInt64(), ProducerEpoch: d.vfInt16(), FirstSeq: d.vfInt32(),
	}
	b.Level = vfDrawLevel(d, b.Codec)
	n := minRecords + int(d.vfN(uint64(3-minRecords)))
	delta := int64(-1)
	for i := 0; i < n; i++ {
		// offset deltas increase; gaps as after compaction
		delta++
		if d.vfOneIn(4) {
			delta += int64(d.vfN(200))
		}
		rec := vfMRecord{Attr: d.vfInt8(), TsDelta: vfDrawTsDelta(d), OffDelta: delta, Key: vfDrawPayload(d), Value: vfDrawPayload(d)}
		for h := int(d.vfN(3)); h > 0; h-- {
			rec.Headers = append(rec.Headers, vfMHeader{Key: vfDrawPayload(d), Value: vfDrawPayload(d)})
		}
		b.Records = append(b.Records, rec)
	}
	if n > 0 {
		b.LastOffsetDelta = int32(delta)
		if d.vfOneIn(4) {
			b.LastOffsetDelta += int32(d.vfN(5)) // the last record was compacted away
		}
	} else {
		b.LastOffsetDelta = int32(d.vfN(3))
	}
	return b
}

func vfDrawPlainMessage(d *vfDraws, magic int8) vfMMessage {
	m := vfMMessage{Magic: magic, Key: vfDrawPayload(d), Value: vfDrawPayload(d)}
	if magic >= 1 {
		m.Ts = d.vfTimestampMs()
		m.LogAppend = d.vfOneIn(3)
	}
	return m
}

// vfDrawSet draws a legacy message set of the given magic: 1..3 entries, each a plain
// message or (if allowed) a compressed wrapper around 1..3 plain messages. Offsets
// follow the broker's convention: absolute everywhere for magic 0; for magic 1 the
// inner offsets are relative (0..n-1) and the wrapper carries the last absolute offset.
func vfDrawSet(d *vfDraws, magic int8, minBlocks int) *vfMSet {
	s := &vfMSet{}
	next := vfDrawOffset(d)
	if next > math.MaxInt64-1000 {
		next = math.MaxInt64 - 1000
	}
	n := minBlocks + int(d.vfN(uint64(3-minBlocks)))
	for i := 0; i < n; i++ {
		if d.vfOneIn(3) {
			codec := int8(1 + d.vfN(2)) // gzip, snappy, lz4 (zstd needs magic 2)
			w := vfMMessage{Magic: magic, Codec: codec, Level: vfDrawLevel(d, codec), Wrapper: true}
			if magic >= 1 {
				w.Ts = d.vfTimestampMs()
				w.LogAppend = d.vfOneIn(3)
			}
			k := 1 + int(d.vfN(2))
			for j := 0; j < k; j++ {
				off := next + int64(j)
				if magic >= 1 {
					off = int64(j)
				}
				w.Inner = append(w.Inner, vfMBlock{Offset: off, Msg: vfDrawPlainMessage(d, magic)})
			}
			next += int64(k)
			s.Blocks = append(s.Blocks, vfMBlock{Offset: next - 1, Msg: w})
		} else {
			s.Blocks = append(s.Blocks, vfMBlock{Offset: next, Msg: vfDrawPlainMessage(d, magic)})
			next++
		}
	}
	return s
}

func vfDrawNames(d *vfDraws, n int) []string {
	seen := map[string]bool{}
	var out []string
	for len(out) < n {
		s := d.vfString()
		for seen[s] {
			s += "+"
		}
		seen[s] = true
		out = append(out, s)
	}
	return out
}

func vfDrawIDs(d *vfDraws, n int) []int32 {
	seen := map[int32]bool{}
	var out []int32
	for len(out) < n {
		v := d.vfInt32()
		for seen[v] {
			v++
		}
		seen[v] = true
		out = append(out, v)
	}
	return out
}

func vfDrawProduce(d *vfDraws, v int16) *vfMProduce {
	p := &vfMProduce{Version: v, Acks: []int16{-1, 0, 1, 2}[d.vfN(3)], Timeout: d.vfInt32()}
	if v >= 3 && !d.vfOneIn(3) {
		s := d.vfString()
		p.TxnID = &s
	}
	nt := int(d.vfN(2))
	if d.vfOneIn(8) {
		nt = 3
	}
	for _, name := range vfDrawNames(d, nt) {
		t := vfMProduceTopic{Name: name}
		np := 1 + int(d.vfN(2))
		if d.vfOneIn(6) {
			np = 0
		}
		for _, id := range vfDrawIDs(d, np) {
			pt := vfMProducePart{ID: id}
			switch {
			case v >= 3:
				pt.Rec.Batch = vfDrawBatch(d, 0)
			case v == 2:
				pt.Rec.Set = vfDrawSet(d, int8(d.vfN(1)), 1)
			default:
				pt.Rec.Set = vfDrawSet(d, 0, 1)
			}
			t.Parts = append(t.Parts, pt)
		}
		p.Topics = append(p.Topics, t)
	}
	return p
}

func vfDrawFetch(d *vfDraws, v int16) *vfMFetch {
	f := &vfMFetch{Version: v, ThrottleMs: d.vfInt32(), ErrCode: d.vfInt16(), SessionID: d.vfInt32()}
	nt := int(d.vfN(2))
	if d.vfOneIn(8) {
		nt = 3
	}
	for _, name := range vfDrawNames(d, nt) {
		t := vfMFetchTopic{Name: name}
		np := int(d.vfN(2))
		if d.vfOneIn(8) {
			np = 3
		}
		for _, id := range vfDrawIDs(d, np) {
			p := vfMFetchPart{ID: id, Err: d.vfInt16(), HWM: d.vfInt64(), LSO: d.vfInt64(), LogStart: d.vfInt64(), Preferred: d.vfInt32()}
			switch d.vfN(3) {
			case 0:
				p.AbortedNull = true
			case 1:
			default:
				for k := 1 + int(d.vfN(2)); k > 0; k-- {
					p.Aborted = append(p.Aborted, vfMAborted{ProducerID: d.vfInt64(), FirstOffset: d.vfInt64()})
				}
			}
			// what a broker of that era stores: v0-1 magic 0, v2-3 magic 0/1, v4+ batches
			// (down-converted legacy sets are possible up to v3 only)
			switch c := d.vfN(5); {
			case c == 0:
				// no records
			case v >= 4 && c <= 4:
				for k := 1 + int(d.vfN(2)); k > 0; k-- {
					p.Records = append(p.Records, vfMRecords{Batch: vfDrawBatch(d, 1)})
				}
			case v >= 4:
				// a legacy set (old segment) followed by batches
				p.Records = append(p.Records, vfMRecords{Set: vfDrawSet(d, int8(d.vfN(1)), 1)})
				for k := int(d.vfN(2)); k > 0; k-- {
					p.Records = append(p.Records, vfMRecords{Batch: vfDrawBatch(d, 1)})
				}
			case v >= 2:
				p.Records = append(p.Records, vfMRecords{Set: vfDrawSet(d, int8(d.vfN(1)), 1)})
			default:
				p.Records = append(p.Records, vfMRecords{Set: vfDrawSet(d, 0, 1)})
			}
			t.Parts = append(t.Parts, p)
		}
		f.Topics = append(f.Topics, t)
	}
	return f
}

// ---- produceSet path

type vfMProdMsg struct {
	Topic     string      `json:"topic"`
	Partition int32       `json:"partition"`
	Key       []byte      `json:"key"`
	Value     []byte      `json:"val"`
	KeyNone   bool        `json:"key_none,omitempty"` // no Encoder at all
	ValNone   bool        `json:"val_none,omitempty"`
	Headers   []vfMHeader `json:"hdr,omitempty"`
	TsMs      int64       `json:"ts"`
	Seq       int32       `json:"seq"`
}

type vfMProdSet struct {
	Kafka      string       `json:"kafka"` // 0.8.2.0 | 0.10.0.0 | 0.11.0.0 | 2.1.0.0
	Codec      int8         `json:"codec"`
	Level      int          `json:"level"`
	Idempotent bool         `json:"idempotent,omitempty"`
	PID        int64        `json:"pid"`
	PEpoch     int16        `json:"pepoch"`
	Acks       int16        `json:"acks"`
	TimeoutMs  int32        `json:"timeout_ms"`
	Msgs       []vfMProdMsg `json:"msgs"`
}

func vfDrawProdSet(d *vfDraws) *vfMProdSet {
	ps := &vfMProdSet{Kafka: []string{"0.8.2.0", "0.10.0.0", "0.11.0.0", "2.1.0.0"}[d.vfN(3)], Acks: []int16{-1, 0, 1}[d.vfN(2)], TimeoutMs: int32(d.vfN(100000))}
	maxCodec := uint64(3)
	if ps.Kafka == "2.1.0.0" {
		maxCodec = 4
	}
	ps.Codec = int8(d.vfN(maxCodec))
	ps.Level = vfDrawLevel(d, ps.Codec)
	batches := ps.Kafka == "0.11.0.0" || ps.Kafka == "2.1.0.0"
	ps.PID, ps.PEpoch = -1, -1
	if batches && d.vfBool() {
		ps.Idempotent = true
		ps.PID, ps.PEpoch = int64(d.vfN(1<<40)), int16(d.vfN(1000))
	}
	topics := vfDrawNames(d, 1+int(d.vfN(1)))
	base := 1500000000000 + int64(d.vfN(1<<36))
	seq := map[string]int32{}
	n := 1 + int(d.vfN(5))
	for i := 0; i < n; i++ {
		m := vfMProdMsg{Topic: topics[d.vfIntn(len(topics))], Partition: int32(d.vfN(1)), TsMs: base + int64(d.vfN(5000)) - 1000}
		if d.vfOneIn(4) {
			m.KeyNone = true
		} else {
			m.Key = vfDrawPayload(d)
		}
		if d.vfOneIn(6) {
			m.ValNone = true
		} else {
			m.Value = vfDrawPayload(d)
		}
		if batches {
			for h := int(d.vfN(2)); h > 0; h-- {
				m.Headers = append(m.Headers, vfMHeader{Key: vfDrawPayload(d), Value: vfDrawPayload(d)})
			}
		}
		k := fmt.Sprintf("%s/%d", m.Topic, m.Partition)
		if _, ok := seq[k]; !ok {
			seq[k] = int32(d.vfN(1000))
		}
		m.Seq = seq[k]
		seq[k]++
		ps.Msgs = append(ps.Msgs, m)
	}
	return ps
}

// ---------------------------------------------------------------- the case and the oracle

type vfRecCase struct {
	Kind     string      `json:"kind"` // batch | msgset | produce | fetch | prodset
	Version  int16       `json:"version"`
	Registry bool        `json:"registry,omitempty"` // encode with a metrics registry (as the broker code does)
	CorrID   int32       `json:"corr_id,omitempty"`
	ClientID string      `json:"client_id,omitempty"`
	Batch    *vfMBatch   `json:"batch,omitempty"`
	Set      *vfMSet     `json:"set,omitempty"`
	Produce  *vfMProduce `json:"produce,omitempty"`
	Fetch    *vfMFetch   `json:"fetch,omitempty"`
	ProdSet  *vfMProdSet `json:"prodset,omitempty"`
}

func vfDrawRecCase(d *vfDraws, kind string, v int16) *vfRecCase {
	c := &vfRecCase{Kind: kind, Version: v}
	switch kind {
	case "batch":
		c.Batch = vfDrawBatch(d, 0)
	case "msgset":
		c.Set = vfDrawSet(d, int8(d.vfN(1)), 1)
	case "produce":
		c.Produce = vfDrawProduce(d, v)
		c.Registry = d.vfBool()
		c.CorrID = d.vfInt32()
		c.ClientID = d.vfString()
	case "fetch":
		c.Fetch = vfDrawFetch(d, v)
	case "prodset":
		c.ProdSet = vfDrawProdSet(d)
	}
	return c
}

// vfModelEq compares two normalised models (nil and empty byte slices are different:
// the wire distinguishes null from empty keys/values and so does sarama).
func vfModelEq(a, b interface{}) (bool, string) {
	if reflect.DeepEqual(a, b) {
		return true, ""
	}
	_, d := vfEqWith(a, b, vfEqOpts{strict: true})
	if d == "" {
		d = "(values differ)"
	}
	return false, d
}

func vfSafeDecode(in decoder, buf []byte, what string) (err error, fail *vfcore.Failure) {
	defer func() {
		if p := recover(); p != nil {
			err, fail = nil, vfPanicFailure("decode of "+what, p)
		}
	}()
	if buf == nil {
		buf = []byte{}
	}
	return decode(buf, in), nil
}

func vfCodecClasses(r *vfcore.Rec, prefix string, recs ...*vfMRecords) {
	for _, rc := range recs {
		if rc.Batch != nil {
			b := rc.Batch
			r.Classf("%sbatch:codec=%d", prefix, b.Codec)
			r.Classf("%sbatch:records=%d", prefix, len(b.Records))
			if b.Codec == 1 {
				r.Classf("%sbatch:gzip-level=%d", prefix, b.Level)
			}
			if b.Control {
				r.Class(prefix + "batch:control")
			}
			if b.Txn {
				r.Class(prefix + "batch:transactional")
			}
			if b.LogAppend {
				r.Class(prefix + "batch:log-append-time")
			}
			for i := range b.Records {
				rec := &b.Records[i]
				if rec.Key == nil {
					r.Class(prefix + "record:null-key")
				} else if len(rec.Key) == 0 {
					r.Class(prefix + "record:empty-key")
				}
				if rec.Value == nil {
					r.Class(prefix + "record:null-value")
				} else if len(rec.Value) == 0 {
					r.Class(prefix + "record:empty-value")
				}
				r.Classf("%srecord:headers=%d", prefix, len(rec.Headers))
				if rec.TsDelta < 0 {
					r.Class(prefix + "record:negative-timestamp-delta")
				}
			}
		}
		if rc.Set != nil {
			for i := range rc.Set.Blocks {
				m := &rc.Set.Blocks[i].Msg
				if m.Wrapper {
					r.Classf("%smessage:wrapper magic=%d codec=%d inner=%d", prefix, m.Magic, m.Codec, len(m.Inner))
				} else {
					r.Classf("%smessage:plain magic=%d", prefix, m.Magic)
					if m.Key == nil {
						r.Class(prefix + "message:null-key")
					}
					if m.Value == nil {
						r.Class(prefix + "message:null-value")
					}
				}
			}
		}
	}
}

// vfRecRegions names the known-finding regions a record-format case lies in.
func vfRecRegions(recs ...*vfMRecords) []string {
	for _, rc := range recs {
		if rc.Batch != nil && rc.Batch.Codec == 2 && len(rc.Batch.Records) == 0 {
			// sarama writes the plain snappy block of the empty string (1 byte); the pinned
			// go-xerial-snappy Decode refuses inputs shorter than 8 bytes
			return []string{"empty-snappy-batch"}
		}
	}
	return nil
}

func vfWithRegions(f *vfcore.Failure, recs ...*vfMRecords) *vfcore.Failure {
	f.Regions = append(f.Regions, vfRecRegions(recs...)...)
	return f
}

func vfRecordsUncompressed(recs ...*vfMRecords) bool {
	for _, rc := range recs {
		if rc.Batch != nil && rc.Batch.Codec != 0 {
			return false
		}
		if rc.Set != nil {
			for i := range rc.Set.Blocks {
				if rc.Set.Blocks[i].Msg.Wrapper {
					return false
				}
			}
		}
	}
	return true
}

func vfRunRec(ci interface{}, r *vfcore.Rec) *vfcore.Failure {
	c := ci.(*vfRecCase)
	var f *vfcore.Failure
	switch c.Kind {
	case "batch":
		if c.Batch == nil {
			return vfcore.Failf("harness:empty-case", "batch case without a batch")
		}
		f = vfCheckBatch(c, r)
	case "msgset":
		if c.Set == nil {
			return vfcore.Failf("harness:empty-case", "msgset case without a set")
		}
		f = vfCheckSet(c, r)
	case "produce":
		if c.Produce == nil {
			return vfcore.Failf("harness:empty-case", "produce case without a model")
		}
		f = vfCheckProduce(c, r)
	case "fetch":
		if c.Fetch == nil {
			return vfcore.Failf("harness:empty-case", "fetch case without a model")
		}
		f = vfCheckFetch(c, r)
	case "prodset":
		if c.ProdSet == nil {
			return vfcore.Failf("harness:empty-case", "prodset case without a model")
		}
		f = vfCheckProdSet(c, r)
	default:
		return vfcore.Failf("harness:unknown-kind", "kind %q", c.Kind)
	}
	return f
}

// ---- batch

func vfCheckBatch(c *vfRecCase, r *vfcore.Rec) *vfcore.Failure {
	want := vfCopyBatch(c.Batch)
	vfNormBatch(want)
	r.Class("pair:RecordBatch/v2")
	vfCodecClasses(r, "", &vfMRecords{Batch: c.Batch})
	if len(c.Batch.Records) > 0 {
		r.NonTrivial("")
	}
	what := "RecordBatch"
	sb := vfToSaramaBatch(c.Batch)
	b1, encErr, pf := vfEncodeChecked(sb, nil, what)
	if pf != nil {
		return pf
	}
	if encErr != nil {
		return vfcore.Failf("o1:encode-error:RecordBatch", "encode: %v", encErr)
	}
	// O4a: the own parser accepts sarama's bytes and returns the model
	rd := vfRd{b: b1}
	pm, err := vfParseBatch(&rd)
	if err == nil && rd.vfRemaining() != 0 {
		err = vfPErr("%d bytes after the batch", rd.vfRemaining())
	}
	if err != nil {
		return vfcore.Failf("o4:own-parser-rejects-sarama-bytes:batch", "%v; bytes % x", err, b1)
	}
	vfNormBatch(pm)
	if same, diff := vfModelEq(pm, want); !same {
		return vfcore.Failf("o4:own-parser-model-differs:batch", "sarama's encoding parses to a different batch at %s; bytes % x", diff, b1)
	}
	// O1 (first half): sarama reads its own encoding
	y := &RecordBatch{}
	err, pf = vfSafeDecode(y, b1, what+" (own encoding)")
	if pf != nil {
		return pf
	}
	if err != nil {
		return vfWithRegions(vfcore.Failf("o1:decode-rejects-own-encoding:RecordBatch", "%v; bytes % x", err, b1), &vfMRecords{Batch: c.Batch})
	}
	// O4b: sarama decodes the own writer's bytes to the model
	var w vfW
	if err := vfWriteBatch(&w, c.Batch); err != nil {
		return vfcore.Failf("harness:writer", "%v", err)
	}
	dec := &RecordBatch{}
	err, pf = vfSafeDecode(dec, w.b, what+" (own writer)")
	if pf != nil {
		return pf
	}
	if err != nil {
		return vfcore.Failf("o4:sarama-rejects-own-writer:batch", "%v; bytes % x", err, w.b)
	}
	if dec.PartialTrailingRecord {
		return vfcore.Failf("o4:sarama-partial-on-complete:batch", "a complete batch decodes as partial; bytes % x", w.b)
	}
	got := vfFromSaramaBatch(dec)
	vfNormBatch(got)
	if same, diff := vfModelEq(got, want); !same {
		return vfcore.Failf("o4:sarama-decode-differs:batch", "own writer's bytes decode to a different batch at %s; bytes % x", diff, w.b)
	}
	if c.Batch.Codec == 0 {
		r.Class("own-writer-vs-sarama:byte-compared")
		if !bytes.Equal(w.b, b1) {
			return vfcore.Failf("o4:bytes-differ:batch", "uncompressed batch: own writer % x, sarama % x", w.b, b1)
		}
	} else if len(b1) >= 61 && len(w.b) >= 61 && !bytes.Equal(w.b[21:61], b1[21:61]) {
		// attributes .. record count are not affected by compression
		return vfcore.Failf("o4:header-bytes-differ:batch", "compressed batch: fixed header differs: own % x, sarama % x", w.b[:61], b1[:61])
	}
	// O1 (second half): decode(encode(x)) = x; re-encode
	gy := vfFromSaramaBatch(y)
	vfNormBatch(gy)
	if same, diff := vfModelEq(gy, want); !same {
		return vfcore.Failf("o1:roundtrip-value-differs:RecordBatch", "at %s; bytes % x", diff, b1)
	}
	y.CompressionLevel = c.Batch.Level // not on the wire
	b2, encErr, pf := vfEncodeChecked(y, nil, what+" (re-encode)")
	if pf != nil {
		return pf
	}
	if encErr != nil {
		return vfcore.Failf("o1:reencode-error:RecordBatch", "%v", encErr)
	}
	if c.Batch.Codec == 0 {
		if !bytes.Equal(b2, b1) {
			return vfcore.Failf("o1:reencode-not-identical:RecordBatch", "% x vs % x", b2, b1)
		}
	} else {
		rd2 := vfRd{b: b2}
		pm2, err := vfParseBatch(&rd2)
		if err != nil || rd2.vfRemaining() != 0 {
			return vfcore.Failf("o1:reencode-unparseable:RecordBatch", "%v; % x", err, b2)
		}
		vfNormBatch(pm2)
		if same, diff := vfModelEq(pm2, want); !same {
			return vfcore.Failf("o1:reencode-value-differs:RecordBatch", "at %s", diff)
		}
		if bytes.Equal(b2, b1) {
			r.Class("reencode-compressed:bytes-identical")
		} else {
			r.Class("reencode-compressed:bytes-differ")
		}
	}
	return nil
}

func vfCopyBatch(b *vfMBatch) *vfMBatch {
	o := *b
	o.Records = append([]vfMRecord(nil), b.Records...)
	for i := range o.Records {
		o.Records[i].Headers = append([]vfMHeader(nil), o.Records[i].Headers...)
	}
	return &o
}

func vfCopySet(s *vfMSet) *vfMSet {
	o := &vfMSet{Blocks: append([]vfMBlock(nil), s.Blocks...)}
	for i := range o.Blocks {
		if o.Blocks[i].Msg.Inner != nil {
			o.Blocks[i].Msg.Inner = vfCopySet(&vfMSet{Blocks: o.Blocks[i].Msg.Inner}).Blocks
		}
	}
	return o
}

func vfCopyRecords(r vfMRecords) vfMRecords {
	var o vfMRecords
	if r.Set != nil {
		o.Set = vfCopySet(r.Set)
	}
	if r.Batch != nil {
		o.Batch = vfCopyBatch(r.Batch)
	}
	return o
}

// ---- message set

func vfCheckSet(c *vfRecCase, r *vfcore.Rec) *vfcore.Failure {
	want := vfCopySet(c.Set)
	vfNormSet(want)
	magic := int8(0)
	if len(c.Set.Blocks) > 0 {
		magic = c.Set.Blocks[0].Msg.Magic
	}
	r.Classf("pair:MessageSet/magic%d", magic)
	vfCodecClasses(r, "", &vfMRecords{Set: c.Set})
	r.NonTrivial("")
	what := "MessageSet"
	ss, err := vfToSaramaSet(c.Set)
	if err != nil {
		return vfcore.Failf("o1:encode-error:MessageSet", "inner set: %v", err)
	}
	b1, encErr, pf := vfEncodeChecked(ss, nil, what)
	if pf != nil {
		return pf
	}
	if encErr != nil {
		return vfcore.Failf("o1:encode-error:MessageSet", "encode: %v", encErr)
	}
	pm, err := vfParseSet(b1, 0)
	if err != nil {
		return vfcore.Failf("o4:own-parser-rejects-sarama-bytes:msgset", "%v; bytes % x", err, b1)
	}
	vfNormSet(pm)
	if same, diff := vfModelEq(pm, want); !same {
		return vfcore.Failf("o4:own-parser-model-differs:msgset", "sarama's encoding parses to a different set at %s; bytes % x", diff, b1)
	}
	var w vfW
	if err := vfWriteSet(&w, c.Set); err != nil {
		return vfcore.Failf("harness:writer", "%v", err)
	}
	dec := &MessageSet{}
	err, pf = vfSafeDecode(dec, w.b, what+" (own writer)")
	if pf != nil {
		return pf
	}
	if err != nil {
		return vfcore.Failf("o4:sarama-rejects-own-writer:msgset", "%v; bytes % x", err, w.b)
	}
	if dec.PartialTrailingMessage || dec.OverflowMessage {
		return vfcore.Failf("o4:sarama-partial-on-complete:msgset", "a complete set decodes as partial/overflow; bytes % x", w.b)
	}
	got := vfFromSaramaSet(dec)
	vfNormSet(got)
	if same, diff := vfModelEq(got, want); !same {
		return vfcore.Failf("o4:sarama-decode-differs:msgset", "own writer's bytes decode to a different set at %s; bytes % x", diff, w.b)
	}
	// the wrapper's decoded Value must be the inner set's plain encoding
	for i, blk := range dec.Messages {
		if blk.Msg.Set != nil {
			in, err := vfParseSet(blk.Msg.Value, 1)
			if err != nil {
				return vfcore.Failf("o4:wrapper-value-unparseable", "block %d: %v", i, err)
			}
			vfNormSet(in)
			if same, diff := vfModelEq(in.Blocks, want.Blocks[i].Msg.Inner); !same {
				return vfcore.Failf("o4:wrapper-value-differs", "block %d: decompressed Value differs from Set at %s", i, diff)
			}
		}
	}
	unc := vfRecordsUncompressed(&vfMRecords{Set: c.Set})
	if unc {
		r.Class("own-writer-vs-sarama:byte-compared")
		if !bytes.Equal(w.b, b1) {
			return vfcore.Failf("o4:bytes-differ:msgset", "uncompressed set: own writer % x, sarama % x", w.b, b1)
		}
	}
	y := &MessageSet{}
	err, pf = vfSafeDecode(y, b1, what+" (own encoding)")
	if pf != nil {
		return pf
	}
	if err != nil {
		return vfcore.Failf("o1:decode-rejects-own-encoding:MessageSet", "%v; bytes % x", err, b1)
	}
	gy := vfFromSaramaSet(y)
	vfNormSet(gy)
	if same, diff := vfModelEq(gy, want); !same {
		return vfcore.Failf("o1:roundtrip-value-differs:MessageSet", "at %s; bytes % x", diff, b1)
	}
	for i, blk := range y.Messages {
		blk.Msg.CompressionLevel = c.Set.Blocks[i].Msg.Level
	}
	b2, encErr, pf := vfEncodeChecked(y, nil, what+" (re-encode)")
	if pf != nil {
		return pf
	}
	if encErr != nil {
		return vfcore.Failf("o1:reencode-error:MessageSet", "%v", encErr)
	}
	if unc {
		if !bytes.Equal(b2, b1) {
			return vfcore.Failf("o1:reencode-not-identical:MessageSet", "% x vs % x", b2, b1)
		}
	} else {
		pm2, err := vfParseSet(b2, 0)
		if err != nil {
			return vfcore.Failf("o1:reencode-unparseable:MessageSet", "%v; % x", err, b2)
		}
		vfNormSet(pm2)
		if same, diff := vfModelEq(pm2, want); !same {
			return vfcore.Failf("o1:reencode-value-differs:MessageSet", "at %s", diff)
		}
	}
	return nil
}

// ---- ProduceRequest

func vfCopyProduce(p *vfMProduce) *vfMProduce {
	o := *p
	o.Topics = append([]vfMProduceTopic(nil), p.Topics...)
	for i := range o.Topics {
		o.Topics[i].Parts = append([]vfMProducePart(nil), o.Topics[i].Parts...)
		for j := range o.Topics[i].Parts {
			o.Topics[i].Parts[j].Rec = vfCopyRecords(o.Topics[i].Parts[j].Rec)
		}
	}
	return &o
}

func vfProduceShape(p *vfMProduce) (maxMap int, recs []*vfMRecords) {
	maxMap = len(p.Topics)
	for i := range p.Topics {
		if n := len(p.Topics[i].Parts); n > maxMap {
			maxMap = n
		}
		for j := range p.Topics[i].Parts {
			recs = append(recs, &p.Topics[i].Parts[j].Rec)
		}
	}
	return
}

func vfCheckProduce(c *vfRecCase, r *vfcore.Rec) *vfcore.Failure {
	v := c.Version
	p := c.Produce
	p.Version = v
	want := vfCopyProduce(p)
	vfNormProduce(want)
	pair := fmt.Sprintf("ProduceRequest/v%d", v)
	r.Class("pair:" + pair)
	vfNoteAccepted(pair)
	maxMap, recs := vfProduceShape(p)
	vfCodecClasses(r, "produce:", recs...)
	if len(recs) > 0 && v > 0 {
		r.NonTrivial("")
	}
	what := fmt.Sprintf("ProduceRequest v%d", v)
	sp, err := vfToSaramaProduce(p)
	if err != nil {
		return vfcore.Failf("o1:encode-error:ProduceRequest", "%v", err)
	}
	var reg metrics.Registry
	if c.Registry {
		reg = metrics.NewRegistry()
		r.Class("produce:encode-with-metrics-registry")
	}
	b1, encErr, pf := vfEncodeChecked(sp, reg, what)
	if pf != nil {
		return pf
	}
	if encErr != nil {
		return vfcore.Failf("o1:encode-error:ProduceRequest", "%s: %v", what, encErr)
	}
	pm, err := vfParseProduce(b1, v)
	if err != nil {
		return vfcore.Failf("o4:own-parser-rejects-sarama-bytes:produce", "%s: %v; bytes % x", what, err, b1)
	}
	vfNormProduce(pm)
	if same, diff := vfModelEq(pm, want); !same {
		return vfcore.Failf("o4:own-parser-model-differs:produce", "%s: sarama's encoding parses to a different request at %s; bytes % x", what, diff, b1)
	}
	// O1 (first half): sarama reads its own encoding
	y := &ProduceRequest{}
	err, pf = vfSafeRealDecode(y, b1, v, what+" (own encoding)")
	if pf != nil {
		return pf
	}
	if err != nil {
		return vfWithRegions(vfcore.Failf("o1:decode-rejects-own-encoding:ProduceRequest", "%s: %v; bytes % x", what, err, b1), recs...)
	}
	var w vfW
	if err := vfWriteProduce(&w, p); err != nil {
		return vfcore.Failf("harness:writer", "%v", err)
	}
	dec := &ProduceRequest{}
	err, pf = vfSafeRealDecode(dec, w.b, v, what+" (own writer)")
	if pf != nil {
		return pf
	}
	if err != nil {
		return vfcore.Failf("o4:sarama-rejects-own-writer:produce", "%s: %v; bytes % x", what, err, w.b)
	}
	got := vfFromSaramaProduce(dec)
	vfNormProduce(got)
	if same, diff := vfModelEq(got, want); !same {
		return vfcore.Failf("o4:sarama-decode-differs:produce", "%s: own writer's bytes decode to a different request at %s; bytes % x", what, diff, w.b)
	}
	unc := vfRecordsUncompressed(recs...)
	if len(w.b) != len(b1) && unc {
		return vfcore.Failf("o4:length-differs:produce", "%s: own writer %d bytes, sarama %d bytes", what, len(w.b), len(b1))
	}
	if unc && maxMap <= 1 {
		r.Class("own-writer-vs-sarama:byte-compared")
		if !bytes.Equal(w.b, b1) {
			return vfcore.Failf("o4:bytes-differ:produce", "%s: own writer % x, sarama % x", what, w.b, b1)
		}
	}
	// O1
	gy := vfFromSaramaProduce(y)
	vfNormProduce(gy)
	if same, diff := vfModelEq(gy, want); !same {
		return vfcore.Failf("o1:roundtrip-value-differs:ProduceRequest", "%s at %s; bytes % x", what, diff, b1)
	}
	if y.version() != v {
		return vfcore.Failf("o1:version-not-recorded:ProduceRequest", "%s decodes to Version %d", what, y.version())
	}
	vfRestoreLevelsProduce(y, p)
	b2, encErr, pf := vfEncodeChecked(y, nil, what+" (re-encode)")
	if pf != nil {
		return pf
	}
	if encErr != nil {
		return vfcore.Failf("o1:reencode-error:ProduceRequest", "%s: %v", what, encErr)
	}
	if unc && maxMap <= 1 {
		if !bytes.Equal(b2, b1) {
			return vfcore.Failf("o1:reencode-not-identical:ProduceRequest", "%s: % x vs % x", what, b2, b1)
		}
	} else {
		if unc && len(b2) != len(b1) {
			return vfcore.Failf("o1:reencode-length:ProduceRequest", "%s: %d vs %d bytes", what, len(b2), len(b1))
		}
		pm2, err := vfParseProduce(b2, v)
		if err != nil {
			return vfcore.Failf("o1:reencode-unparseable:ProduceRequest", "%s: %v", what, err)
		}
		vfNormProduce(pm2)
		if same, diff := vfModelEq(pm2, want); !same {
			return vfcore.Failf("o1:reencode-value-differs:ProduceRequest", "%s at %s", what, diff)
		}
	}
	// O4 framing: the request header around it, parsed independently
	req := &request{correlationID: c.CorrID, clientID: c.ClientID, body: sp}
	fb, encErr, pf := vfEncodeChecked(req, reg, "request{"+what+"}")
	if pf != nil {
		return pf
	}
	if encErr != nil {
		return vfcore.Failf("o4:request-encode-error", "%s: %v", what, encErr)
	}
	rd := vfRd{b: fb}
	size, _ := rd.vfI32()
	key, _ := rd.vfI16()
	ver, _ := rd.vfI16()
	cid, _ := rd.vfI32()
	client, null, e := rd.vfStr()
	if e != nil || int(size) != len(fb)-4 || key != 0 || ver != v || cid != c.CorrID || null || client != c.ClientID {
		return vfcore.Failf("o4:frame-header", "%s: size %d/%d key %d version %d correlation id %d client id %q (%v)", what, size, len(fb)-4, key, ver, cid, client, e)
	}
	fpm, err := vfParseProduce(fb[rd.off:], v)
	if err != nil {
		return vfcore.Failf("o4:frame-body", "%s: %v", what, err)
	}
	vfNormProduce(fpm)
	if same, diff := vfModelEq(fpm, want); !same {
		return vfcore.Failf("o4:frame-body", "%s: framed body differs at %s", what, diff)
	}
	var dreq *request
	var n int
	func() {
		defer func() {
			if p := recover(); p != nil {
				pf = vfPanicFailure("decodeRequest of "+what, p)
			}
		}()
		dreq, n, err = decodeRequest(bytes.NewReader(fb))
	}()
	if pf != nil {
		return pf
	}
	if err != nil || n != len(fb) || dreq.correlationID != c.CorrID || dreq.clientID != c.ClientID {
		return vfcore.Failf("o4:decodeRequest", "%s: %v (read %d of %d)", what, err, n, len(fb))
	}
	dp, ok := dreq.body.(*ProduceRequest)
	if !ok {
		return vfcore.Failf("o4:decodeRequest-body", "%s decoded as %T", what, dreq.body)
	}
	gd := vfFromSaramaProduce(dp)
	vfNormProduce(gd)
	if same, diff := vfModelEq(gd, want); !same {
		return vfcore.Failf("o4:decodeRequest-body", "%s differs at %s", what, diff)
	}
	return nil
}

func vfRestoreLevelsRecords(rec *Records, m *vfMRecords) {
	if rec.RecordBatch != nil && m.Batch != nil {
		rec.RecordBatch.CompressionLevel = m.Batch.Level
	}
	if rec.MsgSet != nil && m.Set != nil {
		for i, blk := range rec.MsgSet.Messages {
			if i < len(m.Set.Blocks) {
				blk.Msg.CompressionLevel = m.Set.Blocks[i].Msg.Level
			}
		}
	}
}

func vfRestoreLevelsProduce(y *ProduceRequest, p *vfMProduce) {
	for i := range p.Topics {
		for j := range p.Topics[i].Parts {
			pt := &p.Topics[i].Parts[j]
			if parts, ok := y.records[p.Topics[i].Name]; ok {
				if rec, ok := parts[pt.ID]; ok {
					vfRestoreLevelsRecords(&rec, &pt.Rec)
				}
			}
		}
	}
}

// ---- FetchResponse

func vfCopyFetch(f *vfMFetch) *vfMFetch {
	o := *f
	o.Topics = append([]vfMFetchTopic(nil), f.Topics...)
	for i := range o.Topics {
		o.Topics[i].Parts = append([]vfMFetchPart(nil), o.Topics[i].Parts...)
		for j := range o.Topics[i].Parts {
			p := &o.Topics[i].Parts[j]
			p.Aborted = append([]vfMAborted(nil), p.Aborted...)
			rs := make([]vfMRecords, len(p.Records))
			for k := range p.Records {
				rs[k] = vfCopyRecords(p.Records[k])
			}
			p.Records = rs
		}
	}
	return &o
}

func vfFetchShape(f *vfMFetch) (maxMap int, recs []*vfMRecords) {
	maxMap = len(f.Topics)
	for i := range f.Topics {
		if n := len(f.Topics[i].Parts); n > maxMap {
			maxMap = n
		}
		for j := range f.Topics[i].Parts {
			for k := range f.Topics[i].Parts[j].Records {
				recs = append(recs, &f.Topics[i].Parts[j].Records[k])
			}
		}
	}
	return
}

func vfCheckFetch(c *vfRecCase, r *vfcore.Rec) *vfcore.Failure {
	v := c.Version
	f := c.Fetch
	f.Version = v
	want := vfCopyFetch(f)
	vfNormFetch(want)
	pair := fmt.Sprintf("FetchResponse/v%d", v)
	r.Class("pair:" + pair)
	vfNoteAccepted(pair)
	maxMap, recs := vfFetchShape(f)
	vfCodecClasses(r, "fetch:", recs...)
	r.Classf("fetch:record-entries=%d", len(recs))
	if len(recs) > 0 && v > 0 {
		r.NonTrivial("")
	}
	what := fmt.Sprintf("FetchResponse v%d", v)
	sf, err := vfToSaramaFetch(f)
	if err != nil {
		return vfcore.Failf("o1:encode-error:FetchResponse", "%v", err)
	}
	b1, encErr, pf := vfEncodeChecked(sf, nil, what)
	if pf != nil {
		return pf
	}
	if encErr != nil {
		return vfcore.Failf("o1:encode-error:FetchResponse", "%s: %v", what, encErr)
	}
	pm, err := vfParseFetch(b1, v)
	if err != nil {
		return vfcore.Failf("o4:own-parser-rejects-sarama-bytes:fetch", "%s: %v; bytes % x", what, err, b1)
	}
	vfNormFetch(pm)
	if same, diff := vfModelEq(pm, want); !same {
		return vfcore.Failf("o4:own-parser-model-differs:fetch", "%s: sarama's encoding parses to a different response at %s; bytes % x", what, diff, b1)
	}
	var w vfW
	if err := vfWriteFetch(&w, f); err != nil {
		return vfcore.Failf("harness:writer", "%v", err)
	}
	dec := &FetchResponse{}
	err, pf = vfSafeRealDecode(dec, w.b, v, what+" (own writer)")
	if pf != nil {
		return pf
	}
	if err != nil {
		return vfcore.Failf("o4:sarama-rejects-own-writer:fetch", "%s: %v; bytes % x", what, err, w.b)
	}
	got, err := vfFromSaramaFetch(dec)
	if err != nil {
		return vfcore.Failf("o4:sarama-decode-differs:fetch", "%s: %v; bytes % x", what, err, w.b)
	}
	vfNormFetch(got)
	if same, diff := vfModelEq(got, want); !same {
		return vfcore.Failf("o4:sarama-decode-differs:fetch", "%s: own writer's bytes decode to a different response at %s; bytes % x", what, diff, w.b)
	}
	unc := vfRecordsUncompressed(recs...)
	if unc && len(w.b) != len(b1) {
		return vfcore.Failf("o4:length-differs:fetch", "%s: own writer %d bytes, sarama %d bytes", what, len(w.b), len(b1))
	}
	nullAborted := false
	for i := range f.Topics {
		for j := range f.Topics[i].Parts {
			if p := &f.Topics[i].Parts[j]; p.AbortedNull && len(p.Aborted) == 0 && v >= 4 {
				nullAborted = true
			}
		}
	}
	if nullAborted {
		r.Class("canon:fetch aborted-transactions null->empty")
	}
	if unc && maxMap <= 1 && !nullAborted {
		r.Class("own-writer-vs-sarama:byte-compared")
		if !bytes.Equal(w.b, b1) {
			return vfcore.Failf("o4:bytes-differ:fetch", "%s: own writer % x, sarama % x", what, w.b, b1)
		}
	}
	// O1
	y := &FetchResponse{}
	err, pf = vfSafeRealDecode(y, b1, v, what+" (own encoding)")
	if pf != nil {
		return pf
	}
	if err != nil {
		return vfcore.Failf("o1:decode-rejects-own-encoding:FetchResponse", "%s: %v; bytes % x", what, err, b1)
	}
	gy, err := vfFromSaramaFetch(y)
	if err != nil {
		return vfcore.Failf("o1:roundtrip-value-differs:FetchResponse", "%s: %v", what, err)
	}
	vfNormFetch(gy)
	if same, diff := vfModelEq(gy, want); !same {
		return vfcore.Failf("o1:roundtrip-value-differs:FetchResponse", "%s at %s; bytes % x", what, diff, b1)
	}
	if y.version() != v {
		return vfcore.Failf("o1:version-not-recorded:FetchResponse", "%s decodes to Version %d", what, y.version())
	}
	for i := range f.Topics {
		for j := range f.Topics[i].Parts {
			p := &f.Topics[i].Parts[j]
			if blk := y.GetBlock(f.Topics[i].Name, p.ID); blk != nil {
				for k := range p.Records {
					if k < len(blk.RecordsSet) {
						vfRestoreLevelsRecords(blk.RecordsSet[k], &p.Records[k])
					}
				}
			}
		}
	}
	b2, encErr, pf := vfEncodeChecked(y, nil, what+" (re-encode)")
	if pf != nil {
		return pf
	}
	if encErr != nil {
		return vfcore.Failf("o1:reencode-error:FetchResponse", "%s: %v", what, encErr)
	}
	if unc && maxMap <= 1 {
		if !bytes.Equal(b2, b1) {
			return vfcore.Failf("o1:reencode-not-identical:FetchResponse", "%s: % x vs % x", what, b2, b1)
		}
	} else {
		if unc && len(b2) != len(b1) {
			return vfcore.Failf("o1:reencode-length:FetchResponse", "%s: %d vs %d bytes", what, len(b2), len(b1))
		}
		pm2, err := vfParseFetch(b2, v)
		if err != nil {
			return vfcore.Failf("o1:reencode-unparseable:FetchResponse", "%s: %v", what, err)
		}
		vfNormFetch(pm2)
		if same, diff := vfModelEq(pm2, want); !same {
			return vfcore.Failf("o1:reencode-value-differs:FetchResponse", "%s at %s", what, diff)
		}
	}
	return nil
}

// ---- produceSet: the bytes the async producer builds for a batch of messages

func vfEncoderOf(p []byte, none bool) Encoder {
	if none {
		return nil
	}
	return ByteEncoder(p)
}

func vfCheckProdSet(c *vfRecCase, r *vfcore.Rec) *vfcore.Failure {
	m := c.ProdSet
	ver, ok := map[string]KafkaVersion{"0.8.2.0": V0_8_2_0, "0.10.0.0": V0_10_0_0, "0.11.0.0": V0_11_0_0, "2.1.0.0": V2_1_0_0}[m.Kafka]
	if !ok {
		return vfcore.Failf("harness:kafka-version", "unknown version %q", m.Kafka)
	}
	conf := NewConfig()
	conf.Version = ver
	conf.Producer.Compression = CompressionCodec(m.Codec)
	conf.Producer.CompressionLevel = m.Level
	conf.Producer.Idempotent = m.Idempotent
	conf.Producer.RequiredAcks = RequiredAcks(m.Acks)
	conf.Producer.Timeout = time.Duration(m.TimeoutMs) * time.Millisecond
	parent := &asyncProducer{conf: conf, txnmgr: &transactionManager{producerID: m.PID, producerEpoch: m.PEpoch, sequenceNumbers: map[string]int32{}}}
	ps := newProduceSet(parent)
	type key struct {
		topic string
		part  int32
	}
	groups := map[key][]*vfMProdMsg{}
	var order []key
	for i := range m.Msgs {
		pm := &m.Msgs[i]
		msg := &ProducerMessage{Topic: pm.Topic, Partition: pm.Partition, Key: vfEncoderOf(pm.Key, pm.KeyNone), Value: vfEncoderOf(pm.Value, pm.ValNone), Timestamp: vfMsToTime(pm.TsMs)}
		for _, h := range pm.Headers {
			msg.Headers = append(msg.Headers, RecordHeader{Key: h.Key, Value: h.Value})
		}
		msg.sequenceNumber, msg.hasSequence = pm.Seq, true
		if err := ps.add(msg); err != nil {
			return vfcore.Failf("prodset:add-error", "%v", err)
		}
		k := key{pm.Topic, pm.Partition}
		if groups[k] == nil {
			order = append(order, k)
		}
		groups[k] = append(groups[k], pm)
	}
	var req *ProduceRequest
	var pf *vfcore.Failure
	func() {
		defer func() {
			if p := recover(); p != nil {
				pf = vfPanicFailure("produceSet.buildRequest", p)
			}
		}()
		req = ps.buildRequest()
	}()
	if pf != nil {
		return pf
	}
	wantV := int16(0)
	switch m.Kafka {
	case "0.10.0.0":
		wantV = 2
	case "0.11.0.0":
		wantV = 3
	case "2.1.0.0":
		wantV = 3
		if m.Codec == 4 {
			wantV = 7
		}
	}
	r.Classf("pair:produceSet/%s", m.Kafka)
	r.Classf("prodset:codec=%d", m.Codec)
	r.Classf("prodset:max-group=%d", func() int {
		mx := 0
		for _, g := range groups {
			if len(g) > mx {
				mx = len(g)
			}
		}
		return mx
	}())
	r.NonTrivial("")
	what := fmt.Sprintf("produceSet(%s codec %d) -> ProduceRequest v%d", m.Kafka, m.Codec, req.Version)
	if req.Version != wantV {
		return vfcore.Failf("prodset:request-version", "%s: expected v%d", what, wantV)
	}
	b1, encErr, pf := vfEncodeChecked(req, metrics.NewRegistry(), what)
	if pf != nil {
		return pf
	}
	if encErr != nil {
		return vfcore.Failf("prodset:encode-error", "%s: %v", what, encErr)
	}
	got, err := vfParseProduce(b1, req.Version)
	if err != nil {
		return vfcore.Failf("o4:own-parser-rejects-sarama-bytes:prodset", "%s: %v; bytes % x", what, err, b1)
	}
	if got.Acks != m.Acks || got.Timeout != m.TimeoutMs || got.TxnID != nil {
		return vfcore.Failf("prodset:envelope", "%s: acks %d timeout %d txn %v", what, got.Acks, got.Timeout, got.TxnID)
	}
	seen := 0
	for ti := range got.Topics {
		for pi := range got.Topics[ti].Parts {
			pt := &got.Topics[ti].Parts[pi]
			msgs := groups[key{got.Topics[ti].Name, pt.ID}]
			if msgs == nil {
				return vfcore.Failf("prodset:stranger-partition", "%s: %q/%d was never added", what, got.Topics[ti].Name, pt.ID)
			}
			seen++
			if f := vfCheckProdPartition(m, msgs, &pt.Rec, what); f != nil {
				return f
			}
		}
	}
	if seen != len(order) {
		return vfcore.Failf("prodset:missing-partition", "%s: %d partitions on the wire, %d added", what, seen, len(order))
	}
	// and sarama itself reads it back
	dec := &ProduceRequest{}
	err, pf = vfSafeRealDecode(dec, b1, req.Version, what)
	if pf != nil {
		return pf
	}
	if err != nil {
		return vfcore.Failf("o1:decode-rejects-own-encoding:ProduceRequest", "%s: %v", what, err)
	}
	gd := vfFromSaramaProduce(dec)
	vfNormProduce(gd)
	vfNormProduce(got)
	if same, diff := vfModelEq(gd, got); !same {
		return vfcore.Failf("o1:roundtrip-value-differs:ProduceRequest", "%s: sarama's decode and the own parser disagree at %s", what, diff)
	}
	return nil
}

func vfBytesEq(a, b []byte) bool {
	return (a == nil) == (b == nil) && bytes.Equal(a, b)
}

func vfWantPayload(p []byte, none bool) []byte {
	if none {
		return nil
	}
	return p
}

// vfCheckProdPartition judges one partition's records as a broker would see them.
func vfCheckProdPartition(m *vfMProdSet, msgs []*vfMProdMsg, rec *vfMRecords, what string) *vfcore.Failure {
	batches := m.Kafka == "0.11.0.0" || m.Kafka == "2.1.0.0"
	if batches {
		b := rec.Batch
		if b == nil {
			return vfcore.Failf("prodset:format", "%s: a legacy message set where a v2 batch is due", what)
		}
		if int(b.Codec) != int(m.Codec) || b.Control || b.Txn || b.LogAppend {
			return vfcore.Failf("prodset:batch-attributes", "%s: codec %d control %v txn %v logappend %v", what, b.Codec, b.Control, b.Txn, b.LogAppend)
		}
		if len(b.Records) != len(msgs) {
			return vfcore.Failf("prodset:record-count", "%s: %d records for %d messages", what, len(b.Records), len(msgs))
		}
		if int(b.LastOffsetDelta) != len(msgs)-1 {
			return vfcore.Failf("prodset:last-offset-delta", "%s: last offset delta %d for %d records", what, b.LastOffsetDelta, len(msgs))
		}
		if b.FirstTs != msgs[0].TsMs {
			return vfcore.Failf("prodset:first-timestamp", "%s: %d, first message has %d", what, b.FirstTs, msgs[0].TsMs)
		}
		if b.ProducerID != m.PID || b.ProducerEpoch != m.PEpoch {
			return vfcore.Failf("prodset:producer-identity", "%s: (%d,%d), want (%d,%d)", what, b.ProducerID, b.ProducerEpoch, m.PID, m.PEpoch)
		}
		if m.Idempotent && b.FirstSeq != msgs[0].Seq {
			return vfcore.Failf("prodset:first-sequence", "%s: %d, first message has %d", what, b.FirstSeq, msgs[0].Seq)
		}
		for i, rc := range b.Records {
			pm := msgs[i]
			if rc.OffDelta != int64(i) {
				return vfcore.Failf("prodset:offset-delta", "%s: record %d has offset delta %d", what, i, rc.OffDelta)
			}
			if rc.TsDelta != pm.TsMs-msgs[0].TsMs {
				return vfcore.Failf("prodset:timestamp-delta", "%s: record %d has delta %d, want %d", what, i, rc.TsDelta, pm.TsMs-msgs[0].TsMs)
			}
			if !vfBytesEq(rc.Key, vfWantPayload(pm.Key, pm.KeyNone)) || !vfBytesEq(rc.Value, vfWantPayload(pm.Value, pm.ValNone)) {
				return vfcore.Failf("prodset:payload", "%s: record %d key %x value %x, want %x %x", what, i, rc.Key, rc.Value, pm.Key, pm.Value)
			}
			if len(rc.Headers) != len(pm.Headers) {
				return vfcore.Failf("prodset:headers", "%s: record %d has %d headers, want %d", what, i, len(rc.Headers), len(pm.Headers))
			}
			for h := range rc.Headers {
				if !vfBytesEq(rc.Headers[h].Key, pm.Headers[h].Key) || !vfBytesEq(rc.Headers[h].Value, pm.Headers[h].Value) {
					return vfcore.Failf("prodset:headers", "%s: record %d header %d differs", what, i, h)
				}
			}
		}
		return nil
	}
	s := rec.Set
	if s == nil {
		return vfcore.Failf("prodset:format", "%s: a v2 batch where a legacy set is due", what)
	}
	magic := int8(0)
	if m.Kafka == "0.10.0.0" {
		magic = 1
	}
	inner := s.Blocks
	if m.Codec != 0 {
		if len(s.Blocks) != 1 || !s.Blocks[0].Msg.Wrapper {
			return vfcore.Failf("prodset:wrapper", "%s: compression on, but the set is not one wrapper message (%d blocks)", what, len(s.Blocks))
		}
		wm := &s.Blocks[0].Msg
		if wm.Magic != magic || int(wm.Codec) != int(m.Codec) || wm.Key != nil {
			return vfcore.Failf("prodset:wrapper", "%s: wrapper magic %d codec %d key %x", what, wm.Magic, wm.Codec, wm.Key)
		}
		if magic == 1 && wm.Ts != msgs[0].TsMs {
			return vfcore.Failf("prodset:wrapper-timestamp", "%s: %d, first inner message has %d", what, wm.Ts, msgs[0].TsMs)
		}
		inner = wm.Inner
		if magic == 1 {
			// KIP-31: relative inner offsets 0..n-1
			for i := range inner {
				if inner[i].Offset != int64(i) {
					return vfcore.Failf("prodset:relative-offsets", "%s: inner message %d has offset %d", what, i, inner[i].Offset)
				}
			}
		}
	}
	if len(inner) != len(msgs) {
		return vfcore.Failf("prodset:message-count", "%s: %d messages on the wire for %d added", what, len(inner), len(msgs))
	}
	for i := range inner {
		im := &inner[i].Msg
		pm := msgs[i]
		if im.Wrapper || im.Codec != 0 || im.Magic != magic {
			return vfcore.Failf("prodset:inner-message", "%s: message %d magic %d codec %d wrapper %v", what, i, im.Magic, im.Codec, im.Wrapper)
		}
		if magic == 1 && im.Ts != pm.TsMs {
			return vfcore.Failf("prodset:timestamp", "%s: message %d has %d, want %d", what, i, im.Ts, pm.TsMs)
		}
		if !vfBytesEq(im.Key, vfWantPayload(pm.Key, pm.KeyNone)) || !vfBytesEq(im.Value, vfWantPayload(pm.Value, pm.ValNone)) {
			return vfcore.Failf("prodset:payload", "%s: message %d key %x value %x, want %x %x", what, i, im.Key, im.Value, pm.Key, pm.Value)
		}
	}
	return nil
}

// ---------------------------------------------------------------- test entry points

type vfRecKind struct {
	Kind    string
	Version int16
}

func (k vfRecKind) String() string { return fmt.Sprintf("%s/v%d", k.Kind, k.Version) }

func vfRecKinds() []vfRecKind {
	out := []vfRecKind{{"batch", 2}, {"msgset", 0}, {"prodset", 0}}
	for v := int16(0); v <= vfBodies[vfBodyIndex["ProduceRequest"]].MaxV; v++ {
		out = append(out, vfRecKind{"produce", v})
	}
	for v := int16(0); v <= vfBodies[vfBodyIndex["FetchResponse"]].MaxV; v++ {
		out = append(out, vfRecKind{"fetch", v})
	}
	return out
}

func vfRecSpec(k *vfRecKind) vfcore.Spec {
	return vfcore.Spec{
		ID:  "C09",
		New: func() interface{} { return &vfRecCase{} },
		Gen: func(rt *rapid.T) interface{} { return vfDrawRecCase(&vfDraws{t: rt}, k.Kind, k.Version) },
		Run: vfRunRec,
	}
}

// TestVF_C09_Records runs -rapid.checks cases for every record-format kind and for
// every version of ProduceRequest and FetchResponse.
func TestVF_C09_Records(t *testing.T) {
	if vfcore.IsReplay() {
		vfcore.Main(t, vfReplaySpec)
		return
	}
	kinds := vfRecKinds()
	for i := range kinds {
		vfReseed(1000 + i)
		vfcore.Main(t, vfRecSpec(&kinds[i]))
		if t.Failed() {
			return
		}
	}
	if vfcore.Tier() == "thorough" {
		var missing []string
		vfAcceptedMu.Lock()
		for _, p := range vfAllPairs(true) {
			if vfAccepted[p.String()] == 0 {
				missing = append(missing, p.String())
			}
		}
		vfAcceptedMu.Unlock()
		if len(missing) > 0 {
			t.Fatalf("VF-INFRA C09: no case for hand-generated (type, version) pairs: %s", strings.Join(missing, ", "))
		}
	}
}

// vfRunHandFromTape lets the fuzz target drive the hand-written generators.
func vfRunHandFromTape(name string, v int16, seed []byte) *vfcore.Failure {
	d := &vfDraws{seed: seed}
	kind := "produce"
	if name == "FetchResponse" {
		kind = "fetch"
	}
	return vfRunRec(vfDrawRecCase(d, kind, v), &vfcore.Rec{})
}
