//go:build go1.18 && verif

package sarama

// C14 — each broker call gets its own response or an error (DESIGN §5.14).
//
// One real Broker is opened over the in-memory network against a raw scripted server that knows nothing of
// Kafka beyond framing: it reads request frames with a parser of its own, extracts the unique token every
// request carries, and handles the requests strictly in wire order with the behaviour the case scripts for
// that request index (answer, answer after a hold, wrong correlation id, answer swapped with the next request,
// truncated frame then close, invalid length field, garbage header, abrupt close, silence, stalled body = intact
// header and part of the body, connection left open, nothing more until the call has returned, then well-formed
// frames for the requests after it). Response bodies are built with the vfref snapshot (reference codec); frames
// with vfref.Frame.
//
// Oracles (none depends on time): a call that returns a response got the token of its own request, from a
// request the server really answered, lying before the first fault of the connection; no call hangs
// (quiescence rule); no panic; Close and a second Close return; correlation ids on one connection are unique;
// an answered call before any fault does not fail; the number of response-expecting requests the server has
// received and not yet handled never exceeds Net.MaxOpenRequests as long as the client provably serves the
// connection (= up to the last correct answer that a call returned). A stalled body is a fault like the others:
// the call it hits fails by read timeout, and every call outstanding then or issued later fails too, although
// the server goes on answering them correctly once it has seen the stalled call return.

import (
	"encoding/binary"
	"errors"
	"fmt"
	"io"
	"net"
	"sort"
	"strconv"
	"strings"
	"sync"
	"sync/atomic"
	"testing"
	"time"

	"github.com/Shopify/sarama/internal/vfcore"
	"github.com/Shopify/sarama/internal/vfref"
	"pgregory.net/rapid"
)

// ---------------------------------------------------------------------------------------------------------
// case

type vfc14Call struct {
	Kind    string `json:"kind"` // metadata | findcoord | consmeta | heartbeat | offsetfetch | produce | produce-noack
	Version int16  `json:"version"`
	DelayUs int    `json:"delay_us,omitempty"` // pause of the caller before it issues the call
}

type vfc14Beh struct {
	// answer | shortbody | wrongcorr | wrongcorr-bare (header only) | swap | truncate | close | badlen | garbage | silence |
	// stallbody (intact header + part of the body, connection stays open; the server goes on only after the call has returned)
	Kind string `json:"kind"`
	// the request is handled only after Hold further requests have been received, or the client cannot send
	// more without an answer, or no request arrived for the idle window (99 = "until the client is idle")
	Hold int `json:"hold,omitempty"`
	// wrongcorr: delta added to the correlation id; truncate: permille of the frame that is sent;
	// stallbody: permille of the body that is sent; badlen: the length field; garbage: seed of the header bytes
	Arg int64 `json:"arg,omitempty"`
	// after a fault that does not need the connection closed: keep answering later requests correctly
	KeepOpen bool `json:"keep_open,omitempty"`
}

type vfc14Close struct {
	AfterReceived int `json:"after_received"` // Close is called once the server has received this many requests (or the client went idle)
	DelayUs       int `json:"delay_us"`
}

type vfc14Case struct {
	MaxOpen       int           `json:"max_open"`
	ReadTimeoutMs int           `json:"read_timeout_ms"`
	WaitConnected bool          `json:"wait_connected"`
	Callers       [][]vfc14Call `json:"callers"`
	Script        []vfc14Beh    `json:"script"` // by request index in wire order; past the end: answer
	Close         *vfc14Close   `json:"close,omitempty"`
}

var vfc14FaultKinds = map[string]bool{"wrongcorr": true, "wrongcorr-bare": true, "swap": true, "truncate": true, "close": true, "badlen": true, "garbage": true, "silence": true, "stallbody": true}

var vfc14KindVersions = map[string][]int16{
	"metadata":      {0, 1, 4, 5},
	"findcoord":     {0, 1},
	"consmeta":      {0},
	"heartbeat":     {0},
	"offsetfetch":   {1, 2, 5, 6, 7},
	"produce":       {0, 1, 2, 3, 7},
	"produce-noack": {0, 2, 3, 7},
}

func vfc14GenCase(t *rapid.T) *vfc14Case {
	c := &vfc14Case{}
	c.MaxOpen = rapid.IntRange(1, 5).Draw(t, "max_open")
	c.WaitConnected = rapid.Bool().Draw(t, "wait_connected")
	g := rapid.IntRange(1, 8).Draw(t, "callers")
	kinds := []string{"metadata", "metadata", "findcoord", "consmeta", "heartbeat", "offsetfetch", "offsetfetch", "offsetfetch", "produce", "produce", "produce-noack"}
	total := 0
	for i := 0; i < g; i++ {
		n := rapid.IntRange(1, 6).Draw(t, "ncalls")
		calls := make([]vfc14Call, n)
		for j := range calls {
			k := rapid.SampledFrom(kinds).Draw(t, "kind")
			calls[j] = vfc14Call{
				Kind:    k,
				Version: rapid.SampledFrom(vfc14KindVersions[k]).Draw(t, "version"),
				DelayUs: rapid.SampledFrom([]int{0, 0, 0, 0, 0, 50, 200, 1000}).Draw(t, "delay_us"),
			}
		}
		c.Callers = append(c.Callers, calls)
		total += n
	}
	c.Script = make([]vfc14Beh, total)
	for i := range c.Script {
		c.Script[i].Kind = "answer"
	}
	switch rapid.SampledFrom([]string{"pile", "pile", "holds", "holds", "plain"}).Draw(t, "mode") {
	case "pile":
		// everything is withheld until the client has gone idle: the pile-up on the wire becomes observable
		c.Script[0].Hold = 99
	case "holds":
		for i := range c.Script {
			c.Script[i].Hold = rapid.SampledFrom([]int{0, 0, 0, 0, 1, 1, 2, 3, 5}).Draw(t, "hold")
		}
		if rapid.IntRange(0, 3).Draw(t, "idle_hold") == 0 {
			c.Script[rapid.IntRange(0, total-1).Draw(t, "idle_hold_at")].Hold = 99
		}
	}
	nf := rapid.SampledFrom([]int{0, 0, 1, 1, 1, 2}).Draw(t, "nfaults")
	silence := false
	for k := 0; k < nf; k++ {
		at := rapid.IntRange(0, total-1).Draw(t, "fault_at")
		b := vfc14Beh{Kind: rapid.SampledFrom([]string{"wrongcorr", "wrongcorr-bare", "swap", "swap", "truncate", "close", "badlen", "badlen", "garbage", "silence", "shortbody", "stallbody", "stallbody"}).Draw(t, "fault")}
		b.Hold = rapid.SampledFrom([]int{0, 0, 1, 2, 4, 99}).Draw(t, "fault_hold")
		b.KeepOpen = rapid.Bool().Draw(t, "keep_open")
		switch b.Kind {
		case "wrongcorr", "wrongcorr-bare":
			b.Arg = rapid.SampledFrom([]int64{-1, 1, 1, 2, 1000, -2147483648}).Draw(t, "corr_delta")
		case "truncate":
			b.Arg = int64(rapid.IntRange(0, 999).Draw(t, "permille"))
		case "badlen":
			b.Arg = rapid.SampledFrom([]int64{0, 1, 4, -1, -2147483648, int64(MaxResponseSize) + 1, 2147483647}).Draw(t, "length")
		case "garbage":
			b.Arg = int64(rapid.IntRange(1, 1<<30).Draw(t, "garbage_seed"))
		case "silence":
			silence = true
		case "stallbody":
			// the stalled call returns only when Net.ReadTimeout expires: a short one, as for silence
			b.Arg = int64(rapid.SampledFrom([]int{0, 0, 1, 250, 500, 750, 999}).Draw(t, "body_permille"))
			silence = true
		}
		c.Script[at] = b
	}
	c.ReadTimeoutMs = 1000
	if silence {
		c.ReadTimeoutMs = rapid.IntRange(100, 150).Draw(t, "read_timeout_ms")
	}
	if rapid.IntRange(0, 3).Draw(t, "close_race") == 0 {
		c.Close = &vfc14Close{
			AfterReceived: rapid.IntRange(0, total).Draw(t, "close_after"),
			DelayUs:       rapid.SampledFrom([]int{0, 0, 20, 100, 500, 2000}).Draw(t, "close_delay_us"),
		}
	}
	return c
}

func (c *vfc14Case) valid() bool {
	if c.MaxOpen < 1 || c.MaxOpen > 64 || len(c.Callers) < 1 || len(c.Callers) > 64 || c.ReadTimeoutMs < 50 || c.ReadTimeoutMs > 5000 {
		return false
	}
	for _, calls := range c.Callers {
		if len(calls) > 64 {
			return false
		}
		for _, cl := range calls {
			vs, ok := vfc14KindVersions[cl.Kind]
			if !ok {
				return false
			}
			found := false
			for _, v := range vs {
				found = found || v == cl.Version
			}
			if !found || cl.DelayUs < 0 || cl.DelayUs > 100000 {
				return false
			}
		}
	}
	for _, b := range c.Script {
		if b.Kind != "answer" && b.Kind != "shortbody" && !vfc14FaultKinds[b.Kind] {
			return false
		}
		if (b.Kind == "silence" || b.Kind == "stallbody") && c.ReadTimeoutMs > 500 {
			return false
		}
		if b.Kind == "stallbody" && (b.Arg < 0 || b.Arg > 999) {
			return false
		}
		if (b.Kind == "wrongcorr" || b.Kind == "wrongcorr-bare") && int32(b.Arg) == 0 {
			return false
		}
		if b.Kind == "badlen" && b.Arg > 4 && b.Arg <= int64(MaxResponseSize) {
			return false
		}
	}
	return true
}

func vfc14Token(caller, n int) string { return "tok-" + strconv.Itoa(caller) + "-" + strconv.Itoa(n) }

// heartbeat responses have no room for a string: the token travels as an (unassigned) error code
func vfc14TokenCode(tok string) int16 {
	p := strings.Split(tok, "-")
	if len(p) != 3 {
		return 29999
	}
	a, _ := strconv.Atoi(p[1])
	b, _ := strconv.Atoi(p[2])
	return int16(10000 + a*100 + b)
}

// ---------------------------------------------------------------------------------------------------------
// history

type vfc14Req struct {
	Index    int    `json:"index"`
	Seq      int64  `json:"seq"`
	Key      int16  `json:"key"`
	Version  int16  `json:"version"`
	Corr     int32  `json:"corr"`
	ClientID string `json:"client_id"`
	Token    string `json:"token"`
	Expect   bool   `json:"expects_response"`
	Beh      string `json:"behaviour,omitempty"` // what the server did with it ("" = never handled)
	BehSeq   int64  `json:"behaviour_seq,omitempty"`
	Depth    int    `json:"unanswered_when_handled,omitempty"`
	hv       int16
}

type vfc14CallRec struct {
	Caller   int    `json:"caller"`
	N        int    `json:"n"`
	Kind     string `json:"kind"`
	Version  int16  `json:"version"`
	Token    string `json:"token"`
	StartSeq int64  `json:"start_seq"`
	EndSeq   int64  `json:"end_seq,omitempty"`
	Returned bool   `json:"returned"`
	HasResp  bool   `json:"has_response"`
	Got      string `json:"echoed_token,omitempty"`
	Err      string `json:"error,omitempty"`
	Timeout  bool   `json:"timeout,omitempty"`
	Panic    string `json:"panic,omitempty"`
}

// vfc14Stall: what happened at a "stallbody" request. The server sent the header and Sent of Body body bytes and then
// nothing, until it saw the call return (Outcome "call-returned"; every later byte on the connection has a larger
// sequence number than the call's end) or until vfc14StallBound was over (Outcome "bound": the connection is closed,
// nothing more is sent, and the first-fault clause is not judged for this stall).
type vfc14Stall struct {
	Index        int    `json:"request_index"`
	Sent         int    `json:"body_bytes_sent"`
	Body         int    `json:"body_bytes_declared"`
	StartSeq     int64  `json:"start_seq"`
	EndSeq       int64  `json:"end_seq"`
	Outcome      string `json:"outcome"`
	PendingAtEnd int    `json:"unhandled_requests_at_end"` // response-expecting requests received and not handled when the stall ended
}

type vfc14History struct {
	Requests        []vfc14Req     `json:"requests"`
	Calls           []vfc14CallRec `json:"calls"`
	Stalls          []vfc14Stall   `json:"stalls,omitempty"`
	HighWater       int            `json:"high_water_unanswered"`        // as counted by the server until the first fault
	ProvenHighWater int            `json:"high_water_unanswered_proven"` // the part of it that the occupancy clause judges (set by the oracle)
	FirstFault      int            `json:"first_fault_index"`            // -1 = none applied
	DepthAtFault    int            `json:"unanswered_at_first_fault"`
	ServerNotes     []string       `json:"server_notes,omitempty"`
	CloseCalled     bool           `json:"close_called_by_racer"`
	CloseErr        string         `json:"close_error,omitempty"`
	SecondClose     string         `json:"second_close_error,omitempty"`
	Panics          []string       `json:"panics,omitempty"`
	Hang            string         `json:"hang,omitempty"`
	Stacks          string         `json:"stacks,omitempty"`
	PendingAtClose  int            `json:"unanswered_when_close_called"`
	Partial         string         `json:"partially_judged,omitempty"`
}

// ---------------------------------------------------------------------------------------------------------
// scripted server

type vfc14Server struct {
	c       *vfc14Case
	run     *vfc14Exec
	idle    time.Duration
	mu      sync.Mutex
	cond    *sync.Cond
	conn    *vfConn
	reqs    []*vfc14Req
	corrs   map[int32]int
	dupCorr string

	readerDone    bool
	responderDone bool
	handled       int // requests the responder is finished with
	lastRecv      time.Time
	unanswered    int
	high          int
	measuring     bool
	firstFault    int
	depthAtFault  int
	silent        bool
	stalling      bool // a stallbody request is waiting for its call to return: the server still owes the rest of its script
	stalls        []vfc14Stall
	notes         []string
	wireViolation string
	accepted      int
	wg            sync.WaitGroup
}

func vfc14NewServer(c *vfc14Case, run *vfc14Exec) *vfc14Server {
	s := &vfc14Server{c: c, run: run, corrs: map[int32]int{}, measuring: true, firstFault: -1}
	s.cond = sync.NewCond(&s.mu)
	s.idle = time.Duration(vfcore.EnvInt("VF_C14_IDLE_MS", 30)) * time.Millisecond
	s.lastRecv = time.Now()
	return s
}

func (s *vfc14Server) accept(conn *vfConn) {
	s.mu.Lock()
	s.accepted++
	first := s.accepted == 1
	if first {
		s.conn = conn
	}
	s.mu.Unlock()
	if !first {
		conn.Close()
		return
	}
	s.wg.Add(2)
	go s.readLoop(conn)
	go s.respondLoop(conn)
}

func (s *vfc14Server) note(f string, a ...interface{}) {
	s.notes = append(s.notes, fmt.Sprintf(f, a...))
}

func (s *vfc14Server) readLoop(conn *vfConn) {
	defer s.wg.Done()
	defer func() {
		s.mu.Lock()
		s.readerDone = true
		s.cond.Broadcast()
		s.mu.Unlock()
	}()
	for {
		var szb [4]byte
		if _, err := io.ReadFull(conn, szb[:]); err != nil {
			return
		}
		n := int32(binary.BigEndian.Uint32(szb[:]))
		if n < 10 || n > 1<<22 {
			s.mu.Lock()
			s.wireViolation = fmt.Sprintf("request frame with size field %d", n)
			s.mu.Unlock()
			return
		}
		buf := make([]byte, n)
		if _, err := io.ReadFull(conn, buf); err != nil {
			return
		}
		r, err := vfc14ParseRequest(buf)
		s.mu.Lock()
		if err != nil {
			s.wireViolation = err.Error()
			s.mu.Unlock()
			return
		}
		r.Index = len(s.reqs)
		r.Seq = s.run.seq()
		if prev, dup := s.corrs[r.Corr]; dup && s.dupCorr == "" {
			s.dupCorr = fmt.Sprintf("requests %d and %d carry the same correlation id %d", prev, r.Index, r.Corr)
		}
		s.corrs[r.Corr] = r.Index
		s.reqs = append(s.reqs, r)
		s.lastRecv = time.Now()
		if r.Expect {
			s.unanswered++
			if s.measuring && s.unanswered > s.high {
				s.high = s.unanswered
			}
			s.run.markReceived(r.Token)
		}
		atomic.AddInt64(&s.run.progress, 1)
		s.cond.Broadcast()
		s.mu.Unlock()
	}
}

// busy reports whether the server still owes work on a request it has received.
func (s *vfc14Server) busy() bool {
	s.mu.Lock()
	defer s.mu.Unlock()
	// (a stalling server is not busy: it waits for the client, whose stalled call has to return by itself when
	// Net.ReadTimeout is over; if it never does and nothing else moves, that is a hang like any other)
	return !s.responderDone && !s.stalling && s.handled < len(s.reqs)
}

func (s *vfc14Server) received() int {
	s.mu.Lock()
	defer s.mu.Unlock()
	return len(s.reqs)
}

func (s *vfc14Server) sinceLastRecv() time.Duration {
	s.mu.Lock()
	defer s.mu.Unlock()
	return time.Since(s.lastRecv)
}

func (s *vfc14Server) respondLoop(conn *vfConn) {
	defer s.wg.Done()
	defer func() {
		s.mu.Lock()
		s.responderDone = true
		s.mu.Unlock()
	}()
	for i := 0; ; i++ {
		s.mu.Lock()
		for len(s.reqs) <= i && !s.readerDone {
			s.cond.Wait()
		}
		if len(s.reqs) <= i {
			s.mu.Unlock()
			return
		}
		r := s.reqs[i]
		if r.Beh != "" { // consumed by an earlier swap
			s.mu.Unlock()
			continue
		}
		beh := vfc14Beh{Kind: "answer"}
		if i < len(s.c.Script) {
			beh = s.c.Script[i]
		}
		s.mu.Unlock()

		if !r.Expect {
			s.finish(r, "noresponse", false)
			continue
		}
		s.mu.Lock()
		silent := s.silent
		s.mu.Unlock()
		if silent {
			s.finish(r, "silenced", false)
			continue
		}
		hold := beh.Hold
		if beh.Kind == "swap" && hold < 1 {
			hold = 1
		}
		if hold > 0 {
			s.hold(i, hold)
		}
		if stop := s.apply(conn, i, r, beh); stop {
			return
		}
	}
}

// hold is a scheduling aid (never an oracle): wait until `n` further requests are there, or the client provably
// cannot send another request without an answer, or nothing arrived for the idle window.
func (s *vfc14Server) hold(i, n int) {
	start := time.Now()
	for {
		s.mu.Lock()
		have := len(s.reqs)
		done := s.readerDone
		last := s.lastRecv
		s.mu.Unlock()
		if done || have >= i+1+n {
			return
		}
		if s.run.clientCannotSend() {
			return
		}
		now := time.Now()
		if now.Sub(last) >= s.idle && now.Sub(start) >= s.idle {
			return
		}
		time.Sleep(100 * time.Microsecond)
	}
}

func (s *vfc14Server) finish(r *vfc14Req, what string, fault bool) {
	s.mu.Lock()
	r.Beh = what
	r.BehSeq = s.run.seq()
	r.Depth = s.unanswered
	if r.Expect {
		if fault && s.firstFault < 0 {
			s.firstFault = r.Index
			s.depthAtFault = s.unanswered
			s.measuring = false
		}
		s.unanswered--
	}
	s.handled++
	atomic.AddInt64(&s.run.progress, 1)
	s.mu.Unlock()
}

func vfc14HeaderVersion(key, version int16) int16 {
	if key == 9 && version >= 6 { // OffsetFetch v6+ is a flexible version: response header v1
		return 1
	}
	return 0
}

// apply performs the scripted behaviour for request i; it returns true when the connection is gone.
// The bookkeeping (finish) always precedes the bytes: once they are out the client may react at any moment
// (a call returns, or the receive loop gives the connection up and the callers write without limit).
func (s *vfc14Server) apply(conn *vfConn, i int, r *vfc14Req, beh vfc14Beh) bool {
	body, err := vfc14ResponseBody(r.Key, r.Version, r.Token)
	if err != nil {
		s.mu.Lock()
		s.wireViolation = "harness cannot build a response: " + err.Error()
		s.mu.Unlock()
		s.finish(r, "close", true)
		conn.Close()
		return true
	}
	frame := vfref.Frame(r.Corr, r.hv, body)
	// fault: record it, send the bytes, then close or stay
	fault := func(name string, mayStay bool, out ...[]byte) bool {
		stay := mayStay && beh.KeepOpen
		if stay {
			name += "+keepopen"
		} else {
			name += "+close"
		}
		s.finish(r, name, true)
		for _, b := range out {
			_, _ = conn.Write(b)
		}
		if !stay {
			conn.Close()
		}
		return !stay
	}
	switch beh.Kind {
	case "shortbody":
		s.finish(r, "shortbody", false)
		_, _ = conn.Write(vfref.Frame(r.Corr, r.hv, []byte{0x7f}))
		return false
	case "wrongcorr":
		d := int32(beh.Arg)
		if d == 0 {
			d = 1
		}
		return fault("wrongcorr", true, vfref.Frame(r.Corr+d, r.hv, body))
	case "wrongcorr-bare":
		// a well-formed header with a foreign correlation id and nothing after it
		d := int32(beh.Arg)
		if d == 0 {
			d = 1
		}
		return fault("wrongcorr-bare", true, vfref.Frame(r.Corr+d, r.hv, body)[:8+int(r.hv)])
	case "swap":
		// answer the next request first (its own correlation id and body), then this one
		s.mu.Lock()
		var next *vfc14Req
		for j := i + 1; j < len(s.reqs); j++ {
			if s.reqs[j].Expect {
				next = s.reqs[j]
				break
			}
		}
		s.mu.Unlock()
		if next == nil {
			return fault("wrongcorr", true, vfref.Frame(r.Corr+1, r.hv, body))
		}
		nb, err := vfc14ResponseBody(next.Key, next.Version, next.Token)
		if err != nil {
			nb = body
		}
		s.finish(r, "swap", true) // marks the fault before anything is sent
		s.finish(next, "swapped-early", true)
		_, _ = conn.Write(vfref.Frame(next.Corr, next.hv, nb))
		_, _ = conn.Write(frame)
		if !beh.KeepOpen {
			conn.Close()
			return true
		}
		return false
	case "truncate":
		k := int(int64(len(frame)) * beh.Arg / 1000)
		if k >= len(frame) {
			k = len(frame) - 1
		}
		if k < 0 {
			k = 0
		}
		return fault(fmt.Sprintf("truncate(%d/%d)", k, len(frame)), false, frame[:k])
	case "close":
		return fault("close", false)
	case "badlen":
		// header only: length field outside (4, MaxResponseSize]
		h := make([]byte, 8, 9)
		binary.BigEndian.PutUint32(h[0:], uint32(int32(beh.Arg)))
		binary.BigEndian.PutUint32(h[4:], uint32(r.Corr))
		if r.hv >= 1 {
			h = append(h, 0)
		}
		return fault(fmt.Sprintf("badlen(%d)", int32(beh.Arg)), true, h)
	case "garbage":
		// header only. header v1: valid length and correlation id, non-empty tagged fields;
		// header v0: pseudo-random bytes with a negative length field
		h := make([]byte, 8, 9)
		if r.hv >= 1 {
			binary.BigEndian.PutUint32(h[0:], uint32(len(frame)-4))
			binary.BigEndian.PutUint32(h[4:], uint32(r.Corr))
			h = append(h, byte(1+beh.Arg%127))
		} else {
			x := uint64(beh.Arg)*6364136223846793005 + 1442695040888963407
			binary.BigEndian.PutUint64(h, x)
			h[0] |= 0x80
		}
		return fault("garbage", true, h)
	case "silence":
		s.mu.Lock()
		s.silent = true
		s.mu.Unlock()
		s.finish(r, "silence", true)
		return false
	case "stallbody":
		// The intact header (right length, right correlation id) and part of the body; the connection stays open and the
		// server sends nothing until it has SEEN the call return - which it does with a timeout error once
		// Net.ReadTimeout is over, however late the client notices that. No wall-clock interval decides when the stall
		// ends: were it a sleep, a client slow to notice its timeout could still be inside the body read when the next
		// bytes arrive, and would rightly take them for the rest of this body. After the stall the rest of the body is
		// never sent: the script goes on with the next requests, i.e. complete, well-formed frames for the calls that
		// are outstanding or come later. A client that gave the connection up at the failed read fails them all; one
		// that reads on finds these frames exactly where it expects the next header.
		hl := 8 + int(r.hv)
		if len(frame) <= hl { // nothing to withhold (no response body of this harness is empty)
			return fault("close", false)
		}
		k := int(int64(len(frame)-hl) * beh.Arg / 1000)
		if k > len(frame)-hl-1 {
			k = len(frame) - hl - 1
		}
		if k < 0 {
			k = 0
		}
		st := vfc14Stall{Index: r.Index, Sent: k, Body: len(frame) - hl}
		s.mu.Lock()
		s.stalling = true
		s.mu.Unlock()
		s.finish(r, fmt.Sprintf("stallbody(%d/%d)", k, len(frame)-hl), true)
		st.StartSeq = s.run.seq()
		_, _ = conn.Write(frame[:hl+k])
		returned := s.run.waitReturned(r.Token, vfc14StallBound())
		s.mu.Lock()
		st.EndSeq = s.run.seq()
		st.PendingAtEnd = s.unanswered
		st.Outcome = "call-returned"
		if !returned {
			st.Outcome = "bound"
			s.note("stallbody at request %d: the call had not returned after %v; connection closed, nothing more sent", r.Index, vfc14StallBound())
		}
		s.stalls = append(s.stalls, st)
		s.stalling = false
		s.mu.Unlock()
		atomic.AddInt64(&s.run.progress, 1)
		if !returned {
			conn.Close()
			return true
		}
		return false
	}
	s.finish(r, "answer", false)
	_, _ = conn.Write(frame)
	return false
}

// vfc14ParseRequest is the server's own reader of the request envelope (Kafka protocol guide: request header
// v1 = api key, api version, correlation id, nullable client id; v2 adds a tagged-field section).
func vfc14ParseRequest(buf []byte) (*vfc14Req, error) {
	if len(buf) < 10 {
		return nil, fmt.Errorf("request of %d bytes", len(buf))
	}
	r := &vfc14Req{}
	r.Key = int16(binary.BigEndian.Uint16(buf[0:]))
	r.Version = int16(binary.BigEndian.Uint16(buf[2:]))
	r.Corr = int32(binary.BigEndian.Uint32(buf[4:]))
	cl := int(int16(binary.BigEndian.Uint16(buf[8:])))
	off := 10
	if cl >= 0 {
		if off+cl > len(buf) {
			return nil, fmt.Errorf("client id of %d bytes overruns the request", cl)
		}
		r.ClientID = string(buf[off : off+cl])
		off += cl
	}
	if r.Key == 9 && r.Version >= 6 { // flexible request: header v2
		if off >= len(buf) || buf[off] != 0 {
			return nil, fmt.Errorf("request header v2 without an empty tagged-field section")
		}
		off++
	}
	r.hv = vfc14HeaderVersion(r.Key, r.Version)
	payload := buf[off:]
	r.Expect = true
	switch r.Key {
	case 0: // Produce: own reader (the topic map of the snapshot type is not exported)
		p := payload
		if r.Version >= 3 {
			if len(p) < 2 {
				return nil, errors.New("produce request too short")
			}
			tl := int(int16(binary.BigEndian.Uint16(p)))
			p = p[2:]
			if tl > 0 {
				if tl > len(p) {
					return nil, errors.New("produce request: transactional id overruns")
				}
				p = p[tl:]
			}
		}
		if len(p) < 12 {
			return nil, errors.New("produce request too short")
		}
		acks := int16(binary.BigEndian.Uint16(p))
		ntopics := int32(binary.BigEndian.Uint32(p[6:]))
		if ntopics != 1 {
			return nil, fmt.Errorf("produce request with %d topics", ntopics)
		}
		tl := int(int16(binary.BigEndian.Uint16(p[10:])))
		if tl < 0 || 12+tl > len(p) {
			return nil, errors.New("produce request: topic overruns")
		}
		r.Token = string(p[12 : 12+tl])
		r.Expect = acks != 0
		if _, err := vfref.DecodeRequestBody(r.Key, r.Version, payload); err != nil {
			return nil, fmt.Errorf("produce request does not decode: %v", err)
		}
	case 3, 9, 10, 12:
		b, err := vfref.DecodeRequestBody(r.Key, r.Version, payload)
		if err != nil {
			return nil, fmt.Errorf("request key %d v%d does not decode: %v", r.Key, r.Version, err)
		}
		switch q := b.(type) {
		case *vfref.MetadataRequest:
			if len(q.Topics) != 1 {
				return nil, fmt.Errorf("metadata request with %d topics", len(q.Topics))
			}
			r.Token = q.Topics[0]
		case *vfref.OffsetFetchRequest:
			r.Token = q.ConsumerGroup
		case *vfref.FindCoordinatorRequest:
			r.Token = q.CoordinatorKey
		case *vfref.ConsumerMetadataRequest:
			r.Token = q.ConsumerGroup
		case *vfref.HeartbeatRequest:
			r.Token = q.GroupId
		default:
			return nil, fmt.Errorf("unexpected request type %T", b)
		}
	default:
		return nil, fmt.Errorf("unexpected api key %d", r.Key)
	}
	if !strings.HasPrefix(r.Token, "tok-") {
		return nil, fmt.Errorf("request without a token (%q)", r.Token)
	}
	return r, nil
}

func vfc14ResponseBody(key, version int16, tok string) ([]byte, error) {
	switch key {
	case 0:
		return vfref.EncodeBody(&vfref.ProduceResponse{Version: version,
			Blocks: map[string]map[int32]*vfref.ProduceResponseBlock{tok: {0: {Offset: 42}}}})
	case 3:
		return vfref.EncodeBody(&vfref.MetadataResponse{Version: version, ControllerID: 1,
			Topics: []*vfref.TopicMetadata{{Name: tok}}})
	case 9:
		return vfref.EncodeBody(&vfref.OffsetFetchResponse{Version: version,
			Blocks: map[string]map[int32]*vfref.OffsetFetchResponseBlock{tok: {0: {Offset: 7, Metadata: tok}}}})
	case 10:
		resp := &vfref.FindCoordinatorResponse{Version: version, Coordinator: vfref.NewBroker(tok + ":9092")}
		if version >= 1 {
			m := tok
			resp.ErrMsg = &m
		}
		return vfref.EncodeBody(resp)
	case 12:
		return vfref.EncodeBody(&vfref.HeartbeatResponse{Err: vfref.KError(vfc14TokenCode(tok))})
	}
	return nil, fmt.Errorf("no response for api key %d", key)
}

// ---------------------------------------------------------------------------------------------------------
// execution

type vfc14Exec struct {
	c        *vfc14Case
	srv      *vfc14Server
	seqCtr   int64
	progress int64
	// per caller: ((call number + 1) << 2) | phase; phase 0 between calls, 1 in a call, 2 in a call whose request
	// (expecting a response) the server has received; the plain value 3 = finished, 0 = not started
	state  []int32
	calls  [][]vfc14CallRec
	pmu    sync.Mutex
	panics []string
}

func (x *vfc14Exec) seq() int64 { return atomic.AddInt64(&x.seqCtr, 1) }

func (x *vfc14Exec) tokenCall(tok string) (g, n int, ok bool) {
	p := strings.Split(tok, "-")
	if len(p) != 3 {
		return 0, 0, false
	}
	g, e1 := strconv.Atoi(p[1])
	n, e2 := strconv.Atoi(p[2])
	if e1 != nil || e2 != nil || g < 0 || g >= len(x.state) || n < 0 || n >= len(x.calls[g]) {
		return 0, 0, false
	}
	return g, n, true
}

func (x *vfc14Exec) markReceived(tok string) {
	if g, n, ok := x.tokenCall(tok); ok {
		atomic.CompareAndSwapInt32(&x.state[g], int32((n+1)<<2|1), int32((n+1)<<2|2))
	}
}

// returned: call n of caller g has come back to its caller (its record is complete).
func (x *vfc14Exec) returned(g, n int) bool {
	st := atomic.LoadInt32(&x.state[g])
	return st == 3 || int(st>>2) > n+1 || (int(st>>2) == n+1 && st&3 == 0)
}

// vfc14StallBound bounds the wait of a stallbody request for its call (which needs Net.ReadTimeout <= 500 ms to
// return). It only keeps a stuck case from blocking the run: a stall that ends this way is not judged.
func vfc14StallBound() time.Duration {
	return time.Duration(vfcore.EnvInt("VF_C14_STALL_BOUND_MS", 20000)) * time.Millisecond
}

// waitReturned blocks until the call that carries tok has returned; false if it has not within bound.
func (x *vfc14Exec) waitReturned(tok string, bound time.Duration) bool {
	g, n, ok := x.tokenCall(tok)
	if !ok {
		return false
	}
	start := time.Now()
	for !x.returned(g, n) {
		if time.Since(start) > bound {
			return false
		}
		time.Sleep(100 * time.Microsecond)
	}
	return true
}

// clientCannotSend: every caller is finished or waits for the answer to a request the server already has.
func (x *vfc14Exec) clientCannotSend() bool {
	for i := range x.state {
		if ph := atomic.LoadInt32(&x.state[i]) & 3; ph != 2 && ph != 3 {
			return false
		}
	}
	return true
}

func (x *vfc14Exec) addPanic(s string) {
	x.pmu.Lock()
	x.panics = append(x.panics, s)
	x.pmu.Unlock()
	atomic.AddInt64(&x.progress, 1)
}

func (x *vfc14Exec) panicList() []string {
	x.pmu.Lock()
	defer x.pmu.Unlock()
	return append([]string(nil), x.panics...)
}

func vfc14Tq() time.Duration {
	if ms := vfcore.EnvInt("VF_TQ_MS", 0); ms > 0 {
		return time.Duration(ms) * time.Millisecond
	}
	if vfcore.Tier() == "thorough" {
		return 8 * time.Second
	}
	return 5 * time.Second
}

// wait blocks until done is closed. It gives up only if the server owes nothing on any request it has received
// and neither the server nor any caller has made a step for Tq (or a panic was caught, or after an absolute cap).
func (x *vfc14Exec) wait(done <-chan struct{}) string {
	tq := vfc14Tq()
	last := int64(-1)
	lastChange := time.Now()
	start := time.Now()
	tick := time.NewTicker(2 * time.Millisecond)
	defer tick.Stop()
	for {
		select {
		case <-done:
			return ""
		case <-tick.C:
		}
		if len(x.panicList()) > 0 {
			// a sarama goroutine died: give the rest a moment, then stop waiting for what can no longer happen
			select {
			case <-done:
				return ""
			case <-time.After(50 * time.Millisecond):
			}
			return "panic"
		}
		p := atomic.LoadInt64(&x.progress)
		if p != last || x.srv.busy() {
			last = p
			lastChange = time.Now()
		}
		if time.Since(lastChange) > tq {
			return fmt.Sprintf("nothing pending at the server and no step for %v", tq)
		}
		if time.Since(start) > 120*time.Second {
			return "case still running after 120 s"
		}
	}
}

func vfc14Invoke(b *Broker, cl vfc14Call, tok string, rec *vfc14CallRec) {
	defer func() {
		if v := recover(); v != nil {
			rec.Panic = vfcore.PanicSite(v, "github.com/Shopify/sarama.", "vf", "TestVF") + ": " + fmt.Sprint(v)
		}
	}()
	var err error
	got := ""
	has := false
	switch cl.Kind {
	case "metadata":
		var resp *MetadataResponse
		resp, err = b.GetMetadata(&MetadataRequest{Version: cl.Version, Topics: []string{tok}, AllowAutoTopicCreation: cl.Version >= 4})
		if resp != nil {
			has = true
			if len(resp.Topics) == 1 {
				got = resp.Topics[0].Name
			} else {
				got = fmt.Sprintf("?%d topics", len(resp.Topics))
			}
		}
	case "findcoord":
		var resp *FindCoordinatorResponse
		resp, err = b.FindCoordinator(&FindCoordinatorRequest{Version: cl.Version, CoordinatorKey: tok, CoordinatorType: CoordinatorGroup})
		if resp != nil {
			has = true
			if resp.Coordinator != nil {
				got = strings.TrimSuffix(resp.Coordinator.Addr(), ":9092")
			} else {
				got = "?no coordinator"
			}
			if cl.Version >= 1 && (resp.ErrMsg == nil || *resp.ErrMsg != got) {
				got = "?error message differs from coordinator host " + got
			}
		}
	case "consmeta":
		var resp *ConsumerMetadataResponse
		resp, err = b.GetConsumerMetadata(&ConsumerMetadataRequest{ConsumerGroup: tok})
		if resp != nil {
			has = true
			got = resp.CoordinatorHost
		}
	case "heartbeat":
		var resp *HeartbeatResponse
		resp, err = b.Heartbeat(&HeartbeatRequest{GroupId: tok, GenerationId: 1, MemberId: "m"})
		if resp != nil {
			has = true
			if int16(resp.Err) == vfc14TokenCode(tok) {
				got = tok
			} else {
				got = fmt.Sprintf("?code %d", int16(resp.Err))
			}
		}
	case "offsetfetch":
		req := &OffsetFetchRequest{Version: cl.Version, ConsumerGroup: tok}
		req.AddPartition(tok, 0)
		var resp *OffsetFetchResponse
		resp, err = b.FetchOffset(req)
		if resp != nil {
			has = true
			got = "?no block"
			if len(resp.Blocks) == 1 {
				for topic, parts := range resp.Blocks {
					if blk := parts[0]; blk != nil && len(parts) == 1 && blk.Metadata == topic && blk.Offset == 7 {
						got = topic
					}
				}
			}
		}
	case "produce", "produce-noack":
		req := &ProduceRequest{Version: cl.Version, RequiredAcks: WaitForLocal, Timeout: 1000}
		if cl.Kind == "produce-noack" {
			req.RequiredAcks = NoResponse
		}
		if cl.Version >= 3 {
			ts := time.Unix(1600000000, 0)
			req.AddBatch(tok, 0, &RecordBatch{Version: 2, FirstTimestamp: ts, MaxTimestamp: ts, ProducerID: -1, ProducerEpoch: -1,
				Records: []*Record{{Value: []byte("v")}}})
		} else {
			req.AddMessage(tok, 0, &Message{Value: []byte("v")})
		}
		var resp *ProduceResponse
		resp, err = b.Produce(req)
		if resp != nil {
			has = true
			got = "?no block"
			if len(resp.Blocks) == 1 {
				for topic, parts := range resp.Blocks {
					if blk := parts[0]; blk != nil && len(parts) == 1 && blk.Offset == 42 {
						got = topic
					}
				}
			}
		}
	}
	rec.HasResp = has
	rec.Got = got
	if err != nil {
		rec.Err = fmt.Sprintf("%T: %v", err, err)
		var ne net.Error
		if errors.As(err, &ne) && ne.Timeout() {
			rec.Timeout = true
		}
	}
	rec.Returned = true
}

func vfc14Execute(c *vfc14Case) *vfc14History {
	x := &vfc14Exec{c: c}
	x.state = make([]int32, len(c.Callers))
	x.calls = make([][]vfc14CallRec, len(c.Callers))
	for g, calls := range c.Callers {
		x.calls[g] = make([]vfc14CallRec, len(calls))
		for n, cl := range calls {
			x.calls[g][n] = vfc14CallRec{Caller: g, N: n, Kind: cl.Kind, Version: cl.Version, Token: vfc14Token(g, n)}
		}
	}
	srv := vfc14NewServer(c, x)
	x.srv = srv
	const addr = "vfc14-broker:9092"
	vnet := newVfNet()
	vnet.listen(addr, srv.accept)

	oldPH := PanicHandler
	PanicHandler = func(v interface{}) {
		x.addPanic(vfcore.PanicSite(v, "github.com/Shopify/sarama.", "vf", "TestVF", "withRecover") + ": " + fmt.Sprint(v))
	}
	defer func() { PanicHandler = oldPH }()

	conf := NewConfig()
	conf.ClientID = "vfc14"
	conf.Version = V2_5_0_0
	conf.Net.Proxy.Enable = true
	conf.Net.Proxy.Dialer = vnet
	conf.Net.MaxOpenRequests = c.MaxOpen
	conf.Net.ReadTimeout = time.Duration(c.ReadTimeoutMs) * time.Millisecond
	conf.Net.WriteTimeout = time.Second
	conf.Net.DialTimeout = time.Second

	h := &vfc14History{FirstFault: -1}
	b := NewBroker(addr)
	if err := b.Open(conf); err != nil {
		h.Hang = "Open: " + err.Error()
		return h
	}
	if c.WaitConnected {
		if ok, err := b.Connected(); !ok {
			h.Hang = fmt.Sprintf("Connected() = false, %v", err)
			return h
		}
	}

	var wg sync.WaitGroup
	for g := range c.Callers {
		wg.Add(1)
		go func(g int) {
			defer wg.Done()
			for n, cl := range c.Callers[g] {
				if cl.DelayUs > 0 {
					time.Sleep(time.Duration(cl.DelayUs) * time.Microsecond)
				}
				rec := &x.calls[g][n]
				rec.StartSeq = x.seq()
				atomic.StoreInt32(&x.state[g], int32((n+1)<<2|1))
				vfc14Invoke(b, cl, rec.Token, rec)
				rec.EndSeq = x.seq()
				atomic.StoreInt32(&x.state[g], int32((n+1)<<2|0))
				atomic.AddInt64(&x.progress, 1)
			}
			atomic.StoreInt32(&x.state[g], 3)
		}(g)
	}
	callersDone := make(chan struct{})
	go func() { wg.Wait(); close(callersDone) }()

	closeOnce := func(errp *string) <-chan struct{} {
		ch := make(chan struct{})
		go func() {
			defer close(ch)
			defer func() {
				if v := recover(); v != nil {
					x.addPanic(vfcore.PanicSite(v, "github.com/Shopify/sarama.", "vf", "TestVF") + ": " + fmt.Sprint(v))
				}
			}()
			err := b.Close()
			if err != nil {
				*errp = err.Error()
			} else {
				*errp = "nil"
			}
			atomic.AddInt64(&x.progress, 1)
		}()
		return ch
	}

	var racerDone <-chan struct{}
	if c.Close != nil {
		// scheduling aid: wait for the drawn number of requests, but not beyond the point where the client is idle
		t0 := time.Now()
		for srv.received() < c.Close.AfterReceived {
			stop := false
			select {
			case <-callersDone:
				stop = true
			default:
			}
			if stop || x.clientCannotSend() || (srv.sinceLastRecv() > srv.idle && time.Since(t0) > srv.idle) {
				break
			}
			time.Sleep(50 * time.Microsecond)
		}
		if c.Close.DelayUs > 0 {
			time.Sleep(time.Duration(c.Close.DelayUs) * time.Microsecond)
		}
		srv.mu.Lock()
		h.PendingAtClose = srv.unanswered
		srv.mu.Unlock()
		h.CloseCalled = true
		racerDone = closeOnce(&h.CloseErr)
	}

	fail := func(what, why string) *vfc14History {
		h.Hang = what + ": " + why
		h.Stacks = vfcore.Stacks()
		x.collect(h)
		if srv.conn != nil {
			srv.conn.Close()
		}
		return h
	}
	if why := x.wait(callersDone); why != "" {
		return fail("calls did not return", why)
	}
	if racerDone != nil {
		if why := x.wait(racerDone); why != "" {
			return fail("Close (racing with the calls) did not return", why)
		}
		if why := x.wait(closeOnce(&h.SecondClose)); why != "" {
			return fail("second Close did not return", why)
		}
	} else {
		if why := x.wait(closeOnce(&h.CloseErr)); why != "" {
			return fail("Close did not return", why)
		}
		if why := x.wait(closeOnce(&h.SecondClose)); why != "" {
			return fail("second Close did not return", why)
		}
	}
	// the client has closed its end: the server reads what is still in flight, sees the end of the stream, and both of
	// its goroutines end on their own (closing the server end first would discard requests not yet read)
	srvDone := make(chan struct{})
	go func() { srv.wg.Wait(); close(srvDone) }()
	select {
	case <-srvDone:
	case <-time.After(10 * time.Second):
		srv.note("server goroutines still running 10 s after the client closed (harness)")
	}
	if srv.conn != nil {
		srv.conn.Close()
	}
	x.collect(h)
	return h
}

func (x *vfc14Exec) collect(h *vfc14History) {
	s := x.srv
	s.mu.Lock()
	for _, r := range s.reqs {
		h.Requests = append(h.Requests, *r)
	}
	h.HighWater = s.high
	h.FirstFault = s.firstFault
	h.DepthAtFault = s.depthAtFault
	h.Stalls = append(h.Stalls, s.stalls...)
	h.ServerNotes = append(h.ServerNotes, s.notes...)
	if s.wireViolation != "" {
		h.ServerNotes = append(h.ServerNotes, "wire-violation: "+s.wireViolation)
	}
	if s.dupCorr != "" {
		h.ServerNotes = append(h.ServerNotes, "duplicate-correlation-id: "+s.dupCorr)
	}
	s.mu.Unlock()
	for g := range x.calls {
		for n := range x.calls[g] {
			// a call that never returned may still be written by its goroutine: copy what is safe
			r := &x.calls[g][n]
			if x.returned(g, n) {
				h.Calls = append(h.Calls, *r)
			} else {
				h.Calls = append(h.Calls, vfc14CallRec{Caller: g, N: n, Kind: r.Kind, Version: r.Version, Token: r.Token})
			}
		}
	}
	h.Panics = x.panicList()
}

// ---------------------------------------------------------------------------------------------------------
// oracle (a pure function of the recorded history and the case)

func vfc14Judge(c *vfc14Case, h *vfc14History) *vfcore.Failure {
	fail := func(sym, f string, a ...interface{}) *vfcore.Failure {
		return &vfcore.Failure{Symptom: sym, Message: fmt.Sprintf(f, a...), History: h}
	}
	if len(h.Panics) > 0 {
		site := h.Panics[0]
		if i := strings.Index(site, ": "); i > 0 {
			site = site[:i]
		}
		return fail(site, "panic in a sarama goroutine (PanicHandler): %v", h.Panics)
	}
	for _, cl := range h.Calls {
		if cl.Panic != "" {
			site := cl.Panic
			if i := strings.Index(site, ": "); i > 0 {
				site = site[:i]
			}
			return fail(site, "call %s (%s) panicked: %s", cl.Token, cl.Kind, cl.Panic)
		}
	}
	if h.Hang != "" {
		return fail("hang", "%s", h.Hang)
	}
	for _, n := range h.ServerNotes {
		if strings.HasPrefix(n, "wire-violation: ") {
			return fail("client-wire-violation", "%s", n)
		}
		if strings.HasPrefix(n, "duplicate-correlation-id: ") {
			return fail("duplicate-correlation-id", "%s", n)
		}
	}
	if h.SecondClose == "" {
		return fail("hang", "second Close left no result")
	}
	byToken := map[string]int{}
	for i, r := range h.Requests {
		if _, dup := byToken[r.Token]; dup {
			return fail("request-sent-twice", "token %s reached the server twice (requests %d and %d)", r.Token, byToken[r.Token], i)
		}
		byToken[r.Token] = i
	}
	ff := h.FirstFault
	// a stall that ended at its bound (the call was not seen to return in time; the connection was closed and nothing
	// more sent) decides nothing: the first-fault clause is not judged when it is the first fault
	stallUnjudged := false
	for _, st := range h.Stalls {
		if st.Outcome != "call-returned" && st.Index == ff {
			stallUnjudged = true
		}
	}
	unexpectedTimeout := false
	for _, cl := range h.Calls {
		if !cl.Returned {
			return fail("hang", "call %s has no result although every caller finished", cl.Token)
		}
		idx, recvd := byToken[cl.Token]
		if cl.Timeout && recvd && !(ff >= 0 && idx >= ff) {
			// a read timeout that the script did not cause (a hold outlasted Net.ReadTimeout on a loaded machine): the
			// client gave the connection up on its own, so the completeness clause below is not judged (the occupancy
			// clause protects itself: it only looks at the history up to the last answer that came back).
			// Only calls whose request the server received are looked at: the read that times out first belongs to a
			// request that was written, and the server reads everything written until it closes its end at a fault;
			// a call whose request got lost that way merely inherits the error of the connection, which after a silence
			// or a stalled body IS a timeout.
			unexpectedTimeout = true
		}
		if cl.Kind == "produce-noack" {
			if cl.HasResp {
				return fail("phantom-response", "acks=0 produce %s returned a response", cl.Token)
			}
			continue
		}
		if !cl.HasResp {
			if cl.Err == "" {
				return fail("neither-response-nor-error", "call %s (%s) returned neither a response nor an error", cl.Token, cl.Kind)
			}
			continue
		}
		if cl.Err != "" {
			return fail("response-and-error", "call %s returned a response and the error %s", cl.Token, cl.Err)
		}
		if cl.Got != cl.Token {
			return fail("foreign-response", "call %s (%s v%d) returned a response carrying %q", cl.Token, cl.Kind, cl.Version, cl.Got)
		}
		if !recvd {
			return fail("phantom-response", "call %s returned a response but the server never received its request", cl.Token)
		}
		r := h.Requests[idx]
		if ff >= 0 && idx >= ff && stallUnjudged {
			continue
		}
		if ff >= 0 && idx >= ff {
			// sticky failure: the first fault of the connection (for a stalled body: the read that timed out in the middle
			// of the body) fails the call it hits, every call outstanding then and every later call
			when := ""
			for _, st := range h.Stalls {
				if st.Index == ff && idx > ff && r.Seq < st.EndSeq {
					when = "; the request was outstanding when the stalled call returned its error, the response was sent after that"
				} else if st.Index == ff && idx > ff {
					when = "; the request was sent after the stalled call had returned its error"
				}
			}
			return fail("success-after-fault", "call %s (request %d, server: %q) returned a response although the connection faulted at request %d (server: %q)%s",
				cl.Token, idx, r.Beh, ff, h.Requests[ff].Beh, when)
		}
		if r.Beh == "shortbody" {
			return fail("undecodable-body-delivered", "call %s returned a response although the server sent a one-byte body", cl.Token)
		}
		if r.Beh != "answer" {
			return fail("phantom-response", "call %s returned a response but the server's action for request %d was %q", cl.Token, idx, r.Beh)
		}
	}
	if stallUnjudged {
		h.Partial = "stalled body: the call was not seen to return within the bound: first-fault clause not judged"
	}
	if unexpectedTimeout {
		if h.Partial != "" {
			h.Partial += "; "
		}
		h.Partial += "unexpected read timeout: spurious-error not judged"
	} else {
		for _, cl := range h.Calls {
			idx, recvd := byToken[cl.Token]
			if cl.Err == "" || !recvd || cl.Kind == "produce-noack" {
				continue
			}
			if r := h.Requests[idx]; r.Beh == "answer" && (ff < 0 || idx < ff) {
				return fail("spurious-error", "call %s (request %d) was answered correctly before any fault of the connection, yet it returned %s", cl.Token, idx, cl.Err)
			}
		}
	}
	// Wire occupancy, judged LAST: its symptom max+1 is a known finding (KF-C14-1) that about half of all cases show, and
	// a failure returned by an earlier clause can then never be hidden behind it.
	// The limit binds the client only while it serves the connection: once its receive loop has given the connection up
	// (also on a read timeout of its own, which a loaded machine can produce before the server gets to act) the callers
	// write without limit. So the mark is taken over that part of the history in which the client provably still served
	// the connection: up to the last correct answer that a call returned as its response (the answer's bytes left after
	// BehSeq, the receive loop read them, and giving up is final).
	proven := int64(0)
	for _, cl := range h.Calls {
		if idx, recvd := byToken[cl.Token]; recvd && cl.HasResp && cl.Err == "" && h.Requests[idx].Beh == "answer" && h.Requests[idx].BehSeq > proven {
			proven = h.Requests[idx].BehSeq
		}
	}
	type event struct {
		seq int64
		d   int
	}
	var evs []event
	for _, q := range h.Requests {
		if !q.Expect {
			continue
		}
		if q.Seq < proven {
			evs = append(evs, event{q.Seq, +1})
		}
		if q.Beh != "" && q.BehSeq < proven {
			evs = append(evs, event{q.BehSeq, -1})
		}
	}
	sort.Slice(evs, func(i, j int) bool { return evs[i].seq < evs[j].seq })
	cur := 0
	for _, e := range evs {
		cur += e.d
		if cur > h.ProvenHighWater {
			h.ProvenHighWater = cur
		}
	}
	if h.ProvenHighWater > c.MaxOpen {
		sym := "wire-occupancy:>max+1"
		if h.ProvenHighWater == c.MaxOpen+1 {
			sym = "wire-occupancy:max+1"
		}
		return fail(sym, "the server held %d received, unanswered requests that expect a response while the client still served the connection (it returned an answer sent later); Net.MaxOpenRequests = %d",
			h.ProvenHighWater, c.MaxOpen)
	}
	return nil
}

func vfc14Run(ci interface{}, r *vfcore.Rec) *vfcore.Failure {
	c := ci.(*vfc14Case)
	if !c.valid() {
		r.Discard()
		return nil
	}
	h := vfc14Execute(c)
	// coverage facts
	r.Classf("max_open=%d", c.MaxOpen)
	depth := h.HighWater
	if depth > 7 {
		depth = 7
	}
	r.Classf("overlap_depth=%d", depth)
	behs := map[string]bool{}
	for _, q := range h.Requests {
		b := q.Beh
		if i := strings.IndexAny(b, "(+"); i > 0 {
			b = b[:i]
		}
		if b == "" {
			b = "unhandled"
		}
		behs["beh="+b] = true
		if q.hv == 1 {
			behs["header_v1"] = true
		}
	}
	hv0, hv1 := false, false
	for _, q := range h.Requests {
		if q.Expect && q.hv == 1 {
			hv1 = true
		} else if q.Expect {
			hv0 = true
		}
	}
	if hv0 && hv1 {
		behs["both_header_versions"] = true
	}
	names := make([]string, 0, len(behs))
	for k := range behs {
		names = append(names, k)
	}
	sort.Strings(names)
	for _, k := range names {
		r.Class(k)
	}
	if h.FirstFault >= 0 {
		fd := h.DepthAtFault
		if fd > 7 {
			fd = 7
		}
		r.Classf("pending_at_fault=%d", fd)
	} else {
		r.Class("no_fault")
	}
	if h.CloseCalled {
		if h.PendingAtClose > 0 {
			r.Class("close_race:requests_pending")
		} else {
			r.Class("close_race:nothing_pending")
		}
	}
	nerr, nok, nto := int64(0), int64(0), false
	for _, cl := range h.Calls {
		if cl.HasResp {
			nok++
		} else if cl.Err != "" {
			nerr++
		}
		if cl.Timeout {
			nto = true
		}
	}
	if nto {
		r.Class("read_timeout_seen")
	}
	r.Count("calls", int64(len(h.Calls)))
	r.Count("calls_ok", nok)
	r.Count("calls_error", nerr)
	r.Count("requests_received", int64(len(h.Requests)))
	if h.HighWater >= 2 || (h.FirstFault >= 0 && h.DepthAtFault >= 2) {
		r.NonTrivial("")
	}
	// stalled bodies: did the stall take place as scripted (first fault of the connection, the call seen to fail by
	// timeout before the server went on), and what could a client that read on have found afterwards?
	callByToken := map[string]*vfc14CallRec{}
	for i := range h.Calls {
		callByToken[h.Calls[i].Token] = &h.Calls[i]
	}
	for _, st := range h.Stalls {
		if st.Outcome != "call-returned" {
			r.Class("partially_judged:stall_bound")
			continue
		}
		if st.Index != h.FirstFault || st.Index >= len(h.Requests) {
			r.Class("stallbody:after_earlier_fault")
			continue
		}
		cl := callByToken[h.Requests[st.Index].Token]
		if cl == nil || !cl.Returned || !cl.Timeout {
			r.Class("stallbody:call_failed_otherwise")
			continue
		}
		r.Class("stallbody:timeout_seen")
		later := false
		for _, q := range h.Requests {
			if q.Expect && q.Seq > st.EndSeq {
				later = true
			}
		}
		switch {
		case st.PendingAtEnd > 0 && later:
			r.Class("stallbody:timeout_seen:calls_outstanding+later_calls")
		case st.PendingAtEnd > 0:
			r.Class("stallbody:timeout_seen:calls_outstanding")
		case later:
			r.Class("stallbody:timeout_seen:later_calls_only")
		default:
			r.Class("stallbody:timeout_seen:last_call")
		}
		if st.PendingAtEnd > 0 && c.MaxOpen >= 2 {
			r.Class("stallbody:timeout_seen:max_open>=2,calls_outstanding")
		}
		if h.CloseCalled {
			r.Class("stallbody:timeout_seen:with_close_race")
		}
	}
	f := vfc14Judge(c, h)
	if strings.Contains(h.Partial, "unexpected read timeout") {
		r.Class("partially_judged:unexpected_read_timeout")
	}
	if h.ProvenHighWater > c.MaxOpen {
		r.Class("occupancy>max")
	}
	if h.HighWater > h.ProvenHighWater && h.HighWater > c.MaxOpen && h.ProvenHighWater <= c.MaxOpen {
		r.Class("occupancy>max:not_judged(no_answer_returned_after_it)")
	}
	return f
}

func TestVF_C14(t *testing.T) {
	vfcore.Main(t, vfcore.Spec{
		ID:  "C14",
		New: func() interface{} { return &vfc14Case{} },
		Gen: func(t *rapid.T) interface{} { return vfc14GenCase(t) },
		Run: vfc14Run,
	})
}
