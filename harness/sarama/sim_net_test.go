//go:build go1.18 && verif

package sarama

// In-memory network for the simulated cluster: Config.Net.Proxy.Dialer is a public hook, so
// clients, brokers, producers and consumers talk to the simulator over vfConn pairs. No sockets,
// no ports, no kernel timing. Writes are buffered (like TCP) so Broker.write never rendezvouses
// with the server; read deadlines are honoured because Broker.readFull relies on them.

import (
	"errors"
	"io"
	"net"
	"sync"
	"time"
)

type vfTimeoutErr struct{}

func (vfTimeoutErr) Error() string   { return "vfnet: i/o timeout" }
func (vfTimeoutErr) Timeout() bool   { return true }
func (vfTimeoutErr) Temporary() bool { return true }

var vfErrClosedPipe = errors.New("vfnet: use of closed connection")
var vfErrRefused = errors.New("vfnet: connection refused")

type vfAddr string

func (a vfAddr) Network() string { return "vfnet" }
func (a vfAddr) String() string  { return string(a) }

// one direction of a connection
type vfHalf struct {
	mu       sync.Mutex
	cond     *sync.Cond
	buf      []byte
	wclosed  bool // writer side closed: reader gets EOF after draining
	rclosed  bool // reader side closed: reads fail immediately
	deadline time.Time
	timer    *time.Timer
}

func newVfHalf() *vfHalf {
	h := &vfHalf{}
	h.cond = sync.NewCond(&h.mu)
	return h
}

func (h *vfHalf) read(p []byte) (int, error) {
	h.mu.Lock()
	defer h.mu.Unlock()
	for {
		if h.rclosed {
			return 0, vfErrClosedPipe
		}
		if len(h.buf) > 0 {
			n := copy(p, h.buf)
			h.buf = h.buf[n:]
			return n, nil
		}
		if h.wclosed {
			return 0, io.EOF
		}
		if !h.deadline.IsZero() && !time.Now().Before(h.deadline) {
			return 0, vfTimeoutErr{}
		}
		h.cond.Wait()
	}
}

func (h *vfHalf) setDeadline(t time.Time) {
	h.mu.Lock()
	defer h.mu.Unlock()
	h.deadline = t
	if h.timer != nil {
		h.timer.Stop()
		h.timer = nil
	}
	if !t.IsZero() {
		d := time.Until(t)
		if d < 0 {
			d = 0
		}
		h.timer = time.AfterFunc(d+time.Millisecond, func() {
			h.mu.Lock()
			h.cond.Broadcast()
			h.mu.Unlock()
		})
	}
	h.cond.Broadcast()
}

func (h *vfHalf) write(p []byte) (int, error) {
	h.mu.Lock()
	defer h.mu.Unlock()
	if h.wclosed {
		return 0, vfErrClosedPipe
	}
	if h.rclosed {
		// peer is gone: like TCP, the bytes are accepted and dropped
		return len(p), nil
	}
	h.buf = append(h.buf, p...)
	h.cond.Broadcast()
	return len(p), nil
}

func (h *vfHalf) closeWrite() {
	h.mu.Lock()
	h.wclosed = true
	h.cond.Broadcast()
	h.mu.Unlock()
}

func (h *vfHalf) closeRead() {
	h.mu.Lock()
	h.rclosed = true
	h.buf = nil
	if h.timer != nil {
		h.timer.Stop()
		h.timer = nil
	}
	h.cond.Broadcast()
	h.mu.Unlock()
}

type vfConn struct {
	in, out *vfHalf
	local   vfAddr
	remote  vfAddr
	once    sync.Once
	onClose func()
}

func vfPipe(clientAddr, serverAddr string) (client, server *vfConn) {
	a, b := newVfHalf(), newVfHalf()
	client = &vfConn{in: a, out: b, local: vfAddr(clientAddr), remote: vfAddr(serverAddr)}
	server = &vfConn{in: b, out: a, local: vfAddr(serverAddr), remote: vfAddr(clientAddr)}
	return
}

func (c *vfConn) Read(p []byte) (int, error)  { return c.in.read(p) }
func (c *vfConn) Write(p []byte) (int, error) { return c.out.write(p) }
func (c *vfConn) Close() error {
	c.once.Do(func() {
		c.out.closeWrite()
		c.in.closeRead()
		if c.onClose != nil {
			c.onClose()
		}
	})
	return nil
}
// peerClosed reports whether the other end has closed the connection.
func (c *vfConn) peerClosed() bool {
	c.in.mu.Lock()
	defer c.in.mu.Unlock()
	return c.in.wclosed
}

func (c *vfConn) LocalAddr() net.Addr                { return c.local }
func (c *vfConn) RemoteAddr() net.Addr               { return c.remote }
func (c *vfConn) SetDeadline(t time.Time) error      { c.in.setDeadline(t); return nil }
func (c *vfConn) SetReadDeadline(t time.Time) error  { c.in.setDeadline(t); return nil }
func (c *vfConn) SetWriteDeadline(t time.Time) error { return nil }

// vfNet routes Dial calls to listeners registered by address.
type vfNet struct {
	mu        sync.Mutex
	listeners map[string]func(server *vfConn)
	refuse    map[string]bool
	dials     map[string]int
	nextPort  int
	onDial    func(addr string, ok bool)
}

func newVfNet() *vfNet {
	return &vfNet{listeners: map[string]func(*vfConn){}, refuse: map[string]bool{}, dials: map[string]int{}, nextPort: 40000}
}

func (n *vfNet) listen(addr string, accept func(server *vfConn)) {
	n.mu.Lock()
	n.listeners[addr] = accept
	n.mu.Unlock()
}

func (n *vfNet) unlisten(addr string) {
	n.mu.Lock()
	delete(n.listeners, addr)
	n.mu.Unlock()
}

func (n *vfNet) setRefuse(addr string, refuse bool) {
	n.mu.Lock()
	n.refuse[addr] = refuse
	n.mu.Unlock()
}

// Dial implements proxy.Dialer.
func (n *vfNet) Dial(network, addr string) (net.Conn, error) {
	n.mu.Lock()
	accept := n.listeners[addr]
	refused := n.refuse[addr]
	n.dials[addr]++
	n.nextPort++
	port := n.nextPort
	cb := n.onDial
	n.mu.Unlock()
	ok := accept != nil && !refused
	if cb != nil {
		cb(addr, ok)
	}
	if !ok {
		return nil, &net.OpError{Op: "dial", Net: "vfnet", Addr: vfAddr(addr), Err: vfErrRefused}
	}
	client, server := vfPipe("client:"+itoa(port), addr)
	accept(server)
	return client, nil
}

func itoa(i int) string {
	if i == 0 {
		return "0"
	}
	neg := i < 0
	if neg {
		i = -i
	}
	var b [20]byte
	p := len(b)
	for i > 0 {
		p--
		b[p] = byte('0' + i%10)
		i /= 10
	}
	if neg {
		p--
		b[p] = '-'
	}
	return string(b[p:])
}
