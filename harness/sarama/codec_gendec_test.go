//go:build go1.18 && verif

package sarama

// C09 layer 2: the "generating decoder".  vfGenDec implements packetDecoder; every
// getter returns a drawn value AND appends that value's reference encoding (layer-1
// writer) to the byte log R, together with a field log.  Running body.decode(gen, v)
// therefore yields a value that is valid by construction for that type and version
// (version gates and unexported fields included) plus reference bytes written by an
// encoder that shares no code with sarama's.
//
// All draws flow through vfDraws, which is either backed by rapid (and then records a
// byte tape) or replays such a tape; a case is (type, version, tape), so it is plain
// data, replayable, and the same bytes drive the native fuzz target.

import (
	"errors"
	"math"
	"math/bits"
	"runtime"
	"strconv"
	"strings"
	"sync"

	"pgregory.net/rapid"
)

// ---------------------------------------------------------------- draw source

type vfDraws struct {
	t    *rapid.T // nil: replay seed
	seed []byte
	pos  int
	rec  []byte
}

// vfN returns a value in [0, max]. Replay consumes ceil(bitlen(max)/8) bytes (big
// endian, missing bytes read as zero) and reduces modulo max+1, so a recorded tape
// replays to exactly the recorded values and every byte string is a valid tape.
func (d *vfDraws) vfN(max uint64) uint64 {
	if max == 0 {
		return 0
	}
	k := (bits.Len64(max) + 7) / 8
	var v uint64
	if d.t != nil {
		v = rapid.Uint64Range(0, max).Draw(d.t, "d")
	} else {
		for i := 0; i < k; i++ {
			v <<= 8
			if d.pos < len(d.seed) {
				v |= uint64(d.seed[d.pos])
				d.pos++
			}
		}
		if max != math.MaxUint64 {
			v %= max + 1
		}
	}
	for i := k - 1; i >= 0; i-- {
		d.rec = append(d.rec, byte(v>>(8*uint(i))))
	}
	return v
}

func (d *vfDraws) vfIntn(n int) int { return int(d.vfN(uint64(n - 1))) } // [0,n)
func (d *vfDraws) vfBool() bool     { return d.vfN(1) == 1 }

// vfOneIn is true with probability about 1/n (and false on an exhausted tape).
func (d *vfDraws) vfOneIn(n int) bool { return d.vfN(uint64(n-1)) == uint64(n-1) && n > 0 }

func (d *vfDraws) vfInt8() int8 {
	switch d.vfN(7) {
	case 0:
		return 0
	case 1:
		return 1
	case 2:
		return -1
	case 3:
		return math.MaxInt8
	case 4:
		return math.MinInt8
	case 5:
		return int8(2 + d.vfN(10))
	}
	return int8(d.vfN(255))
}

func (d *vfDraws) vfInt16() int16 {
	switch d.vfN(8) {
	case 0:
		return 0
	case 1:
		return 1
	case 2:
		return -1
	case 3:
		return math.MaxInt16
	case 4:
		return math.MinInt16
	case 5:
		return int16(2 + d.vfN(100))
	case 6:
		return int16(255 + d.vfN(2)) // 255, 256, 257
	}
	return int16(d.vfN(math.MaxUint16))
}

func (d *vfDraws) vfInt32() int32 {
	switch d.vfN(8) {
	case 0:
		return 0
	case 1:
		return 1
	case 2:
		return -1
	case 3:
		return math.MaxInt32
	case 4:
		return math.MinInt32
	case 5:
		return int32(2 + d.vfN(100))
	case 6:
		return int32(65535 + d.vfN(2))
	}
	return int32(d.vfN(math.MaxUint32))
}

func (d *vfDraws) vfInt64() int64 {
	switch d.vfN(9) {
	case 0:
		return 0
	case 1:
		return 1
	case 2:
		return -1
	case 3:
		return math.MaxInt64
	case 4:
		return math.MinInt64
	case 5:
		return int64(2 + d.vfN(100))
	case 6:
		return int64(math.MaxInt32) + int64(d.vfN(2)) // 2^31-1 .. 2^31+1
	case 7:
		return int64(math.MaxUint32) + int64(d.vfN(2)) // 2^32-1 .. 2^32+1
	}
	return int64(d.vfN(math.MaxUint64))
}

// vfVarint draws zig-zag varint values around the 7-bit group boundaries.
func (d *vfDraws) vfVarint() int64 {
	switch d.vfN(7) {
	case 0:
		return 0
	case 1:
		return int64(d.vfN(4)) - 2 // -2..2
	case 2:
		return []int64{63, 64, -64, -65}[d.vfN(3)] // 1/2 byte boundary
	case 3:
		return []int64{8191, 8192, -8192, -8193}[d.vfN(3)] // 2/3 byte boundary
	case 4:
		return []int64{1<<20 - 1, 1 << 20, -(1 << 20), -(1 << 20) - 1}[d.vfN(3)] // 3/4
	case 5:
		return []int64{math.MaxInt32, math.MinInt32, math.MaxInt64, math.MinInt64}[d.vfN(3)]
	case 6:
		return int64(d.vfN(1<<14)) - (1 << 13)
	}
	return int64(d.vfN(math.MaxUint64))
}

func (d *vfDraws) vfUvarint() uint64 {
	switch d.vfN(5) {
	case 0:
		return 0
	case 1:
		return d.vfN(3)
	case 2:
		return 127 + d.vfN(1)
	case 3:
		return 16383 + d.vfN(1)
	case 4:
		return d.vfN(1 << 21)
	}
	return d.vfN(math.MaxUint64)
}

// The alphabet holds 1-, 2- and 3-byte UTF-8 runes (byte length != rune count) and
// the separators that appear in host names; '[' and ']' are left out because
// net.SplitHostPort strips them from broker addresses.
var vfAlphabet = []string{"a", "b", "z", "A", "Z", "0", "9", "-", "_", ".", ":", " ", "é", "日", "t"}

func (d *vfDraws) vfStringLen() int {
	switch d.vfN(9) {
	case 0, 1:
		return 0
	case 2, 3, 4, 5:
		return 1 + d.vfIntn(3)
	case 6, 7, 8:
		return 4 + d.vfIntn(9)
	}
	// long: crosses the one-byte compact length (127/128 bytes incl. the +1)
	return 120 + d.vfIntn(16)
}

func (d *vfDraws) vfString() string {
	n := d.vfStringLen()
	if n == 0 {
		return ""
	}
	var sb strings.Builder
	if n >= 120 {
		// long strings: one drawn rune repeated (cheap on the tape), exact byte length n
		c := vfAlphabet[d.vfIntn(10)] // one-byte runes only
		return strings.Repeat(c, n)
	}
	for i := 0; i < n; i++ {
		sb.WriteString(vfAlphabet[d.vfIntn(len(vfAlphabet))])
	}
	return sb.String()
}

func (d *vfDraws) vfBytesVal() []byte {
	n := d.vfStringLen()
	p := make([]byte, n)
	if n >= 120 {
		c := byte(d.vfN(255))
		for i := range p {
			p[i] = c + byte(i)
		}
		return p
	}
	for i := range p {
		p[i] = byte(d.vfN(255))
	}
	return p
}

// vfCount draws a collection length 0..3.
func (d *vfDraws) vfCount() int { return int(d.vfN(3)) }

// vfTimestampMs draws a millisecond timestamp that time.Time round-trips through
// UnixNano (0 .. MaxInt64/1e6) or the "no timestamp" marker -1.
func (d *vfDraws) vfTimestampMs() int64 {
	const maxMs = math.MaxInt64 / 1000000
	switch d.vfN(6) {
	case 0:
		return -1
	case 1:
		return 0
	case 2:
		return 1
	case 3:
		return 999 + int64(d.vfN(2)) // around one second
	case 4:
		return maxMs - int64(d.vfN(1))
	case 5:
		return 1600000000000 + int64(d.vfN(1<<32))
	}
	return int64(d.vfN(maxMs))
}

// ---------------------------------------------------------------- call sites

var (
	vfSiteMu    sync.Mutex
	vfSiteCache = map[uintptr]string{}
)

const vfPkgPrefix = "github.com/Shopify/sarama."

// vfCallSite returns the program counter of the sarama decode function that called
// the packetDecoder getter, and that function's short name ("(*Resource).decode").
func vfCallSite() (uintptr, string) {
	var pcs [1]uintptr
	// 0 = runtime.Callers, 1 = vfCallSite, 2 = vfStep, 3 = the getter, 4 = its caller
	if runtime.Callers(4, pcs[:]) == 0 {
		return 0, "?"
	}
	pc := pcs[0]
	vfSiteMu.Lock()
	name, ok := vfSiteCache[pc]
	vfSiteMu.Unlock()
	if ok {
		return pc, name
	}
	fr, _ := runtime.CallersFrames(pcs[:]).Next()
	name = strings.TrimPrefix(fr.Function, vfPkgPrefix)
	vfSiteMu.Lock()
	vfSiteCache[pc] = name
	vfSiteMu.Unlock()
	return pc, name
}

// ---------------------------------------------------------------- overrides

// vfOverride restricts the domain of one getter kind when called from one decode
// function. idx is the number of earlier calls of that kind from that function
// within the case. ok=false falls through to the default domain.
type vfOverride func(g *vfGenDec, idx int) (v int64, ok bool)

func vfCountOrNull(g *vfGenDec, _ int) (int64, bool) { return int64(g.d.vfN(4)) - 1, true } // -1..3

var vfOverrides = map[string]vfOverride{
	// time.Time values: encode goes through UnixNano
	"Timestamp.decode/int64": func(g *vfGenDec, _ int) (int64, bool) { return g.d.vfTimestampMs(), true },
	// offset, [log append time v2+], [log start offset v5+]
	"(*ProduceResponseBlock).decode/int64": func(g *vfGenDec, idx int) (int64, bool) {
		per := 1
		if g.version >= 5 {
			per = 3
		} else if g.version >= 2 {
			per = 2
		}
		if per > 1 && idx%per == 1 {
			return g.d.vfTimestampMs(), true
		}
		return 0, false
	},
	// a plain INT32 used as the topic count (null = all topics)
	"(*MetadataRequest).decode/int32": vfCountOrNull,
	// count, then a plain INT32 used as the assignment count
	"(*TopicPartition).decode/int32": func(g *vfGenDec, idx int) (int64, bool) {
		if idx%2 == 1 {
			return vfCountOrNull(g, idx)
		}
		return 0, false
	},
	// work factor: the encoder runs that many HMAC rounds
	"(*AlterUserScramCredentialsRequest).decode/int32": func(g *vfGenDec, _ int) (int64, bool) {
		return []int64{-1, 0, 1, 2, 3, 4096, 17}[g.d.vfN(6)], true
	},
	// SCRAM mechanism: 1 = SHA-256, 2 = SHA-512; the encoder hashes with it and rejects anything else
	"(*AlterUserScramCredentialsRequest).decode/int8": func(g *vfGenDec, _ int) (int64, bool) { return 1 + int64(g.d.vfN(1)), true },
	// resource count, then per resource the nullable config-name array
	"(*DescribeConfigsRequest).decode/arraylen": func(g *vfGenDec, idx int) (int64, bool) {
		if idx > 0 {
			return vfCountOrNull(g, idx)
		}
		return 0, false
	},
	// topics: null = all partitions (v2..v5; v0/v1 have no null, v6+ is compact)
	"(*OffsetFetchRequest).decode/arraylen": func(g *vfGenDec, idx int) (int64, bool) {
		if idx == 0 && g.version >= 2 {
			return vfCountOrNull(g, idx)
		}
		return 0, false
	},
	"(*DescribeLogDirsRequest).decode/arraylen": func(g *vfGenDec, idx int) (int64, bool) {
		if idx == 0 {
			return vfCountOrNull(g, idx)
		}
		return 0, false
	},
	// replicas: null = cancel the reassignment (the only nullable COMPACT_ARRAY of INT32 in the tree)
	"(*alterPartitionReassignmentsBlock).decode/cint32array": func(g *vfGenDec, _ int) (int64, bool) { return 0, true },
	// nullable aborted-transactions array is read in FetchResponseBlock (hand-written part)
	// request header v2: number of tagged fields (none are defined; the decoder skips the count only)
	"(*request).decode/uvarint": func(g *vfGenDec, _ int) (int64, bool) { return 0, true },
	// response length must be in (4, MaxResponseSize]
	"(*responseHeader).decode/int32": func(g *vfGenDec, idx int) (int64, bool) {
		if idx == 0 {
			return []int64{5, 6, 100, int64(MaxResponseSize), int64(MaxResponseSize) - 1, 4096}[g.d.vfN(5)], true
		}
		return 0, false
	},
}

// ---------------------------------------------------------------- the generating decoder

var (
	vfErrBudget      = errors.New("vf generating decoder: operation budget exceeded")
	vfErrUnsupported = errors.New("vf generating decoder: raw/subset/peek/push are not faked (hand-written generators cover these bodies)")
)

const vfDefaultBudget = 3000

type vfGenDec struct {
	d       *vfDraws
	w       vfW
	version int16
	ops     int
	budget  int
	over    bool // budget exceeded
	unsupp  bool // a getter that is not faked was called

	rich     bool // a non-empty collection or a non-null nullable was produced
	maxColl  int  // largest collection length produced
	nullStrs int

	callIdx map[string]int
	seenStr map[uintptr]map[string]struct{}
	seenI32 map[uintptr]map[int32]struct{}
	force16 []int16 // values forced onto the next getInt16 calls (request header: key, version)
	bigUsed bool    // one compact collection of this value already has a length at the uvarint boundary
}

// vfCompactCount draws the length of a compact collection: 0..3 as everywhere else, but one
// collection per value in ten gets 126..128 elements, so that the length prefix (n+1 as an
// unsigned varint) crosses its first 7-bit boundary in the sizing and in the writing pass.
func (g *vfGenDec) vfCompactCount() int {
	if !g.bigUsed && g.d.vfOneIn(10) {
		g.bigUsed = true
		g.budget = 12 * vfDefaultBudget
		return 126 + g.d.vfIntn(3)
	}
	return g.d.vfCount()
}

func vfNewGenDec(d *vfDraws, version int16) *vfGenDec {
	return &vfGenDec{d: d, version: version, budget: vfDefaultBudget, callIdx: map[string]int{},
		seenStr: map[uintptr]map[string]struct{}{}, seenI32: map[uintptr]map[int32]struct{}{}}
}

// vfStep accounts one primitive operation and resolves the call site.
func (g *vfGenDec) vfStep(kind string) (pc uintptr, ov vfOverride, idx int, err error) {
	g.ops++
	if g.ops > g.budget {
		g.over = true
		return 0, nil, 0, vfErrBudget
	}
	pc, site := vfCallSite()
	g.w.site = site
	key := site + "/" + kind
	idx = g.callIdx[key]
	g.callIdx[key] = idx + 1
	return pc, vfOverrides[key], idx, nil
}

func (g *vfGenDec) getInt8() (int8, error) {
	_, ov, idx, err := g.vfStep("int8")
	if err != nil {
		return 0, err
	}
	var v int8
	if x, ok := vfApply(ov, g, idx); ok {
		v = int8(x)
	} else {
		v = g.d.vfInt8()
	}
	g.w.vfI8(v)
	return v, nil
}

func vfApply(ov vfOverride, g *vfGenDec, idx int) (int64, bool) {
	if ov == nil {
		return 0, false
	}
	return ov(g, idx)
}

func (g *vfGenDec) getInt16() (int16, error) {
	_, ov, idx, err := g.vfStep("int16")
	if err != nil {
		return 0, err
	}
	var v int16
	if len(g.force16) > 0 {
		v = g.force16[0]
		g.force16 = g.force16[1:]
	} else if x, ok := vfApply(ov, g, idx); ok {
		v = int16(x)
	} else {
		v = g.d.vfInt16()
	}
	g.w.vfI16(v)
	return v, nil
}

func (g *vfGenDec) getInt32() (int32, error) {
	pc, ov, idx, err := g.vfStep("int32")
	if err != nil {
		return 0, err
	}
	var v int32
	if x, ok := vfApply(ov, g, idx); ok {
		v = int32(x)
	} else {
		v = g.d.vfInt32()
		// values read at one call site are pairwise distinct within a case: INT32 values
		// read in a loop are map keys (partition ids) in many bodies, and a duplicate key
		// cannot be represented by the decoded value
		seen := g.seenI32[pc]
		if seen == nil {
			seen = map[int32]struct{}{}
			g.seenI32[pc] = seen
		}
		for k := int32(0); ; k++ {
			if _, dup := seen[v]; !dup {
				break
			}
			v = 1000 + int32(len(seen)) + k
		}
		seen[v] = struct{}{}
	}
	g.w.vfI32(v)
	return v, nil
}

func (g *vfGenDec) getInt64() (int64, error) {
	_, ov, idx, err := g.vfStep("int64")
	if err != nil {
		return 0, err
	}
	var v int64
	if x, ok := vfApply(ov, g, idx); ok {
		v = x
	} else {
		v = g.d.vfInt64()
	}
	g.w.vfI64(v)
	return v, nil
}

func (g *vfGenDec) getVarint() (int64, error) {
	_, _, _, err := g.vfStep("varint")
	if err != nil {
		return 0, err
	}
	v := g.d.vfVarint()
	g.w.vfVarint(v)
	return v, nil
}

func (g *vfGenDec) getUVarint() (uint64, error) {
	_, ov, idx, err := g.vfStep("uvarint")
	if err != nil {
		return 0, err
	}
	v := uint64(0)
	if x, ok := vfApply(ov, g, idx); ok {
		v = uint64(x)
	} else {
		v = g.d.vfUvarint()
	}
	g.w.vfUvarint(v)
	return v, nil
}

func (g *vfGenDec) vfNoteColl(n int) {
	if n > 0 {
		g.rich = true
	}
	if n > g.maxColl {
		g.maxColl = n
	}
}

func (g *vfGenDec) getArrayLength() (int, error) {
	_, ov, idx, err := g.vfStep("arraylen")
	if err != nil {
		return 0, err
	}
	var n int
	if x, ok := vfApply(ov, g, idx); ok {
		n = int(x)
	} else {
		n = g.d.vfCount()
	}
	g.vfNoteColl(n)
	g.w.vfArrayLen(n)
	return n, nil
}

// getCompactArrayLength: the wire value 0 (null) and 1 (empty) both decode to 0.
func (g *vfGenDec) getCompactArrayLength() (int, error) {
	_, _, _, err := g.vfStep("carraylen")
	if err != nil {
		return 0, err
	}
	n := g.vfCompactCount()
	if n == 0 && g.d.vfOneIn(4) {
		g.w.vfCArrayLen(-1) // null array
		return 0, nil
	}
	g.vfNoteColl(n)
	g.w.vfCArrayLen(n)
	return n, nil
}

func (g *vfGenDec) getBool() (bool, error) {
	_, _, _, err := g.vfStep("bool")
	if err != nil {
		return false, err
	}
	v := g.d.vfBool()
	g.w.vfBool(v)
	return v, nil
}

func (g *vfGenDec) getEmptyTaggedFieldArray() (int, error) {
	_, _, _, err := g.vfStep("tagged")
	if err != nil {
		return 0, err
	}
	g.w.vfTagged()
	return 0, nil
}

func (g *vfGenDec) getBytes() ([]byte, error) {
	_, _, _, err := g.vfStep("bytes")
	if err != nil {
		return nil, err
	}
	if g.d.vfOneIn(5) {
		g.w.vfBytes(nil)
		return nil, nil
	}
	p := g.d.vfBytesVal()
	g.rich = true
	g.w.vfBytes(p)
	return p, nil
}

func (g *vfGenDec) getVarintBytes() ([]byte, error) {
	_, _, _, err := g.vfStep("vbytes")
	if err != nil {
		return nil, err
	}
	if g.d.vfOneIn(5) {
		g.w.vfVBytes(nil)
		return nil, nil
	}
	p := g.d.vfBytesVal()
	g.rich = true
	g.w.vfVBytes(p)
	return p, nil
}

// getCompactBytes: never null (the real decoder rejects the null marker).
func (g *vfGenDec) getCompactBytes() ([]byte, error) {
	_, _, _, err := g.vfStep("cbytes")
	if err != nil {
		return nil, err
	}
	p := g.d.vfBytesVal()
	if len(p) > 0 {
		g.rich = true
	}
	g.w.vfCBytes(p)
	return p, nil
}

func (g *vfGenDec) vfUniqueString(pc uintptr, s string) string {
	seen := g.seenStr[pc]
	if seen == nil {
		seen = map[string]struct{}{}
		g.seenStr[pc] = seen
	}
	for k := 0; ; k++ {
		if _, dup := seen[s]; !dup {
			break
		}
		s = s + "~" + strconv.Itoa(len(seen)+k)
	}
	seen[s] = struct{}{}
	return s
}

// getString: a non-nullable STRING; sarama's decoder also accepts the null marker
// and yields "", so the marker is produced now and then (not at a call site that
// already returned "": strings read in a loop are map keys in many bodies).
func (g *vfGenDec) getString() (string, error) {
	pc, _, _, err := g.vfStep("string")
	if err != nil {
		return "", err
	}
	if g.d.vfOneIn(16) {
		if _, dup := g.seenStr[pc][""]; !dup {
			g.vfUniqueString(pc, "")
			g.nullStrs++
			g.w.vfStr("", true)
			return "", nil
		}
	}
	s := g.vfUniqueString(pc, g.d.vfString())
	g.w.vfStr(s, false)
	return s, nil
}

func (g *vfGenDec) getNullableString() (*string, error) {
	_, _, _, err := g.vfStep("nstring")
	if err != nil {
		return nil, err
	}
	if g.d.vfOneIn(3) {
		g.w.vfStr("", true)
		return nil, nil
	}
	s := g.d.vfString()
	g.rich = true
	g.w.vfStr(s, false)
	return &s, nil
}

// getCompactString: never null (the real decoder cannot take the null marker here).
func (g *vfGenDec) getCompactString() (string, error) {
	pc, _, _, err := g.vfStep("cstring")
	if err != nil {
		return "", err
	}
	s := g.vfUniqueString(pc, g.d.vfString())
	g.w.vfCStr(s, false)
	return s, nil
}

func (g *vfGenDec) getCompactNullableString() (*string, error) {
	_, _, _, err := g.vfStep("cnstring")
	if err != nil {
		return nil, err
	}
	if g.d.vfOneIn(3) {
		g.w.vfCStr("", true)
		return nil, nil
	}
	s := g.d.vfString()
	g.rich = true
	g.w.vfCStr(s, false)
	return &s, nil
}

func (g *vfGenDec) vfElems(n int) error {
	g.ops += n
	if g.ops > g.budget {
		g.over = true
		return vfErrBudget
	}
	return nil
}

// getCompactInt32Array: null (0) decodes to nil, empty (1) to a non-nil empty slice.
func (g *vfGenDec) getCompactInt32Array() ([]int32, error) {
	_, ov, idx, err := g.vfStep("cint32array")
	if err != nil {
		return nil, err
	}
	n := g.vfCompactCount()
	// null only where the protocol makes the array nullable; elsewhere the encoder
	// (putCompactInt32Array) refuses a nil slice
	if _, nullable := vfApply(ov, g, idx); nullable && n == 0 && g.d.vfOneIn(3) {
		g.w.vfCArrayLen(-1)
		return nil, nil
	}
	if err := g.vfElems(n); err != nil {
		return nil, err
	}
	g.vfNoteColl(n)
	g.w.vfCArrayLen(n)
	out := make([]int32, n)
	for i := range out {
		out[i] = g.d.vfInt32()
		g.w.vfI32(out[i])
	}
	return out, nil
}

// getInt32Array: the real decoder has no null here; a count of 0 decodes to nil.
func (g *vfGenDec) getInt32Array() ([]int32, error) {
	_, _, _, err := g.vfStep("int32array")
	if err != nil {
		return nil, err
	}
	n := g.d.vfCount()
	if err := g.vfElems(n); err != nil {
		return nil, err
	}
	g.vfNoteColl(n)
	g.w.vfArrayLen(n)
	if n == 0 {
		return nil, nil
	}
	out := make([]int32, n)
	for i := range out {
		out[i] = g.d.vfInt32()
		g.w.vfI32(out[i])
	}
	return out, nil
}

func (g *vfGenDec) getInt64Array() ([]int64, error) {
	_, _, _, err := g.vfStep("int64array")
	if err != nil {
		return nil, err
	}
	n := g.d.vfCount()
	if err := g.vfElems(n); err != nil {
		return nil, err
	}
	g.vfNoteColl(n)
	g.w.vfArrayLen(n)
	if n == 0 {
		return nil, nil
	}
	out := make([]int64, n)
	for i := range out {
		out[i] = g.d.vfInt64()
		g.w.vfI64(out[i])
	}
	return out, nil
}

func (g *vfGenDec) getStringArray() ([]string, error) {
	_, _, _, err := g.vfStep("stringarray")
	if err != nil {
		return nil, err
	}
	n := g.d.vfCount()
	if err := g.vfElems(n); err != nil {
		return nil, err
	}
	g.vfNoteColl(n)
	g.w.vfArrayLen(n)
	if n == 0 {
		return nil, nil
	}
	out := make([]string, n)
	for i := range out {
		out[i] = g.d.vfString()
		g.w.vfStr(out[i], false)
	}
	return out, nil
}

func (g *vfGenDec) remaining() int { return 1 << 24 }

func (g *vfGenDec) getRawBytes(length int) ([]byte, error) {
	g.unsupp = true
	return nil, vfErrUnsupported
}
func (g *vfGenDec) getSubset(length int) (packetDecoder, error) {
	g.unsupp = true
	return nil, vfErrUnsupported
}
func (g *vfGenDec) peek(offset, length int) (packetDecoder, error) {
	g.unsupp = true
	return nil, vfErrUnsupported
}
func (g *vfGenDec) peekInt8(offset int) (int8, error) { g.unsupp = true; return 0, vfErrUnsupported }
func (g *vfGenDec) push(in pushDecoder) error         { g.unsupp = true; return vfErrUnsupported }
func (g *vfGenDec) pop() error                        { g.unsupp = true; return vfErrUnsupported }

var _ packetDecoder = (*vfGenDec)(nil)
