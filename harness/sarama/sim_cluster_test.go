//go:build go1.18 && verif

package sarama

// Simulated Kafka cluster: the reference model (partition logs, producer-id state, metadata) that
// judges what a client reports against what "really" happened. See DESIGN.md section 3.

import (
	"encoding/binary"
	"fmt"
	"io"
	"sort"
	"strconv"
	"strings"
	"sync"
	"sync/atomic"
	"time"

	"github.com/Shopify/sarama/internal/vfref"
)

// ---------------------------------------------------------------- faults

// vfFault is one scripted outcome for a request kind, consumed by occurrence index.
type vfFault struct {
	// Kind: ok | err | errApplied | dropBefore | dropAfter | silent | silentApplied | omit | omitApplied | dupNoOffset
	Kind string `json:"kind"`
	Code int16  `json:"code,omitempty"`
	// MoveLeader: "before" or "after": the partition's leader moves to the next broker before/after handling
	MoveLeader string `json:"move,omitempty"`
	DelayUs    int    `json:"delayUs,omitempty"`
	Gate       string `json:"gate,omitempty"` // hold the response until the script releases this gate
	// LeaderlessFor > 0: before handling, the partition loses its leader; it gets the old one back after that many further
	// metadata answers (so the client's first re-dispatch attempts find no leader)
	LeaderlessFor int `json:"leaderlessFor,omitempty"`
}

// ---------------------------------------------------------------- history

type vfEvent struct {
	Seq    int64   `json:"seq"`
	Kind   string  `json:"kind"`
	Broker int32   `json:"broker,omitempty"`
	Conn   int     `json:"conn,omitempty"`
	Key    string  `json:"key,omitempty"`
	Occ    int     `json:"occ,omitempty"`
	Fault  string  `json:"fault,omitempty"`
	Code   int16   `json:"code,omitempty"`
	Base   int64   `json:"base,omitempty"`
	N      int     `json:"n,omitempty"`
	Ids    []int   `json:"ids,omitempty"`
	Note   string  `json:"note,omitempty"`
	Vals   []int64 `json:"vals,omitempty"`
}

type vfHistory struct {
	mu       sync.Mutex
	events   []vfEvent
	seq      int64 // atomic; total events (relevant and not)
	relevant int64 // atomic; events that count as progress for the quiescence rule
	max      int
}

func (h *vfHistory) add(e vfEvent, relevant bool) int64 {
	s := atomic.AddInt64(&h.seq, 1)
	if relevant {
		atomic.AddInt64(&h.relevant, 1)
	}
	e.Seq = s
	h.mu.Lock()
	if h.max == 0 || len(h.events) < h.max {
		h.events = append(h.events, e)
	}
	h.mu.Unlock()
	return s
}

func (h *vfHistory) snapshot() []vfEvent {
	h.mu.Lock()
	defer h.mu.Unlock()
	return append([]vfEvent(nil), h.events...)
}

func (h *vfHistory) progress() int64 { return atomic.LoadInt64(&h.relevant) }

// ---------------------------------------------------------------- model

type vfPartState struct {
	ID       int32
	Leader   int32
	Replicas []int32
	Isr      []int32
	Offline  []int32
	Err      int16
	Log      []vfsRecord // produce side: appended records with offsets
	LogStart int64
	// idempotence state: pid -> state
	Producers map[int64]*vfPidState
	// consumer side: stored units (raw bytes as a broker would hold them)
	Units []vfsStoredUnit
	HWM   int64 // high watermark = log end offset
	LSO   int64 // last stable offset (read committed)
	// aborted transactions index (consumer side)
	Aborted []vfAbortedTxn
}

type vfAbortedTxn struct {
	PID         int64 `json:"pid"`
	FirstOffset int64 `json:"first"`
	LastOffset  int64 `json:"last"` // offset of the abort marker
}

type vfsStoredUnit struct {
	First int64  // first offset covered (base offset)
	Last  int64  // last offset covered (inclusive)
	Bytes []byte // wire bytes as stored
	Magic int8
}

type vfPidBatch struct {
	FirstSeq, LastSeq int32
	BaseOffset        int64
}

type vfPidState struct {
	Epoch   int16
	NextSeq int32
	Last    []vfPidBatch // last five
}

type vfTopicState struct {
	Name       string
	Err        int16
	Parts      map[int32]*vfPartState
	LogAppend  bool
	IsInternal bool
}

type vfBrokerState struct {
	ID     int32
	Addr   string
	Up     bool
	Silent bool
}

// vfSim is one simulated cluster.
type vfSim struct {
	mu         sync.Mutex
	cond       *sync.Cond
	net        *vfNet
	brokers    map[int32]*vfBrokerState
	controller int32
	topics     map[string]*vfTopicState
	hist       *vfHistory
	faults     map[string][]vfFault
	occ        map[string]int
	gates      map[string]chan struct{}
	pending    int64 // atomic: requests received and neither answered nor dropped
	noGates    bool
	held       int64 // atomic: of those, how many wait at a gate for the script
	nextPid    int64
	nextConn   int
	conns      map[int]*vfSimConn
	closed     bool
	clockMs    int64
	dupAsError bool // duplicates answered DUPLICATE_SEQUENCE_NUMBER instead of success with the original offset
	extra      map[int16]func(c *vfSimConn, key, version int16, body []byte) (resp []byte, action string)
	groups     map[string]*vfGroupState
	groupLayer *vfGroupLayer
	// metadata serving log for C15
	metaServed []vfMetaServed
	identOf    func(rec *vfsRecord) int // maps a record to the submitted message index (-1 unknown)
	logs        map[string]*vfsLogModel // consumer side: "topic/part" -> stored units
	fetchRounds int64                   // atomic: fetch-part answers produced (load-independent progress unit)
	lastFetchOff map[string]int64       // newest fetch offset seen per "fetch/topic/part"
	dataRounds   map[string]int64       // per "fetch/topic/part": fault-free fetch answers that carried data
	leaderBack   map[string]*vfLeaderBack // "topic/part" -> pending restoration of a leader
}

type vfLeaderBack struct {
	remaining int
	leader    int32
}

type vfMetaServed struct {
	Seq    int64
	Broker int32
	Topics []string // requested (nil = all)
	View   *vfMetaView
}

type vfSimConn struct {
	dead         bool // set under sim.mu when the simulator closes the connection (broker down): nothing arriving on it is applied any more
	silent       int32
	id           int
	broker       *vfBrokerState
	conn         *vfConn
	sim          *vfSim
	lastClientID string
}

func newVfSim(nBrokers int) *vfSim {
	s := &vfSim{
		net:     newVfNet(),
		brokers: map[int32]*vfBrokerState{},
		topics:  map[string]*vfTopicState{},
		hist:    &vfHistory{max: 20000},
		faults:  map[string][]vfFault{},
		occ:     map[string]int{},
		gates:   map[string]chan struct{}{},
		conns:   map[int]*vfSimConn{},
		nextPid: 1000,
		clockMs: 1600000000000,
		extra:   map[int16]func(c *vfSimConn, key, version int16, body []byte) ([]byte, string){},
		groups:  map[string]*vfGroupState{},
	}
	s.cond = sync.NewCond(&s.mu)
	s.net.onDial = func(addr string, ok bool) {
		if !ok {
			s.ev(vfEvent{Kind: "dial-refused", Note: addr}, true) // a client that keeps dialling is not hung
		}
	}
	for i := 1; i <= nBrokers; i++ {
		s.addBroker(int32(i))
	}
	s.controller = 1
	return s
}

func vfBrokerAddr(id int32) string { return "b" + strconv.Itoa(int(id)) + ":9092" }

func (s *vfSim) addBroker(id int32) *vfBrokerState {
	return s.addBrokerAt(id, vfBrokerAddr(id))
}

func (s *vfSim) addBrokerAt(id int32, addr string) *vfBrokerState {
	b := &vfBrokerState{ID: id, Addr: addr, Up: true}
	s.mu.Lock()
	s.brokers[id] = b
	s.mu.Unlock()
	s.net.listen(b.Addr, func(server *vfConn) { s.accept(b, server) })
	return b
}

func (s *vfSim) addTopic(name string, leaders []int32) *vfTopicState {
	s.mu.Lock()
	defer s.mu.Unlock()
	t := &vfTopicState{Name: name, Parts: map[int32]*vfPartState{}}
	for i, l := range leaders {
		p := &vfPartState{ID: int32(i), Leader: l, Producers: map[int64]*vfPidState{}}
		if l >= 0 {
			p.Replicas = []int32{l}
			p.Isr = []int32{l}
		}
		t.Parts[int32(i)] = p
	}
	s.topics[name] = t
	return t
}

func (s *vfSim) seedAddrs() []string {
	s.mu.Lock()
	defer s.mu.Unlock()
	ids := make([]int, 0, len(s.brokers))
	for id := range s.brokers {
		ids = append(ids, int(id))
	}
	sort.Ints(ids)
	out := make([]string, 0, len(ids))
	for _, id := range ids {
		out = append(out, s.brokers[int32(id)].Addr)
	}
	return out
}

func (s *vfSim) ev(e vfEvent, relevant bool) int64 { return s.hist.add(e, relevant) }

// setFaults installs the fault table (key -> list consumed by occurrence).
func (s *vfSim) setFaults(f map[string][]vfFault) {
	s.mu.Lock()
	for k, v := range f {
		s.faults[k] = append([]vfFault(nil), v...)
	}
	s.mu.Unlock()
}

// appendFaults schedules outcomes for the next occurrences of key that have none yet.
func (s *vfSim) appendFaults(key string, fs []vfFault) {
	s.mu.Lock()
	l := s.faults[key]
	for len(l) < s.occ[key] {
		l = append(l, vfFault{Kind: "ok"})
	}
	s.faults[key] = append(l, fs...)
	s.mu.Unlock()
}

// appendFaultsAt sets the outcome of occurrence occ (0-based) of key, padding with ok.
func (s *vfSim) appendFaultsAt(key string, occ int, f vfFault) {
	s.mu.Lock()
	l := s.faults[key]
	for len(l) <= occ {
		l = append(l, vfFault{Kind: "ok"})
	}
	if l[occ].Kind == "ok" && l[occ].Gate == "" {
		l[occ].Gate = f.Gate
	} else {
		l[occ].Gate = f.Gate // keep the scripted verdict, add the gate
	}
	s.faults[key] = l
	s.mu.Unlock()
}

// clearFaults drops everything still scheduled for key (the peer behaves from now on).
func (s *vfSim) clearFaults(key string) {
	s.mu.Lock()
	if l := s.faults[key]; len(l) > s.occ[key] {
		s.faults[key] = l[:s.occ[key]]
	}
	s.mu.Unlock()
}

// nextFault consumes the next scripted outcome for key. Caller holds s.mu.
func (s *vfSim) nextFaultLocked(key string) (vfFault, int) {
	n := s.occ[key]
	s.occ[key] = n + 1
	s.cond.Broadcast()
	l := s.faults[key]
	if n < len(l) {
		return l[n], n
	}
	return vfFault{Kind: "ok"}, n
}

// awaitOcc blocks until key has occurred at least n times (or the timeout elapses); returns whether it did.
func (s *vfSim) awaitOcc(key string, n int, timeout time.Duration) bool {
	deadline := time.Now().Add(timeout)
	s.mu.Lock()
	defer s.mu.Unlock()
	for s.occ[key] < n {
		if s.closed || time.Now().After(deadline) {
			return false
		}
		t := time.AfterFunc(20*time.Millisecond, func() { s.mu.Lock(); s.cond.Broadcast(); s.mu.Unlock() })
		s.cond.Wait()
		t.Stop()
	}
	return true
}

func (s *vfSim) dataRoundsOf(key string) int64 {
	s.mu.Lock()
	defer s.mu.Unlock()
	return s.dataRounds[key]
}

func (s *vfSim) fetchOffsetOf(key string) int64 {
	s.mu.Lock()
	defer s.mu.Unlock()
	return s.lastFetchOff[key]
}

func (s *vfSim) occOf(key string) int {
	s.mu.Lock()
	defer s.mu.Unlock()
	return s.occ[key]
}

func (s *vfSim) gate(name string) chan struct{} {
	s.mu.Lock()
	defer s.mu.Unlock()
	g := s.gates[name]
	if g == nil {
		g = make(chan struct{})
		s.gates[name] = g
	}
	return g
}

func (s *vfSim) release(name string) {
	g := s.gate(name)
	s.mu.Lock()
	select {
	case <-g:
	default:
		close(g)
	}
	s.mu.Unlock()
}

// releaseHeld opens every gate (also those not reached yet).
func (s *vfSim) releaseHeld() {
	s.mu.Lock()
	for _, g := range s.gates {
		select {
		case <-g:
		default:
			close(g)
		}
	}
	s.mu.Unlock()
}

func (s *vfSim) releaseAll() {
	s.mu.Lock()
	for _, g := range s.gates {
		select {
		case <-g:
		default:
			close(g)
		}
	}
	s.closed = true
	s.cond.Broadcast()
	s.mu.Unlock()
}

// shutdown closes every connection and releases every gate.
func (s *vfSim) shutdown() {
	s.releaseAll()
	s.mu.Lock()
	conns := make([]*vfSimConn, 0, len(s.conns))
	for _, c := range s.conns {
		conns = append(conns, c)
	}
	s.mu.Unlock()
	for _, c := range conns {
		c.conn.Close()
	}
}

func (s *vfSim) setBrokerUp(id int32, up bool) {
	s.mu.Lock()
	b := s.brokers[id]
	if b == nil {
		s.mu.Unlock()
		return
	}
	b.Up = up
	var toClose []*vfSimConn
	if !up {
		for _, c := range s.conns {
			if c.broker == b {
				c.dead = true
				toClose = append(toClose, c)
			}
		}
	}
	s.mu.Unlock()
	s.net.setRefuse(b.Addr, !up)
	for _, c := range toClose {
		c.conn.Close()
	}
	var ids []int
	for _, c := range toClose {
		ids = append(ids, c.id)
	}
	s.ev(vfEvent{Kind: "broker-" + map[bool]string{true: "up", false: "down"}[up], Broker: id, Ids: ids}, true)
}

// makeUnreachable: every broker refuses new connections and drops the open ones ("refuse"), or keeps accepting
// but never answers again ("silent").
func (s *vfSim) makeUnreachable(kind string) {
	s.mu.Lock()
	var ids []int32
	for id, b := range s.brokers {
		ids = append(ids, id)
		if kind == "silent" {
			b.Silent = true
		}
	}
	var conns []*vfSimConn
	for _, c := range s.conns {
		conns = append(conns, c)
	}
	s.mu.Unlock()
	s.ev(vfEvent{Kind: "cluster-unreachable", Note: kind}, true)
	if kind == "silent" {
		for _, c := range conns {
			c.setSilent()
		}
		return
	}
	for _, id := range ids {
		s.setBrokerUp(id, false)
	}
}

// leaderlessLocked takes the leader away and schedules its return after n further metadata answers naming the topic.
func (s *vfSim) leaderlessLocked(topic string, part int32, n int) {
	t := s.topics[topic]
	if t == nil || t.Parts[part] == nil || t.Parts[part].Leader < 0 {
		return
	}
	if s.leaderBack == nil {
		s.leaderBack = map[string]*vfLeaderBack{}
	}
	s.leaderBack[fmt.Sprintf("%s/%d", topic, part)] = &vfLeaderBack{remaining: n, leader: t.Parts[part].Leader}
	s.moveLeaderLocked(topic, part, -1)
}

func (s *vfSim) moveLeader(topic string, part int32, to int32) {
	s.mu.Lock()
	s.moveLeaderLocked(topic, part, to)
	s.mu.Unlock()
}

func (s *vfSim) moveLeaderLocked(topic string, part int32, to int32) {
	t := s.topics[topic]
	if t == nil || t.Parts[part] == nil {
		return
	}
	p := t.Parts[part]
	if to == -2 { // next broker in ring
		ids := make([]int, 0, len(s.brokers))
		for id := range s.brokers {
			ids = append(ids, int(id))
		}
		sort.Ints(ids)
		to = int32(ids[0])
		for i, id := range ids {
			if int32(id) == p.Leader {
				to = int32(ids[(i+1)%len(ids)])
			}
		}
	}
	p.Leader = to
	if to >= 0 {
		p.Replicas = []int32{to}
		p.Isr = []int32{to}
	}
	s.hist.add(vfEvent{Kind: "leader-move", Key: fmt.Sprintf("%s/%d", topic, part), Broker: to}, true)
}

// ---------------------------------------------------------------- connection loop

func (s *vfSim) accept(b *vfBrokerState, server *vfConn) {
	s.mu.Lock()
	s.nextConn++
	c := &vfSimConn{id: s.nextConn, broker: b, conn: server, sim: s}
	s.conns[c.id] = c
	silent := b.Silent
	s.mu.Unlock()
	s.ev(vfEvent{Kind: "accept", Broker: b.ID, Conn: c.id}, false)
	if silent {
		// accepts, never answers
		go func() {
			buf := make([]byte, 4096)
			for {
				if _, err := server.Read(buf); err != nil {
					return
				}
				s.ev(vfEvent{Kind: "swallowed", Broker: b.ID, Conn: c.id}, true)
			}
		}()
		return
	}
	go c.serve()
}

func (c *vfSimConn) setSilent() { atomic.StoreInt32(&c.silent, 1) }

func (c *vfSimConn) serve() {
	s := c.sim
	defer func() {
		c.conn.Close()
		s.mu.Lock()
		delete(s.conns, c.id)
		s.mu.Unlock()
		s.ev(vfEvent{Kind: "conn-closed", Broker: c.broker.ID, Conn: c.id}, false)
	}()
	var hdr [4]byte
	for {
		if _, err := io.ReadFull(c.conn, hdr[:]); err != nil {
			return
		}
		n := int(binary.BigEndian.Uint32(hdr[:]))
		if n < 8 || n > 200<<20 {
			s.ev(vfEvent{Kind: "client-wire-violation", Broker: c.broker.ID, Conn: c.id, Note: fmt.Sprintf("request frame size %d", n)}, true)
			return
		}
		payload := make([]byte, n)
		if _, err := io.ReadFull(c.conn, payload); err != nil {
			return
		}
		if atomic.LoadInt32(&c.silent) == 1 {
			// the broker fell silent: requests are swallowed, nothing is ever answered. The client keeps trying at its
			// read-timeout pace, which is activity as far as the quiescence rule is concerned.
			s.ev(vfEvent{Kind: "swallowed", Broker: c.broker.ID, Conn: c.id}, true)
			continue
		}
		atomic.AddInt64(&s.pending, 1)
		keep := c.handle(payload, n+4)
		atomic.AddInt64(&s.pending, -1)
		if !keep {
			return
		}
	}
}

// handle processes one request; returns false if the connection must be closed.
func (c *vfSimConn) handle(payload []byte, wireSize int) bool {
	s := c.sim
	r := &vfsR{b: payload}
	key := r.i16()
	version := r.i16()
	corr := r.i32()
	clientID := r.nstr()
	if clientID != nil {
		c.lastClientID = *clientID
	}
	if r.err != nil {
		s.ev(vfEvent{Kind: "client-wire-violation", Broker: c.broker.ID, Conn: c.id, Note: "request header: " + r.err.Error()}, true)
		return false
	}
	reqHV := vfref.RequestHeaderVersion(key, version)
	if reqHV >= 2 {
		if n := r.uvarint(); n != 0 || r.err != nil {
			s.ev(vfEvent{Kind: "client-wire-violation", Broker: c.broker.ID, Conn: c.id, Note: "tagged fields in request header"}, true)
			return false
		}
	}
	body := payload[r.off:]
	var resp []byte
	action := ""
	respHV := int16(0)
	switch key {
	case 0:
		resp, action = c.handleProduce(version, body, wireSize)
	case 1:
		resp, action = c.handleFetch(version, body)
	case 2:
		resp, action = c.handleListOffsets(version, body)
	case 3:
		resp, action = c.handleMetadata(version, body)
	case 22:
		resp, action = c.handleInitProducerID(version, body)
	default:
		if h := s.extraHandler(key); h != nil {
			resp, action = h(c, key, version, body)
			respHV = vfRespHeaderVersion(key, version)
		} else {
			s.ev(vfEvent{Kind: "unsupported-request", Broker: c.broker.ID, Conn: c.id, Note: fmt.Sprintf("api key %d v%d", key, version)}, true)
			return false
		}
	}
	switch action {
	case "close":
		return false
	case "noresponse":
		return true
	case "silent":
		// never answer on this connection again; keep reading so the client's writes succeed
		buf := make([]byte, 4096)
		for {
			if _, err := c.conn.Read(buf); err != nil {
				return false
			}
		}
	}
	if atomic.LoadInt32(&c.silent) == 1 {
		return true
	}
	if _, err := c.conn.Write(vfref.Frame(corr, respHV, resp)); err != nil {
		return false
	}
	return true
}

func (s *vfSim) extraHandler(key int16) func(c *vfSimConn, key, version int16, body []byte) ([]byte, string) {
	s.mu.Lock()
	defer s.mu.Unlock()
	return s.extra[key]
}

func vfRespHeaderVersion(key, version int16) int16 {
	// flexible versions sarama implements: OffsetFetch v6+, AlterPartitionReassignments, ListPartitionReassignments, SCRAM credential APIs
	switch key {
	case 9:
		if version >= 6 {
			return 1
		}
	case 45, 46, 50, 51:
		return 1
	}
	return 0
}

// applyDelayAndGate implements the timing part of a fault outside the lock.
func (s *vfSim) applyDelayAndGate(f vfFault) {
	if f.DelayUs > 0 {
		time.Sleep(time.Duration(f.DelayUs) * time.Microsecond)
	}
	if f.Gate != "" && !s.noGates {
		g := s.gate(f.Gate)
		s.ev(vfEvent{Kind: "held", Note: f.Gate}, true)
		atomic.AddInt64(&s.held, 1)
		<-g
		atomic.AddInt64(&s.held, -1)
	}
}

// ---------------------------------------------------------------- metadata

type vfMetaView struct {
	Brokers    map[int32]string          `json:"brokers"`
	Controller int32                     `json:"controller"`
	Topics     map[string]*vfMetaTopicVw `json:"topics"`
}

type vfMetaTopicVw struct {
	Err   int16                   `json:"err"`
	Parts map[int32]*vfMetaPartVw `json:"parts"`
}

type vfMetaPartVw struct {
	Err      int16   `json:"err"`
	Leader   int32   `json:"leader"`
	Replicas []int32 `json:"replicas"`
	Isr      []int32 `json:"isr"`
	Offline  []int32 `json:"offline"`
}

func (c *vfSimConn) handleMetadata(version int16, body []byte) ([]byte, string) {
	s := c.sim
	r := &vfsR{b: body}
	n := r.i32()
	var topics []string
	all := false
	if n < 0 {
		all = true
	} else {
		for i := int32(0); i < n; i++ {
			topics = append(topics, r.str())
		}
		if version == 0 && n == 0 {
			all = true
		}
	}
	if version >= 4 {
		_ = r.i8()
	}
	if r.err != nil || r.remaining() != 0 {
		s.ev(vfEvent{Kind: "client-wire-violation", Broker: c.broker.ID, Conn: c.id, Note: fmt.Sprintf("metadata request v%d malformed (%v, %d stray)", version, r.err, r.remaining())}, true)
		return nil, "close"
	}
	s.mu.Lock()
	f, occ := s.nextFaultLocked("metadata")
	fb, occb := s.nextFaultLocked(fmt.Sprintf("metadata/b%d", c.broker.ID))
	if f.Kind == "ok" {
		f, occ = fb, occb
	}
	s.mu.Unlock()
	s.ev(vfEvent{Kind: "metadata-req", Broker: c.broker.ID, Conn: c.id, Occ: occ, Fault: f.Kind, Note: strings.Join(topics, ",")}, false)
	s.applyDelayAndGate(f)
	switch f.Kind {
	case "dropBefore", "dropAfter":
		return nil, "close"
	case "silent", "silentApplied":
		return nil, "silent"
	}
	s.mu.Lock()
	defer s.mu.Unlock()
	w := &vfsW{}
	if version >= 3 {
		w.i32(0)
	}
	view := &vfMetaView{Brokers: map[int32]string{}, Controller: s.controller, Topics: map[string]*vfMetaTopicVw{}}
	ids := make([]int, 0, len(s.brokers))
	for id, b := range s.brokers {
		if b.Up || true {
			ids = append(ids, int(id))
		}
	}
	sort.Ints(ids)
	w.i32(int32(len(ids)))
	for _, id := range ids {
		b := s.brokers[int32(id)]
		host, port := vfSplitAddr(b.Addr)
		w.i32(b.ID)
		w.str(host)
		w.i32(port)
		if version >= 1 {
			w.nstr(nil)
		}
		view.Brokers[b.ID] = b.Addr
	}
	if version >= 2 {
		cid := "vfsim"
		w.nstr(&cid)
	}
	if version >= 1 {
		w.i32(s.controller)
	}
	var names []string
	if all {
		for name := range s.topics {
			names = append(names, name)
		}
	} else {
		names = topics
	}
	sort.Strings(names)
	w.i32(int32(len(names)))
	for _, name := range names {
		t := s.topics[name]
		tv := &vfMetaTopicVw{Parts: map[int32]*vfMetaPartVw{}}
		view.Topics[name] = tv
		if t == nil {
			w.i16(3) // UNKNOWN_TOPIC_OR_PARTITION
			w.str(name)
			if version >= 1 {
				w.i8(0)
			}
			w.i32(0)
			tv.Err = 3
			continue
		}
		terr := t.Err
		if f.Kind == "err" {
			terr = f.Code
		}
		tv.Err = terr
		w.i16(terr)
		w.str(name)
		if version >= 1 {
			if t.IsInternal {
				w.i8(1)
			} else {
				w.i8(0)
			}
		}
		pids := make([]int, 0, len(t.Parts))
		for id := range t.Parts {
			pids = append(pids, int(id))
		}
		sort.Ints(pids)
		w.i32(int32(len(pids)))
		for _, id := range pids {
			p := t.Parts[int32(id)]
			perr := p.Err
			if perr == 0 && p.Leader < 0 {
				perr = 5 // LEADER_NOT_AVAILABLE
			}
			w.i16(perr)
			w.i32(p.ID)
			w.i32(p.Leader)
			w.i32arr(p.Replicas)
			w.i32arr(p.Isr)
			if version >= 5 {
				w.i32arr(p.Offline)
			}
			tv.Parts[p.ID] = &vfMetaPartVw{Err: perr, Leader: p.Leader, Replicas: append([]int32(nil), p.Replicas...), Isr: append([]int32(nil), p.Isr...), Offline: append([]int32(nil), p.Offline...)}
		}
	}
	for key, lb := range s.leaderBack {
		tp := strings.SplitN(key, "/", 2)
		included := all
		for _, n := range names {
			if n == tp[0] {
				included = true
			}
		}
		if !included {
			continue
		}
		lb.remaining--
		if lb.remaining <= 0 {
			pn, _ := strconv.Atoi(tp[1])
			s.moveLeaderLocked(tp[0], int32(pn), lb.leader)
			delete(s.leaderBack, key)
		}
	}
	seq := s.hist.add(vfEvent{Kind: "metadata-served", Broker: c.broker.ID, Conn: c.id, Note: strings.Join(names, ",")}, false)
	var req []string
	if !all {
		req = topics
	}
	s.metaServed = append(s.metaServed, vfMetaServed{Seq: seq, Broker: c.broker.ID, Topics: req, View: view})
	return w.b, ""
}

func vfSplitAddr(addr string) (string, int32) {
	i := strings.LastIndex(addr, ":")
	if i < 0 {
		return addr, 9092
	}
	p, _ := strconv.Atoi(addr[i+1:])
	return addr[:i], int32(p)
}

// ---------------------------------------------------------------- InitProducerID

func (c *vfSimConn) handleInitProducerID(version int16, body []byte) ([]byte, string) {
	s := c.sim
	r := &vfsR{b: body}
	_ = r.nstr() // transactional id
	_ = r.i32()  // timeout
	if r.err != nil {
		s.ev(vfEvent{Kind: "client-wire-violation", Broker: c.broker.ID, Note: "InitProducerID malformed"}, true)
		return nil, "close"
	}
	s.mu.Lock()
	f, occ := s.nextFaultLocked("initProducerID")
	pid := s.nextPid
	s.nextPid++
	s.mu.Unlock()
	s.ev(vfEvent{Kind: "init-pid", Broker: c.broker.ID, Occ: occ, Fault: f.Kind, Base: pid}, true)
	s.applyDelayAndGate(f)
	switch f.Kind {
	case "dropBefore", "dropAfter":
		return nil, "close"
	case "silent":
		return nil, "silent"
	}
	w := &vfsW{}
	w.i32(0) // throttle
	if f.Kind == "err" {
		w.i16(f.Code)
		w.i64(-1)
		w.i16(-1)
	} else {
		w.i16(0)
		w.i64(pid)
		w.i16(0)
	}
	return w.b, ""
}

// ---------------------------------------------------------------- produce

type vfProducePart struct {
	Topic   string
	Part    int32
	Batches []vfsBatchInfo
	Legacy  []vfsLegacyMsg
	Records []vfsRecord // flattened, in order
	Viol    []string
	Size    int
}

func vfParseProduceRequest(version int16, body []byte) (acks int16, parts []vfProducePart, err error) {
	r := &vfsR{b: body}
	if version >= 3 {
		_ = r.nstr()
	}
	acks = r.i16()
	_ = r.i32() // timeout
	nt := int(r.i32())
	if r.err != nil || nt < 0 {
		return 0, nil, fmt.Errorf("produce header malformed")
	}
	for i := 0; i < nt; i++ {
		topic := r.str()
		np := int(r.i32())
		if r.err != nil || np < 0 {
			return 0, nil, fmt.Errorf("produce topic malformed")
		}
		for j := 0; j < np; j++ {
			pid := r.i32()
			size := int(r.i32())
			data := r.take(size, "record set")
			if r.err != nil {
				return 0, nil, r.err
			}
			pp := vfProducePart{Topic: topic, Part: pid, Size: size}
			if version >= 3 {
				bs, partial, perr := vfsParseRecordBatches(data, true)
				if perr != nil {
					pp.Viol = append(pp.Viol, perr.Error())
				}
				if partial {
					pp.Viol = append(pp.Viol, "truncated batch in produce request")
				}
				if len(bs) != 1 && perr == nil {
					pp.Viol = append(pp.Viol, fmt.Sprintf("%d batches for one partition in a produce request (a broker accepts exactly one)", len(bs)))
				}
				for bi := range bs {
					vfsCheckProducedBatch(&bs[bi])
					pp.Viol = append(pp.Viol, bs[bi].Violations...)
					pp.Records = append(pp.Records, bs[bi].Records...)
				}
				pp.Batches = bs
			} else {
				msgs, _, perr := vfsParseMessageSet(data, false)
				if perr != nil {
					pp.Viol = append(pp.Viol, perr.Error())
				}
				pp.Legacy = msgs
				wantMagic := int8(0)
				if version >= 2 {
					wantMagic = 1
				}
				for _, m := range msgs {
					pp.Viol = append(pp.Viol, m.Viol...)
					if m.Magic != wantMagic {
						pp.Viol = append(pp.Viol, fmt.Sprintf("message magic %d in produce v%d", m.Magic, version))
					}
					if m.Codec != vfsCodecNone {
						if len(m.Inner) == 0 {
							pp.Viol = append(pp.Viol, "compressed wrapper without inner messages")
						}
						for k, in := range m.Inner {
							pp.Viol = append(pp.Viol, in.Viol...)
							if in.Codec != vfsCodecNone {
								pp.Viol = append(pp.Viol, "nested compression")
							}
							if in.Magic != m.Magic {
								pp.Viol = append(pp.Viol, fmt.Sprintf("inner magic %d inside wrapper magic %d", in.Magic, m.Magic))
							}
							if m.Magic == 1 && in.Offset != int64(k) {
								pp.Viol = append(pp.Viol, fmt.Sprintf("inner message %d of a magic-1 wrapper has relative offset %d", k, in.Offset))
							}
							pp.Records = append(pp.Records, vfsRecord{Key: in.Key, Value: in.Value, TsMs: in.TsMs, Magic: in.Magic, Codec: m.Codec, PID: -1})
						}
					} else {
						pp.Records = append(pp.Records, vfsRecord{Key: m.Key, Value: m.Value, TsMs: m.TsMs, Magic: m.Magic, PID: -1})
					}
				}
			}
			parts = append(parts, pp)
		}
	}
	if r.err != nil {
		return 0, nil, r.err
	}
	if r.remaining() != 0 {
		return 0, nil, fmt.Errorf("%d stray bytes after produce request", r.remaining())
	}
	return acks, parts, nil
}

type vfProduceResult struct {
	Code      int16
	Base      int64
	LogAppend int64
	Omit      bool
}

func (c *vfSimConn) handleProduce(version int16, body []byte, wireSize int) ([]byte, string) {
	s := c.sim
	acks, parts, err := vfParseProduceRequest(version, body)
	if err != nil {
		s.ev(vfEvent{Kind: "client-wire-violation", Broker: c.broker.ID, Conn: c.id, Note: fmt.Sprintf("produce v%d: %v", version, err)}, true)
		return nil, "close"
	}
	type planned struct {
		pp  *vfProducePart
		f   vfFault
		occ int
		key string
	}
	var plan []planned
	s.mu.Lock()
	if c.dead {
		// the broker dropped this connection before it got to the request: a request is either applied before the
		// connection loss or never (a goroutine that was descheduled in between must not apply it late)
		s.mu.Unlock()
		return nil, "close"
	}
	reqAction := ""
	var timing []vfFault
	for i := range parts {
		pp := &parts[i]
		key := fmt.Sprintf("produce/%s/%d", pp.Topic, pp.Part)
		f, occ := s.nextFaultLocked(key)
		plan = append(plan, planned{pp, f, occ, key})
		switch f.Kind {
		case "dropBefore", "silent":
			if reqAction == "" || reqAction == "dropAfter" || reqAction == "silentApplied" {
				reqAction = f.Kind
			}
		case "dropAfter", "silentApplied":
			if reqAction == "" {
				reqAction = f.Kind
			}
		}
		if f.DelayUs > 0 || f.Gate != "" {
			timing = append(timing, f)
		}
	}
	fb, _ := s.nextFaultLocked(fmt.Sprintf("produce/b%d", c.broker.ID))
	switch fb.Kind {
	case "dropBefore", "silent", "dropAfter", "silentApplied":
		reqAction = fb.Kind
	}
	if fb.DelayUs > 0 || fb.Gate != "" {
		timing = append(timing, fb)
	}
	results := make([]vfProduceResult, len(plan))
	for i, pl := range plan {
		pp := pl.pp
		ids := make([]int, 0, len(pp.Records))
		if s.identOf != nil {
			for k := range pp.Records {
				ids = append(ids, s.identOf(&pp.Records[k]))
			}
		}
		e := vfEvent{Kind: "produce-part", Broker: c.broker.ID, Conn: c.id, Key: pl.key, Occ: pl.occ, Fault: pl.f.Kind, N: len(pp.Records), Ids: ids,
			Vals: []int64{int64(version), int64(acks), int64(wireSize), int64(len(parts))}}
		if len(pp.Batches) == 1 {
			b := pp.Batches[0]
			e.Vals = append(e.Vals, b.PID, int64(b.Epoch), int64(b.BaseSeq), int64(b.Codec))
		}
		if len(pp.Viol) > 0 {
			s.hist.add(vfEvent{Kind: "client-wire-violation", Broker: c.broker.ID, Conn: c.id, Key: pl.key, Note: strings.Join(pp.Viol, "; ")}, true)
			results[i] = vfProduceResult{Code: 2, Base: -1, LogAppend: -1}
			e.Code = 2
			s.hist.add(e, true)
			continue
		}
		if pl.f.MoveLeader == "before" {
			s.moveLeaderLocked(pp.Topic, pp.Part, -2)
		}
		res := vfProduceResult{Base: -1, LogAppend: -1}
		apply := false
		switch pl.f.Kind {
		case "ok", "dropAfter", "silentApplied", "omitApplied", "dupNoOffset":
			apply = true
		case "errApplied":
			apply = true
		case "err":
			res.Code = pl.f.Code
		case "omit":
			res.Omit = true
		}
		if reqAction == "dropBefore" || reqAction == "silent" {
			apply = false
		}
		t := s.topics[pp.Topic]
		var p *vfPartState
		if t != nil {
			p = t.Parts[pp.Part]
		}
		if apply || pl.f.Kind == "ok" {
			switch {
			case t == nil || p == nil:
				res.Code = 3
				apply = false
			case p.Leader != c.broker.ID:
				res.Code = 6 // NOT_LEADER_FOR_PARTITION
				apply = false
			}
		}
		if apply && res.Code == 0 {
			code, base := s.appendLocked(t, p, pp)
			res.Code = code
			res.Base = base
			if code == 0 && t.LogAppend {
				s.clockMs++
				res.LogAppend = s.clockMs
			}
			e.Base = base
		}
		switch pl.f.Kind {
		case "errApplied":
			res.Code = pl.f.Code
			res.Base = -1
		case "omitApplied":
			res.Omit = true
		}
		if pl.f.MoveLeader == "after" {
			s.moveLeaderLocked(pp.Topic, pp.Part, -2)
		}
		e.Code = res.Code
		results[i] = res
		s.hist.add(e, true)
	}
	s.mu.Unlock()
	for _, f := range timing {
		s.applyDelayAndGate(f)
	}
	if len(timing) > 0 && c.conn.peerClosed() {
		// the client gave up on this connection while the answer was delayed or held: for the producer that is a
		// connection-level failure of the request
		s.ev(vfEvent{Kind: "produce-drop", Broker: c.broker.ID, Conn: c.id, Fault: "client-closed"}, true)
	}
	if acks == 0 && (reqAction == "silent" || reqAction == "silentApplied") {
		return nil, "noresponse" // nobody waits for an answer: silence is indistinguishable from normal operation
	}
	switch reqAction {
	case "dropBefore", "dropAfter":
		s.ev(vfEvent{Kind: "produce-drop", Broker: c.broker.ID, Conn: c.id, Fault: reqAction}, true)
		return nil, "close"
	case "silent", "silentApplied":
		s.ev(vfEvent{Kind: "produce-silent", Broker: c.broker.ID, Conn: c.id, Fault: reqAction}, true)
		return nil, "silent"
	}
	if acks == 0 {
		return nil, "noresponse"
	}
	// response
	w := &vfsW{}
	byTopic := map[string][]int{}
	var order []string
	for i, pl := range plan {
		if results[i].Omit {
			continue
		}
		if _, ok := byTopic[pl.pp.Topic]; !ok {
			order = append(order, pl.pp.Topic)
		}
		byTopic[pl.pp.Topic] = append(byTopic[pl.pp.Topic], i)
	}
	w.i32(int32(len(order)))
	for _, tp := range order {
		w.str(tp)
		w.i32(int32(len(byTopic[tp])))
		for _, i := range byTopic[tp] {
			w.i32(plan[i].pp.Part)
			w.i16(results[i].Code)
			w.i64(results[i].Base)
			if version >= 2 {
				w.i64(results[i].LogAppend)
			}
			if version >= 5 {
				w.i64(0)
			}
		}
	}
	if version >= 1 {
		w.i32(0)
	}
	s.ev(vfEvent{Kind: "produce-resp", Broker: c.broker.ID, Conn: c.id}, true)
	return w.b, ""
}

// appendLocked applies Kafka's idempotence rules and appends. Returns (error code, base offset).
func (s *vfSim) appendLocked(t *vfTopicState, p *vfPartState, pp *vfProducePart) (int16, int64) {
	n := len(pp.Records)
	if n == 0 {
		return 0, int64(len(p.Log)) + p.LogStart
	}
	if len(pp.Batches) == 1 && pp.Batches[0].PID >= 0 {
		b := pp.Batches[0]
		st := p.Producers[b.PID]
		first, last := b.BaseSeq, b.BaseSeq+int32(n)-1
		if st == nil {
			if b.BaseSeq != 0 {
				// Kafka accepts an unknown producer starting at any sequence only if it has no state at all
				// (e.g. after retention); the simulator never expires state, so a first batch must start at 0.
				return 45, -1 // OUT_OF_ORDER_SEQUENCE_NUMBER
			}
			st = &vfPidState{Epoch: b.Epoch}
			p.Producers[b.PID] = st
		}
		switch {
		case b.Epoch < st.Epoch:
			return 47, -1 // INVALID_PRODUCER_EPOCH
		case b.Epoch > st.Epoch:
			if b.BaseSeq != 0 {
				return 45, -1
			}
			st.Epoch = b.Epoch
			st.NextSeq = 0
			st.Last = nil
		}
		for _, lb := range st.Last {
			if lb.FirstSeq == first && lb.LastSeq == last {
				if s.dupAsError {
					return 46, -1 // DUPLICATE_SEQUENCE_NUMBER
				}
				return 0, lb.BaseOffset
			}
		}
		if first != st.NextSeq {
			if first < st.NextSeq {
				return 46, -1
			}
			return 45, -1
		}
		base := p.LogStart + int64(len(p.Log))
		st.NextSeq = last + 1
		st.Last = append(st.Last, vfPidBatch{FirstSeq: first, LastSeq: last, BaseOffset: base})
		if len(st.Last) > 5 {
			st.Last = st.Last[len(st.Last)-5:]
		}
	}
	base := p.LogStart + int64(len(p.Log))
	for i := range pp.Records {
		rec := pp.Records[i]
		rec.Offset = base + int64(i)
		p.Log = append(p.Log, rec)
	}
	p.HWM = base + int64(n)
	return 0, base
}

// ---------------------------------------------------------------- list offsets / fetch (implemented in sim_fetch_test.go)
