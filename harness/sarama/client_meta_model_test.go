//go:build go1.18 && verif

package sarama

// C15 (client metadata answers reflect the newest cluster metadata): case types, cluster-model mutators that
// the shared simulator does not offer (remove / re-address a broker, delete a topic, add / remove partitions,
// replica lists, scripted per-broker failures), and an observing dialer that sits between the client and the
// in-memory network. The dialer never changes a byte; it stamps what the client wrote, which response frames
// the client really consumed, and which goroutine issued each request, so the oracle can fold exactly the
// responses that reached the client, in an order the client may have applied them.

import (
	"fmt"
	"net"
	"runtime"
	"sort"
	"strconv"
	"strings"
	"sync"
	"sync/atomic"
	"time"
)

// ---------------------------------------------------------------- case

type vfc15Broker struct {
	ID   int32  `json:"id"`
	Addr string `json:"addr"`
}

type vfc15Topic struct {
	Name    string  `json:"name"`
	Leaders []int32 `json:"leaders"`
	Err     int16   `json:"err,omitempty"`
}

// vfc15Step is one script step: a mutation of the cluster model or a client operation.
//
//	mutations: addTopic delTopic topicErr addParts rmPart leader replicas partErr addBroker rmBroker swapBroker readdr
//	           down up failNext heal scriptNext
//	client:    refresh read sleep
type vfc15Step struct {
	Op      string   `json:"op"`
	Topic   string   `json:"topic,omitempty"`
	Topics  []string `json:"topics,omitempty"`
	Part    int      `json:"part,omitempty"`   // index into the sorted partition ids (mutations) / partition id (reads)
	Broker  int      `json:"broker,omitempty"` // index into the sorted broker ids (mutations) / broker id (addBroker)
	Leader  int32    `json:"leader,omitempty"` // leader: broker id, -1, or an id absent from the cluster
	Leaders []int32  `json:"leaders,omitempty"`
	Ids     []int32  `json:"ids,omitempty"`
	Isr     []int32  `json:"isr,omitempty"`
	Offline []int32  `json:"offline,omitempty"`
	Code    int16    `json:"code,omitempty"`
	N       int      `json:"n,omitempty"`
	Kind    string   `json:"kind,omitempty"` // failNext: dropBefore | silent ; read: which API
	Variant int      `json:"variant,omitempty"`
	DelayUs int      `json:"delayUs,omitempty"`
}

type vfc15Case struct {
	Version   string        `json:"version"`
	Full      bool          `json:"full"`
	RetryMax  int           `json:"retryMax"`
	BgUs      int           `json:"bgUs"` // Metadata.RefreshFrequency in microseconds; 0 = off
	MaxOpen   int           `json:"maxOpen"`
	TimeoutMs int           `json:"timeoutMs"`
	Brokers   []vfc15Broker `json:"brokers"`
	Seeds     []string      `json:"seeds"`
	Topics    []vfc15Topic  `json:"topics"`
	Pre       []vfc15Step   `json:"pre,omitempty"` // mutations applied before NewClient (unreachable seeds and the like)
	StepsA    []vfc15Step   `json:"stepsA"`
	Readers   [][]vfc15Step `json:"readers,omitempty"` // phase B: per reader a cycle of reads
	StepsB    []vfc15Step   `json:"stepsB,omitempty"`
}

// ---------------------------------------------------------------- model mutators (own file: sim_* is shared)

func vfc15SortedBrokerIDs(s *vfSim) []int32 {
	ids := make([]int32, 0, len(s.brokers))
	for id := range s.brokers {
		ids = append(ids, id)
	}
	sort.Slice(ids, func(i, j int) bool { return ids[i] < ids[j] })
	return ids
}

func vfc15SortedPartIDs(t *vfTopicState) []int32 {
	ids := make([]int32, 0, len(t.Parts))
	for id := range t.Parts {
		ids = append(ids, id)
	}
	sort.Slice(ids, func(i, j int) bool { return ids[i] < ids[j] })
	return ids
}

func vfc15NewPart(id, leader int32) *vfPartState {
	p := &vfPartState{ID: id, Leader: leader, Producers: map[int64]*vfPidState{}}
	if leader >= 0 {
		// the three lists differ from the start (ISR a proper subset of the replicas), so that an
		// accessor answering with the wrong list is visible without a "replicas" step
		p.Replicas = []int32{leader, leader + 1, leader + 7}
		p.Isr = []int32{leader, leader + 7}
	}
	return p
}

func (s *vfSim) vfc15ConnsOf(b *vfBrokerState) []*vfSimConn {
	var out []*vfSimConn
	for _, c := range s.conns {
		if c.broker == b {
			out = append(out, c)
		}
	}
	return out
}

// vfc15RemoveBroker takes a broker out of the cluster: it leaves the broker list and stops listening.
func (s *vfSim) vfc15RemoveBroker(id int32) {
	s.mu.Lock()
	b := s.brokers[id]
	if b == nil || len(s.brokers) <= 1 {
		s.mu.Unlock()
		return
	}
	delete(s.brokers, id)
	if s.controller == id {
		s.controller = vfc15SortedBrokerIDs(s)[0]
	}
	conns := s.vfc15ConnsOf(b)
	s.mu.Unlock()
	s.net.unlisten(b.Addr)
	s.net.setRefuse(b.Addr, false)
	for _, c := range conns {
		c.conn.Close()
	}
	s.ev(vfEvent{Kind: "broker-removed", Broker: id}, true)
}

// vfc15Readdress moves a broker to a new address (same id); the old address stops listening.
func (s *vfSim) vfc15Readdress(id int32, addr string) {
	s.mu.Lock()
	old := s.brokers[id]
	if old == nil || old.Addr == addr {
		s.mu.Unlock()
		return
	}
	for _, o := range s.brokers {
		if o.Addr == addr {
			s.mu.Unlock()
			return
		}
	}
	nb := &vfBrokerState{ID: id, Addr: addr, Up: true}
	s.brokers[id] = nb
	conns := s.vfc15ConnsOf(old)
	s.mu.Unlock()
	s.net.unlisten(old.Addr)
	s.net.setRefuse(old.Addr, false)
	s.net.setRefuse(addr, false)
	s.net.listen(addr, func(server *vfConn) { s.accept(nb, server) })
	for _, c := range conns {
		c.conn.Close()
	}
	s.ev(vfEvent{Kind: "broker-readdressed", Broker: id, Note: addr}, true)
}

func (s *vfSim) vfc15AddBroker(id int32, addr string) {
	s.mu.Lock()
	if s.brokers[id] != nil {
		s.mu.Unlock()
		return
	}
	for _, o := range s.brokers {
		if o.Addr == addr {
			s.mu.Unlock()
			return
		}
	}
	s.mu.Unlock()
	s.net.setRefuse(addr, false)
	s.addBrokerAt(id, addr)
}

// vfc15FailNext scripts the next n metadata requests reaching broker id (kind dropBefore | silent).
func (s *vfSim) vfc15FailNext(id int32, kind string, n int) {
	key := fmt.Sprintf("metadata/b%d", id)
	s.mu.Lock()
	occ := s.occ[key]
	l := append([]vfFault(nil), s.faults[key]...)
	for len(l) < occ+n {
		l = append(l, vfFault{Kind: "ok"})
	}
	for i := occ; i < occ+n; i++ {
		l[i] = vfFault{Kind: kind}
	}
	s.faults[key] = l
	s.mu.Unlock()
}

// vfc15Heal removes every scripted failure still pending for broker id.
func (s *vfSim) vfc15Heal(id int32) {
	key := fmt.Sprintf("metadata/b%d", id)
	s.mu.Lock()
	occ := s.occ[key]
	if len(s.faults[key]) > occ {
		s.faults[key] = append([]vfFault(nil), s.faults[key][:occ]...)
	}
	s.mu.Unlock()
}

// vfc15ScriptNext: the next n metadata responses (whichever broker serves them) carry topic error code on
// every topic (0 = none) and are delayed by delayUs.
func (s *vfSim) vfc15ScriptNext(n int, code int16, delayUs int) {
	key := "metadata"
	s.mu.Lock()
	occ := s.occ[key]
	l := append([]vfFault(nil), s.faults[key]...)
	for len(l) < occ+n {
		l = append(l, vfFault{Kind: "ok"})
	}
	for i := occ; i < occ+n; i++ {
		f := vfFault{Kind: "ok", DelayUs: delayUs}
		if code != 0 {
			f = vfFault{Kind: "err", Code: code, DelayUs: delayUs}
		}
		l[i] = f
	}
	s.faults[key] = l
	s.mu.Unlock()
}

// vfc15PendingFault reports whether a failure is still scripted for broker id.
func (s *vfSim) vfc15PendingFault(id int32) bool {
	key := fmt.Sprintf("metadata/b%d", id)
	s.mu.Lock()
	defer s.mu.Unlock()
	l := s.faults[key]
	for i := s.occ[key]; i < len(l); i++ {
		if l[i].Kind != "ok" && l[i].Kind != "err" {
			return true
		}
	}
	return false
}

func vfc15AltAddr(id int32, variant int) string {
	if variant <= 0 {
		return vfBrokerAddr(id)
	}
	return "b" + strconv.Itoa(int(id)) + "v" + strconv.Itoa(variant) + ":" + strconv.Itoa(9092+variant)
}

// vfc15Mutate applies one mutation step to the model. Targets are resolved modulo what exists, so every step is
// meaningful (or a no-op) whatever the earlier steps did; shrinking a case never makes it invalid.
func (s *vfSim) vfc15Mutate(st *vfc15Step) {
	pickBroker := func() (int32, bool) {
		s.mu.Lock()
		defer s.mu.Unlock()
		ids := vfc15SortedBrokerIDs(s)
		if len(ids) == 0 {
			return 0, false
		}
		return ids[vfc15Mod(st.Broker, len(ids))], true
	}
	withPart := func(f func(t *vfTopicState, p *vfPartState)) {
		s.mu.Lock()
		defer s.mu.Unlock()
		t := s.topics[st.Topic]
		if t == nil || len(t.Parts) == 0 {
			return
		}
		ids := vfc15SortedPartIDs(t)
		f(t, t.Parts[ids[vfc15Mod(st.Part, len(ids))]])
	}
	switch st.Op {
	case "addTopic":
		s.mu.Lock()
		t := &vfTopicState{Name: st.Topic, Parts: map[int32]*vfPartState{}, Err: st.Code}
		for i, l := range st.Leaders {
			t.Parts[int32(i)] = vfc15NewPart(int32(i), l)
		}
		if len(t.Parts) == 0 {
			t.Parts[0] = vfc15NewPart(0, -1)
		}
		s.topics[st.Topic] = t
		s.mu.Unlock()
	case "delTopic":
		s.mu.Lock()
		delete(s.topics, st.Topic)
		s.mu.Unlock()
	case "topicErr":
		s.mu.Lock()
		if t := s.topics[st.Topic]; t != nil {
			t.Err = st.Code
		}
		s.mu.Unlock()
	case "addParts":
		s.mu.Lock()
		if t := s.topics[st.Topic]; t != nil {
			next := int32(0)
			for id := range t.Parts {
				if id >= next {
					next = id + 1
				}
			}
			for i, l := range st.Leaders {
				t.Parts[next+int32(i)] = vfc15NewPart(next+int32(i), l)
			}
		}
		s.mu.Unlock()
	case "rmPart":
		s.mu.Lock()
		if t := s.topics[st.Topic]; t != nil && len(t.Parts) > 1 {
			ids := vfc15SortedPartIDs(t)
			n := st.N
			if n < 1 {
				n = 1
			}
			for k := 0; k < n && len(t.Parts) > 1; k++ {
				ids = vfc15SortedPartIDs(t)
				delete(t.Parts, ids[vfc15Mod(st.Part, len(ids))])
			}
		}
		s.mu.Unlock()
	case "leader":
		withPart(func(t *vfTopicState, p *vfPartState) {
			p.Leader = st.Leader
			if p.Leader < 0 {
				p.Err = 5 // a faithful broker reports a missing leader together with LEADER_NOT_AVAILABLE
			} else if p.Err == 5 {
				p.Err = 0
			}
		})
	case "replicas":
		withPart(func(t *vfTopicState, p *vfPartState) {
			p.Replicas = append([]int32(nil), st.Ids...)
			p.Isr = append([]int32(nil), st.Isr...)
			p.Offline = append([]int32(nil), st.Offline...)
		})
	case "partErr":
		withPart(func(t *vfTopicState, p *vfPartState) {
			p.Err = st.Code
			if p.Leader < 0 && p.Err != 5 {
				p.Err = 0 // leader -1 is always answered as LEADER_NOT_AVAILABLE
			}
		})
	case "addBroker":
		s.vfc15AddBroker(int32(st.Broker), vfc15AltAddr(int32(st.Broker), st.Variant))
	case "rmBroker":
		if id, ok := pickBroker(); ok {
			s.vfc15RemoveBroker(id)
		}
	case "swapBroker":
		// a broker leaves and another one (id st.N) arrives before the client looks again: the broker set changes
		// without getting smaller
		if id, ok := pickBroker(); ok {
			s.vfc15RemoveBroker(id)
			s.vfc15AddBroker(int32(st.N), vfc15AltAddr(int32(st.N), st.Variant))
		}
	case "readdr":
		if id, ok := pickBroker(); ok {
			s.vfc15Readdress(id, vfc15AltAddr(id, st.Variant))
		}
	case "down":
		if id, ok := pickBroker(); ok {
			s.setBrokerUp(id, false)
		}
	case "up":
		if id, ok := pickBroker(); ok {
			s.setBrokerUp(id, true)
		}
	case "downSeeds":
		// every broker a seed address points at goes down, as long as another broker stays up: the client must go on
		// with the brokers it learnt from metadata
		s.mu.Lock()
		var seedIDs []int32
		others := 0
		for _, id := range vfc15SortedBrokerIDs(s) {
			b := s.brokers[id]
			isSeed := false
			for _, a := range st.Topics {
				if a == b.Addr {
					isSeed = true
				}
			}
			if isSeed {
				seedIDs = append(seedIDs, id)
			} else if b.Up {
				others++
			}
		}
		s.mu.Unlock()
		if others > 0 {
			for _, id := range seedIDs {
				s.setBrokerUp(id, false)
			}
		}
	case "upAll":
		s.mu.Lock()
		ids := vfc15SortedBrokerIDs(s)
		s.mu.Unlock()
		for _, id := range ids {
			s.vfc15Heal(id)
			s.setBrokerUp(id, true)
		}
	case "failNext":
		if id, ok := pickBroker(); ok {
			n := st.N
			if n < 1 {
				n = 1
			}
			s.vfc15FailNext(id, st.Kind, n)
		}
	case "heal":
		if id, ok := pickBroker(); ok {
			s.vfc15Heal(id)
			s.setBrokerUp(id, true)
		}
	case "scriptNext":
		n := st.N
		if n < 1 {
			n = 1
		}
		s.vfc15ScriptNext(n, st.Code, st.DelayUs)
	}
}

func vfc15Mod(i, n int) int {
	if n <= 0 {
		return 0
	}
	i %= n
	if i < 0 {
		i += n
	}
	return i
}

func vfc15IsMutation(op string) bool {
	switch op {
	case "refresh", "read", "sleep", "sweep", "new", "close":
		return false
	}
	return true
}

// ---------------------------------------------------------------- goroutine identity

func vfc15Gid() int64 {
	var buf [64]byte
	n := runtime.Stack(buf[:], false)
	// "goroutine 123 [running]:"
	s := buf[:n]
	if len(s) < 10 {
		return -1
	}
	s = s[10:]
	var id int64
	for _, c := range s {
		if c < '0' || c > '9' {
			break
		}
		id = id*10 + int64(c-'0')
	}
	return id
}

// vfc15ParentGid returns the id of the goroutine that created the calling goroutine ("created by X in goroutine N").
func vfc15ParentGid() int64 {
	buf := make([]byte, 4096)
	n := runtime.Stack(buf, false)
	s := string(buf[:n])
	i := strings.LastIndex(s, " in goroutine ")
	if i < 0 {
		return -1
	}
	s = s[i+len(" in goroutine "):]
	var id int64
	for _, c := range s {
		if c < '0' || c > '9' {
			break
		}
		id = id*10 + int64(c-'0')
	}
	return id
}

// ---------------------------------------------------------------- observing dialer

type vfc15NetEv struct {
	Stamp int64  `json:"stamp"`
	Kind  string `json:"kind"` // dial | dialfail | write | frame | rderr | close
	Conn  int    `json:"conn,omitempty"`
	Addr  string `json:"addr,omitempty"`
	Actor string `json:"actor,omitempty"`
	K     int    `json:"k,omitempty"` // write: request index on the conn; frame: response index on the conn
	Note  string `json:"note,omitempty"`
}

type vfc15Net struct {
	sim      *vfSim
	mu       sync.Mutex
	conns    []*vfc15Conn
	evs      []vfc15NetEv
	actors   map[int64]string
	progress int64 // atomic: events that count as progress of harness actors
	bgOn     bool
}

type vfc15Conn struct {
	net    *vfc15Net
	idx    int // 1-based index into net.conns
	addr   string
	simID  int
	under  *vfConn
	mu     sync.Mutex
	writes int
	frames int
	// frame parser over the bytes the client has read
	hdr     [4]byte
	hdrN    int
	bodyRem int
	closed  bool
	timeout bool
	lastWr  string
}

func newVfc15Net(sim *vfSim) *vfc15Net {
	return &vfc15Net{sim: sim, actors: map[int64]string{}}
}

func (n *vfc15Net) stamp() int64 { return atomic.AddInt64(&n.sim.hist.seq, 1) }

func (n *vfc15Net) register(name string) {
	g := vfc15Gid()
	n.mu.Lock()
	n.actors[g] = name
	n.mu.Unlock()
}

func (n *vfc15Net) actorOf(g int64) string {
	n.mu.Lock()
	defer n.mu.Unlock()
	if a, ok := n.actors[g]; ok {
		return a
	}
	return "bg"
}

func (n *vfc15Net) add(e vfc15NetEv) {
	n.mu.Lock()
	n.evs = append(n.evs, e)
	n.mu.Unlock()
	if e.Actor != "bg" || !n.bgOn {
		atomic.AddInt64(&n.progress, 1)
	}
}

// Dial implements proxy.Dialer.
func (n *vfc15Net) Dial(network, addr string) (net.Conn, error) {
	actor := n.actorOf(vfc15ParentGid())
	c, err := n.sim.net.Dial(network, addr)
	if err != nil {
		n.add(vfc15NetEv{Stamp: n.stamp(), Kind: "dialfail", Addr: addr, Actor: actor})
		return nil, err
	}
	vc := c.(*vfConn)
	simID := 0
	n.sim.mu.Lock()
	for id, sc := range n.sim.conns {
		if sc.conn.remote == vc.local {
			simID = id
		}
	}
	n.sim.mu.Unlock()
	wc := &vfc15Conn{net: n, addr: addr, simID: simID, under: vc}
	n.mu.Lock()
	n.conns = append(n.conns, wc)
	wc.idx = len(n.conns)
	n.mu.Unlock()
	n.add(vfc15NetEv{Stamp: n.stamp(), Kind: "dial", Conn: wc.idx, Addr: addr, Actor: actor})
	return wc, nil
}

func (c *vfc15Conn) Write(p []byte) (int, error) {
	actor := c.net.actorOf(vfc15Gid())
	c.mu.Lock()
	c.writes++
	k := c.writes
	c.lastWr = actor
	c.mu.Unlock()
	note := ""
	if len(p) >= 6 {
		if key := int(p[4])<<8 | int(p[5]); key != 3 {
			note = "api" + strconv.Itoa(key)
		}
	}
	c.net.add(vfc15NetEv{Stamp: c.net.stamp(), Kind: "write", Conn: c.idx, Addr: c.addr, Actor: actor, K: k, Note: note})
	return c.under.Write(p)
}

func (c *vfc15Conn) Read(p []byte) (int, error) {
	n, err := c.under.Read(p)
	if n > 0 {
		done := 0
		c.mu.Lock()
		b := p[:n]
		for len(b) > 0 {
			if c.bodyRem == 0 {
				k := copy(c.hdr[c.hdrN:], b)
				c.hdrN += k
				b = b[k:]
				if c.hdrN == 4 {
					c.bodyRem = int(c.hdr[0])<<24 | int(c.hdr[1])<<16 | int(c.hdr[2])<<8 | int(c.hdr[3])
					c.hdrN = 0
					if c.bodyRem == 0 {
						done++
					}
				}
				continue
			}
			k := len(b)
			if k > c.bodyRem {
				k = c.bodyRem
			}
			c.bodyRem -= k
			b = b[k:]
			if c.bodyRem == 0 {
				done++
			}
		}
		first := c.frames
		c.frames += done
		actor := c.lastWr
		c.mu.Unlock()
		for i := 1; i <= done; i++ {
			c.net.add(vfc15NetEv{Stamp: c.net.stamp(), Kind: "frame", Conn: c.idx, Addr: c.addr, Actor: actor, K: first + i})
		}
	}
	if err != nil {
		note := err.Error()
		if ne, ok := err.(interface{ Timeout() bool }); ok && ne.Timeout() {
			note = "timeout"
			c.mu.Lock()
			c.timeout = true
			c.mu.Unlock()
		}
		c.mu.Lock()
		actor := c.lastWr
		c.mu.Unlock()
		c.net.add(vfc15NetEv{Stamp: c.net.stamp(), Kind: "rderr", Conn: c.idx, Addr: c.addr, Actor: actor, Note: note})
	}
	return n, err
}

func (c *vfc15Conn) Close() error {
	c.mu.Lock()
	c.closed = true
	c.mu.Unlock()
	return c.under.Close()
}

func (c *vfc15Conn) LocalAddr() net.Addr                { return c.under.LocalAddr() }
func (c *vfc15Conn) RemoteAddr() net.Addr               { return c.under.RemoteAddr() }
func (c *vfc15Conn) SetDeadline(t time.Time) error      { return c.under.SetDeadline(t) }
func (c *vfc15Conn) SetReadDeadline(t time.Time) error  { return c.under.SetReadDeadline(t) }
func (c *vfc15Conn) SetWriteDeadline(t time.Time) error { return c.under.SetWriteDeadline(t) }

// vfc15StaleConn reports whether the client still holds a connection to addr whose server side is gone:
// the next request on it fails once, whatever the broker's health.
func (n *vfc15Net) staleConn(addr string) bool {
	n.mu.Lock()
	conns := append([]*vfc15Conn(nil), n.conns...)
	n.mu.Unlock()
	for _, c := range conns {
		if c.addr != addr {
			continue
		}
		c.mu.Lock()
		closed := c.closed
		c.mu.Unlock()
		if closed {
			continue
		}
		c.under.in.mu.Lock()
		dead := c.under.in.wclosed
		c.under.in.mu.Unlock()
		if dead {
			return true
		}
	}
	return false
}

func (n *vfc15Net) snapshot() ([]vfc15NetEv, []*vfc15Conn) {
	n.mu.Lock()
	defer n.mu.Unlock()
	evs := append([]vfc15NetEv(nil), n.evs...)
	sort.Slice(evs, func(i, j int) bool { return evs[i].Stamp < evs[j].Stamp })
	return evs, append([]*vfc15Conn(nil), n.conns...)
}
