//go:build go1.18 && verif

package sarama

// C09: the table of everything that has a wire encoding, with the version range each
// entry implements.  Ranges were established by reading the version gates and
// requiredVersion() of every body (not guessed); a response is decoded with the
// version of its request, so a response's range is at least its request's range.
// vfCheckTable cross-checks the table against allocateBody and against a scan of the
// compiled tree's sources for types that implement key().

import (
	"fmt"
	"os"
	"path/filepath"
	"reflect"
	"regexp"
	"runtime"
	"sort"
	"strings"

	"github.com/Shopify/sarama/internal/vfcore"
	"pgregory.net/rapid"
)

type vfBody struct {
	Name string // Go type name
	Kind string // "request" | "response" | "aux"
	MaxV int16  // versions 0..MaxV are implemented
	// Hand: decode needs getSubset/peek/push (records inside); covered by the
	// hand-written generators of codec_records_test.go, not by the generating decoder.
	Hand     bool
	NoEncode bool // responseHeader has no encoder
	mk       func() interface{}
}

func vfB(kind string, maxV int16, mk func() interface{}) vfBody {
	t := reflect.TypeOf(mk()).Elem()
	return vfBody{Name: t.Name(), Kind: kind, MaxV: maxV, mk: mk}
}

// vfNew returns a fresh value for version v. Like allocateBody does for some
// requests, a "Version" field is preset where the type has one (several decoders do
// not record the version they were given; see class "decode-leaves-version-unset").
func (b *vfBody) vfNew(v int16) interface{} {
	x := b.mk()
	vfSetVersion(x, v)
	return x
}

func vfSetVersion(x interface{}, v int16) {
	rv := reflect.ValueOf(x).Elem()
	if rv.Kind() != reflect.Struct {
		return
	}
	f := rv.FieldByName("Version")
	if f.IsValid() && f.CanSet() {
		switch f.Kind() {
		case reflect.Int, reflect.Int8, reflect.Int16, reflect.Int32, reflect.Int64:
			f.SetInt(int64(v))
		}
	}
}

var vfBodies = []vfBody{
	// ---- requests (allocateBody order)
	{Name: "ProduceRequest", Kind: "request", MaxV: 7, Hand: true, mk: func() interface{} { return &ProduceRequest{} }},
	vfB("request", 11, func() interface{} { return &FetchRequest{} }),
	vfB("request", 2, func() interface{} { return &OffsetRequest{} }),
	vfB("request", 5, func() interface{} { return &MetadataRequest{} }),
	vfB("request", 4, func() interface{} { return &OffsetCommitRequest{} }),
	vfB("request", 7, func() interface{} { return &OffsetFetchRequest{} }),
	vfB("request", 1, func() interface{} { return &FindCoordinatorRequest{} }),
	vfB("request", 0, func() interface{} { return &ConsumerMetadataRequest{} }),
	vfB("request", 2, func() interface{} { return &JoinGroupRequest{} }),
	vfB("request", 0, func() interface{} { return &HeartbeatRequest{} }),
	vfB("request", 0, func() interface{} { return &LeaveGroupRequest{} }),
	vfB("request", 0, func() interface{} { return &SyncGroupRequest{} }),
	vfB("request", 0, func() interface{} { return &DescribeGroupsRequest{} }),
	vfB("request", 0, func() interface{} { return &ListGroupsRequest{} }),
	vfB("request", 1, func() interface{} { return &SaslHandshakeRequest{} }),
	vfB("request", 0, func() interface{} { return &ApiVersionsRequest{} }),
	vfB("request", 2, func() interface{} { return &CreateTopicsRequest{} }),
	vfB("request", 1, func() interface{} { return &DeleteTopicsRequest{} }),
	vfB("request", 0, func() interface{} { return &DeleteRecordsRequest{} }),
	vfB("request", 0, func() interface{} { return &InitProducerIDRequest{} }),
	vfB("request", 0, func() interface{} { return &AddPartitionsToTxnRequest{} }),
	vfB("request", 0, func() interface{} { return &AddOffsetsToTxnRequest{} }),
	vfB("request", 0, func() interface{} { return &EndTxnRequest{} }),
	vfB("request", 0, func() interface{} { return &TxnOffsetCommitRequest{} }),
	vfB("request", 1, func() interface{} { return &DescribeAclsRequest{} }),
	vfB("request", 1, func() interface{} { return &CreateAclsRequest{} }),
	vfB("request", 1, func() interface{} { return &DeleteAclsRequest{} }),
	vfB("request", 2, func() interface{} { return &DescribeConfigsRequest{} }),
	vfB("request", 0, func() interface{} { return &AlterConfigsRequest{} }),
	vfB("request", 0, func() interface{} { return &DescribeLogDirsRequest{} }),
	vfB("request", 0, func() interface{} { return &SaslAuthenticateRequest{} }),
	vfB("request", 0, func() interface{} { return &CreatePartitionsRequest{} }),
	vfB("request", 0, func() interface{} { return &DeleteGroupsRequest{} }),
	vfB("request", 0, func() interface{} { return &IncrementalAlterConfigsRequest{} }),
	vfB("request", 0, func() interface{} { return &AlterPartitionReassignmentsRequest{} }),
	vfB("request", 0, func() interface{} { return &ListPartitionReassignmentsRequest{} }),
	vfB("request", 0, func() interface{} { return &DescribeUserScramCredentialsRequest{} }),
	vfB("request", 0, func() interface{} { return &AlterUserScramCredentialsRequest{} }),
	// ---- responses
	vfB("response", 7, func() interface{} { return &ProduceResponse{} }),
	{Name: "FetchResponse", Kind: "response", MaxV: 11, Hand: true, mk: func() interface{} { return &FetchResponse{} }},
	vfB("response", 2, func() interface{} { return &OffsetResponse{} }),
	vfB("response", 5, func() interface{} { return &MetadataResponse{} }),
	vfB("response", 4, func() interface{} { return &OffsetCommitResponse{} }),
	vfB("response", 7, func() interface{} { return &OffsetFetchResponse{} }),
	vfB("response", 1, func() interface{} { return &FindCoordinatorResponse{} }),
	vfB("response", 0, func() interface{} { return &ConsumerMetadataResponse{} }),
	vfB("response", 2, func() interface{} { return &JoinGroupResponse{} }),
	vfB("response", 0, func() interface{} { return &HeartbeatResponse{} }),
	vfB("response", 0, func() interface{} { return &LeaveGroupResponse{} }),
	vfB("response", 0, func() interface{} { return &SyncGroupResponse{} }),
	vfB("response", 0, func() interface{} { return &DescribeGroupsResponse{} }),
	vfB("response", 0, func() interface{} { return &ListGroupsResponse{} }),
	vfB("response", 1, func() interface{} { return &SaslHandshakeResponse{} }),
	vfB("response", 0, func() interface{} { return &ApiVersionsResponse{} }),
	vfB("response", 2, func() interface{} { return &CreateTopicsResponse{} }),
	vfB("response", 1, func() interface{} { return &DeleteTopicsResponse{} }),
	vfB("response", 0, func() interface{} { return &DeleteRecordsResponse{} }),
	vfB("response", 0, func() interface{} { return &InitProducerIDResponse{} }),
	vfB("response", 0, func() interface{} { return &AddPartitionsToTxnResponse{} }),
	vfB("response", 0, func() interface{} { return &AddOffsetsToTxnResponse{} }),
	vfB("response", 0, func() interface{} { return &EndTxnResponse{} }),
	vfB("response", 0, func() interface{} { return &TxnOffsetCommitResponse{} }),
	vfB("response", 1, func() interface{} { return &DescribeAclsResponse{} }),
	vfB("response", 1, func() interface{} { return &CreateAclsResponse{} }),
	vfB("response", 1, func() interface{} { return &DeleteAclsResponse{} }),
	vfB("response", 2, func() interface{} { return &DescribeConfigsResponse{} }),
	vfB("response", 0, func() interface{} { return &AlterConfigsResponse{} }),
	vfB("response", 0, func() interface{} { return &DescribeLogDirsResponse{} }),
	vfB("response", 0, func() interface{} { return &SaslAuthenticateResponse{} }),
	vfB("response", 0, func() interface{} { return &CreatePartitionsResponse{} }),
	vfB("response", 0, func() interface{} { return &DeleteGroupsResponse{} }),
	vfB("response", 0, func() interface{} { return &IncrementalAlterConfigsResponse{} }),
	vfB("response", 0, func() interface{} { return &AlterPartitionReassignmentsResponse{} }),
	vfB("response", 0, func() interface{} { return &ListPartitionReassignmentsResponse{} }),
	vfB("response", 0, func() interface{} { return &DescribeUserScramCredentialsResponse{} }),
	vfB("response", 0, func() interface{} { return &AlterUserScramCredentialsResponse{} }),
	// ---- other wire structures
	vfB("aux", 0, func() interface{} { return &ConsumerGroupMemberMetadata{} }),
	vfB("aux", 0, func() interface{} { return &ConsumerGroupMemberAssignment{} }),
	vfB("aux", 0, func() interface{} { return &StickyAssignorUserDataV0{} }),
	vfB("aux", 0, func() interface{} { return &StickyAssignorUserDataV1{} }),
	{Name: "request", Kind: "aux", MaxV: 0, mk: func() interface{} { return &request{} }},                               // request header + body via request.decode
	{Name: "responseHeader", Kind: "aux", MaxV: 1, NoEncode: true, mk: func() interface{} { return &responseHeader{} }}, // header v0 / v1 (flexible)
}

var vfBodyIndex = func() map[string]int {
	m := map[string]int{}
	for i, b := range vfBodies {
		m[b.Name] = i
	}
	return m
}()

// vfPair is one (type, version) combination of the table.
type vfPair struct {
	Type    int
	Version int16
}

func (p vfPair) String() string { return fmt.Sprintf("%s/v%d", vfBodies[p.Type].Name, p.Version) }

// vfAllPairs lists every (type, version) pair; hand selects the hand-generated ones.
func vfAllPairs(hand bool) []vfPair {
	var out []vfPair
	for i, b := range vfBodies {
		if b.Hand != hand {
			continue
		}
		for v := int16(0); v <= b.MaxV; v++ {
			out = append(out, vfPair{i, v})
		}
	}
	return out
}

// vfDecodableResponses lists the (type, version) pairs a client decodes from the
// network with versionedDecode (entry points of C10). FetchResponse is included
// (Hand: its valid encodings come from the record-format generators).
func vfDecodableResponses() []vfPair {
	var out []vfPair
	for i, b := range vfBodies {
		if b.Kind != "response" {
			continue
		}
		for v := int16(0); v <= b.MaxV; v++ {
			out = append(out, vfPair{i, v})
		}
	}
	return out
}

// vfRequestKeyVersions lists (api key, version) of every request the generating
// decoder can drive through request.decode (allocateBody must return that type).
func vfRequestKeyVersions() [][2]int16 {
	var out [][2]int16
	for _, b := range vfBodies {
		if b.Kind != "request" || b.Hand || b.Name == "ConsumerMetadataRequest" {
			continue
		}
		key := b.mk().(protocolBody).key()
		for v := int16(0); v <= b.MaxV; v++ {
			out = append(out, [2]int16{key, v})
		}
	}
	return out
}

// ---------------------------------------------------------------- generation API (shared with C10)

type vfGenInfo struct {
	Ops      int
	Rich     bool // >=1 non-empty collection or nullable field set
	MaxColl  int
	Over     bool  // operation budget exceeded
	Rejected error // the decoder under test rejected the drawn values
	Unsupp   bool
	Panic    interface{}
	PanicAt  string // vfcore.PanicSite of Panic
	Tape     []byte // the recorded draws: replaying them reproduces value and R
}

// vfGenFromDraws runs the decoder of table entry ti at the given version against a
// generating decoder fed by d.
func vfGenFromDraws(d *vfDraws, ti int, version int16) (val interface{}, R []byte, fields []vfField, info vfGenInfo) {
	b := &vfBodies[ti]
	g := vfNewGenDec(d, version)
	val = b.vfNew(version)
	if b.Name == "request" {
		kv := vfRequestKeyVersions()
		p := kv[d.vfIntn(len(kv))]
		g.force16 = []int16{p[0], p[1]}
	}
	func() {
		defer func() {
			if p := recover(); p != nil {
				info.Panic = p
				info.PanicAt = vfcore.PanicSite(p, vfPkgPrefix, "vf", "TestVF", "FuzzVF")
			}
		}()
		info.Rejected = vfDecodeWith(val, g, version)
	}()
	info.Ops, info.Rich, info.MaxColl, info.Over, info.Unsupp, info.Tape = g.ops, g.rich, g.maxColl, g.over, g.unsupp, d.rec
	if g.w.b == nil {
		g.w.b = []byte{}
	}
	return val, g.w.b, g.w.fields, info
}

func vfDecodeWith(val interface{}, pd packetDecoder, version int16) error {
	switch x := val.(type) {
	case versionedDecoder:
		return x.decode(pd, version)
	case decoder:
		return x.decode(pd)
	}
	return fmt.Errorf("vf: %T has no decode method", val)
}

// vfRealDecode runs the real decoder over buf with the full-consumption rule of
// decode()/versionedDecode().
func vfRealDecode(val interface{}, buf []byte, version int16) error {
	if buf == nil {
		buf = []byte{}
	}
	switch x := val.(type) {
	case versionedDecoder:
		return versionedDecode(buf, x, version)
	case decoder:
		return decode(buf, x)
	}
	return fmt.Errorf("vf: %T has no decode method", val)
}

// vfGenValue draws one valid value of table entry typeIndex at the given version
// together with its reference encoding R (harness writer) and the field log of R.
// ok is false when the draw must be discarded (operation budget exceeded or the
// decoder rejected the values). Hand-generated entries (ProduceRequest,
// FetchResponse) are not served here; use the record-format generators.
func vfGenValue(t *rapid.T, typeIndex int, version int16) (value interface{}, R []byte, fields []vfField, ok bool) {
	if vfBodies[typeIndex].Hand {
		return nil, nil, nil, false
	}
	d := &vfDraws{t: t}
	val, R, fields, info := vfGenFromDraws(d, typeIndex, version)
	if info.Over || info.Rejected != nil || info.Panic != nil || info.Unsupp {
		return nil, nil, nil, false
	}
	return val, R, fields, true
}

// ---------------------------------------------------------------- cross-checks

// vfSourceDir finds the directory of the tree this binary was compiled from.
func vfSourceDir() string {
	if _, file, _, ok := runtime.Caller(0); ok {
		d := filepath.Dir(file)
		if _, err := os.Stat(filepath.Join(d, "request.go")); err == nil {
			return d
		}
	}
	if d := os.Getenv("VF_REPO"); d != "" {
		return d
	}
	return "/repo"
}

var vfKeyMethodRe = regexp.MustCompile(`(?m)^func \(\w+ \*?(\w+)\) key\(\) int16`)

// vfCheckTable returns a list of inconsistencies between the table, allocateBody
// and the sources (empty = consistent).
func vfCheckTable() []string {
	var bad []string
	seen := map[string]bool{}
	for _, b := range vfBodies {
		if seen[b.Name] {
			bad = append(bad, "duplicate table entry "+b.Name)
		}
		seen[b.Name] = true
		x := b.mk()
		if got := reflect.TypeOf(x).Elem().Name(); got != b.Name {
			bad = append(bad, fmt.Sprintf("entry %s constructs %s", b.Name, got))
		}
		if b.Kind == "aux" {
			continue
		}
		pb, ok := x.(protocolBody)
		if !ok {
			bad = append(bad, b.Name+" does not implement protocolBody")
			continue
		}
		wantSuffix := map[string]string{"request": "Request", "response": "Response"}[b.Kind]
		if !strings.HasSuffix(b.Name, wantSuffix) {
			bad = append(bad, b.Name+" listed as "+b.Kind)
		}
		for v := int16(0); v <= b.MaxV; v++ {
			y := b.vfNew(v).(protocolBody)
			_ = y.requiredVersion()
			_ = y.headerVersion()
			if f := reflect.ValueOf(y).Elem().FieldByName("Version"); f.IsValid() && y.version() != v {
				bad = append(bad, fmt.Sprintf("%s: version() = %d with Version preset to %d", b.Name, y.version(), v))
			}
		}
		if b.Kind == "request" && b.Name != "ConsumerMetadataRequest" {
			for v := int16(0); v <= b.MaxV; v++ {
				a := allocateBody(pb.key(), v)
				if a == nil || reflect.TypeOf(a) != reflect.TypeOf(x) {
					bad = append(bad, fmt.Sprintf("allocateBody(%d,%d) = %T, table says %s", pb.key(), v, a, b.Name))
				}
			}
		}
		// request/response pairing: same version range
		if b.Kind == "request" {
			rn := strings.TrimSuffix(b.Name, "Request") + "Response"
			if ri, ok := vfBodyIndex[rn]; !ok {
				bad = append(bad, "no response entry for "+b.Name)
			} else if vfBodies[ri].MaxV != b.MaxV {
				bad = append(bad, fmt.Sprintf("%s 0..%d but %s 0..%d", b.Name, b.MaxV, rn, vfBodies[ri].MaxV))
			}
		}
	}
	// every key allocateBody knows must be in the table
	for key := int16(-1); key <= 200; key++ {
		if a := allocateBody(key, 0); a != nil {
			if _, ok := vfBodyIndex[reflect.TypeOf(a).Elem().Name()]; !ok {
				bad = append(bad, fmt.Sprintf("allocateBody(%d) returns %T which is not in the table", key, a))
			}
		}
	}
	// every type of the compiled tree that implements key() must be in the table
	dir := vfSourceDir()
	files, _ := filepath.Glob(filepath.Join(dir, "*.go"))
	found := map[string]bool{}
	for _, f := range files {
		base := filepath.Base(f)
		if strings.HasSuffix(base, "_test.go") || strings.HasPrefix(base, "zz_vf") {
			continue
		}
		src, err := os.ReadFile(f)
		if err != nil {
			continue
		}
		for _, m := range vfKeyMethodRe.FindAllSubmatch(src, -1) {
			found[string(m[1])] = true
		}
	}
	if len(found) == 0 {
		bad = append(bad, "source scan of "+dir+" found no type with a key() method (cannot cross-check the table)")
	}
	var names []string
	for n := range found {
		names = append(names, n)
	}
	sort.Strings(names)
	for _, n := range names {
		if _, ok := vfBodyIndex[n]; !ok {
			bad = append(bad, "type "+n+" implements key() but is missing from the C09 table")
		}
	}
	for _, b := range vfBodies {
		if b.Kind != "aux" && !found[b.Name] && len(found) > 0 {
			bad = append(bad, "table entry "+b.Name+" has no key() method in "+dir)
		}
	}
	return bad
}
