//go:build go1.18 && verif

package sarama

// C10 (DESIGN 5.10): malformed or corrupted input yields an error, never a crash or
// wrong data.  This file holds the case type, the entry points (how each hostile byte
// string is handed to the code under test) and the oracles: no panic, no hang, bounded
// allocation, checksum / length clause.  Generators and mutators are in
// malformed_gen_test.go, the test functions and fuzz targets in malformed_check_test.go.

import (
	"bytes"
	"encoding/json"
	"fmt"
	"os"
	"reflect"
	"runtime"
	"runtime/debug"
	"runtime/metrics"
	"sort"
	"strings"
	"sync"
	"syscall"
	"time"

	"github.com/Shopify/sarama/internal/vfcore"
)

// ---------------------------------------------------------------- the case (plain data)

const (
	vfxEResp     = "resp"            // versionedDecode(input, <response type>, version)
	vfxEHeader   = "header"          // responseHeader v0/v1 + the body-length arithmetic of Broker.responseReceiver
	vfxERecords  = "records"         // decode(input, &Records{})
	vfxEBatch    = "batch"           // decode(input, &RecordBatch{})
	vfxEMsgSet   = "msgset"          // decode(input, &MessageSet{})
	vfxEMessage  = "message"         // decode(input, &Message{})
	vfxERecord   = "record"          // decode(input, &Record{})
	vfxEMeta     = "member-meta"     // decode(input, &ConsumerGroupMemberMetadata{})
	vfxEAssign   = "member-assign"   // decode(input, &ConsumerGroupMemberAssignment{})
	vfxEUserData = "sticky-userdata" // deserializeTopicPartitionAssignment(input)
	vfxEPlan     = "sticky-plan"     // BalanceStrategySticky.Plan(members with hostile user data, topics)
	vfxEFetch    = "fetch-parse"     // versionedDecode(input, &FetchResponse{}, version) then partitionConsumer.parseResponse
)

var vfxEntries = []string{vfxEResp, vfxEHeader, vfxERecords, vfxEBatch, vfxEMsgSet, vfxEMessage, vfxERecord, vfxEMeta, vfxEAssign,
	vfxEUserData, vfxEPlan, vfxEFetch}

// vfxGroup maps an entry to its entry group (class histogram, fuzz targets).
func vfxGroup(entry string) string {
	switch entry {
	case vfxEResp:
		return "response"
	case vfxEHeader:
		return "header"
	case vfxERecords, vfxEBatch, vfxEMsgSet, vfxEMessage, vfxERecord:
		return "records"
	case vfxEMeta, vfxEAssign, vfxEUserData:
		return "group"
	case vfxEPlan:
		return "plan"
	case vfxEFetch:
		return "fetch"
	}
	return "?"
}

type vfxMember struct {
	ID       string   `json:"id"`
	Topics   []string `json:"topics"`
	UserData []byte   `json:"user_data"`
}

type vfxPlanTopic struct {
	Name       string  `json:"name"`
	Partitions []int32 `json:"partitions"`
}

type vfxCase struct {
	Entry   string `json:"entry"`
	Type    string `json:"type,omitempty"` // response type name (entry resp)
	Version int16  `json:"version"`
	Mut     string `json:"mut"`   // how the input was made (class histogram; the oracle does not depend on it)
	Input   []byte `json:"input"` // the hostile bytes

	// checksum / length clause: Input is Orig (a valid encoding) with one change inside
	// the CRC-covered span of a message / batch (clause "crc") or to a batch length /
	// message size / records size / record length field (clause "size").
	Clause string `json:"clause,omitempty"`
	Orig   []byte `json:"orig,omitempty"`
	// the unit (message / batch) that was touched: its partition (fetch level) and the
	// number of records (flattened) the same partition / area holds before that unit
	Topic     string `json:"topic,omitempty"`
	Partition int32  `json:"partition,omitempty"`
	Before    int    `json:"before,omitempty"`
	// the lying size delimits a unit that lies entirely inside the buffer the decoder sees
	// (so it is not a truncation): only an error is acceptable
	MustError bool `json:"must_error,omitempty"`
	// the lying field is the records size of a fetch partition: everything behind that
	// partition is framed anew, and because a records area may end in a partial unit
	// (which is dropped silently) the new framing can be self-consistent. Records are
	// then only required to be authentic (see vfxCheckClause).
	Reframe bool `json:"reframe,omitempty"`

	// fetch-parse: the partition the consumer reads, its next offset, isolation level
	ChildOffset   int64 `json:"child_offset,omitempty"`
	ReadCommitted bool  `json:"read_committed,omitempty"`

	// sticky-plan
	Members []vfxMember    `json:"members,omitempty"`
	Topics  []vfxPlanTopic `json:"plan_topics,omitempty"`
}

// ---------------------------------------------------------------- outcome of one call

type vfxOutcome struct {
	Err     error
	Panic   interface{}
	PanicAt string // vfcore.PanicSite
	Stack   string
	Alloc   uint64      // bytes allocated during the call (runtime/metrics /gc/heap/allocs:bytes)
	Value   interface{} // decoded value (entry specific)
	Msgs    []*ConsumerMessage
	Note    string
}

func (o *vfxOutcome) vfxClass() string {
	switch {
	case o.Panic != nil:
		return "panic"
	case o.Err != nil:
		return "error"
	}
	return "ok"
}

// The hang oracle is not a wall-clock limit (a loaded or stalled machine must never
// produce a verdict): every vfxWatchTick of wall time a watchdog looks at the process.
// A case is a hang when (a) the process has burnt vfxWatchCPU of CPU time since the
// call into sarama began (a loop: a held case needs milliseconds), or (b) at three
// consecutive ticks no goroutine other than the watchdog is running or runnable while
// the call has still not returned (everything is blocked: a deadlock, e.g. in a
// decompressor's worker pool). A process that is merely not scheduled accumulates no
// CPU time and shows its goroutine as runnable, so it is left alone.
const (
	vfxWatchTick = 20 * time.Second
	vfxWatchCPU  = 20 * time.Second
)

func vfxProcessCPU() time.Duration {
	var ru syscall.Rusage
	if syscall.Getrusage(syscall.RUSAGE_SELF, &ru) != nil {
		return 0
	}
	return time.Duration(ru.Utime.Nano() + ru.Stime.Nano())
}

type vfxWatch struct {
	mu       sync.Mutex
	timer    *time.Timer
	done     bool
	cpuStart time.Duration
	idle     int
	desc     string
}

func vfxStartWatch(desc string) *vfxWatch {
	w := &vfxWatch{desc: desc, cpuStart: vfxProcessCPU()}
	w.timer = time.AfterFunc(vfxWatchTick, w.vfxWatchFire)
	return w
}

func (w *vfxWatch) vfxStop() {
	w.mu.Lock()
	w.done = true
	w.timer.Stop()
	w.mu.Unlock()
}

func (w *vfxWatch) vfxWatchFire() {
	w.mu.Lock()
	defer w.mu.Unlock()
	if w.done {
		return
	}
	cpu := vfxProcessCPU() - w.cpuStart
	if cpu >= vfxWatchCPU {
		vfxHang(w.desc, fmt.Sprintf("the process burnt %v of CPU time inside one call", cpu.Round(time.Millisecond)))
	}
	stacks := vfcore.Stacks()
	if vfxAllBlocked(stacks) {
		w.idle++
		if w.idle >= 3 {
			vfxHang(w.desc, fmt.Sprintf("no goroutine was running or runnable at %d consecutive looks %v apart and the call has not returned", w.idle, vfxWatchTick))
		}
	} else {
		w.idle = 0
	}
	w.timer.Reset(vfxWatchTick)
}

// vfxAllBlocked reports whether, in a dump of all goroutines, no goroutine other than
// the watchdog's own and the runtime's signal receiver is running, runnable or in a
// system call.
func vfxAllBlocked(stacks string) bool {
	for _, g := range strings.Split(stacks, "\n\n") {
		nl := strings.IndexByte(g, '\n')
		if nl < 0 || !strings.HasPrefix(g, "goroutine ") {
			continue
		}
		head := g[:nl]
		if strings.Contains(g, "vfxWatchFire") || strings.Contains(g, "os/signal.signal_recv") || strings.Contains(g, "os/signal.loop") {
			continue
		}
		i := strings.IndexByte(head, '[')
		if i < 0 {
			continue
		}
		state := head[i+1:]
		if strings.HasPrefix(state, "running") || strings.HasPrefix(state, "runnable") || strings.HasPrefix(state, "syscall") || strings.Contains(state, "(active)") {
			return false
		}
	}
	return true
}

var vfxAllocSample = []metrics.Sample{{Name: "/gc/heap/allocs:bytes"}}

func vfxAllocNow() uint64 {
	metrics.Read(vfxAllocSample)
	if vfxAllocSample[0].Value.Kind() != metrics.KindUint64 {
		return 0
	}
	return vfxAllocSample[0].Value.Uint64()
}

// vfxGuarded runs f (one call into sarama) under recover, a watchdog and the
// allocation counter. Nothing of the harness allocates between the two counter reads
// except f itself.
func vfxGuarded(desc string, f func() error) (o vfxOutcome) {
	wd := vfxStartWatch(desc)
	defer wd.vfxStop()
	defer func() {
		if p := recover(); p != nil {
			o.Alloc = 0
			o.Panic = p
			o.PanicAt = vfcore.PanicSite(p, vfPkgPrefix, "vf", "(*vf", "(vf", "TestVF", "FuzzVF")
			o.Stack = string(debug.Stack())
		}
	}()
	a0 := vfxAllocNow()
	o.Err = f()
	o.Alloc = vfxAllocNow() - a0
	return o
}

// vfxHang is called by the watchdog (see vfxWatchTick). A Go
// loop cannot be interrupted from outside, so the process reports and dies; the driver
// attributes the death to the persisted case ("fatal:fatal error: hang ...").
func vfxHang(desc, why string) {
	fmt.Fprintf(os.Stdout, "fatal error: hang: C10 case does not return (%s): %s\n\n%s\n", desc, why, vfcore.Stacks())
	os.Exit(3)
}

// ---------------------------------------------------------------- entry points

var vfxConsumerConf = func() *Config {
	c := NewConfig()
	c.Consumer.Return.Errors = false
	return c
}()

var vfxConsumerConfRC = func() *Config {
	c := NewConfig()
	c.Consumer.Return.Errors = false
	c.Consumer.IsolationLevel = ReadCommitted
	c.Version = V0_11_0_0
	return c
}()

func vfxNewChild(topic string, partition int32, offset int64, readCommitted bool) *partitionConsumer {
	conf := vfxConsumerConf
	if readCommitted {
		conf = vfxConsumerConfRC
	}
	return &partitionConsumer{
		conf:      conf,
		broker:    &brokerConsumer{broker: &Broker{id: 1}},
		topic:     topic,
		partition: partition,
		offset:    offset,
		fetchSize: conf.Consumer.Fetch.Default,
		// Return.Errors is off: sendError logs instead of sending on a channel nobody reads
	}
}

func vfxResponseType(name string) (*vfBody, bool) {
	i, ok := vfBodyIndex[name]
	if !ok || vfBodies[i].Kind != "response" {
		return nil, false
	}
	return &vfBodies[i], true
}

// vfxCall hands input to the entry point of c and returns what happened.
func vfxCall(c *vfxCase, input []byte) vfxOutcome {
	if input == nil {
		input = []byte{}
	}
	desc := c.Entry
	switch c.Entry {
	case vfxEResp:
		b, ok := vfxResponseType(c.Type)
		if !ok || c.Version < 0 || c.Version > b.MaxV {
			return vfxOutcome{Note: "bad-case"}
		}
		val := b.vfNew(c.Version).(versionedDecoder)
		o := vfxGuarded(desc+" "+c.Type, func() error { return versionedDecode(input, val, c.Version) })
		o.Value = val
		return o
	case vfxEHeader:
		return vfxCallHeader(c, input)
	case vfxERecords:
		v := &Records{}
		o := vfxGuarded(desc, func() error { return decode(input, v) })
		o.Value = v
		return o
	case vfxEBatch:
		v := &RecordBatch{}
		o := vfxGuarded(desc, func() error { return decode(input, v) })
		o.Value = v
		return o
	case vfxEMsgSet:
		v := &MessageSet{}
		o := vfxGuarded(desc, func() error { return decode(input, v) })
		o.Value = v
		return o
	case vfxEMessage:
		v := &Message{}
		o := vfxGuarded(desc, func() error { return decode(input, v) })
		o.Value = v
		return o
	case vfxERecord:
		v := &Record{}
		o := vfxGuarded(desc, func() error { return decode(input, v) })
		o.Value = v
		return o
	case vfxEMeta:
		v := &ConsumerGroupMemberMetadata{}
		o := vfxGuarded(desc, func() error { return decode(input, v) })
		o.Value = v
		return o
	case vfxEAssign:
		v := &ConsumerGroupMemberAssignment{}
		o := vfxGuarded(desc, func() error { return decode(input, v) })
		o.Value = v
		return o
	case vfxEUserData:
		var v StickyAssignorUserData
		o := vfxGuarded(desc, func() (err error) { v, err = deserializeTopicPartitionAssignment(input); return err })
		o.Value = v
		return o
	case vfxEPlan:
		members := map[string]ConsumerGroupMemberMetadata{}
		for _, m := range c.Members {
			members[m.ID] = ConsumerGroupMemberMetadata{Topics: m.Topics, UserData: m.UserData}
		}
		topics := map[string][]int32{}
		for _, t := range c.Topics {
			topics[t.Name] = t.Partitions
		}
		var plan BalanceStrategyPlan
		// a fresh strategy value: Plan keeps state (movements) in the receiver
		s := &stickyBalanceStrategy{}
		o := vfxGuarded(desc, func() (err error) { plan, err = s.Plan(members, topics); return err })
		o.Value = plan
		return o
	case vfxEFetch:
		if c.Version < 0 || c.Version > vfBodies[vfBodyIndex["FetchResponse"]].MaxV {
			return vfxOutcome{Note: "bad-case"}
		}
		resp := &FetchResponse{}
		child := vfxNewChild(c.Topic, c.Partition, c.ChildOffset, c.ReadCommitted)
		var msgs []*ConsumerMessage
		o := vfxGuarded(desc, func() (err error) {
			if err = versionedDecode(input, resp, c.Version); err != nil {
				return err
			}
			msgs, err = child.parseResponse(resp)
			return err
		})
		o.Value = resp
		o.Msgs = msgs
		return o
	}
	return vfxOutcome{Note: "bad-case"}
}

// vfxCallHeader does what Broker.responseReceiver does with the bytes it reads first:
// a header of getHeaderLength(version) bytes is decoded, then
// decodedHeader.length-int32(headerLength)+4 is used as the size of the body buffer.
// The same expressions are evaluated here (no socket); a size that make() would refuse
// or that exceeds MaxResponseSize is attributed to responseReceiver.
func vfxCallHeader(c *vfxCase, input []byte) vfxOutcome {
	if c.Version < 0 || c.Version > 1 {
		return vfxOutcome{Note: "bad-case"}
	}
	headerLength := getHeaderLength(c.Version)
	if len(input) < int(headerLength) {
		return vfxOutcome{Note: "short-read"} // readFull fails before anything is decoded
	}
	header := input[:headerLength]
	decodedHeader := responseHeader{}
	var size int32
	o := vfxGuarded("header", func() error {
		if err := versionedDecode(header, &decodedHeader, c.Version); err != nil {
			return err
		}
		size = decodedHeader.length - int32(headerLength) + 4
		if size < 0 || size <= 1<<16 {
			buf := make([]byte, size) // the statement of responseReceiver; panics for a negative size
			_ = buf
		}
		return nil
	})
	if o.Panic != nil && strings.HasSuffix(o.PanicAt, "@?") {
		o.PanicAt = strings.TrimSuffix(o.PanicAt, "?") + "(*Broker).responseReceiver"
	}
	o.Value = &decodedHeader
	if o.Err == nil && o.Panic == nil && size > MaxResponseSize {
		o.Note = fmt.Sprintf("body-size %d above MaxResponseSize", size)
	}
	return o
}

// ---------------------------------------------------------------- flattening (checksum / length clause)

// vfxFlat is one record as a consumer would see it.
type vfxFlat struct {
	Offset int64
	Key    []byte
	Value  []byte
	Ts     int64
	Hdr    [][2][]byte
}

func (a vfxFlat) vfxEq(b vfxFlat) bool { return reflect.DeepEqual(a, b) }

func vfxFlatSet(ms *MessageSet, out []vfxFlat) []vfxFlat {
	if ms == nil {
		return out
	}
	for _, blk := range ms.Messages {
		if blk == nil || blk.Msg == nil {
			out = append(out, vfxFlat{Offset: -999})
			continue
		}
		if blk.Msg.Set != nil {
			for _, in := range blk.Msg.Set.Messages {
				if in == nil || in.Msg == nil {
					out = append(out, vfxFlat{Offset: -999})
					continue
				}
				out = append(out, vfxFlat{Offset: in.Offset, Key: in.Msg.Key, Value: in.Msg.Value, Ts: vfTimeToMs(in.Msg.Timestamp)})
			}
			continue
		}
		out = append(out, vfxFlat{Offset: blk.Offset, Key: blk.Msg.Key, Value: blk.Msg.Value, Ts: vfTimeToMs(blk.Msg.Timestamp)})
	}
	return out
}

func vfxFlatBatch(b *RecordBatch, out []vfxFlat) []vfxFlat {
	if b == nil {
		return out
	}
	for _, r := range b.Records {
		if r == nil {
			out = append(out, vfxFlat{Offset: -999})
			continue
		}
		f := vfxFlat{Offset: b.FirstOffset + r.OffsetDelta, Key: r.Key, Value: r.Value, Ts: int64(r.TimestampDelta / time.Millisecond)}
		for _, h := range r.Headers {
			if h == nil {
				f.Hdr = append(f.Hdr, [2][]byte{{0xde}, {0xad}})
				continue
			}
			f.Hdr = append(f.Hdr, [2][]byte{h.Key, h.Value})
		}
		out = append(out, f)
	}
	return out
}

func vfxFlatRecords(r *Records, out []vfxFlat) []vfxFlat {
	if r == nil {
		return out
	}
	out = vfxFlatSet(r.MsgSet, out)
	return vfxFlatBatch(r.RecordBatch, out)
}

type vfxTP struct {
	Topic     string
	Partition int32
}

// vfxFlatValue flattens whatever an entry decoded into records per partition (the
// non-fetch entries use the zero partition).
func vfxFlatValue(v interface{}, msgs []*ConsumerMessage, parse bool) map[vfxTP][]vfxFlat {
	out := map[vfxTP][]vfxFlat{}
	if parse {
		var fl []vfxFlat
		for _, m := range msgs {
			if m == nil {
				fl = append(fl, vfxFlat{Offset: -999})
				continue
			}
			f := vfxFlat{Offset: m.Offset, Key: m.Key, Value: m.Value, Ts: vfTimeToMs(m.Timestamp)}
			for _, h := range m.Headers {
				if h != nil {
					f.Hdr = append(f.Hdr, [2][]byte{h.Key, h.Value})
				}
			}
			fl = append(fl, f)
		}
		out[vfxTP{}] = fl
		return out
	}
	switch x := v.(type) {
	case *FetchResponse:
		for topic, parts := range x.Blocks {
			for id, blk := range parts {
				var fl []vfxFlat
				if blk != nil {
					for _, rs := range blk.RecordsSet {
						fl = vfxFlatRecords(rs, fl)
					}
				}
				out[vfxTP{topic, id}] = fl
			}
		}
	case *Records:
		out[vfxTP{}] = vfxFlatRecords(x, nil)
	case *RecordBatch:
		out[vfxTP{}] = vfxFlatBatch(x, nil)
	case *MessageSet:
		out[vfxTP{}] = vfxFlatSet(x, nil)
	case *Message:
		if x.Set != nil {
			out[vfxTP{}] = vfxFlatSet(x.Set, nil)
		} else {
			out[vfxTP{}] = []vfxFlat{{Key: x.Key, Value: x.Value, Ts: vfTimeToMs(x.Timestamp)}}
		}
	}
	return out
}

// vfxPartialFlag tells whether the decoded value says "incomplete" (class histogram only).
func vfxSetPartial(ms *MessageSet) bool {
	if ms == nil {
		return false
	}
	if ms.PartialTrailingMessage || ms.OverflowMessage {
		return true
	}
	for _, blk := range ms.Messages {
		if blk != nil && blk.Msg != nil && vfxSetPartial(blk.Msg.Set) {
			return true
		}
	}
	return false
}

func vfxRecordsPartial(r *Records) bool {
	if r == nil {
		return false
	}
	return vfxSetPartial(r.MsgSet) || (r.RecordBatch != nil && r.RecordBatch.PartialTrailingRecord)
}

// vfxAnyPartial looks for an "incomplete" signal anywhere in a decoded value.
func vfxAnyPartial(v interface{}) bool {
	switch x := v.(type) {
	case *MessageSet:
		return vfxSetPartial(x)
	case *RecordBatch:
		return x.PartialTrailingRecord
	case *Records:
		return vfxRecordsPartial(x)
	case *Message:
		return vfxSetPartial(x.Set)
	case *FetchResponse:
		for _, parts := range x.Blocks {
			for _, blk := range parts {
				if blk == nil {
					continue
				}
				if blk.Partial {
					return true
				}
				for _, rs := range blk.RecordsSet {
					if vfxRecordsPartial(rs) {
						return true
					}
				}
			}
		}
	}
	return false
}

func vfxPartialFlag(v interface{}) string {
	partial := false
	switch x := v.(type) {
	case *MessageSet:
		partial = x.PartialTrailingMessage || x.OverflowMessage
	case *RecordBatch:
		partial = x.PartialTrailingRecord
	case *Records:
		p, _ := x.isPartial()
		o, _ := x.isOverflow()
		partial = p || o
	case *Message:
		partial = x.Set != nil && (x.Set.PartialTrailingMessage || x.Set.OverflowMessage)
	case *FetchResponse:
		return ""
	}
	if partial {
		return "+partial-flag"
	}
	return "+no-partial-flag"
}

func vfxJSON(v map[vfxTP][]vfxFlat) []byte {
	var keys []vfxTP
	for k := range v {
		keys = append(keys, k)
	}
	sort.Slice(keys, func(i, j int) bool {
		if keys[i].Topic != keys[j].Topic {
			return keys[i].Topic < keys[j].Topic
		}
		return keys[i].Partition < keys[j].Partition
	})
	var buf bytes.Buffer
	for _, k := range keys {
		b, _ := json.Marshal(v[k])
		fmt.Fprintf(&buf, "%q/%d:%s\n", k.Topic, k.Partition, b)
	}
	return buf.Bytes()
}

func vfxIsPrefix(got, want []vfxFlat) bool {
	if len(got) > len(want) {
		return false
	}
	for i := range got {
		if !got[i].vfxEq(want[i]) {
			return false
		}
	}
	return true
}

// vfxOwnParserAgrees reports whether the harness's own (independent, strict) parser
// accepts input as a complete valid encoding for the entry and yields the records
// sarama returned: then the mutation produced another valid encoding (a genuine
// checksum collision, or a change that is not one) and nothing is wrong.
func vfxOwnParserAgrees(c *vfxCase, input []byte, got map[vfxTP][]vfxFlat) bool {
	defer func() { _ = recover() }()
	flatModel := func(recs []vfMRecords) []vfxFlat {
		var out []vfxFlat
		for i := range recs {
			rc, err := vfToSaramaRecords(&recs[i])
			if err != nil {
				return []vfxFlat{{Offset: -998}}
			}
			out = vfxFlatRecords(&rc, out)
		}
		return out
	}
	switch c.Entry {
	case vfxERecords, vfxEBatch, vfxEMsgSet:
		recs, err := vfParseRecordsArea(input)
		if err != nil || len(recs) != 1 {
			return false
		}
		want := flatModel(recs)
		g := got[vfxTP{}]
		return len(g) == len(want) && vfxIsPrefix(g, want)
	case vfxEResp, vfxEFetch:
		f, err := vfParseFetch(input, c.Version)
		if err != nil {
			return false
		}
		if c.Entry == vfxEFetch {
			return false // the consumer view filters; no independent model of that here
		}
		n := 0
		for i := range f.Topics {
			for j := range f.Topics[i].Parts {
				n++
				want := flatModel(f.Topics[i].Parts[j].Records)
				g := got[vfxTP{f.Topics[i].Name, f.Topics[i].Parts[j].ID}]
				if len(g) != len(want) || !vfxIsPrefix(g, want) {
					return false
				}
			}
		}
		return n == len(got)
	}
	return false
}

// ---------------------------------------------------------------- allocation attribution (slow path)

// vfxAllocBase is the bound on bytes allocated by one decode call when nothing is
// decompressed: 64 x input + 256 KiB.
func vfxAllocBase(n int) uint64 { return 64*uint64(n) + 256<<10 }

type vfxAttribution struct {
	Other    uint64 // bytes allocated outside decompress()
	Dec      uint64 // bytes allocated inside decompress() (stands in for "decompressed bytes", over-approximating them)
	TopSite  string // sarama function (innermost non-harness frame) that allocated most of Other
	TopBytes uint64
}

// vfxAttribute re-runs call with every allocation profiled (runtime.MemProfileRate = 1)
// and splits the bytes by whether sarama's decompress() is on the allocating stack.
// It is exact (no sampling) and only used when the cheap counter exceeded the base
// bound. The pooled gzip / lz4 readers are held across the garbage collections that
// publish the profile, so that re-creating them is not charged to the case.
func vfxAttribute(call func()) vfxAttribution {
	vfxWarmPools()
	g := gzipReaderPool.Get()
	l := lz4ReaderPool.Get()
	snap := func() map[[32]uintptr]int64 {
		for i := 0; i < 3; i++ {
			runtime.GC()
		}
		n, _ := runtime.MemProfile(nil, true)
		var recs []runtime.MemProfileRecord
		for {
			recs = make([]runtime.MemProfileRecord, n+64)
			var ok bool
			n, ok = runtime.MemProfile(recs, true)
			if ok {
				recs = recs[:n]
				break
			}
		}
		m := make(map[[32]uintptr]int64, len(recs))
		for i := range recs {
			m[recs[i].Stack0] += recs[i].AllocBytes
		}
		return m
	}
	before := snap()
	if g != nil {
		gzipReaderPool.Put(g)
	}
	if l != nil {
		lz4ReaderPool.Put(l)
	}
	old := runtime.MemProfileRate
	runtime.MemProfileRate = 1
	func() {
		defer func() { _ = recover() }()
		call()
	}()
	runtime.MemProfileRate = old
	after := snap()
	vfxWarmPools() // the collections above emptied sarama's reader pools
	var at vfxAttribution
	perSite := map[string]uint64{}
	for stk, ab := range after {
		d := ab - before[stk]
		if d <= 0 {
			continue
		}
		n := 0
		for n < len(stk) && stk[n] != 0 {
			n++
		}
		frames := runtime.CallersFrames(stk[:n])
		inDec, inCall, site := false, false, ""
		for {
			fr, more := frames.Next()
			fn := fr.Function
			if strings.HasPrefix(fn, vfPkgPrefix) {
				short := strings.TrimPrefix(fn, vfPkgPrefix)
				if short == "decompress" || short == "zstdDecompress" {
					inDec = true
				}
				isHarness := strings.HasPrefix(short, "vf") || strings.HasPrefix(short, "(*vf") || strings.HasPrefix(short, "(vf") ||
					strings.HasPrefix(short, "TestVF") || strings.HasPrefix(short, "FuzzVF")
				if isHarness {
					if strings.HasPrefix(short, "vfxGuarded") {
						inCall = true // vfxGuarded wraps exactly the call into sarama
					}
				} else if site == "" {
					site = short
				}
			}
			if !more {
				break
			}
		}
		if !inCall && !(n == len(stk) && site != "") {
			// allocated by something else than the call (the snapshots themselves); a stack
			// truncated at 32 frames that shows sarama frames is inside the call
			continue
		}
		if inDec {
			at.Dec += uint64(d)
			continue
		}
		at.Other += uint64(d)
		if site == "" {
			site = "?"
		}
		perSite[site] += uint64(d)
	}
	for s, b := range perSite {
		if b > at.TopBytes || (b == at.TopBytes && s < at.TopSite) {
			at.TopSite, at.TopBytes = s, b
		}
	}
	return at
}

var vfxWarmPayload struct {
	sync.Once
	gz, lz []byte
}

// vfxWarmPools makes sure a gzip and an lz4 reader sit in sarama's pools.
func vfxWarmPools() {
	vfxWarmPayload.Do(func() {
		vfxWarmPayload.gz, _ = vfCompress(1, vfLevelDefault, []byte("warm"))
		vfxWarmPayload.lz, _ = vfCompress(3, vfLevelDefault, []byte("warm"))
	})
	_, _ = decompress(CompressionGZIP, vfxWarmPayload.gz)
	_, _ = decompress(CompressionLZ4, vfxWarmPayload.lz)
}

// ---------------------------------------------------------------- known-finding regions

// vfxTraceDec is the real decoder with a few getters observed; running a response
// decoder against it tells which primitive call preceded a failure. It is only used
// after a failure, to name the region of the case.
type vfxTraceDec struct {
	realDecoder
	lastArrayLen    int
	arrayLenCalls   int
	lastCompactLen  int
	compactLenCalls int
}

func (t *vfxTraceDec) getArrayLength() (int, error) {
	n, err := t.realDecoder.getArrayLength()
	t.arrayLenCalls++
	t.lastArrayLen = n
	return n, err
}

func (t *vfxTraceDec) getCompactArrayLength() (int, error) {
	n, err := t.realDecoder.getCompactArrayLength()
	t.compactLenCalls++
	t.lastCompactLen = n
	return n, err
}

// vfxDecoderOf returns the decode function the entry runs over its input with a fresh
// value (nil for the plan entry, which has several inputs).
func vfxDecoderOf(c *vfxCase) func(pd packetDecoder) error {
	switch c.Entry {
	case vfxEResp, vfxEFetch:
		name := c.Type
		if c.Entry == vfxEFetch {
			name = "FetchResponse"
		}
		b, ok := vfxResponseType(name)
		if !ok || c.Version < 0 || c.Version > b.MaxV {
			return nil
		}
		val := b.vfNew(c.Version).(versionedDecoder)
		return func(pd packetDecoder) error { return val.decode(pd, c.Version) }
	case vfxEHeader:
		return func(pd packetDecoder) error { return (&responseHeader{}).decode(pd, c.Version) }
	case vfxERecords:
		return (&Records{}).decode
	case vfxEBatch:
		return (&RecordBatch{}).decode
	case vfxEMsgSet:
		return (&MessageSet{}).decode
	case vfxEMessage:
		return (&Message{}).decode
	case vfxERecord:
		return (&Record{}).decode
	case vfxEMeta:
		return (&ConsumerGroupMemberMetadata{}).decode
	case vfxEAssign:
		return (&ConsumerGroupMemberAssignment{}).decode
	case vfxEUserData:
		return (&StickyAssignorUserDataV1{}).decode
	}
	return nil
}

// vfxRegions names the known-finding regions the case lies in. Regions are predicates
// over the case (input bytes + entry), evaluated by re-running the decoder of the entry
// over the same bytes with the tracing decoder:
//
//	null-array-count   the last ARRAY count the decoder read before it failed was -1
//	                   (the protocol's null array) at a place where the decoder sizes a
//	                   slice with it
func vfxRegions(c *vfxCase, input []byte) []string {
	dec := vfxDecoderOf(c)
	if dec == nil {
		return nil
	}
	t := &vfxTraceDec{realDecoder: realDecoder{raw: input}}
	panicked := false
	func() {
		defer func() {
			if p := recover(); p != nil {
				panicked = true
			}
		}()
		_ = dec(t)
	}()
	var out []string
	if panicked && t.arrayLenCalls > 0 && t.lastArrayLen == -1 {
		out = append(out, "null-array-count")
	}
	return out
}

// ---------------------------------------------------------------- known findings (skip predicates, fuzz targets)

type vfxKnownEntry struct {
	ID       string `json:"id"`
	Property string `json:"property"`
	Status   string `json:"status"`
	Region   string `json:"region"`
	Symptom  string `json:"symptom"`
}

var vfxKnown struct {
	sync.Once
	list []vfxKnownEntry
}

func vfxKnownList() []vfxKnownEntry {
	vfxKnown.Do(func() {
		p := os.Getenv("VF_KNOWN")
		if p == "" {
			return
		}
		raw, err := os.ReadFile(p)
		if err != nil {
			return
		}
		var doc struct {
			Findings []vfxKnownEntry `json:"findings"`
		}
		if json.Unmarshal(raw, &doc) == nil {
			for _, k := range doc.Findings {
				if k.Property == "C10" && k.Status == "open" {
					vfxKnown.list = append(vfxKnown.list, k)
				}
			}
		}
	})
	return vfxKnown.list
}

func vfxSymptomMatch(pat, s string) bool {
	if strings.Contains(pat, "|") {
		for _, alt := range strings.Split(pat, "|") {
			if vfxSymptomMatch(alt, s) {
				return true
			}
		}
		return false
	}
	if strings.HasSuffix(pat, "*") {
		return strings.HasPrefix(s, strings.TrimSuffix(pat, "*"))
	}
	return pat == s
}

// vfxIsKnown mirrors vfcore's region-and-symptom matching for the fuzz targets, which
// do not run under vfcore.Main.
func vfxIsKnown(f *vfcore.Failure) bool {
	for _, k := range vfxKnownList() {
		if !vfxSymptomMatch(k.Symptom, f.Symptom) {
			continue
		}
		if k.Region == "" || k.Region == "any" {
			return true
		}
		for _, r := range f.Regions {
			if r == k.Region {
				return true
			}
		}
	}
	return false
}

// vfxSkipPreds names the regions for which the harness has a skip predicate: a
// predicate over the case that recognises an input of an OPEN known finding whose
// symptom is fatal (the process would die and the shard with it) before the case is
// executed. It is evaluated by a dry run of the entry's decoder against vfxGuardDec.
// Such cases are counted and skipped so that the search continues behind the known
// fatal input class. With no open fatal finding in known_findings.json nothing is
// skipped and no dry run happens.
var vfxSkipPreds = map[string]bool{
	"string-array-count-exceeds-input":        true, // getStringArray: 2 x count > bytes behind the count
	"compact-array-count-exceeds-input":       true, // getCompactArrayLength: count > bytes behind the uvarint
	"compact-int32-array-count-exceeds-input": true, // getCompactInt32Array: 4 x count > bytes behind the uvarint
}

// vfxGuardDec is the real decoder with a look-ahead in front of the primitives that
// size an allocation with an announced count: the look-ahead reads the count the way
// the primitive will and, if it announces more elements than bytes remain, stops the
// dry run instead of calling the primitive.
type vfxGuardDec struct {
	realDecoder
	active map[string]bool // regions whose look-ahead is switched on (all of them at once: the dry run must survive every known fatal input)
	hit    string          // the region whose look-ahead stopped the dry run
}

var vfxErrGuard = fmt.Errorf("vfx guard: dry run stopped in front of a known fatal input")

func (g *vfxGuardDec) vfxPeekUvarint() (uint64, int, bool) {
	r := vfRd{b: g.raw, off: g.off}
	u, err := r.vfUvarint()
	return u, r.off - g.off, err == nil
}

func (g *vfxGuardDec) getStringArray() ([]string, error) {
	if g.active["string-array-count-exceeds-input"] && g.remaining() >= 4 {
		r := vfRd{b: g.raw, off: g.off}
		n, _ := r.vfU32()
		if 2*int64(n) > int64(g.remaining()-4) {
			g.hit = "string-array-count-exceeds-input"
			return nil, vfxErrGuard
		}
	}
	return g.realDecoder.getStringArray()
}

func (g *vfxGuardDec) getCompactArrayLength() (int, error) {
	if g.active["compact-array-count-exceeds-input"] {
		if u, w, ok := g.vfxPeekUvarint(); ok && u > 0 && u-1 > uint64(g.remaining()-w) {
			g.hit = "compact-array-count-exceeds-input"
			return 0, vfxErrGuard
		}
	}
	return g.realDecoder.getCompactArrayLength()
}

func (g *vfxGuardDec) getCompactInt32Array() ([]int32, error) {
	if g.active["compact-int32-array-count-exceeds-input"] {
		if u, w, ok := g.vfxPeekUvarint(); ok && u > 0 && u-1 > uint64(g.remaining()-w)/4 {
			g.hit = "compact-int32-array-count-exceeds-input"
			return nil, vfxErrGuard
		}
	}
	return g.realDecoder.getCompactInt32Array()
}

// vfxGuardHit dry-runs the entry's decoder over the input with the look-aheads of the
// active regions and returns the region that stopped it ("" = none).
func vfxGuardHit(c *vfxCase, active map[string]bool) string {
	inputs := [][]byte{c.Input}
	dec := vfxDecoderOf(c)
	if c.Entry == vfxEPlan {
		inputs = nil
		for _, m := range c.Members {
			inputs = append(inputs, m.UserData)
		}
	}
	for _, in := range inputs {
		d := dec
		if c.Entry == vfxEPlan {
			d = (&StickyAssignorUserDataV1{}).decode
		}
		if d == nil {
			return ""
		}
		g := &vfxGuardDec{realDecoder: realDecoder{raw: in}, active: active}
		func() {
			defer func() { _ = recover() }()
			_ = d(g)
		}()
		if g.hit != "" {
			return g.hit
		}
	}
	return ""
}

func vfxSkipRegion(c *vfxCase) string {
	var active map[string]bool
	for _, k := range vfxKnownList() {
		if strings.HasPrefix(k.Symptom, "fatal:") && vfxSkipPreds[k.Region] {
			if active == nil {
				active = map[string]bool{}
			}
			active[k.Region] = true
		}
	}
	if active == nil {
		return ""
	}
	return vfxGuardHit(c, active)
}

// ---------------------------------------------------------------- the oracle

func vfxHex(b []byte) string {
	if len(b) > 96 {
		return fmt.Sprintf("%x...(%d bytes)", b[:96], len(b))
	}
	return fmt.Sprintf("%x", b)
}

type vfxHistory struct {
	Entry   string `json:"entry"`
	Type    string `json:"type,omitempty"`
	Version int16  `json:"version"`
	Mut     string `json:"mut"`
	Input   string `json:"input_hex"`
	Outcome string `json:"outcome"`
	Err     string `json:"err,omitempty"`
	Panic   string `json:"panic,omitempty"`
	Stack   string `json:"stack,omitempty"`
	Alloc   uint64 `json:"alloc_bytes,omitempty"`
	Detail  string `json:"detail,omitempty"`
}

func vfxHist(c *vfxCase, o *vfxOutcome, detail string) *vfxHistory {
	h := &vfxHistory{Entry: c.Entry, Type: c.Type, Version: c.Version, Mut: c.Mut, Input: vfxHex(c.Input), Outcome: o.vfxClass(), Alloc: o.Alloc, Detail: detail}
	if o.Err != nil {
		h.Err = o.Err.Error()
	}
	if o.Panic != nil {
		h.Panic = fmt.Sprint(o.Panic)
		st := o.Stack
		if len(st) > 3000 {
			st = st[:3000]
		}
		h.Stack = st
	}
	return h
}

func vfxMutClass(m string) string {
	if i := strings.IndexByte(m, ':'); i >= 0 {
		return m[:i]
	}
	return m
}

// vfxRun is Spec.Run: a pure function of the case and the tree.
func vfxRun(ci interface{}, r *vfcore.Rec) *vfcore.Failure {
	c := ci.(*vfxCase)
	if c.Input == nil {
		c.Input = []byte{}
	}
	group := vfxGroup(c.Entry)
	mc := vfxMutClass(c.Mut)
	if region := vfxSkipRegion(c); region != "" {
		r.Count("skipped-known-fatal:"+region, 1)
		r.Classf("%s|%s|skipped-known-fatal", group, mc)
		return nil
	}

	o := vfxCall(c, c.Input)
	if o.Note == "bad-case" {
		r.Discard()
		return nil
	}
	r.Classf("entry:%s", c.Entry)
	if c.Entry == vfxEResp {
		r.Classf("resp:%s/v%d", c.Type, c.Version)
	}

	// non-trivial: a mutation of a valid encoding (not pure noise), or noise the decoder
	// read at least 8 bytes of
	nontrivial := !strings.HasPrefix(c.Mut, "random")
	if !nontrivial && len(c.Input) >= 8 {
		nontrivial = vfxConsumedAtLeast(c, 8)
	}
	if nontrivial {
		r.NonTrivial(fmt.Sprintf("%s|%s|%d|%x", c.Entry, c.Type, c.Version, vfHash(c.Input)))
	}

	// ---- (1) no panic
	if o.Panic != nil {
		f := &vfcore.Failure{Symptom: o.PanicAt, Message: fmt.Sprintf("%s %s v%d: decoding %d bytes (%s) panicked: %v", c.Entry, c.Type, c.Version, len(c.Input), vfxHex(c.Input), o.Panic),
			History: vfxHist(c, &o, ""), Regions: vfxRegions(c, c.Input)}
		if vfxIsKnown(f) {
			r.Classf("%s|%s|panic-known", group, mc)
		} else {
			r.Classf("%s|%s|panic", group, mc)
		}
		return f
	}

	// ---- (2) header: the size responseReceiver would allocate
	if strings.HasPrefix(o.Note, "body-size") {
		r.Classf("%s|%s|alloc", group, mc)
		return &vfcore.Failure{Symptom: "alloc:header@(*Broker).responseReceiver", Message: fmt.Sprintf("response header %s: %s", vfxHex(c.Input), o.Note), History: vfxHist(c, &o, o.Note)}
	}

	// ---- (3) allocation
	if f := vfxCheckAlloc(c, &o, r); f != nil {
		r.Classf("%s|%s|alloc", group, mc)
		return f
	}

	// ---- (4) checksum / length clause
	if c.Clause != "" {
		if f := vfxCheckClause(c, &o, r); f != nil {
			r.Classf("%s|%s|%s", group, mc, f.Symptom)
			return f
		}
	}
	r.Classf("%s|%s|%s", group, mc, o.vfxClass())
	if o.Note != "" {
		r.Classf("%s|note:%s", group, o.Note)
	}
	return nil
}

// vfxConsumedAtLeast reports whether the decoder of the entry read at least n bytes of
// the input before it stopped (random inputs only; cheap: runs the decoder once more
// against a real decoder whose offset is inspected afterwards).
func vfxConsumedAtLeast(c *vfxCase, n int) bool {
	dec := vfxDecoderOf(c)
	if dec == nil {
		return len(c.Input) >= n
	}
	rd := &realDecoder{raw: c.Input}
	func() {
		defer func() { _ = recover() }()
		_ = dec(rd)
	}()
	return rd.off >= n
}

func vfxCheckAlloc(c *vfxCase, o *vfxOutcome, r *vfcore.Rec) *vfcore.Failure {
	total := len(c.Input)
	for _, m := range c.Members {
		total += len(m.UserData) + len(m.ID)
		for _, t := range m.Topics {
			total += len(t)
		}
	}
	for _, t := range c.Topics {
		total += len(t.Name) + 4*len(t.Partitions)
	}
	base := vfxAllocBase(total)
	if c.Entry == vfxEPlan {
		// the assignor builds several maps per member and partition: its working set is
		// not a decode buffer. Bound: 8192 x input + 4 MiB (still catches count-driven blow-ups)
		base = 8192*uint64(total) + 4<<20
	}
	if o.Alloc <= base {
		return nil
	}
	r.Count("alloc-slow-path", 1)
	at := vfxAttribute(func() { _ = vfxCall(c, c.Input) })
	bound := 64*(uint64(total)+at.Dec) + 256<<10
	if c.Entry == vfxEPlan {
		bound = base
	}
	if at.Other <= bound {
		r.Count("alloc-slow-path-ok", 1)
		if at.Dec > 0 {
			r.Classf("%s|decompression-dominated-allocation", vfxGroup(c.Entry))
		}
		return nil
	}
	detail := fmt.Sprintf("allocated %d bytes outside decompress() (+%d inside) for %d input bytes; bound 64*(input+decompressed)+256KiB = %d; largest site %s (%d bytes)",
		at.Other, at.Dec, total, bound, at.TopSite, at.TopBytes)
	return &vfcore.Failure{Symptom: fmt.Sprintf("alloc:%s@%s", c.Entry, at.TopSite),
		Message: fmt.Sprintf("%s %s v%d: %s; input %s", c.Entry, c.Type, c.Version, detail, vfxHex(c.Input)), History: vfxHist(c, o, detail), Regions: vfxRegions(c, c.Input)}
}

// vfxCheckClause: Input is Orig with one change (see vfxCase). The outcome must be an
// error, or the records of every partition must be a prefix of what Orig decodes to
// (partial-trailing semantics); for a change inside a CRC-covered span nothing of the
// touched unit or behind it may surface.
func vfxCheckClause(c *vfxCase, o *vfxOutcome, r *vfcore.Rec) *vfcore.Failure {
	if bytes.Equal(c.Input, c.Orig) {
		r.Class("clause:no-op-mutation")
		return nil
	}
	base := vfxCall(c, c.Orig)
	if base.Panic != nil || base.Err != nil {
		// the valid encoding itself is not accepted (C09's business, e.g. the empty snappy batch)
		r.Class("clause:baseline-rejected")
		return nil
	}
	if o.Err != nil {
		r.Classf("clause:%s:error", c.Clause)
		return nil
	}
	parse := c.Entry == vfxEFetch
	if c.Clause == "trailing" {
		// decode() / versionedDecode() must notice that the buffer was not consumed
		bad := fmt.Sprintf("%d bytes follow a complete valid encoding and no error was returned", len(c.Input)-len(c.Orig))
		return &vfcore.Failure{Symptom: "trailing-bytes-accepted", Message: fmt.Sprintf("%s %s v%d: %s; input %s", c.Entry, c.Type, c.Version, bad, vfxHex(c.Input)),
			History: vfxHist(c, o, bad)}
	}
	if c.MustError {
		got := vfxFlatValue(o.Value, o.Msgs, false)
		if vfxOwnParserAgrees(c, c.Input, got) {
			r.Classf("clause:%s:mutation-is-a-valid-encoding", c.Clause)
			return nil
		}
		bad := "the altered length delimits a unit inside the buffer (no truncation) and disagrees with the data, yet no error was returned"
		sym := "size-lie-not-detected"
		if c.Clause == "count" {
			sym = "count-lie-not-detected"
			bad = fmt.Sprintf("the record count disagrees with a complete, CRC-valid records section (or bytes follow the counted records), yet no error was returned (incomplete signalled anywhere in the value: %v)", vfxAnyPartial(o.Value))
		}
		return &vfcore.Failure{Symptom: sym, Message: fmt.Sprintf("%s %s v%d (%s): %s; input %s, original %s", c.Entry, c.Type, c.Version, c.Mut, bad, vfxHex(c.Input), vfxHex(c.Orig)),
			History: vfxHist(c, o, bad)}
	}
	want := vfxFlatValue(base.Value, base.Msgs, parse)
	got := vfxFlatValue(o.Value, o.Msgs, parse)
	if c.Reframe {
		// Every unit carries its own checksum, the envelope around the units carries none:
		// behind a lying records size the envelope may be read differently (another
		// partition id, one aborted transaction fewer, ...) and still be consistent, so the
		// partition a unit is attributed to is not protected by anything. What must hold:
		// every record that surfaces is a record of the original response (offsets and
		// timestamps are left out of the comparison one level up, where they are derived).
		all := vfxFlatValue(base.Value, nil, false)
		pool := map[string]int{}
		key := func(f vfxFlat) string {
			if parse {
				// one level up offsets and timestamps are derived (wrapper base offset, batch
				// first timestamp): compare what is copied verbatim
				f.Ts, f.Offset = 0, 0
			}
			b, _ := json.Marshal(f)
			return string(b)
		}
		for _, fl := range all {
			for _, f := range fl {
				pool[key(f)]++
			}
		}
		for k, fl := range got {
			for _, f := range fl {
				if pool[key(f)] == 0 {
					bad := fmt.Sprintf("partition %q/%d carries a record (offset %d) that the original response does not contain", k.Topic, k.Partition, f.Offset)
					return &vfcore.Failure{Symptom: "wrong-records", Message: fmt.Sprintf("%s %s v%d (%s): decode returned no error and %s; input %s, original %s", c.Entry, c.Type, c.Version, c.Mut, bad, vfxHex(c.Input), vfxHex(c.Orig)),
						History: vfxHist(c, o, bad)}
				}
				pool[key(f)]--
			}
		}
		r.Classf("clause:%s:%s:accepted-authentic-records", c.Clause, vfxGroup(c.Entry))
		return nil
	}
	bad := ""
	var keys []vfxTP
	for k := range got {
		keys = append(keys, k)
	}
	sort.Slice(keys, func(i, j int) bool {
		if keys[i].Topic != keys[j].Topic {
			return keys[i].Topic < keys[j].Topic
		}
		return keys[i].Partition < keys[j].Partition
	})
	surfaced := 0
	for _, k := range keys {
		g := got[k]
		surfaced += len(g)
		w, ok := want[k]
		if !ok && len(g) > 0 {
			bad = fmt.Sprintf("partition %q/%d does not exist in the original and carries %d records", k.Topic, k.Partition, len(g))
			break
		}
		if !vfxIsPrefix(g, w) {
			bad = fmt.Sprintf("partition %q/%d: %d records which are not a prefix of the original %d records", k.Topic, k.Partition, len(g), len(w))
			break
		}
		touched := parse || c.Entry != vfxEResp || (k.Topic == c.Topic && k.Partition == c.Partition)
		if c.Clause == "crc" && touched && len(g) > c.Before {
			bad = fmt.Sprintf("partition %q/%d: %d records surfaced although the unit after the first %d records was altered inside its CRC-covered span", k.Topic, k.Partition, len(g), c.Before)
			break
		}
	}
	if bad == "" && (c.Clause == "inner" || c.Clause == "count") && !parse && !vfxAnyPartial(o.Value) && !bytes.Equal(vfxJSON(got), vfxJSON(want)) {
		// a complete, CRC-valid unit: a shorter record list is only acceptable together with
		// an "incomplete" signal somewhere in the decoded value
		bad = "records were dropped from a complete, CRC-valid unit without an error and without any partial-trailing flag"
	}
	if bad == "" && vfxGroup(c.Entry) == "records" && vfxPartialFlag(o.Value) == "+no-partial-flag" && !vfxAnyPartial(o.Value) && !bytes.Equal(vfxJSON(got), vfxJSON(want)) {
		// below the fetch level a decoder that drops records must say so (partial trailing / overflow flag)
		bad = "records were dropped without an error and without the partial-trailing flag"
	}
	if bad == "" {
		flag := vfxPartialFlag(o.Value)
		if surfaced == 0 {
			r.Classf("clause:%s:%s:accepted-empty%s", c.Clause, vfxGroup(c.Entry), flag)
		} else {
			r.Classf("clause:%s:%s:accepted-prefix%s", c.Clause, vfxGroup(c.Entry), flag)
		}
		return nil
	}
	if vfxOwnParserAgrees(c, c.Input, got) {
		r.Classf("clause:%s:mutation-is-a-valid-encoding", c.Clause)
		return nil
	}
	sym := "wrong-records"
	switch c.Clause {
	case "crc":
		sym = "crc-not-detected"
	case "count":
		sym = "count-lie-not-detected"
	}
	return &vfcore.Failure{Symptom: sym, Message: fmt.Sprintf("%s %s v%d (%s): decode returned no error and %s; input %s, original %s", c.Entry, c.Type, c.Version, c.Mut, bad, vfxHex(c.Input), vfxHex(c.Orig)),
		History: vfxHist(c, o, bad)}
}
