//go:build go1.18 && verif

package sarama

// C19 (admin routing and verdicts), simulator side: controller, partition-leader and group-coordinator
// behaviour for the admin APIs, registered on a vfSim through its `extra` handler table.
// Requests are parsed and responses written with the simulator's own wire primitives (vfsR / vfsW),
// from the Kafka protocol definition; nothing here uses /repo's codec.
//
// Faithfulness rules the oracles lean on:
//   * a controller-bound request received by a broker that is not the controller is answered
//     NOT_CONTROLLER (41) and consumes nothing from the script;
//   * the broker that is controller consumes the next scripted step (move | ok | err | omit | omitApplied |
//     dropBefore | dropAfter); "move" hands the controller role to another broker *before* answering
//     NOT_CONTROLLER, so metadata names the new controller by the time the client sees the answer;
//   * "ok" validates like a controller (existing topic, partition counts) and applies to the model;
//   * DeleteRecords for a partition this broker does not lead is answered NOT_LEADER_FOR_PARTITION (6);
//   * group requests for a group this broker does not coordinate are answered NOT_COORDINATOR (16).

import (
	"fmt"
	"sort"
	"strings"
)

const (
	vfc19KeyOffsetFetch      = 9
	vfc19KeyFindCoordinator  = 10
	vfc19KeyDescribeGroups   = 15
	vfc19KeyCreateTopics     = 19
	vfc19KeyDeleteTopics     = 20
	vfc19KeyDeleteRecords    = 21
	vfc19KeyCreatePartitions = 37
	vfc19KeyDeleteGroups     = 42
	vfc19KeyAlterReassign    = 45

	vfc19NotController  = 41
	vfc19NotLeader      = 6
	vfc19NotCoordinator = 16
	vfc19UnknownTopic   = 3
)

// vfc19Req is one admin request as a simulated broker saw it.
type vfc19Req struct {
	Seq     int64    `json:"seq"`
	Api     int16    `json:"api"`
	Ver     int16    `json:"ver"`
	Broker  int32    `json:"broker"`
	Ctl     int32    `json:"ctl,omitempty"` // controller when the request arrived (controller-bound APIs)
	Step    int      `json:"step"`          // index of the consumed script step, -1 = none
	Outcome string   `json:"outcome"`       // ack | notController | notControllerGenuine | err | omit | dropBefore | dropAfter | answered
	Top     int16    `json:"top,omitempty"` // top-level code answered
	Codes   []int16  `json:"codes,omitempty"`
	Items   []string `json:"items,omitempty"`
	Applied bool     `json:"applied,omitempty"`
	Bad     string   `json:"bad,omitempty"` // request content the call did not ask for / wire trouble
}

// ---------------------------------------------------------------- flexible-version primitives

func vfc19RCompactLen(r *vfsR) int { // -1 = null
	n := r.uvarint()
	return int(n) - 1
}

func vfc19RCompactStr(r *vfsR) string {
	n := vfc19RCompactLen(r)
	if n < 0 {
		r.fail("compact string (null)")
		return ""
	}
	return string(r.take(n, "compact string"))
}

func vfc19RTags(r *vfsR) {
	if n := r.uvarint(); n != 0 {
		r.fail("tagged fields (expected none)")
	}
}

func vfc19WCompactStr(w *vfsW, s string) {
	w.uvarint(uint64(len(s)) + 1)
	w.raw([]byte(s))
}

func vfc19WCompactNStr(w *vfsW, s *string) {
	if s == nil {
		w.uvarint(0)
		return
	}
	vfc19WCompactStr(w, *s)
}

// ---------------------------------------------------------------- registration

func (run *vfc19Run) install() {
	s := run.sim
	s.mu.Lock()
	defer s.mu.Unlock()
	s.extra[vfc19KeyCreateTopics] = run.handleCreateTopics
	s.extra[vfc19KeyDeleteTopics] = run.handleDeleteTopics
	s.extra[vfc19KeyCreatePartitions] = run.handleCreatePartitions
	s.extra[vfc19KeyAlterReassign] = run.handleAlter
	s.extra[vfc19KeyDeleteRecords] = run.handleDeleteRecords
	s.extra[vfc19KeyFindCoordinator] = run.handleFindCoordinator
	s.extra[vfc19KeyDescribeGroups] = run.handleDescribeGroups
	s.extra[vfc19KeyDeleteGroups] = run.handleDeleteGroups
	s.extra[vfc19KeyOffsetFetch] = run.handleOffsetFetch
}

// logLocked appends to the request log. Caller holds sim.mu.
func (run *vfc19Run) logLocked(rq vfc19Req) {
	rq.Seq = run.sim.hist.add(vfEvent{Kind: "c19-req", Broker: rq.Broker, Key: fmt.Sprintf("api%d/v%d", rq.Api, rq.Ver), Occ: rq.Step, Fault: rq.Outcome, Code: rq.Top, Note: strings.Join(rq.Items, ",")}, true)
	run.reqs = append(run.reqs, rq)
}

func (run *vfc19Run) wireViolation(c *vfSimConn, api, ver int16, what string) ([]byte, string) {
	s := run.sim
	s.mu.Lock()
	run.logLocked(vfc19Req{Api: api, Ver: ver, Broker: c.broker.ID, Step: -1, Outcome: "wire-violation", Bad: what})
	s.mu.Unlock()
	s.ev(vfEvent{Kind: "client-wire-violation", Broker: c.broker.ID, Conn: c.id, Note: fmt.Sprintf("api %d v%d: %s", api, ver, what)}, true)
	return nil, "close"
}

// ---------------------------------------------------------------- controller-bound APIs

// vfc19CtlAnswer is what the (possibly former) controller decided for one request.
type vfc19CtlAnswer struct {
	Drop  bool
	Omit  bool    // answer without any topic entry
	Top   int16   // top-level code (AlterPartitionReassignments only)
	Codes []int16 // per item, in request order
	Msg   *string
}

// ctlDecide implements the controller's side of one request. `apply(dry)` validates the request against the
// model like a controller and, unless dry, applies it; it returns per-item codes. Caller does NOT hold sim.mu.
func (run *vfc19Run) ctlDecide(c *vfSimConn, api, ver int16, items []string, bad string, topLevel bool, apply func(dry bool) []int16) vfc19CtlAnswer {
	s := run.sim
	run.snapshotBrokers()
	s.mu.Lock()
	defer s.mu.Unlock()
	rq := vfc19Req{Api: api, Ver: ver, Broker: c.broker.ID, Ctl: s.controller, Step: -1, Items: items, Bad: bad}
	all := func(code int16) []int16 {
		out := make([]int16, len(items))
		for i := range out {
			out[i] = code
		}
		return out
	}
	notController := func() vfc19CtlAnswer {
		if topLevel {
			rq.Top = vfc19NotController
			return vfc19CtlAnswer{Top: vfc19NotController, Codes: all(0)}
		}
		rq.Codes = all(vfc19NotController)
		return vfc19CtlAnswer{Codes: rq.Codes}
	}
	var ans vfc19CtlAnswer
	if c.broker.ID != s.controller {
		rq.Outcome = "notControllerGenuine"
		ans = notController()
		run.logLocked(rq)
		return ans
	}
	st := vfc19Step{Kind: "ok"}
	if run.step < len(run.c.Ctl.Steps) {
		st = run.c.Ctl.Steps[run.step]
	}
	rq.Step = run.step
	run.step++
	allZero := func(codes []int16) bool {
		for _, x := range codes {
			if x != 0 {
				return false
			}
		}
		return true
	}
	switch st.Kind {
	case "move":
		s.controller = st.To
		s.hist.add(vfEvent{Kind: "controller-move", Broker: st.To}, true)
		rq.Outcome = "notController"
		ans = notController()
	case "ok":
		codes := apply(false)
		rq.Codes = codes
		if allZero(codes) {
			rq.Outcome = "ack"
			rq.Applied = true
		} else {
			rq.Outcome = "err"
		}
		ans = vfc19CtlAnswer{Codes: codes}
	case "err":
		rq.Outcome = "err"
		codes := all(0)
		if topLevel {
			rq.Top = st.Code
			for i := range codes {
				if i < len(st.PartCodes) {
					codes[i] = st.PartCodes[i]
				}
			}
		} else {
			codes = all(st.Code)
		}
		rq.Codes = codes
		ans = vfc19CtlAnswer{Top: rq.Top, Codes: codes}
		if st.Msg {
			m := "vf: scripted refusal"
			ans.Msg = &m
		}
	case "omit":
		rq.Outcome = "omit"
		ans = vfc19CtlAnswer{Omit: true}
	case "omitApplied":
		codes := apply(false)
		rq.Outcome = "omit"
		rq.Applied = allZero(codes)
		ans = vfc19CtlAnswer{Omit: true}
	case "dropBefore":
		rq.Outcome = "dropBefore"
		ans = vfc19CtlAnswer{Drop: true}
	case "dropAfter":
		codes := apply(false)
		rq.Outcome = "dropAfter"
		rq.Applied = allZero(codes)
		ans = vfc19CtlAnswer{Drop: true}
	default:
		rq.Outcome = "bad-step:" + st.Kind
		ans = vfc19CtlAnswer{Drop: true}
	}
	run.logLocked(rq)
	return ans
}

// leadersFor spreads new partitions over the brokers round-robin. Caller holds sim.mu.
func (run *vfc19Run) leaderForLocked(i int) int32 {
	ids := make([]int, 0, len(run.sim.brokers))
	for id := range run.sim.brokers {
		ids = append(ids, int(id))
	}
	sort.Ints(ids)
	return int32(ids[i%len(ids)])
}

func (run *vfc19Run) handleCreateTopics(c *vfSimConn, key, version int16, body []byte) ([]byte, string) {
	if version < 0 || version > 4 {
		return run.wireViolation(c, key, version, "version the simulator does not speak")
	}
	r := &vfsR{b: body}
	type topicReq struct {
		name     string
		parts    int32
		rf       int16
		assigned int
	}
	var topics []topicReq
	n := int(r.i32())
	for i := 0; i < n && r.err == nil; i++ {
		t := topicReq{name: r.str(), parts: r.i32(), rf: r.i16()}
		na := int(r.i32())
		for j := 0; j < na && r.err == nil; j++ {
			_ = r.i32()
			_ = r.i32arr()
			t.assigned++
		}
		nc := int(r.i32())
		for j := 0; j < nc && r.err == nil; j++ {
			_ = r.str()
			_ = r.nstr()
		}
		topics = append(topics, t)
	}
	_ = r.i32() // timeout
	validateOnly := false
	if version >= 1 {
		validateOnly = r.i8() != 0
	}
	if r.err != nil || r.remaining() != 0 || n < 0 {
		return run.wireViolation(c, key, version, fmt.Sprintf("malformed CreateTopics request (%v, %d stray bytes)", r.err, r.remaining()))
	}
	var items []string
	for _, t := range topics {
		items = append(items, t.name)
	}
	cc := run.c.Ctl
	bad := ""
	switch {
	case len(topics) != 1 || topics[0].name != cc.Topic:
		bad = fmt.Sprintf("topics %v, the call named %q", items, cc.Topic)
	case topics[0].parts != cc.NumPartitions || topics[0].rf != cc.ReplicationFactor:
		bad = fmt.Sprintf("partitions=%d replication=%d, the call said %d/%d", topics[0].parts, topics[0].rf, cc.NumPartitions, cc.ReplicationFactor)
	case validateOnly != cc.ValidateOnly:
		bad = fmt.Sprintf("validateOnly=%v, the call said %v", validateOnly, cc.ValidateOnly)
	}
	s := run.sim
	ans := run.ctlDecide(c, key, version, items, bad, false, func(dry bool) []int16 {
		codes := make([]int16, len(topics))
		for i, t := range topics {
			switch {
			case s.topics[t.name] != nil:
				codes[i] = 36 // TOPIC_ALREADY_EXISTS
			case t.parts < 1 && t.assigned == 0:
				codes[i] = 37 // INVALID_PARTITIONS
			case t.rf < 1 && t.assigned == 0:
				codes[i] = 38 // INVALID_REPLICATION_FACTOR
			case int(t.rf) > len(s.brokers):
				codes[i] = 38
			default:
				if !dry && !validateOnly {
					ts := &vfTopicState{Name: t.name, Parts: map[int32]*vfPartState{}}
					for p := 0; p < int(t.parts); p++ {
						l := run.leaderForLocked(p)
						ts.Parts[int32(p)] = &vfPartState{ID: int32(p), Leader: l, Replicas: []int32{l}, Isr: []int32{l}, Producers: map[int64]*vfPidState{}}
					}
					s.topics[t.name] = ts
				}
			}
		}
		return codes
	})
	if ans.Drop {
		return nil, "close"
	}
	w := &vfsW{}
	if version >= 2 {
		w.i32(0)
	}
	if ans.Omit {
		w.i32(0)
		return w.b, ""
	}
	w.i32(int32(len(items)))
	for i, name := range items {
		w.str(name)
		w.i16(ans.Codes[i])
		if version >= 1 {
			w.nstr(ans.Msg)
		}
	}
	return w.b, ""
}

func (run *vfc19Run) handleDeleteTopics(c *vfSimConn, key, version int16, body []byte) ([]byte, string) {
	if version < 0 || version > 3 {
		return run.wireViolation(c, key, version, "version the simulator does not speak")
	}
	r := &vfsR{b: body}
	n := int(r.i32())
	var items []string
	for i := 0; i < n && r.err == nil; i++ {
		items = append(items, r.str())
	}
	_ = r.i32()
	if r.err != nil || r.remaining() != 0 || n < 0 {
		return run.wireViolation(c, key, version, fmt.Sprintf("malformed DeleteTopics request (%v, %d stray bytes)", r.err, r.remaining()))
	}
	cc := run.c.Ctl
	bad := ""
	if len(items) != 1 || items[0] != cc.Topic {
		bad = fmt.Sprintf("topics %v, the call named %q", items, cc.Topic)
	}
	s := run.sim
	ans := run.ctlDecide(c, key, version, items, bad, false, func(dry bool) []int16 {
		codes := make([]int16, len(items))
		for i, name := range items {
			if s.topics[name] == nil {
				codes[i] = vfc19UnknownTopic
				continue
			}
			if !dry {
				delete(s.topics, name)
			}
		}
		return codes
	})
	if ans.Drop {
		return nil, "close"
	}
	w := &vfsW{}
	if version >= 1 {
		w.i32(0)
	}
	if ans.Omit {
		w.i32(0)
		return w.b, ""
	}
	w.i32(int32(len(items)))
	for i, name := range items {
		w.str(name)
		w.i16(ans.Codes[i])
	}
	return w.b, ""
}

func (run *vfc19Run) handleCreatePartitions(c *vfSimConn, key, version int16, body []byte) ([]byte, string) {
	if version < 0 || version > 1 {
		return run.wireViolation(c, key, version, "version the simulator does not speak")
	}
	r := &vfsR{b: body}
	type topicReq struct {
		name  string
		count int32
	}
	var topics []topicReq
	n := int(r.i32())
	for i := 0; i < n && r.err == nil; i++ {
		t := topicReq{name: r.str(), count: r.i32()}
		na := int(r.i32())
		for j := 0; j < na && r.err == nil; j++ {
			_ = r.i32arr()
		}
		topics = append(topics, t)
	}
	_ = r.i32()
	validateOnly := r.i8() != 0
	if r.err != nil || r.remaining() != 0 || n < 0 {
		return run.wireViolation(c, key, version, fmt.Sprintf("malformed CreatePartitions request (%v, %d stray bytes)", r.err, r.remaining()))
	}
	var items []string
	for _, t := range topics {
		items = append(items, t.name)
	}
	cc := run.c.Ctl
	bad := ""
	switch {
	case len(topics) != 1 || topics[0].name != cc.Topic:
		bad = fmt.Sprintf("topics %v, the call named %q", items, cc.Topic)
	case topics[0].count != cc.NumPartitions:
		bad = fmt.Sprintf("count=%d, the call said %d", topics[0].count, cc.NumPartitions)
	}
	s := run.sim
	ans := run.ctlDecide(c, key, version, items, bad, false, func(dry bool) []int16 {
		codes := make([]int16, len(topics))
		for i, t := range topics {
			ts := s.topics[t.name]
			switch {
			case ts == nil:
				codes[i] = vfc19UnknownTopic
			case int(t.count) <= len(ts.Parts):
				codes[i] = 37 // INVALID_PARTITIONS
			default:
				if !dry && !validateOnly {
					for p := len(ts.Parts); p < int(t.count); p++ {
						l := run.leaderForLocked(p)
						ts.Parts[int32(p)] = &vfPartState{ID: int32(p), Leader: l, Replicas: []int32{l}, Isr: []int32{l}, Producers: map[int64]*vfPidState{}}
					}
				}
			}
		}
		return codes
	})
	if ans.Drop {
		return nil, "close"
	}
	w := &vfsW{}
	w.i32(0)
	if ans.Omit {
		w.i32(0)
		return w.b, ""
	}
	w.i32(int32(len(items)))
	for i, name := range items {
		w.str(name)
		w.i16(ans.Codes[i])
		w.nstr(ans.Msg)
	}
	return w.b, ""
}

func (run *vfc19Run) handleAlter(c *vfSimConn, key, version int16, body []byte) ([]byte, string) {
	if version != 0 {
		return run.wireViolation(c, key, version, "version the simulator does not speak")
	}
	r := &vfsR{b: body}
	_ = r.i32() // timeout
	type partReq struct {
		topic    string
		idx      int32
		replicas []int32
		null     bool
	}
	var parts []partReq
	nt := vfc19RCompactLen(r)
	for i := 0; i < nt && r.err == nil; i++ {
		name := vfc19RCompactStr(r)
		np := vfc19RCompactLen(r)
		for j := 0; j < np && r.err == nil; j++ {
			p := partReq{topic: name, idx: r.i32()}
			nr := vfc19RCompactLen(r)
			if nr < 0 {
				p.null = true
			}
			for k := 0; k < nr && r.err == nil; k++ {
				p.replicas = append(p.replicas, r.i32())
			}
			vfc19RTags(r)
			parts = append(parts, p)
		}
		vfc19RTags(r)
	}
	vfc19RTags(r)
	if r.err != nil || r.remaining() != 0 {
		return run.wireViolation(c, key, version, fmt.Sprintf("malformed AlterPartitionReassignments request (%v, %d stray bytes)", r.err, r.remaining()))
	}
	sort.SliceStable(parts, func(i, j int) bool {
		if parts[i].topic != parts[j].topic {
			return parts[i].topic < parts[j].topic
		}
		return parts[i].idx < parts[j].idx
	})
	var items []string
	for _, p := range parts {
		items = append(items, fmt.Sprintf("%s/%d", p.topic, p.idx))
	}
	cc := run.c.Ctl
	bad := ""
	if len(parts) != len(cc.Assignment) {
		bad = fmt.Sprintf("%d partitions, the call gave %d", len(parts), len(cc.Assignment))
	} else {
		for i, p := range parts {
			if p.topic != cc.Topic || int(p.idx) != i || !vfc19EqInt32(p.replicas, cc.Assignment[i]) {
				bad = fmt.Sprintf("item %d is %s/%d replicas %v, the call gave %s/%d replicas %v", i, p.topic, p.idx, p.replicas, cc.Topic, i, cc.Assignment[i])
				break
			}
		}
	}
	s := run.sim
	ans := run.ctlDecide(c, key, version, items, bad, true, func(dry bool) []int16 {
		codes := make([]int16, len(parts))
		for i, p := range parts {
			ts := s.topics[p.topic]
			switch {
			case ts == nil || ts.Parts[p.idx] == nil:
				codes[i] = vfc19UnknownTopic
			case !p.null && len(p.replicas) == 0:
				codes[i] = 39 // INVALID_REPLICA_ASSIGNMENT
			default:
				for _, b := range p.replicas {
					if s.brokers[b] == nil {
						codes[i] = 39
					}
				}
				if codes[i] == 0 && !dry && !p.null {
					ts.Parts[p.idx].Replicas = append([]int32(nil), p.replicas...)
				}
			}
		}
		return codes
	})
	if ans.Drop {
		return nil, "close"
	}
	w := &vfsW{}
	w.i32(0)
	w.i16(ans.Top)
	if ans.Top != 0 {
		vfc19WCompactNStr(w, ans.Msg)
	} else {
		w.uvarint(0)
	}
	if ans.Omit {
		w.uvarint(1) // empty array
		w.uvarint(0)
		return w.b, ""
	}
	// group by topic, request order
	var order []string
	byTopic := map[string][]int{}
	for i, p := range parts {
		if _, ok := byTopic[p.topic]; !ok {
			order = append(order, p.topic)
		}
		byTopic[p.topic] = append(byTopic[p.topic], i)
	}
	w.uvarint(uint64(len(order)) + 1)
	for _, name := range order {
		vfc19WCompactStr(w, name)
		w.uvarint(uint64(len(byTopic[name])) + 1)
		for _, i := range byTopic[name] {
			w.i32(parts[i].idx)
			w.i16(ans.Codes[i])
			if ans.Codes[i] != 0 {
				vfc19WCompactNStr(w, ans.Msg)
			} else {
				w.uvarint(0)
			}
			w.uvarint(0)
		}
		w.uvarint(0)
	}
	w.uvarint(0)
	return w.b, ""
}

func vfc19EqInt32(a, b []int32) bool {
	if len(a) != len(b) {
		return false
	}
	for i := range a {
		if a[i] != b[i] {
			return false
		}
	}
	return true
}

// ---------------------------------------------------------------- DeleteRecords (partition leaders)

func (run *vfc19Run) brokerFault(id int32) string {
	for _, f := range run.c.BrokerFaults {
		if f.Broker == id {
			return f.Kind
		}
	}
	return ""
}

func (run *vfc19Run) handleDeleteRecords(c *vfSimConn, key, version int16, body []byte) ([]byte, string) {
	if version < 0 || version > 1 {
		return run.wireViolation(c, key, version, "version the simulator does not speak")
	}
	r := &vfsR{b: body}
	type partReq struct {
		topic  string
		part   int32
		offset int64
	}
	var parts []partReq
	nt := int(r.i32())
	for i := 0; i < nt && r.err == nil; i++ {
		name := r.str()
		np := int(r.i32())
		for j := 0; j < np && r.err == nil; j++ {
			parts = append(parts, partReq{topic: name, part: r.i32(), offset: r.i64()})
		}
	}
	_ = r.i32()
	if r.err != nil || r.remaining() != 0 || nt < 0 {
		return run.wireViolation(c, key, version, fmt.Sprintf("malformed DeleteRecords request (%v, %d stray bytes)", r.err, r.remaining()))
	}
	s := run.sim
	run.snapshotBrokers()
	rc := run.c.Rec
	fault := run.brokerFault(c.broker.ID)
	s.mu.Lock()
	rq := vfc19Req{Api: key, Ver: version, Broker: c.broker.ID, Step: -1}
	codes := make([]int16, len(parts))
	lows := make([]int64, len(parts))
	for i, p := range parts {
		rq.Items = append(rq.Items, fmt.Sprintf("%s/%d@%d", p.topic, p.part, p.offset))
		lows[i] = -1
		var ps *vfPartState
		if ts := s.topics[p.topic]; ts != nil {
			ps = ts.Parts[p.part]
		}
		scripted := int16(0)
		if rc != nil && p.topic == rc.Topic {
			for _, a := range rc.Parts {
				if a.Part == p.part {
					scripted = a.Code
				}
			}
		}
		switch {
		case ps == nil:
			codes[i] = vfc19UnknownTopic
		case ps.Leader != c.broker.ID:
			codes[i] = vfc19NotLeader
		case scripted != 0:
			codes[i] = scripted
		case fault == "drop":
			// connection dies before anything is applied
		default:
			ps.LogStart = p.offset
			lows[i] = p.offset
		}
	}
	rq.Codes = codes
	switch fault {
	case "drop":
		rq.Outcome = "dropBefore"
	case "omitTopic":
		rq.Outcome = "omit"
	default:
		rq.Outcome = "answered"
	}
	run.logLocked(rq)
	s.mu.Unlock()
	if fault == "drop" {
		return nil, "close"
	}
	w := &vfsW{}
	w.i32(0)
	if fault == "omitTopic" {
		w.i32(0)
		return w.b, ""
	}
	var order []string
	byTopic := map[string][]int{}
	for i, p := range parts {
		if _, ok := byTopic[p.topic]; !ok {
			order = append(order, p.topic)
		}
		byTopic[p.topic] = append(byTopic[p.topic], i)
	}
	w.i32(int32(len(order)))
	for _, name := range order {
		w.str(name)
		w.i32(int32(len(byTopic[name])))
		for _, i := range byTopic[name] {
			w.i32(parts[i].part)
			w.i64(lows[i])
			w.i16(codes[i])
		}
	}
	return w.b, ""
}

// ---------------------------------------------------------------- group coordinator APIs

func (run *vfc19Run) groupSpec(name string) *vfc19GroupSpec {
	if run.c.Grp == nil {
		return nil
	}
	for i := range run.c.Grp.Groups {
		if run.c.Grp.Groups[i].Name == name {
			return &run.c.Grp.Groups[i]
		}
	}
	return nil
}

func (run *vfc19Run) handleFindCoordinator(c *vfSimConn, key, version int16, body []byte) ([]byte, string) {
	if version < 0 || version > 2 {
		return run.wireViolation(c, key, version, "version the simulator does not speak")
	}
	r := &vfsR{b: body}
	name := r.str()
	ctype := int8(0)
	if version >= 1 {
		ctype = r.i8()
	}
	if r.err != nil || r.remaining() != 0 {
		return run.wireViolation(c, key, version, fmt.Sprintf("malformed FindCoordinator request (%v, %d stray bytes)", r.err, r.remaining()))
	}
	s := run.sim
	s.mu.Lock()
	coord := int32(-1)
	if g := run.groupSpec(name); g != nil && ctype == 0 {
		coord = g.Coord
	}
	b := s.brokers[coord]
	rq := vfc19Req{Api: key, Ver: version, Broker: c.broker.ID, Step: -1, Outcome: "answered", Items: []string{name}}
	if b == nil {
		rq.Top = 15 // COORDINATOR_NOT_AVAILABLE
	}
	run.logLocked(rq)
	s.mu.Unlock()
	w := &vfsW{}
	if version >= 1 {
		w.i32(0)
	}
	if b == nil {
		w.i16(15)
		if version >= 1 {
			w.nstr(nil)
		}
		w.i32(-1)
		w.str("")
		w.i32(0)
		return w.b, ""
	}
	w.i16(0)
	if version >= 1 {
		w.nstr(nil)
	}
	host, port := vfSplitAddr(b.Addr)
	w.i32(b.ID)
	w.str(host)
	w.i32(port)
	return w.b, ""
}

func vfc19ReadGroups(r *vfsR) []string {
	n := int(r.i32())
	var out []string
	for i := 0; i < n && r.err == nil; i++ {
		out = append(out, r.str())
	}
	if n < 0 {
		r.fail("group array length")
	}
	return out
}

func (run *vfc19Run) handleDescribeGroups(c *vfSimConn, key, version int16, body []byte) ([]byte, string) {
	if version != 0 {
		return run.wireViolation(c, key, version, "version the simulator does not speak")
	}
	r := &vfsR{b: body}
	names := vfc19ReadGroups(r)
	if r.err != nil || r.remaining() != 0 {
		return run.wireViolation(c, key, version, fmt.Sprintf("malformed DescribeGroups request (%v, %d stray bytes)", r.err, r.remaining()))
	}
	s := run.sim
	run.snapshotBrokers()
	fault := run.brokerFault(c.broker.ID)
	s.mu.Lock()
	rq := vfc19Req{Api: key, Ver: version, Broker: c.broker.ID, Step: -1, Items: names, Outcome: "answered"}
	codes := make([]int16, len(names))
	for i, name := range names {
		g := run.groupSpec(name)
		switch {
		case g == nil || g.Coord != c.broker.ID:
			codes[i] = vfc19NotCoordinator
		default:
			codes[i] = g.Code
		}
	}
	rq.Codes = codes
	if fault == "drop" {
		rq.Outcome = "dropBefore"
	}
	run.logLocked(rq)
	s.mu.Unlock()
	if fault == "drop" {
		return nil, "close"
	}
	w := &vfsW{}
	w.i32(int32(len(names)))
	for i, name := range names {
		w.i16(codes[i])
		w.str(name)
		g := run.groupSpec(name)
		if codes[i] != 0 || g == nil {
			w.str("")
			w.str("")
			w.str("")
			w.i32(0)
			continue
		}
		w.str(g.State)
		w.str("consumer")
		w.str("range")
		w.i32(int32(g.Members))
		for m := 0; m < g.Members; m++ {
			w.str(fmt.Sprintf("%s-member-%d", name, m))
			w.str("vf-client")
			w.str("/10.0.0.1")
			w.bytes([]byte{})
			w.bytes([]byte{})
		}
	}
	return w.b, ""
}

func (run *vfc19Run) handleDeleteGroups(c *vfSimConn, key, version int16, body []byte) ([]byte, string) {
	if version < 0 || version > 1 {
		return run.wireViolation(c, key, version, "version the simulator does not speak")
	}
	r := &vfsR{b: body}
	names := vfc19ReadGroups(r)
	if r.err != nil || r.remaining() != 0 {
		return run.wireViolation(c, key, version, fmt.Sprintf("malformed DeleteGroups request (%v, %d stray bytes)", r.err, r.remaining()))
	}
	s := run.sim
	run.snapshotBrokers()
	fault := run.brokerFault(c.broker.ID)
	s.mu.Lock()
	rq := vfc19Req{Api: key, Ver: version, Broker: c.broker.ID, Step: -1, Items: names, Outcome: "answered"}
	codes := make([]int16, len(names))
	for i, name := range names {
		g := run.groupSpec(name)
		switch {
		case g == nil || g.Coord != c.broker.ID:
			codes[i] = vfc19NotCoordinator
		case g.Code != 0:
			codes[i] = g.Code
		case run.deleted[name]:
			codes[i] = 69 // GROUP_ID_NOT_FOUND
		case fault == "drop":
		default:
			run.deleted[name] = true
		}
	}
	rq.Codes = codes
	switch fault {
	case "drop":
		rq.Outcome = "dropBefore"
	case "omitTopic":
		rq.Outcome = "omit"
	}
	run.logLocked(rq)
	s.mu.Unlock()
	if fault == "drop" {
		return nil, "close"
	}
	w := &vfsW{}
	w.i32(0)
	if fault == "omitTopic" {
		w.i32(0)
		return w.b, ""
	}
	w.i32(int32(len(names)))
	for i, name := range names {
		w.str(name)
		w.i16(codes[i])
	}
	return w.b, ""
}

func (run *vfc19Run) handleOffsetFetch(c *vfSimConn, key, version int16, body []byte) ([]byte, string) {
	if version < 0 || version > 5 {
		return run.wireViolation(c, key, version, "version the simulator does not speak")
	}
	r := &vfsR{b: body}
	group := r.str()
	nt := int(r.i32())
	type partReq struct {
		topic string
		part  int32
	}
	var parts []partReq
	all := nt < 0
	for i := 0; i < nt && r.err == nil; i++ {
		name := r.str()
		for _, p := range r.i32arr() {
			parts = append(parts, partReq{name, p})
		}
	}
	if r.err != nil || r.remaining() != 0 || (all && version < 2) {
		return run.wireViolation(c, key, version, fmt.Sprintf("malformed OffsetFetch request (%v, %d stray bytes, null array=%v)", r.err, r.remaining(), all))
	}
	s := run.sim
	run.snapshotBrokers()
	fault := run.brokerFault(c.broker.ID)
	gc := run.c.Grp
	s.mu.Lock()
	g := run.groupSpec(group)
	rq := vfc19Req{Api: key, Ver: version, Broker: c.broker.ID, Step: -1, Outcome: "answered", Items: []string{"group=" + group}}
	if all {
		rq.Items = append(rq.Items, "*")
		if gc != nil {
			for _, t := range gc.Topics {
				for _, p := range t.Parts {
					if p.Stored {
						parts = append(parts, partReq{t.Name, p.Part})
					}
				}
			}
		}
	} else {
		for _, p := range parts {
			rq.Items = append(rq.Items, fmt.Sprintf("%s/%d", p.topic, p.part))
		}
	}
	top := int16(0)
	notCoord := g == nil || g.Coord != c.broker.ID
	if notCoord {
		top = vfc19NotCoordinator
	} else if gc != nil {
		top = gc.TopErr
	}
	codes := make([]int16, len(parts))
	offs := make([]int64, len(parts))
	for i, p := range parts {
		offs[i] = -1
		if notCoord {
			if version < 2 {
				codes[i] = vfc19NotCoordinator
			}
			continue
		}
		if top != 0 && version >= 2 {
			continue
		}
		if gc != nil {
			for _, t := range gc.Topics {
				if t.Name != p.topic {
					continue
				}
				for _, sp := range t.Parts {
					if sp.Part == p.part {
						codes[i] = sp.Code
						if sp.Code == 0 && sp.Stored {
							offs[i] = sp.Offset
						}
					}
				}
			}
		}
	}
	if version >= 2 {
		rq.Top = top
	}
	rq.Codes = codes
	if fault == "drop" {
		rq.Outcome = "dropBefore"
	}
	run.logLocked(rq)
	s.mu.Unlock()
	if fault == "drop" {
		return nil, "close"
	}
	w := &vfsW{}
	if version >= 3 {
		w.i32(0)
	}
	var order []string
	byTopic := map[string][]int{}
	if !(top != 0 && version >= 2) {
		for i, p := range parts {
			if _, ok := byTopic[p.topic]; !ok {
				order = append(order, p.topic)
			}
			byTopic[p.topic] = append(byTopic[p.topic], i)
		}
	}
	w.i32(int32(len(order)))
	for _, name := range order {
		w.str(name)
		w.i32(int32(len(byTopic[name])))
		for _, i := range byTopic[name] {
			w.i32(parts[i].part)
			w.i64(offs[i])
			if version >= 5 {
				w.i32(-1)
			}
			w.str("")
			w.i16(codes[i])
		}
	}
	if version >= 2 {
		w.i16(top)
	}
	return w.b, ""
}
