//go:build go1.18 && verif

package sarama

// C06: committed offsets are marked offsets, and no mark is lost. A generated action sequence over a real
// OffsetManager against the simulated coordinator, with a model of the pending position. DESIGN.md 5.6.

import (
	"fmt"
	"sync"
	"sync/atomic"
	"testing"
	"time"

	"github.com/Shopify/sarama/internal/vfcore"
	"github.com/rcrowley/go-metrics"
	"pgregory.net/rapid"
)

type vfOMAction struct {
	Op       string    `json:"op"` // mark | reset | next | commit | verdicts | markInside | moveCoordinator | sleep
	P        int       `json:"p,omitempty"`
	Off      int64     `json:"off,omitempty"`
	Meta     string    `json:"meta,omitempty"`
	Verdicts []vfFault `json:"verdicts,omitempty"`
	Inner    []vfOMAction `json:"inner,omitempty"` // markInside: marks/resets performed while the commit is in flight
	To       int32     `json:"to,omitempty"`
}

type vfOMCase struct {
	AutoCommit bool         `json:"autoCommit"`
	Parts      int          `json:"parts"`
	Initial    []int64      `json:"initial"` // -1 = nothing stored
	InitMeta   []string     `json:"initMeta"`
	Retention  bool         `json:"retention"`
	InitialPos int64        `json:"initialPos"` // Consumer.Offsets.Initial: -1 newest, -2 oldest
	RetryMax   int          `json:"retryMax"`
	Brokers    int          `json:"brokers"`
	Actions    []vfOMAction `json:"actions"`
	Delays     map[string][]int `json:"delays,omitempty"`
	C12        *vfC12Ctl `json:"c12,omitempty"`
}

type vfOMModel struct {
	off     int64
	meta    string
	held    map[string][]int // every (offset, meta) the pending position has been -> the model-time indexes at which it became current
	clock   int
	touched bool
}

func (m *vfOMModel) hold() {
	m.clock++
	k := fmt.Sprintf("%d|%s", m.off, m.meta)
	m.held[k] = append(m.held[k], m.clock)
}

type vfOMRun struct {
	c       *vfOMCase
	sim     *vfSim
	gl      *vfGroupLayer
	models  []*vfOMModel
	mu      sync.Mutex
	log     []string
	errs    []string
	insideLanded bool
	failedThenOK bool
	hang    string
}

func (run *vfOMRun) note(format string, a ...interface{}) {
	run.mu.Lock()
	run.log = append(run.log, fmt.Sprintf(format, a...))
	run.mu.Unlock()
}

func vfGenOMCase(t *rapid.T) *vfOMCase {
	c := &vfOMCase{}
	c.AutoCommit = rapid.Bool().Draw(t, "autoCommit")
	c.Parts = rapid.IntRange(1, 3).Draw(t, "parts")
	c.Retention = rapid.Bool().Draw(t, "retention")
	c.InitialPos = rapid.SampledFrom([]int64{-1, -2}).Draw(t, "initialPos")
	c.RetryMax = rapid.IntRange(0, 3).Draw(t, "retryMax")
	c.Brokers = rapid.IntRange(1, 2).Draw(t, "brokers")
	for p := 0; p < c.Parts; p++ {
		if rapid.Bool().Draw(t, fmt.Sprintf("hasInit%d", p)) {
			c.Initial = append(c.Initial, rapid.Int64Range(0, 50).Draw(t, fmt.Sprintf("init%d", p)))
			c.InitMeta = append(c.InitMeta, rapid.SampledFrom([]string{"", "im"}).Draw(t, fmt.Sprintf("initMeta%d", p)))
		} else {
			c.Initial = append(c.Initial, -1)
			c.InitMeta = append(c.InitMeta, "")
		}
	}
	drawMark := func(label string) vfOMAction {
		a := vfOMAction{P: rapid.IntRange(0, c.Parts-1).Draw(t, label+".p")}
		a.Op = rapid.SampledFrom([]string{"mark", "mark", "mark", "reset"}).Draw(t, label+".op")
		a.Off = rapid.Int64Range(0, 60).Draw(t, label+".off")
		if a.Op == "reset" && rapid.Bool().Draw(t, label+".same") {
			a.Off = -100 // the current pending offset: only the metadata changes
		}
		a.Meta = rapid.SampledFrom([]string{"", "a", "b", "meta-c"}).Draw(t, label+".meta")
		return a
	}
	verdict := func(label string) vfFault {
		switch rapid.SampledFrom([]string{"ok", "dropAfter", "dropBefore", "err", "err", "omit", "errApplied"}).Draw(t, label+".kind") {
		case "dropAfter":
			return vfFault{Kind: "dropAfter"}
		case "dropBefore":
			return vfFault{Kind: "dropBefore"}
		case "err":
			return vfFault{Kind: "err", Code: rapid.SampledFrom([]int16{16, 15, 14, 12, 3, 28, 7, 6, 5}).Draw(t, label+".code")}
		case "errApplied":
			return vfFault{Kind: "errApplied", Code: 7}
		case "omit":
			return vfFault{Kind: "omit"}
		}
		return vfFault{Kind: "ok"}
	}
	n := rapid.IntRange(1, 40).Draw(t, "nActions")
	for i := 0; i < n; i++ {
		l := fmt.Sprintf("a%d", i)
		switch rapid.SampledFrom([]string{"mark", "mark", "mark", "mark", "next", "commit", "commit", "verdicts", "markInside", "markInside", "moveCoordinator", "sleep"}).Draw(t, l+".what") {
		case "mark":
			c.Actions = append(c.Actions, drawMark(l))
		case "next":
			c.Actions = append(c.Actions, vfOMAction{Op: "next", P: rapid.IntRange(0, c.Parts-1).Draw(t, l+".p")})
		case "commit":
			c.Actions = append(c.Actions, vfOMAction{Op: "commit"})
		case "verdicts":
			k := rapid.IntRange(1, 3).Draw(t, l+".k")
			a := vfOMAction{Op: "verdicts"}
			for j := 0; j < k; j++ {
				a.Verdicts = append(a.Verdicts, verdict(fmt.Sprintf("%s.v%d", l, j)))
			}
			c.Actions = append(c.Actions, a)
		case "markInside":
			a := vfOMAction{Op: "markInside"}
			k := rapid.IntRange(1, 3).Draw(t, l+".k")
			for j := 0; j < k; j++ {
				a.Inner = append(a.Inner, drawMark(fmt.Sprintf("%s.i%d", l, j)))
			}
			c.Actions = append(c.Actions, a)
		case "moveCoordinator":
			if c.Brokers > 1 {
				c.Actions = append(c.Actions, vfOMAction{Op: "moveCoordinator", To: int32(rapid.IntRange(1, c.Brokers).Draw(t, l+".to"))})
			}
		case "sleep":
			c.Actions = append(c.Actions, vfOMAction{Op: "sleep", Off: int64(rapid.SampledFrom([]int{200, 1500, 4000}).Draw(t, l+".us"))})
		}
	}
	if rapid.IntRange(0, 2).Draw(t, "perturb") != 0 {
		c.Delays = map[string][]int{}
		for _, pnt := range []string{"offs.flush.built", "offs.flush.response"} {
			v := make([]int, 8)
			for i := range v {
				v[i] = rapid.SampledFrom([]int{0, 0, 0, 1, 2, 3, 4}).Draw(t, fmt.Sprintf("d.%s.%d", pnt, i))
			}
			c.Delays[pnt] = v
		}
	}
	return c
}

func vfRunOMCase(c *vfOMCase, r *vfcore.Rec) *vfcore.Failure {
	run := &vfOMRun{c: c}
	sim := newVfSim(c.Brokers)
	run.sim = sim
	defer sim.shutdown()
	leaders := make([]int32, c.Parts)
	for i := range leaders {
		leaders[i] = 1
	}
	sim.addTopic("t", leaders)
	gl := sim.enableGroups()
	run.gl = gl
	const group = "g"
	for p := 0; p < c.Parts; p++ {
		m := &vfOMModel{off: c.Initial[p], meta: c.InitMeta[p], held: map[string][]int{}}
		if c.Initial[p] >= 0 {
			gl.setOffset(group, "t", int32(p), c.Initial[p], c.InitMeta[p])
		} else {
			m.meta = ""
		}
		m.hold()
		run.models = append(run.models, m)
	}
	restore := vfInstallHooks(c.Delays, sim)
	defer restore()

	conf := NewConfig()
	conf.Version = V1_0_0_0
	conf.ClientID = "om"
	conf.MetricRegistry = metrics.NewRegistry()
	conf.Net.Proxy.Enable = true
	conf.Net.Proxy.Dialer = sim.net
	conf.Net.ReadTimeout = time.Second
	if c.C12 != nil && c.C12.UnreachKind == "silent" {
		conf.Net.ReadTimeout = 150 * time.Millisecond
	}
	conf.Metadata.Retry.Max = 2
	conf.Metadata.Retry.Backoff = time.Millisecond
	conf.Metadata.RefreshFrequency = 0
	conf.Consumer.Return.Errors = true
	conf.Consumer.Offsets.AutoCommit.Enable = c.AutoCommit
	conf.Consumer.Offsets.AutoCommit.Interval = time.Millisecond
	conf.Consumer.Offsets.Initial = c.InitialPos
	conf.Consumer.Offsets.Retry.Max = c.RetryMax
	if c.Retention {
		conf.Consumer.Offsets.Retention = 90 * time.Second
	}
	client, err := NewClient(sim.seedAddrs(), conf)
	if err != nil {
		return vfcore.Failf("harness", "NewClient: %v", err)
	}
	defer client.Close()
	om, err := NewOffsetManagerFromClient(group, client)
	if err != nil {
		return vfcore.Failf("harness", "NewOffsetManagerFromClient: %v", err)
	}
	poms := make([]PartitionOffsetManager, c.Parts)
	var ewg sync.WaitGroup
	for p := 0; p < c.Parts; p++ {
		pom, err := om.ManagePartition("t", int32(p))
		if err != nil {
			return run.fail("manage-failed", "ManagePartition(t,%d): %v", p, err)
		}
		poms[p] = pom
		ewg.Add(1)
		go func(p int, pom PartitionOffsetManager) {
			defer ewg.Done()
			for e := range pom.Errors() {
				run.mu.Lock()
				run.errs = append(run.errs, fmt.Sprintf("p%d: %v", p, e.Err))
				run.mu.Unlock()
			}
		}(p, pom)
	}

	apply := func(a vfOMAction) {
		m := run.models[a.P]
		if a.Off == -100 {
			a.Off = m.off
			if a.Off < 0 {
				a.Off = 0
			}
		}
		switch a.Op {
		case "mark":
			poms[a.P].MarkOffset(a.Off, a.Meta)
			if a.Off > m.off {
				m.off, m.meta, m.touched = a.Off, a.Meta, true
				m.hold()
			}
		case "reset":
			poms[a.P].ResetOffset(a.Off, a.Meta)
			if a.Off <= m.off {
				m.off, m.meta, m.touched = a.Off, a.Meta, true
				m.hold()
			}
		}
		run.note("%s p%d %d %q -> model (%d,%q)", a.Op, a.P, a.Off, a.Meta, m.off, m.meta)
	}
	commitsSeen := func() int { return sim.occOf("offsetCommit") }
	idle := func(cond func() bool, max time.Duration) bool {
		t0 := time.Now()
		for !cond() {
			if time.Since(t0) > max {
				return false
			}
			time.Sleep(100 * time.Microsecond)
		}
		return true
	}
	gateN := 0
	var f *vfcore.Failure
	stop := newVfStopper(c.C12, sim)
	defer stop.finish()
	for ai, a := range c.Actions {
		if f != nil || stop.stopped() {
			break
		}
		switch a.Op {
		case "mark", "reset":
			apply(a)
		case "next":
			off, meta := poms[a.P].NextOffset()
			m := run.models[a.P]
			wantOff, wantMeta := m.off, m.meta
			if m.off < 0 {
				wantOff, wantMeta = c.InitialPos, ""
			}
			if off != wantOff || meta != wantMeta {
				f = run.fail("nextoffset", "action %d: NextOffset(p%d) = (%d,%q), model says (%d,%q)", ai, a.P, off, meta, wantOff, wantMeta)
			}
		case "verdicts":
			sim.appendFaults("offsetCommit", a.Verdicts)
		case "moveCoordinator":
			gl.setCoordinator(group, a.To)
			run.note("coordinator -> %d", a.To)
		case "sleep":
			time.Sleep(time.Duration(a.Off) * time.Microsecond)
		case "commit":
			if !c.AutoCommit {
				done := make(chan struct{})
				go func() { om.Commit(); close(done) }()
				if !vfWaitQuiescent(sim, func() bool {
					select {
					case <-done:
						return true
					default:
						return false
					}
				}) {
					run.hang = "Commit() did not return"
					f = run.fail("hang", "%s", run.hang)
				}
			} else {
				n0 := commitsSeen()
				idle(func() bool { return commitsSeen() > n0 }, 8*time.Millisecond)
			}
		case "markInside":
			// hold the next commit response, mark while it is in flight, release
			gateN++
			gate := fmt.Sprintf("g%d", gateN)
			anyDirty := false
			for p := range run.models {
				_ = p
				anyDirty = true
			}
			_ = anyDirty
			n0 := commitsSeen()
			sim.appendFaultsAt("offsetCommit", n0, vfFault{Kind: "ok", Gate: gate})
			var done chan struct{}
			if !c.AutoCommit {
				done = make(chan struct{})
				go func() { om.Commit(); close(done) }()
			}
			arrived := idle(func() bool { return commitsSeen() > n0 }, 15*time.Millisecond)
			for _, in := range a.Inner {
				apply(in)
			}
			if arrived {
				run.insideLanded = true
				run.note("marks landed inside commit #%d", n0)
			}
			sim.release(gate)
			if done != nil {
				if !vfWaitQuiescent(sim, func() bool {
					select {
					case <-done:
						return true
					default:
						return false
					}
				}) {
					run.hang = "Commit() did not return"
					f = run.fail("hang", "%s", run.hang)
				}
			}
		}
		if f == nil {
			f = run.checkCommits(group)
		}
	}
	if f != nil {
		sim.releaseHeld()
		go func() { _ = om.Close() }()
		return f
	}
	if c.C12 != nil {
		// shutdown scenario (C12): close right here, whatever is in flight; only termination is judged
		sim.releaseHeld()
		for _, pom := range poms {
			pom.AsyncClose()
		}
		closed := int32(0)
		go func() { _ = om.Close(); ewg.Wait(); atomic.StoreInt32(&closed, 1) }()
		if !vfWaitQuiescent(sim, func() bool { return atomic.LoadInt32(&closed) == 1 }) {
			return run.fail("hang", "OffsetManager.Close did not return (closed after %d observable events)", vfEventCount(sim))
		}
		vfLastOMEvents = vfEventCount(sim)
		r.Count("c12_events_end", vfEventCount(sim))
		if stop.stopped() {
			r.Class("closed-early")
		}
		return nil
	}
	// final: coordinator accepts from now on
	sim.clearFaults("offsetCommit")
	sim.releaseHeld()
	if !c.AutoCommit {
		// one committer at a time: a last explicit commit must send whatever was marked meanwhile
		for try := 0; try <= 3; try++ {
			om.Commit()
			if run.storeMatchesModel(group) {
				break
			}
		}
	}
	nCommitsBeforeClose := len(gl.commitsOf(group))
	for _, pom := range poms {
		pom.AsyncClose()
	}
	closed := int32(0)
	go func() { _ = om.Close(); ewg.Wait(); atomic.StoreInt32(&closed, 1) }()
	if !vfWaitQuiescent(sim, func() bool { return atomic.LoadInt32(&closed) == 1 }) {
		return run.fail("hang", "OffsetManager.Close did not return")
	}
	if f := run.checkCommits(group); f != nil {
		return f
	}
	// the clause is conditional: "the coordinator accepting the final attempts". A final attempt that went to a broker which
	// is no longer the coordinator (the client had no reason to know yet) or that was refused is not an accepted attempt.
	finalAccepted := true
	for _, cm := range gl.commitsOf(group)[nCommitsBeforeClose:] {
		if cm.Code != 0 || !cm.Applied {
			finalAccepted = false
		}
	}
	if !finalAccepted {
		r.Class("final-attempt-not-accepted")
	}
	if finalAccepted && !run.storeMatchesModel(group) {
		st := gl.offsetsOf(group)
		for p, m := range run.models {
			if !m.touched {
				continue
			}
			got, ok := st[fmt.Sprintf("t/%d", p)]
			if !ok || got.Offset != m.off || got.Meta != m.meta {
				return run.fail("mark-lost", "after Close (coordinator accepting) partition %d: stored (%d,%q) present=%v, latest mark/reset (%d,%q)", p, got.Offset, got.Meta, ok, m.off, m.meta)
			}
		}
	}
	r.Classf("autoCommit=%v", c.AutoCommit)
	r.Classf("parts=%d", c.Parts)
	commits := gl.commitsOf(group)
	failedBefore := false
	for _, cm := range commits {
		if cm.Code != 0 || !cm.Applied {
			failedBefore = true
		} else if failedBefore {
			run.failedThenOK = true
		}
	}
	if run.insideLanded {
		r.Class("mark-inside-commit")
	}
	if run.failedThenOK {
		r.Class("failed-commit-then-success")
	}
	if run.insideLanded || run.failedThenOK {
		r.NonTrivial("")
	}
	return nil
}

func (run *vfOMRun) storeMatchesModel(group string) bool {
	st := run.gl.offsetsOf(group)
	for p, m := range run.models {
		if !m.touched {
			continue
		}
		got, ok := st[fmt.Sprintf("t/%d", p)]
		if !ok || got.Offset != m.off || got.Meta != m.meta {
			return false
		}
	}
	return true
}

// checkCommits judges every commit request seen so far.
func (run *vfOMRun) checkCommits(group string) *vfcore.Failure {
	c := run.c
	lastIdx := map[string]int{}
	for _, cm := range run.gl.commitsOf(group) {
		var p int
		fmt.Sscanf(cm.TP, "t/%d", &p)
		if p < 0 || p >= len(run.models) {
			return run.fail("commit-unknown-partition", "commit for %s which is not managed", cm.TP)
		}
		m := run.models[p]
		idxs := m.held[fmt.Sprintf("%d|%s", cm.Offset, cm.Meta)]
		if len(idxs) == 0 {
			return run.fail("commit-not-marked", "commit of (%d,%q) for %s: the application never marked or reset to that pair", cm.Offset, cm.Meta, cm.TP)
		}
		if cm.Member != "" || cm.Gen != -1 {
			return run.fail("commit-identity", "plain OffsetManager committed with member %q generation %d", cm.Member, cm.Gen)
		}
		wantV, wantRet := int16(1), int64(-1)
		if c.Retention {
			wantV, wantRet = 2, 90000
		}
		if cm.Version != wantV || cm.Retention != wantRet {
			return run.fail("commit-version", "commit used v%d retention %d, configuration dictates v%d retention %d", cm.Version, cm.Retention, wantV, wantRet)
		}
		// commits are issued one at a time from the current state, so the pairs they carry must follow the order in which the
		// pending position took them on: a pair that was current only BEFORE the previously committed pair is a stale commit
		// (it would take the stored offset backwards without a ResetOffset having asked for it)
		found := -1
		for _, ix := range idxs {
			if ix >= lastIdx[cm.TP] {
				found = ix
				break
			}
		}
		if found < 0 {
			return run.fail("commit-stale", "%s: commit of (%d,%q) arrived after a commit of a later position (model time %d, this pair was current at %v)", cm.TP, cm.Offset, cm.Meta, lastIdx[cm.TP], idxs)
		}
		lastIdx[cm.TP] = found
	}
	return nil
}

func (run *vfOMRun) fail(symptom, format string, a ...interface{}) *vfcore.Failure {
	f := vfcore.Failf(symptom, format, a...)
	ev := run.sim.hist.snapshot()
	if len(ev) > 200 {
		ev = ev[len(ev)-200:]
	}
	run.mu.Lock()
	f.History = map[string]interface{}{"log": append([]string(nil), run.log...), "errors": append([]string(nil), run.errs...), "commits": run.gl.commitsOf("g"), "store": run.gl.offsetsOf("g"), "events": ev}
	run.mu.Unlock()
	return f
}

func TestVF_C06(t *testing.T) {
	vfcore.Main(t, vfcore.Spec{
		ID:  "C06",
		New: func() interface{} { return &vfOMCase{} },
		Gen: func(t *rapid.T) interface{} { return vfGenOMCase(t) },
		Run: func(ci interface{}, r *vfcore.Rec) *vfcore.Failure { return vfRunOMCase(ci.(*vfOMCase), r) },
	})
}
