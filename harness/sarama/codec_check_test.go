//go:build go1.18 && verif

package sarama

// C09 — wire encoding round-trips for every message type and version (DESIGN §5.9).
// This file: the decode-driven part (all bodies except the two that embed records),
// oracles O1-O3 and the request-framing half of O4, the coverage bookkeeping, and the
// native fuzz target.

import (
	"bytes"
	"encoding/json"
	"flag"
	"fmt"
	"hash/fnv"
	"os"
	"reflect"
	"sort"
	"strconv"
	"strings"
	"sync"
	"testing"
	"unsafe"

	"github.com/Shopify/sarama/internal/vfcore"
	"github.com/rcrowley/go-metrics"
	"pgregory.net/rapid"
)

// vfC09Case is plain data: the table entry, the version and the draw tape.
type vfC09Case struct {
	Type    string `json:"type"`
	Version int16  `json:"version"`
	Seed    []byte `json:"seed"`
}

// ---------------------------------------------------------------- O3: instrumented two-pass encode

const vfGuard = 64

func vfPanicFailure(what string, p interface{}) *vfcore.Failure {
	site := vfcore.PanicSite(p, vfPkgPrefix, "vf", "TestVF", "FuzzVF")
	return vfcore.Failf(site, "%s panicked: %v", what, p)
}

// vfEncodeChecked is encode() of encoder_decoder.go with the O3 checks made explicit:
// the sizing pass and the writing pass agree (prepEncoder.length == realEncoder.off),
// both push stacks end empty, and nothing is written past the sized buffer.
func vfEncodeChecked(e encoder, reg metrics.Registry, what string) (out []byte, encErr error, fail *vfcore.Failure) {
	defer func() {
		if p := recover(); p != nil {
			// the failure is built inside the deferred call so that the panicking stack is still there
			out, encErr, fail = nil, nil, vfPanicFailure("encode of "+what, p)
		}
	}()
	var prep prepEncoder
	if err := e.encode(&prep); err != nil {
		return nil, err, nil
	}
	if len(prep.stack) != 0 {
		return nil, nil, vfcore.Failf("o3:prep-stack-not-empty", "%s: %d push fields left on the prepEncoder stack", what, len(prep.stack))
	}
	if prep.length < 0 {
		return nil, nil, vfcore.Failf("o3:negative-length", "%s: prepEncoder.length = %d", what, prep.length)
	}
	buf := make([]byte, prep.length+vfGuard)
	for i := prep.length; i < len(buf); i++ {
		buf[i] = 0xA5
	}
	real := realEncoder{raw: buf, registry: reg}
	if err := e.encode(&real); err != nil {
		return nil, nil, vfcore.Failf("o3:real-pass-error", "%s: sizing pass succeeded, writing pass failed: %v", what, err)
	}
	if real.off != prep.length {
		return nil, nil, vfcore.Failf("o3:prep-real-length", "%s: prepEncoder.length = %d but realEncoder.off = %d", what, prep.length, real.off)
	}
	if len(real.stack) != 0 {
		return nil, nil, vfcore.Failf("o3:real-stack-not-empty", "%s: %d push fields left on the realEncoder stack", what, len(real.stack))
	}
	for i := prep.length; i < len(buf); i++ {
		if buf[i] != 0xA5 {
			return nil, nil, vfcore.Failf("o3:write-past-buffer", "%s: byte %d past the sized length %d was written", what, i-prep.length, prep.length)
		}
	}
	out = buf[:prep.length:prep.length]
	return out, nil, nil
}

// vfEncodeBoth additionally runs sarama's own encode() and requires identical bytes.
// (byte-identical when the value has no map with more than one entry: sarama's encoders
// iterate maps directly, so two passes may order the entries differently).
func vfEncodeBoth(e encoder, what string) ([]byte, error, *vfcore.Failure) {
	ordered := vfMaxMapLen(e) <= 1
	out, encErr, fail := vfEncodeChecked(e, nil, what)
	if fail != nil || encErr != nil {
		return out, encErr, fail
	}
	var sb []byte
	var err error
	func() {
		defer func() {
			if p := recover(); p != nil {
				fail = vfPanicFailure("encode() of "+what, p)
			}
		}()
		sb, err = encode(e, nil)
	}()
	if fail != nil {
		return nil, nil, fail
	}
	if err != nil {
		return nil, nil, vfcore.Failf("o3:encode-disagrees", "%s: instrumented encode succeeded, encode() failed: %v", what, err)
	}
	if len(sb) != len(out) || (ordered && !bytes.Equal(sb, out)) {
		return nil, nil, vfcore.Failf("o3:encode-disagrees", "%s: encode() and the instrumented two-pass encode differ: % x vs % x", what, sb, out)
	}
	return out, nil, nil
}

func vfSafeRealDecode(val interface{}, buf []byte, version int16, what string) (err error, fail *vfcore.Failure) {
	defer func() {
		if p := recover(); p != nil {
			err, fail = nil, vfPanicFailure("decode of "+what, p)
		}
	}()
	return vfRealDecode(val, buf, version), nil
}

// ---------------------------------------------------------------- canonicalisation classes

// vfCanonClass names the way b1 (sarama's encoding of the decoded value) differs from
// the reference bytes R at the first differing field.
func vfCanonClass(R, b1 []byte, fields []vfField) string {
	n := len(R)
	if len(b1) < n {
		n = len(b1)
	}
	at := -1
	for i := 0; i < n; i++ {
		if R[i] != b1[i] {
			at = i
			break
		}
	}
	if at < 0 {
		return "canon:length-only"
	}
	for _, f := range fields {
		if at >= f.Off && at < f.Off+f.Len {
			rv, bv := vfFieldInt(R, f), vfFieldInt(b1, f)
			switch f.Kind {
			case vfKArrayLen:
				if (rv == 0 && bv == -1) || (rv == -1 && bv == 0) {
					return fmt.Sprintf("canon:array %s->%s", vfNullOrEmpty(rv), vfNullOrEmpty(bv))
				}
			case vfKCArrayLen:
				if rv <= 1 && bv <= 1 {
					return fmt.Sprintf("canon:compact-array %s->%s", vfNullOrEmpty(rv-1), vfNullOrEmpty(bv-1))
				}
			case vfKStrLen:
				if (rv == 0 && bv == -1) || (rv == -1 && bv == 0) {
					return fmt.Sprintf("canon:string %s->%s", vfNullOrEmpty(rv), vfNullOrEmpty(bv))
				}
			case vfKBytesLen:
				if (rv == 0 && bv == -1) || (rv == -1 && bv == 0) {
					return fmt.Sprintf("canon:bytes %s->%s", vfNullOrEmpty(rv), vfNullOrEmpty(bv))
				}
			}
			return fmt.Sprintf("canon:%s@%s", f.Kind, f.Site)
		}
	}
	return "canon:unattributed"
}

func vfNullOrEmpty(v int64) string {
	if v < 0 {
		return "null"
	}
	return "empty"
}

func vfFieldInt(b []byte, f vfField) int64 {
	if f.Off+f.Len > len(b) {
		return 0
	}
	p := b[f.Off : f.Off+f.Len]
	switch f.Kind {
	case vfKCArrayLen, vfKCStrLen, vfKCBytesLen, vfKUvarint, vfKTagged:
		r := vfRd{b: p}
		u, _ := r.vfUvarint()
		return int64(u)
	case vfKVarint, vfKVBytesLen:
		r := vfRd{b: p}
		v, _ := r.vfVarint()
		return v
	}
	var v int64
	for i, c := range p {
		if i == 0 {
			v = int64(int8(c))
		} else {
			v = v<<8 | int64(c)
		}
	}
	return v
}

// ---------------------------------------------------------------- bookkeeping

var (
	vfAcceptedMu sync.Mutex
	vfAccepted   = map[string]int{}
)

func vfNoteAccepted(pair string) {
	vfAcceptedMu.Lock()
	vfAccepted[pair]++
	vfAcceptedMu.Unlock()
}

func vfHash(b []byte) uint64 {
	h := fnv.New64a()
	h.Write(b)
	return h.Sum64()
}

// allow-list of the one length-changing encode/decode asymmetry: the request carries
// the salted password, sarama's struct keeps the clear password for encoding and the
// salted one from decoding in different fields.
var vfScramSkip = map[string]bool{
	"AlterUserScramCredentialsUpsert.saltedPassword": true,
	"AlterUserScramCredentialsUpsert.Password":       true,
}

func vfEncodeRejected(x interface{}, name, what string, encErr error, R []byte) *vfcore.Failure {
	if rq, isReq := x.(*request); isReq && rq.body != nil {
		name = reflect.TypeOf(rq.body).Elem().Name()
	}
	f := vfcore.Failf("o1:encode-rejects-decoded-value:"+name, "%s: a value produced by decode is rejected by encode: %v (bytes % x)", what, encErr, R)
	f.Regions = vfRegions(x)
	return f
}

func vfJoinGroupOf(e interface{}) *JoinGroupRequest {
	switch v := e.(type) {
	case *JoinGroupRequest:
		return v
	case *request:
		if jg, ok := v.body.(*JoinGroupRequest); ok {
			return jg
		}
	}
	return nil
}

// vfEncodeKeepGoing encodes; where the value lies in the region of a known finding
// whose symptom is "encode rejects it" (JoinGroupRequest carrying both views of its
// protocol list, as decode produces it), the failure is deferred and the encode
// repeated with the deprecated view removed, so that the search goes on behind it.
func vfEncodeKeepGoing(e encoder, what string, deferred **vfcore.Failure, from []byte) ([]byte, error, *vfcore.Failure) {
	out, encErr, pf := vfEncodeBoth(e, what)
	if encErr != nil && pf == nil {
		if jg := vfJoinGroupOf(e); jg != nil && len(jg.GroupProtocols) > 0 && len(jg.OrderedGroupProtocols) > 0 {
			if *deferred == nil {
				*deferred = vfEncodeRejected(e, "JoinGroupRequest", what, encErr, from)
			}
			saved := jg.GroupProtocols
			jg.GroupProtocols = nil
			out, encErr, pf = vfEncodeBoth(e, what)
			jg.GroupProtocols = saved
		}
	}
	return out, encErr, pf
}

// vfRegions names the known-finding regions the generated value lies in.
func vfRegions(x interface{}) []string {
	var out []string
	if rq, ok := x.(*request); ok && rq.body != nil {
		return vfRegions(rq.body)
	}
	switch v := x.(type) {
	case *FetchRequest:
		if v.Version >= 7 && len(v.blocks) == 0 {
			out = append(out, "fetchrequest-v7plus-without-topics")
		}
	case *JoinGroupRequest:
		if len(v.OrderedGroupProtocols) > 0 {
			out = append(out, "joingroup-request-with-protocols")
		}
	}
	return out
}

// ---------------------------------------------------------------- the oracle

func vfRunC09(ci interface{}, r *vfcore.Rec) *vfcore.Failure {
	c := ci.(*vfC09Case)
	ti, ok := vfBodyIndex[c.Type]
	if !ok {
		return vfcore.Failf("harness:unknown-type", "no table entry %q", c.Type)
	}
	b := &vfBodies[ti]
	if b.Hand {
		return vfcore.Failf("harness:hand-type", "%s is covered by the record-format part", c.Type)
	}
	v := c.Version
	if v < 0 || v > b.MaxV {
		return vfcore.Failf("harness:version", "%s has versions 0..%d, case says %d", c.Type, b.MaxV, v)
	}
	what := fmt.Sprintf("%s v%d", b.Name, v)
	d := &vfDraws{seed: c.Seed}
	x, R, fields, info := vfGenFromDraws(d, ti, v)

	if info.Unsupp {
		return vfcore.Failf("harness:unsupported-getter", "%s: decode used getRawBytes/getSubset/peek/push; the table must mark it Hand", what)
	}
	if info.Panic != nil {
		return vfcore.Failf(info.PanicAt, "%s: decode panicked on valid primitive values: %v", what, info.Panic)
	}
	if info.Over {
		r.Discard()
		vfcore.AddCounter("discard:operation-budget", 1)
		return nil
	}
	if info.Rejected != nil {
		r.Discard()
		vfcore.AddCounter("discard:decoder-rejected:"+b.Name, 1)
		return nil
	}
	hist := map[string]interface{}{"type": b.Name, "version": v, "R": fmt.Sprintf("%x", R), "value": fmt.Sprintf("%+v", x)}
	fail := func(f *vfcore.Failure) *vfcore.Failure {
		if f.History == nil {
			f.History = hist
		}
		return f
	}

	pair := fmt.Sprintf("%s/v%d", b.Name, v)
	r.Class("pair:" + pair)
	vfNoteAccepted(pair)
	if info.Rich {
		r.Class("shape:rich")
	} else {
		r.Class("shape:flat")
	}
	r.Classf("shape:maxcoll=%d", info.MaxColl)
	r.Count("primitive-ops", int64(info.Ops))
	r.Count("reference-bytes", int64(len(R)))
	if info.Rich && (v > 0 || b.MaxV == 0) {
		r.NonTrivial(fmt.Sprintf("%s/%d/%x", b.Name, v, vfHash(R)))
		r.Sample(map[string]interface{}{"type": b.Name, "version": v, "seed": c.Seed, "R": fmt.Sprintf("%x", R)})
	}

	// ---- O2: the real decoder over the harness's reference bytes
	x2 := b.vfNew(v)
	err, pf := vfSafeRealDecode(x2, R, v, what+" (reference bytes)")
	if pf != nil {
		return fail(pf)
	}
	if err != nil {
		return fail(vfcore.Failf("o2:real-decoder-rejects-reference", "%s: the real decoder rejects (or does not fully consume) the reference encoding % x: %v", what, R, err))
	}
	eqOpts := vfEqOpts{} // O2 compares all fields; the SCRAM allow-list applies across an encode only
	if same, diff := vfEqWith(x2, x, eqOpts); !same {
		return fail(vfcore.Failf("o2:real-decode-differs", "%s: decoding the reference bytes with the real primitives gives a different value at %s (R=% x)", what, diff, R))
	}
	if same, _ := vfEqWith(x2, x, vfEqOpts{strict: true}); !same {
		r.Class("o2:nil-vs-empty-differs")
	}
	if b.NoEncode {
		return nil
	}

	// ---- O3 + O1: canonical round trip
	enc, ok := x.(encoder)
	if !ok {
		return fail(vfcore.Failf("harness:no-encoder", "%s has no encode method", what))
	}
	var deferred *vfcore.Failure
	b1, encErr, pf := vfEncodeKeepGoing(enc, what, &deferred, R)
	if pf != nil {
		return fail(pf)
	}
	if encErr != nil {
		return fail(vfEncodeRejected(x, b.Name, what, encErr, R))
	}
	// request.encode writes the 4-byte size prefix that decodeRequest strips before request.decode
	strip := func(p []byte) ([]byte, *vfcore.Failure) {
		if b.Name != "request" {
			return p, nil
		}
		rd := vfRd{b: p}
		size, e := rd.vfI32()
		if e != nil || int(size) != len(p)-4 {
			return nil, vfcore.Failf("o4:frame-size", "%s: size prefix %d (%v), %d bytes follow", what, size, e, len(p)-4)
		}
		return p[4:], nil
	}
	if b1, pf = strip(b1); pf != nil {
		return fail(pf)
	}
	scram := b.Name == "AlterUserScramCredentialsRequest"
	if x, isReq := x.(*request); isReq {
		_, scram = x.body.(*AlterUserScramCredentialsRequest)
	}
	if scram {
		eqOpts.skip = vfScramSkip
	}
	if len(b1) != len(R) {
		if scram {
			r.Class("asym:scram-salted-password(length)")
		} else {
			f := vfcore.Failf("o1:length-differs", "%s: encode(decode(R)) has %d bytes, R has %d; R=% x b1=% x", what, len(b1), len(R), R, b1)
			f.Regions = vfRegions(x)
			return fail(f)
		}
	} else if !bytes.Equal(b1, R) && vfMaxMapLen(x2) > 1 {
		// entries of a map may simply have been written in another order
		r.Class("b1-vs-R:differs(map-order-free)")
	} else if !bytes.Equal(b1, R) {
		cl := vfCanonClass(R, b1, fields)
		if scram {
			cl = "asym:scram-salted-password(content)"
		}
		r.Class(cl)
		r.Class("b1-vs-R:canonicalised")
	} else {
		r.Class("b1-vs-R:identical")
	}
	// y is decoded into a zero value, the way the client (new(XResponse) + versionedDecode)
	// and sarama's own testResponse helper do it: decode has to record the version itself.
	y := b.mk()
	err, pf = vfSafeRealDecode(y, b1, v, what+" (own encoding)")
	if pf != nil {
		return fail(pf)
	}
	if err != nil {
		return fail(vfcore.Failf("o1:decode-rejects-own-encoding", "%s: decode(encode(x)) fails: %v; b1=% x", what, err, b1))
	}
	if pb, isBody := y.(protocolBody); isBody && pb.version() != v && vfHasVersionField(y) {
		vd := vfcore.Failf("o1:version-not-recorded:"+b.Name, "%s: decode(bytes, version=%d) into a zero %s leaves Version=%d, so the decoded value differs from the encoded one and re-encodes in the v%d layout", what, v, b.Name, pb.version(), pb.version())
		vd.Regions = []string{"decoder-does-not-record-version"}
		if deferred == nil {
			deferred = vd
		}
		r.Class("version-not-recorded(decode):" + b.Name)
		vfSetVersion(y, v) // keep checking what lies behind
	}
	if same, diff := vfEqWith(y, x2, eqOpts); !same {
		// x2 is the pristine copy of the generated value. Some encoders normalise the value
		// they are given in place (and write the normalised form); the round trip then
		// returns the normalised value. Accepted only if y equals x as encode left it, and
		// named in the statistics.
		if same2, _ := vfEqWith(y, x, eqOpts); !same2 {
			return fail(vfcore.Failf("o1:roundtrip-value-differs", "%s: decode(encode(x)) differs from x at %s; R=% x b1=% x", what, diff, R, b1))
		}
		r.Class("canon-in-place:" + b.Name + vfStripIndices(diff))
	}
	b2, encErr, pf := vfEncodeKeepGoing(y.(encoder), what+" (re-encode)", &deferred, b1)
	if pf != nil {
		return fail(pf)
	}
	if encErr != nil {
		return fail(vfcore.Failf("o1:reencode-error", "%s: re-encoding the round-tripped value fails: %v", what, encErr))
	}
	if b2, pf = strip(b2); pf != nil {
		return fail(pf)
	}
	maxMap := vfMaxMapLen(x2)
	if maxMap <= 1 {
		r.Class("reencode:byte-identical-required")
		if !bytes.Equal(b2, b1) {
			return fail(vfcore.Failf("o1:reencode-not-identical", "%s: no map has more than one entry, yet encode(decode(b1)) != b1: % x vs % x", what, b2, b1))
		}
	} else {
		r.Class("reencode:order-free")
		if len(b2) != len(b1) {
			return fail(vfcore.Failf("o1:reencode-length", "%s: re-encoded length %d != %d", what, len(b2), len(b1)))
		}
		z := b.vfNew(v)
		err, pf = vfSafeRealDecode(z, b2, v, what+" (re-encoding)")
		if pf != nil {
			return fail(pf)
		}
		if err != nil {
			return fail(vfcore.Failf("o1:decode-rejects-reencoding", "%s: %v", what, err))
		}
		if same, diff := vfEqWith(z, y, eqOpts); !same {
			return fail(vfcore.Failf("o1:reencode-value-differs", "%s: decode(b2) differs from decode(b1) at %s", what, diff))
		}
	}

	// ---- O4 (framing half): request header parsed independently
	if b.Kind == "request" {
		f, def2 := vfCheckFraming(d, b, v, x.(protocolBody), y, b1, eqOpts, r)
		if f != nil {
			return fail(f)
		}
		if deferred == nil {
			deferred = def2
		}
	}
	// ---- O5: the nested version stamps are derived state
	// Sub-structures of some bodies carry a copy of the body's version (fetchRequestBlock,
	// AclFilter, ...). The public builders stamp it at the time of the call (AddBlock before
	// Version is set leaves 0 in the block) and the decoders stamp it from the version they are
	// given, so a value the application built in another order of calls differs from the
	// decoded one in those stamps only. encode(value, v) must not depend on them: a deep copy of
	// the round-tripped value with every such stamp replaced has to encode to the same bytes.
	if f := vfCheckStamps(d, b, v, what, b1, eqOpts, r); f != nil {
		return fail(f)
	}
	if deferred != nil {
		return fail(deferred)
	}
	return nil
}

// vfStampExempt names the struct types whose Version field is data of the wire format
// (the magic byte of a batch / message), not a copy of the enclosing body's version.
var vfStampExempt = map[string]bool{"RecordBatch": true, "Message": true, "MessageSet": true, "Records": true, "Record": true, "MessageBlock": true}

// vfPerturbStamps walks below the top-level struct and overwrites every integer field named
// Version / version with a value different from v; it returns the paths it changed.
func vfPerturbStamps(rv reflect.Value, depth int, path string, d *vfDraws, v int16, out *[]string) {
	switch rv.Kind() {
	case reflect.Ptr, reflect.Interface:
		if !rv.IsNil() {
			vfPerturbStamps(rv.Elem(), depth, path, d, v, out)
		}
	case reflect.Slice, reflect.Array:
		for i := 0; i < rv.Len(); i++ {
			vfPerturbStamps(rv.Index(i), depth, path+"[]", d, v, out)
		}
	case reflect.Map:
		it := rv.MapRange()
		for it.Next() {
			mv := it.Value()
			if mv.Kind() == reflect.Ptr || mv.Kind() == reflect.Map || mv.Kind() == reflect.Slice || mv.Kind() == reflect.Interface {
				vfPerturbStamps(mv, depth, path+"{}", d, v, out)
			}
		}
	case reflect.Struct:
		if vfStampExempt[rv.Type().Name()] {
			return
		}
		for i := 0; i < rv.NumField(); i++ {
			f := rv.Field(i)
			name := rv.Type().Field(i).Name
			if !f.CanAddr() {
				continue
			}
			f = reflect.NewAt(f.Type(), unsafe.Pointer(f.UnsafeAddr())).Elem()
			if depth > 0 && (name == "Version" || name == "version") {
				switch f.Kind() {
				case reflect.Int, reflect.Int8, reflect.Int16, reflect.Int32, reflect.Int64:
					nv := int64(0)
					switch d.vfIntn(3) {
					case 0:
						nv = 0
					case 1:
						nv = int64(v) - 1
					default:
						nv = int64(d.vfIntn(13))
					}
					if nv == int64(v) {
						nv = int64(v) + 1
					}
					f.SetInt(nv)
					*out = append(*out, path+"."+rv.Type().Name()+"."+name)
					continue
				}
			}
			vfPerturbStamps(f, depth+1, path+"."+name, d, v, out)
		}
	}
}

func vfCheckStamps(d *vfDraws, b *vfBody, v int16, what string, b1 []byte, eqOpts vfEqOpts, r *vfcore.Rec) *vfcore.Failure {
	if b.Name == "request" {
		return nil
	}
	w := b.vfNew(v)
	if err, pf := vfSafeRealDecode(w, b1, v, what+" (copy for the stamp check)"); pf != nil || err != nil {
		return nil // judged by O1 already
	}
	var changed []string
	vfPerturbStamps(reflect.ValueOf(w), 0, "", d, v, &changed)
	if len(changed) == 0 {
		return nil
	}
	r.Class("o5:stamps-perturbed:" + b.Name)
	b3, encErr, pf := vfEncodeBoth(w.(encoder), what+" (stamps replaced)")
	if pf != nil {
		return pf
	}
	if encErr != nil {
		return vfcore.Failf("o5:stamp-dependent-encoding", "%s: with the nested version stamps %v replaced (as a value built through the public API before Version was set carries them) encode fails: %v", what, changed, encErr)
	}
	if len(b3) != len(b1) {
		return vfcore.Failf("o5:stamp-dependent-encoding", "%s: with the nested version stamps %v replaced encode(value, v%d) writes %d bytes instead of %d: % x vs % x", what, changed, v, len(b3), len(b1), b3, b1)
	}
	if bytes.Equal(b3, b1) {
		return nil
	}
	z := b.vfNew(v)
	err, pf := vfSafeRealDecode(z, b3, v, what+" (stamps replaced)")
	if pf != nil {
		return pf
	}
	y := b.vfNew(v)
	if err2, _ := vfSafeRealDecode(y, b1, v, what); err != nil || err2 != nil {
		return vfcore.Failf("o5:stamp-dependent-encoding", "%s: with the nested version stamps %v replaced the encoding no longer decodes: %v", what, changed, err)
	}
	if same, diff := vfEqWith(z, y, eqOpts); !same {
		return vfcore.Failf("o5:stamp-dependent-encoding", "%s: with the nested version stamps %v replaced the encoding decodes to a different value at %s", what, changed, diff)
	}
	return nil
}

// vfStripIndices turns ".A[3].B[k]: 1 vs 2" into ".A[].B[]".
func vfStripIndices(diff string) string {
	if i := strings.Index(diff, ":"); i >= 0 {
		diff = diff[:i]
	}
	var sb strings.Builder
	depth := 0
	for _, c := range diff {
		switch {
		case c == '[':
			depth++
			sb.WriteString("[")
		case c == ']':
			depth--
			sb.WriteString("]")
		case depth == 0:
			sb.WriteRune(c)
		}
	}
	return sb.String()
}

func vfHasVersionField(x interface{}) bool {
	return reflect.ValueOf(x).Elem().FieldByName("Version").IsValid()
}

// vfCheckFraming wraps the body in a request, encodes it, parses size / api key /
// version / correlation id / client id / tagged-field byte with the harness's own
// reader, and feeds the bytes to decodeRequest.
func vfCheckFraming(d *vfDraws, b *vfBody, v int16, body protocolBody, x2 interface{}, b1 []byte, eqOpts vfEqOpts, r *vfcore.Rec) (hard, deferred *vfcore.Failure) {
	hard = vfCheckFraming1(d, b, v, body, x2, b1, eqOpts, r, &deferred)
	return
}

func vfCheckFraming1(d *vfDraws, b *vfBody, v int16, body protocolBody, x2 interface{}, b1 []byte, eqOpts vfEqOpts, r *vfcore.Rec, deferred **vfcore.Failure) *vfcore.Failure {
	cid := d.vfInt32()
	clientID := d.vfString()
	what := fmt.Sprintf("request{%s v%d}", b.Name, v)
	req := &request{correlationID: cid, clientID: clientID, body: body}
	fb, encErr, pf := vfEncodeKeepGoing(req, what, deferred, b1)
	if pf != nil {
		return pf
	}
	if encErr != nil {
		return vfcore.Failf("o4:request-encode-error", "%s: %v", what, encErr)
	}
	rd := vfRd{b: fb}
	size, e1 := rd.vfI32()
	key, e2 := rd.vfI16()
	ver, e3 := rd.vfI16()
	gotCid, e4 := rd.vfI32()
	gotClient, null, e5 := rd.vfStr()
	for _, e := range []error{e1, e2, e3, e4, e5} {
		if e != nil {
			return vfcore.Failf("o4:frame-truncated", "%s: own parser: %v; frame % x", what, e, fb)
		}
	}
	if int(size) != len(fb)-4 {
		return vfcore.Failf("o4:frame-size", "%s: size field %d, %d bytes follow", what, size, len(fb)-4)
	}
	if key != body.key() || ver != v {
		return vfcore.Failf("o4:frame-key-version", "%s: header says key %d version %d, body is key %d version %d", what, key, ver, body.key(), v)
	}
	if gotCid != cid || null || gotClient != clientID {
		return vfcore.Failf("o4:frame-ids", "%s: correlation id %d / client id %q (null=%v), want %d / %q", what, gotCid, gotClient, null, cid, clientID)
	}
	hv := body.headerVersion()
	wantHv := int16(1)
	switch b.Name {
	case "AlterPartitionReassignmentsRequest", "ListPartitionReassignmentsRequest", "DescribeUserScramCredentialsRequest", "AlterUserScramCredentialsRequest":
		wantHv = 2 // flexible versions (KIP-482): request header v2
	case "OffsetFetchRequest":
		if v >= 6 {
			wantHv = 2
		}
	}
	if hv != wantHv {
		return vfcore.Failf("o4:header-version", "%s: headerVersion() = %d, the protocol prescribes request header v%d", what, hv, wantHv)
	}
	r.Classf("frame:header-v%d", hv)
	if hv >= 2 {
		tags, e := rd.vfUvarint()
		if e != nil || tags != 0 {
			return vfcore.Failf("o4:frame-tagged", "%s: tagged-field count %d (%v) in request header v2", what, tags, e)
		}
	}
	if rest := fb[rd.off:]; len(rest) != len(b1) || (vfMaxMapLen(body) <= 1 && !bytes.Equal(rest, b1)) {
		return vfcore.Failf("o4:frame-body", "%s: bytes after the header differ from encode(body): % x vs % x", what, fb[rd.off:], b1)
	}
	var dec *request
	var n int
	var err error
	func() {
		defer func() {
			if p := recover(); p != nil {
				pf = vfPanicFailure("decodeRequest of "+what, p)
			}
		}()
		dec, n, err = decodeRequest(bytes.NewReader(fb))
	}()
	if pf != nil {
		return pf
	}
	if err != nil {
		return vfcore.Failf("o4:decodeRequest-error", "%s: %v; frame % x", what, err, fb)
	}
	if n != len(fb) || dec.correlationID != cid || dec.clientID != clientID {
		return vfcore.Failf("o4:decodeRequest-header", "%s: read %d of %d bytes, correlation id %d client id %q", what, n, len(fb), dec.correlationID, dec.clientID)
	}
	if b.Name == "ConsumerMetadataRequest" {
		// key 10 is shared with FindCoordinatorRequest, which is what allocateBody returns
		fc, ok := dec.body.(*FindCoordinatorRequest)
		if !ok || fc.CoordinatorKey != x2.(*ConsumerMetadataRequest).ConsumerGroup {
			return vfcore.Failf("o4:decodeRequest-body", "%s: decoded as %T %+v", what, dec.body, dec.body)
		}
		return nil
	}
	if reflect.TypeOf(dec.body) != reflect.TypeOf(x2) {
		return vfcore.Failf("o4:decodeRequest-body", "%s: decoded as %T", what, dec.body)
	}
	if dec.body.version() != v && vfHasVersionField(dec.body) {
		*deferred = vfcore.Failf("o1:version-not-recorded:"+b.Name, "%s: decodeRequest (allocateBody + decode) yields a body with Version=%d for a request sent as v%d", what, dec.body.version(), v)
		(*deferred).Regions = []string{"decoder-does-not-record-version"}
		r.Class("version-not-recorded(decodeRequest):" + b.Name)
		vfSetVersion(dec.body, v)
	}
	if same, diff := vfEqWith(dec.body, x2, eqOpts); !same {
		return vfcore.Failf("o4:decodeRequest-body", "%s: body decoded by decodeRequest differs at %s", what, diff)
	}
	return nil
}

// ---------------------------------------------------------------- generator

func vfGenC09Case(rt *rapid.T, p vfPair) *vfC09Case {
	d := &vfDraws{t: rt}
	b := &vfBodies[p.Type]
	_, _, _, info := vfGenFromDraws(d, p.Type, p.Version)
	if b.Kind == "request" && !info.Over && info.Rejected == nil && info.Panic == nil {
		d.vfInt32()  // correlation id
		d.vfString() // client id
	}
	seed := d.rec
	if seed == nil {
		seed = []byte{}
	}
	return &vfC09Case{Type: b.Name, Version: p.Version, Seed: seed}
}

// vfAnyCase lets either test function replay either kind of saved case (decode-driven
// cases carry "type", record-format cases carry "kind").
type vfAnyCase struct {
	body *vfC09Case
	rec  *vfRecCase
}

func (a *vfAnyCase) UnmarshalJSON(b []byte) error {
	var probe struct {
		Kind string `json:"kind"`
	}
	if err := json.Unmarshal(b, &probe); err != nil {
		return err
	}
	if probe.Kind != "" {
		a.rec = &vfRecCase{}
		return json.Unmarshal(b, a.rec)
	}
	a.body = &vfC09Case{}
	return json.Unmarshal(b, a.body)
}

func (a *vfAnyCase) Deref() interface{} {
	if a.rec != nil {
		return a.rec
	}
	return a.body
}

func vfRunAny(ci interface{}, r *vfcore.Rec) *vfcore.Failure {
	switch c := ci.(type) {
	case *vfRecCase:
		return vfRunRec(c, r)
	case *vfC09Case:
		return vfRunC09(c, r)
	case *vfAnyCase:
		return vfRunAny(c.Deref(), r)
	}
	return vfcore.Failf("harness:case-type", "%T", ci)
}

var vfReplaySpec = vfcore.Spec{ID: "C09", New: func() interface{} { return &vfAnyCase{} }, Run: vfRunAny}

func vfC09Spec(p *vfPair) vfcore.Spec {
	return vfcore.Spec{
		ID:  "C09",
		New: func() interface{} { return &vfC09Case{} },
		Gen: func(rt *rapid.T) interface{} { return vfGenC09Case(rt, *p) },
		Run: vfRunC09,
	}
}

var vfBaseSeed struct {
	sync.Once
	v uint64
}

// vfReseed gives the i-th rapid.Check call of this process its own seed (derived from
// the -rapid.seed the driver passed): rapid seeds every Check call from the same flag,
// and (type, version) pairs of one type must not all see the same draw sequence.
func vfReseed(i int) {
	f := flag.Lookup("rapid.seed")
	if f == nil {
		return
	}
	vfBaseSeed.Do(func() { vfBaseSeed.v, _ = strconv.ParseUint(f.Value.String(), 10, 64) })
	if vfBaseSeed.v == 0 {
		return
	}
	_ = flag.Set("rapid.seed", strconv.FormatUint(vfBaseSeed.v*1000003+uint64(i)*7919+17, 10))
}

// TestVF_C09 runs -rapid.checks cases for EVERY decode-driven (type, version) pair of
// the table (the pair is not drawn: rapid's integers are biased towards small values,
// and every pair must get its share).
func TestVF_C09(t *testing.T) {
	if vfcore.IsReplay() {
		vfcore.Main(t, vfReplaySpec)
		return
	}
	if bad := vfCheckTable(); len(bad) > 0 {
		t.Fatalf("VF-INFRA C09: the body table does not match the tree:\n  %s", strings.Join(bad, "\n  "))
	}
	pairs := vfAllPairs(false)
	only := os.Getenv("VF_C09_ONLY") // debugging: substring of "Type/vN"
	for i := range pairs {
		if only != "" && !strings.Contains(pairs[i].String(), only) {
			continue
		}
		vfReseed(i)
		vfcore.Main(t, vfC09Spec(&pairs[i]))
		if t.Failed() {
			return
		}
	}
	vfcore.AddCounter("table-pairs-decode-driven", int64(len(pairs)))
	if vfcore.Tier() == "thorough" && only == "" {
		var missing []string
		vfAcceptedMu.Lock()
		for _, p := range pairs {
			if vfAccepted[p.String()] == 0 {
				missing = append(missing, p.String())
			}
		}
		vfAcceptedMu.Unlock()
		if len(missing) > 0 {
			sort.Strings(missing)
			t.Fatalf("VF-INFRA C09: no accepted case for (type, version) pairs: %s — the generator discards everything there; fix the harness", strings.Join(missing, ", "))
		}
	}
}

// ---------------------------------------------------------------- native fuzz target

type vfKnownEntry struct {
	Property string `json:"property"`
	Status   string `json:"status"`
	Region   string `json:"region"`
	Symptom  string `json:"symptom"`
}

var vfKnownOnce struct {
	sync.Once
	list []vfKnownEntry
}

// vfIsKnown mirrors vfcore's region-and-symptom matching for the fuzz target, which
// does not run under vfcore.Main.
func vfIsKnown(f *vfcore.Failure) bool {
	vfKnownOnce.Do(func() {
		p := os.Getenv("VF_KNOWN")
		if p == "" {
			return
		}
		raw, err := os.ReadFile(p)
		if err != nil {
			return
		}
		var doc struct {
			Findings []vfKnownEntry `json:"findings"`
		}
		if json.Unmarshal(raw, &doc) == nil {
			for _, k := range doc.Findings {
				if k.Property == "C09" && k.Status == "open" {
					vfKnownOnce.list = append(vfKnownOnce.list, k)
				}
			}
		}
	})
	for _, k := range vfKnownOnce.list {
		sym := k.Symptom == f.Symptom || (strings.HasSuffix(k.Symptom, "*") && strings.HasPrefix(f.Symptom, strings.TrimSuffix(k.Symptom, "*")))
		if !sym {
			continue
		}
		if k.Region == "" || k.Region == "any" {
			return true
		}
		for _, r := range f.Regions {
			if r == k.Region {
				return true
			}
		}
	}
	return false
}

// FuzzVF_RoundTrip: the fuzz bytes are the draw tape of the generating decoder, so the
// coverage-guided fuzzer steers the shape of the generated value; same oracle as the
// rapid check. Hand-generated entries route to the record-format oracle.
func FuzzVF_RoundTrip(f *testing.F) {
	f.Add(uint16(1), uint8(11), []byte{2, 1, 3, 1, 1, 2, 0, 7, 1, 1, 5, 9})
	f.Fuzz(func(t *testing.T, typeIdx uint16, version uint8, seed []byte) {
		ti := int(typeIdx) % len(vfBodies)
		b := &vfBodies[ti]
		v := int16(version) % (b.MaxV + 1)
		if len(seed) > 4096 {
			seed = seed[:4096]
		}
		var fl *vfcore.Failure
		if b.Hand {
			fl = vfRunHandFromTape(b.Name, v, seed)
		} else {
			fl = vfRunC09(&vfC09Case{Type: b.Name, Version: v, Seed: seed}, &vfcore.Rec{})
		}
		if fl != nil && !vfIsKnown(fl) {
			t.Fatalf("VF-FAIL property=C09 symptom=%s type=%s version=%d: %s", fl.Symptom, b.Name, v, fl.Message)
		}
	})
}

// TestVF_C09_Corpus writes seed inputs for FuzzVF_RoundTrip in the native fuzzer's
// corpus file format (only when VF_CORPUS_OUT names a directory; the committed files
// live in /verif/corpus/FuzzVF_RoundTrip/).
func TestVF_C09_Corpus(t *testing.T) {
	dir := os.Getenv("VF_CORPUS_OUT")
	if dir == "" {
		t.Skip("VF_CORPUS_OUT not set")
	}
	write := func(name string, ti int, v int16, tape []byte) {
		body := fmt.Sprintf("go test fuzz v1\nuint16(%d)\nbyte(%q)\n[]byte(%q)\n", ti, byte(v), tape)
		if err := os.WriteFile(dir+"/"+name, []byte(body), 0o644); err != nil {
			t.Fatal(err)
		}
	}
	for ti := range vfBodies {
		b := &vfBodies[ti]
		v := b.MaxV
		var best []byte
		bestLen := -1
		ti := ti
		rapid.Check(t, func(rt *rapid.T) {
			d := &vfDraws{t: rt}
			n := 0
			if b.Hand {
				kind := "produce"
				if b.Name == "FetchResponse" {
					kind = "fetch"
				}
				c := vfDrawRecCase(d, kind, v)
				if f := vfRunRec(c, &vfcore.Rec{}); f != nil {
					return
				}
				n = len(d.rec)
			} else {
				_, R, _, info := vfGenFromDraws(d, ti, v)
				if info.Over || info.Rejected != nil || info.Panic != nil {
					return
				}
				n = len(R)
			}
			if n > bestLen && len(d.rec) <= 600 {
				bestLen, best = n, append([]byte(nil), d.rec...)
			}
		})
		if best != nil {
			write(fmt.Sprintf("seed-%02d-%s-v%d", ti, b.Name, v), ti, v, best)
		}
	}
}
