//go:build go1.18 && verif

package sarama

// Generator of producer cases (DESIGN.md section 4). All randomness is drawn here, up front.

import (
	"fmt"

	"github.com/Shopify/sarama/internal/vfcore"
	"pgregory.net/rapid"
)

var vfRetriableCodes = []int16{6, 5, 3, 7, 19, 20, 2}
var vfFatalCodes = []int16{10, 29, 87, 1, 17}
var vfProdHookPoints = []string{"prod.dispatcher.recv", "prod.partition.recv", "prod.partition.hwm", "prod.partition.flush",
	"prod.broker.input", "prod.broker.response", "prod.retrybatch", "prod.retry.enqueue"}

func vfVersionAtLeast(v, min string) bool {
	return vfVersions[v].IsAtLeast(vfVersions[min])
}

func vfGenProdConf(t *rapid.T, emph string) vfProdConf {
	c := vfProdConf{Level: -1000, ReadTimeoutMs: 3000, MetaRetryMax: 2}
	vs := vfVersionList
	if emph == "C05" {
		vs = vfVersionList[4:]
	}
	c.Version = rapid.SampledFrom(vs).Draw(t, "version")
	modern := vfVersionAtLeast(c.Version, "0.11.0.0")
	switch {
	case emph == "C05":
		c.Idempotent = true
	case modern && emph != "C18" && emph != "C16" && emph != "C12" && vfcore.EnvInt("VF_NO_IDEMPOTENT", 0) == 0:
		c.Idempotent = rapid.IntRange(0, 3).Draw(t, "idempotent") == 0
	}
	if c.Idempotent {
		c.Acks = -1
		c.MaxOpen = 1
		c.RetryMax = rapid.IntRange(1, 3).Draw(t, "retryMax")
		c.DupAsError = rapid.Bool().Draw(t, "dupAsError")
	} else {
		c.Acks = rapid.SampledFrom([]int16{-1, -1, 1, 1, 1, 0}).Draw(t, "acks")
		c.MaxOpen = rapid.IntRange(1, 3).Draw(t, "maxOpen")
		c.RetryMax = rapid.IntRange(0, 3).Draw(t, "retryMax")
	}
	c.BackoffUs = rapid.SampledFrom([]int{0, 0, 100, 1000, 3000}).Draw(t, "backoffUs")
	codecs := []int{0, 0, 0, 1, 2}
	if vfVersionAtLeast(c.Version, "0.10.0.0") {
		codecs = append(codecs, 3)
	}
	if vfVersionAtLeast(c.Version, "2.1.0.0") {
		codecs = append(codecs, 4)
	}
	c.Codec = rapid.SampledFrom(codecs).Draw(t, "codec")
	if c.Codec == 1 {
		c.Level = rapid.SampledFrom([]int{-1000, -1000, 1, 6, 9, -2, 0}).Draw(t, "gzipLevel")
	}
	c.FlushMessages = rapid.SampledFrom([]int{0, 0, 0, 1, 2, 5}).Draw(t, "flushMessages")
	c.FlushBytes = rapid.SampledFrom([]int{0, 0, 0, 100, 1000}).Draw(t, "flushBytes")
	c.FlushFreqUs = rapid.SampledFrom([]int{0, 0, 500, 3000}).Draw(t, "flushFreqUs")
	if (c.FlushMessages > 0 || c.FlushBytes > 0) && c.FlushFreqUs == 0 && emph != "C16" && (emph != "C01" || rapid.IntRange(0, 79).Draw(t, "keepNoFrequency") != 37) {
		// without a frequency a count/bytes trigger may legitimately never fire; keep that configuration for C16 only
		c.FlushFreqUs = 1000
	}
	c.FlushMaxMessages = rapid.SampledFrom([]int{0, 0, 0, 1, 2, 3, 10}).Draw(t, "flushMaxMessages")
	if c.FlushMaxMessages > 0 && c.FlushMaxMessages < c.FlushMessages {
		c.FlushMaxMessages = c.FlushMessages
	}
	c.MaxMessageBytes = 1000000
	if emph == "C16" {
		c.MaxMessageBytes = rapid.IntRange(80, 600).Draw(t, "maxMessageBytes")
		switch rapid.IntRange(0, 5).Draw(t, "smallMaxRequest") {
		case 0, 1:
			c.MaxRequestSize = int32(10*1024 + rapid.IntRange(300, 3000).Draw(t, "maxRequestSize"))
		case 2:
			// messages larger than the 10 KiB of slack the producer keeps below MaxRequestSize: a request that takes one
			// message too many is really too large for the wire
			c.MaxMessageBytes = rapid.IntRange(20000, 40000).Draw(t, "bigMaxMessageBytes")
			c.MaxRequestSize = int32(rapid.IntRange(40000, 70000).Draw(t, "bigMaxRequestSize"))
		}
	}
	c.ChanBuf = rapid.SampledFrom([]int{0, 1, 4, 256}).Draw(t, "chanBuf")
	c.Partitioner = "manual"
	if emph == "C04" || emph == "C17" {
		c.Partitioner = rapid.SampledFrom([]string{"manual", "hash", "refhash", "roundrobin", "random"}).Draw(t, "partitioner")
	}
	c.LogAppend = vfVersionAtLeast(c.Version, "0.10.0.0") && rapid.IntRange(0, 4).Draw(t, "logAppend") == 0
	return c
}

func vfGenTopology(t *rapid.T, c *vfProdCase, maxParts int) {
	c.Brokers = rapid.IntRange(1, 3).Draw(t, "brokers")
	nT := rapid.IntRange(1, 2).Draw(t, "topics")
	shared := rapid.Bool().Draw(t, "sharedLeader")
	for i := 0; i < nT; i++ {
		nP := rapid.IntRange(1, maxParts).Draw(t, fmt.Sprintf("parts%d", i))
		ts := vfTopicSpec{Name: fmt.Sprintf("t%d", i)}
		for p := 0; p < nP; p++ {
			l := int32(1)
			if !shared {
				l = int32(rapid.IntRange(1, c.Brokers).Draw(t, fmt.Sprintf("leader%d.%d", i, p)))
			}
			ts.Leaders = append(ts.Leaders, l)
		}
		c.Topics = append(c.Topics, ts)
	}
}

func vfGenMsgs(t *rapid.T, c *vfProdCase, maxMsgs int, bigValues bool) {
	n := rapid.IntRange(1, maxMsgs).Draw(t, "nMsgs")
	modern := vfVersionAtLeast(c.Conf.Version, "0.11.0.0")
	hot := rapid.IntRange(0, 2).Draw(t, "hotPartition") > 0 // concentrate on one partition so that ordering is exercised
	for i := 0; i < n; i++ {
		m := vfMsgSpec{}
		if hot {
			if rapid.IntRange(0, 4).Draw(t, fmt.Sprintf("m%d.stray", i)) == 0 {
				m.Topic = rapid.IntRange(0, len(c.Topics)-1).Draw(t, fmt.Sprintf("m%d.topic", i))
				m.Part = int32(rapid.IntRange(0, len(c.Topics[m.Topic].Leaders)-1).Draw(t, fmt.Sprintf("m%d.part", i)))
			}
		} else {
			m.Topic = rapid.IntRange(0, len(c.Topics)-1).Draw(t, fmt.Sprintf("m%d.topic", i))
			m.Part = int32(rapid.IntRange(0, len(c.Topics[m.Topic].Leaders)-1).Draw(t, fmt.Sprintf("m%d.part", i)))
		}
		m.ValKind = rapid.SampledFrom([]int{0, 0, 0, 0, 0, 0, 1, 2}).Draw(t, fmt.Sprintf("m%d.valKind", i))
		if m.ValKind == 0 {
			m.KeyKind = rapid.SampledFrom([]int{0, 0, 1, 2, 3, 3}).Draw(t, fmt.Sprintf("m%d.keyKind", i))
		} else {
			m.KeyKind = 2 // identity must live somewhere
		}
		m.KeyLen = rapid.IntRange(0, 12).Draw(t, fmt.Sprintf("m%d.keyLen", i))
		if bigValues && rapid.IntRange(0, 5).Draw(t, fmt.Sprintf("m%d.big", i)) == 0 {
			m.ValLen = rapid.IntRange(200, 3000).Draw(t, fmt.Sprintf("m%d.valLenBig", i))
		} else {
			m.ValLen = rapid.IntRange(0, 40).Draw(t, fmt.Sprintf("m%d.valLen", i))
		}
		if modern {
			m.NHeaders = rapid.SampledFrom([]int{0, 0, 0, 1, 3}).Draw(t, fmt.Sprintf("m%d.hdrs", i))
		}
		m.HasTs = rapid.IntRange(0, 2).Draw(t, fmt.Sprintf("m%d.ts", i)) == 0
		m.TsOff = rapid.IntRange(-300, 300).Draw(t, fmt.Sprintf("m%d.tsOff", i))
		c.Msgs = append(c.Msgs, m)
	}
}

// usedPartitions lists the "topic/part" keys messages are addressed to (manual partitioner) or all partitions.
func vfAllPartitionKeys(c *vfProdCase) []string {
	var out []string
	for _, t := range c.Topics {
		for p := range t.Leaders {
			out = append(out, fmt.Sprintf("%s/%d", t.Name, p))
		}
	}
	return out
}

func vfGenFaults(t *rapid.T, c *vfProdCase, maxFaults int, idempotentFlavour bool) (gates []vfStep) {
	c.Faults = map[string][]vfFault{}
	nF := rapid.IntRange(0, maxFaults).Draw(t, "nFaults")
	keys := vfAllPartitionKeys(c)
	hotKey := fmt.Sprintf("%s/%d", c.Topics[c.Msgs[0].Topic].Name, c.Msgs[0].Part)
	gateN := 0
	for i := 0; i < nF; i++ {
		var key string
		switch rapid.IntRange(0, 9).Draw(t, fmt.Sprintf("f%d.where", i)) {
		case 0:
			key = "metadata"
		case 1, 2, 3:
			key = "produce/" + keys[rapid.IntRange(0, len(keys)-1).Draw(t, fmt.Sprintf("f%d.key", i))]
		default:
			key = "produce/" + hotKey
		}
		f := vfFault{}
		if key == "metadata" {
			f.Kind = rapid.SampledFrom([]string{"err", "err", "dropBefore"}).Draw(t, fmt.Sprintf("f%d.mkind", i))
			if f.Kind == "err" {
				f.Code = rapid.SampledFrom([]int16{5, 5, 3, 29}).Draw(t, fmt.Sprintf("f%d.mcode", i))
			}
		} else {
			kinds := []string{"err", "err", "err", "fatal", "errApplied", "dropBefore", "dropAfter", "dropAfter", "omit", "moveBefore", "moveAfter", "delay", "silent"}
			if idempotentFlavour {
				kinds = append(kinds, "dropAfter", "dropAfter", "errApplied", "errApplied", "moveAfter")
			}
			k := rapid.SampledFrom(kinds).Draw(t, fmt.Sprintf("f%d.kind", i))
			switch k {
			case "err":
				f.Kind = "err"
				f.Code = rapid.SampledFrom(vfRetriableCodes).Draw(t, fmt.Sprintf("f%d.code", i))
			case "fatal":
				f.Kind = "err"
				f.Code = rapid.SampledFrom(vfFatalCodes).Draw(t, fmt.Sprintf("f%d.fcode", i))
				if rapid.IntRange(0, 3).Draw(t, fmt.Sprintf("f%d.anycode", i)) != 0 {
					// any error code of the protocol (whatever class the producer puts it in: the oracles do not depend on it);
					// 46 = DUPLICATE_SEQUENCE_NUMBER is an acknowledgement, not a failure
					f.Code = int16(rapid.IntRange(1, 96).Draw(t, fmt.Sprintf("f%d.anycodev", i)))
					if f.Code == 46 {
						f.Code = 56
					}
				}
			case "errApplied":
				f.Kind = "errApplied"
				f.Code = rapid.SampledFrom([]int16{7, 20}).Draw(t, fmt.Sprintf("f%d.acode", i))
			case "moveBefore":
				f.Kind = "ok" // leadership check answers NOT_LEADER by itself
				f.MoveLeader = "before"
			case "moveAfter":
				f.Kind = rapid.SampledFrom([]string{"ok", "dropAfter", "errApplied"}).Draw(t, fmt.Sprintf("f%d.mvkind", i))
				if f.Kind == "errApplied" {
					f.Code = 7
				}
				f.MoveLeader = "after"
			case "delay":
				f.Kind = "ok"
				f.DelayUs = rapid.SampledFrom([]int{200, 2000, 8000}).Draw(t, fmt.Sprintf("f%d.delay", i))
			case "silent":
				if rapid.IntRange(0, 3).Draw(t, fmt.Sprintf("f%d.silentRare", i)) == 0 {
					f.Kind = rapid.SampledFrom([]string{"silent", "silentApplied"}).Draw(t, fmt.Sprintf("f%d.silentKind", i))
					c.Conf.ReadTimeoutMs = 150
				} else {
					f.Kind = "dropBefore"
				}
			default:
				f.Kind = k
			}
			if gateN < 2 && f.Kind != "silent" && f.Kind != "silentApplied" && rapid.IntRange(0, 3).Draw(t, fmt.Sprintf("f%d.gate", i)) == 0 {
				gateN++
				f.Gate = fmt.Sprintf("g%d", gateN)
			}
		}
		// position: pad with ok so that the fault lands on a later occurrence; or repeat to exhaust the retry budget
		l := c.Faults[key]
		pad := rapid.IntRange(0, 3).Draw(t, fmt.Sprintf("f%d.pad", i))
		if key == "metadata" && len(l) == 0 {
			pad++ // keep the very first metadata request (client creation) intact most of the time
		}
		for j := 0; j < pad; j++ {
			l = append(l, vfFault{Kind: "ok"})
		}
		rep := 1
		if f.Gate == "" && rapid.IntRange(0, 4).Draw(t, fmt.Sprintf("f%d.rep", i)) == 0 {
			rep = rapid.IntRange(2, 5).Draw(t, fmt.Sprintf("f%d.repN", i))
		}
		for j := 0; j < rep; j++ {
			l = append(l, f)
		}
		if f.Gate != "" {
			gates = append(gates, vfStep{Op: "await", Key: key, A: len(l)}, vfStep{Op: "release", Gate: f.Gate})
		}
		c.Faults[key] = l
	}
	return gates
}

func vfGenScript(t *rapid.T, c *vfProdCase, gateSteps []vfStep) {
	n := len(c.Msgs)
	pos := 0
	gi := 0
	for pos < n {
		k := rapid.IntRange(1, 8).Draw(t, fmt.Sprintf("chunk@%d", pos))
		if pos+k > n {
			k = n - pos
		}
		c.Script = append(c.Script, vfStep{Op: "send", A: pos, B: pos + k})
		pos += k
		switch rapid.IntRange(0, 9).Draw(t, fmt.Sprintf("between@%d", pos)) {
		case 0:
			c.Script = append(c.Script, vfStep{Op: "waitOutcomes", A: pos})
		case 1:
			c.Script = append(c.Script, vfStep{Op: "sleep", A: rapid.SampledFrom([]int{100, 1000, 5000}).Draw(t, fmt.Sprintf("sleep@%d", pos))})
		case 2:
			tp := rapid.IntRange(0, len(c.Topics)-1).Draw(t, fmt.Sprintf("mvT@%d", pos))
			pp := rapid.IntRange(0, len(c.Topics[tp].Leaders)-1).Draw(t, fmt.Sprintf("mvP@%d", pos))
			c.Script = append(c.Script, vfStep{Op: "moveLeader", Key: fmt.Sprintf("%s/%d", c.Topics[tp].Name, pp), A: rapid.IntRange(1, c.Brokers).Draw(t, fmt.Sprintf("mvTo@%d", pos))})
		case 3:
			if c.Brokers > 1 && rapid.Bool().Draw(t, fmt.Sprintf("bounce@%d", pos)) {
				b := rapid.IntRange(1, c.Brokers).Draw(t, fmt.Sprintf("bounceB@%d", pos))
				c.Script = append(c.Script, vfStep{Op: "brokerDown", A: b}, vfStep{Op: "sleep", A: 500}, vfStep{Op: "brokerUp", A: b})
			}
		case 4, 5:
			// place the next chunk inside a held response: await the gated request, send more, then release
			if gi < len(gateSteps) {
				c.Script = append(c.Script, gateSteps[gi])
				if pos < n {
					k2 := rapid.IntRange(1, 4).Draw(t, fmt.Sprintf("gchunk@%d", pos))
					if pos+k2 > n {
						k2 = n - pos
					}
					c.Script = append(c.Script, vfStep{Op: "send", A: pos, B: pos + k2})
					pos += k2
				}
				c.Script = append(c.Script, gateSteps[gi+1])
				gi += 2
			}
		}
	}
	for ; gi < len(gateSteps); gi += 2 {
		c.Script = append(c.Script, gateSteps[gi], gateSteps[gi+1])
	}
	if rapid.IntRange(0, 2).Draw(t, "waitAllBeforeClose") == 0 {
		c.Script = append(c.Script, vfStep{Op: "waitOutcomes", A: n})
	}
	c.CloseMode = rapid.SampledFrom([]string{"async", "async", "async", "close"}).Draw(t, "closeMode")
}

func vfGenDelays(t *rapid.T, c *vfProdCase) {
	if rapid.IntRange(0, 2).Draw(t, "perturb") == 0 {
		return
	}
	c.Delays = map[string][]int{}
	for _, p := range vfProdHookPoints {
		if rapid.IntRange(0, 2).Draw(t, "d."+p) != 0 {
			continue
		}
		v := make([]int, 8)
		for i := range v {
			v[i] = rapid.SampledFrom([]int{0, 0, 0, 1, 2, 3, 4}).Draw(t, fmt.Sprintf("d.%s.%d", p, i))
		}
		c.Delays[p] = v
	}
}

// vfGenIdleBump is a directed template for the idempotent producer: partition B (led by broker 2) is written and goes idle,
// then a message for partition A (led by broker 1) fails for good - which starts a new producer epoch while nothing else is
// buffered or in flight - and then B is written again. Everything B receives afterwards has to carry the new epoch and start
// at sequence 0. (Outside the regions of the known idempotence defects, which need other messages in the pipeline.)
func vfGenIdleBump(t *rapid.T, c *vfProdCase) {
	if c.Brokers < 2 {
		c.Brokers = 2
	}
	for len(c.Topics[0].Leaders) < 2 {
		c.Topics[0].Leaders = append(c.Topics[0].Leaders, 2)
	}
	c.Topics[0].Leaders[0], c.Topics[0].Leaders[1] = 1, 2
	c.Conf.Partitioner = "manual"
	c.Conf.FlushMessages, c.Conf.FlushBytes, c.Conf.FlushFreqUs = 0, 0, 0
	k1 := rapid.IntRange(1, 3).Draw(t, "idle.k1")
	k3 := rapid.IntRange(1, 3).Draw(t, "idle.k3")
	n := k1 + 1 + k3
	for len(c.Msgs) < n {
		c.Msgs = append(c.Msgs, vfMsgSpec{ValLen: 8 + len(c.Msgs)})
	}
	c.Msgs = c.Msgs[:n]
	for i := range c.Msgs {
		c.Msgs[i].Topic, c.Msgs[i].Part = 0, 1
	}
	c.Msgs[k1].Part = 0
	var l []vfFault
	if rapid.Bool().Draw(t, "idle.fatal") {
		l = append(l, vfFault{Kind: "err", Code: rapid.SampledFrom([]int16{10, 17, 29, 87}).Draw(t, "idle.code")})
	} else {
		code := rapid.SampledFrom(vfRetriableCodes).Draw(t, "idle.rcode")
		for i := 0; i <= c.Conf.RetryMax; i++ {
			l = append(l, vfFault{Kind: "err", Code: code})
		}
	}
	c.Faults = map[string][]vfFault{"produce/" + c.Topics[0].Name + "/0": l}
	c.Script = []vfStep{{Op: "send", A: 0, B: k1}, {Op: "waitOutcomes", A: k1}, {Op: "send", A: k1, B: k1 + 1}, {Op: "waitOutcomes", A: k1 + 1},
		{Op: "send", A: k1 + 1, B: n}, {Op: "waitOutcomes", A: n}}
	c.CloseMode = "async"
}

// vfGenParkedFlush is a directed template that owns the schedule through a hook gate instead of hoping for it: a retriable
// failure raises the hot partition's retry level; the partition producer is held inside newHighWatermark (hook
// prod.partition.hwm) while the partition is made leaderless and fresh messages are submitted, so that these are certainly
// parked behind the retry and the leader lookup certainly fails when the end-of-retry marker comes back and the parked
// messages are flushed; then the leader returns and a later message goes through a second retry cycle on the same partition
// (which flushes the parked level again).
func vfGenParkedFlush(t *rapid.T, c *vfProdCase) {
	c.Conf.Idempotent = false
	if c.Conf.Acks == 0 {
		c.Conf.Acks = 1
	}
	if c.Conf.RetryMax == 0 {
		c.Conf.RetryMax = 1 + rapid.IntRange(0, 2).Draw(t, "park.retryMax")
	}
	c.Conf.ChanBuf = 256
	c.Conf.FlushMessages, c.Conf.FlushBytes, c.Conf.FlushFreqUs = 0, 0, rapid.SampledFrom([]int{0, 0, 500}).Draw(t, "park.freq")
	c.Conf.MetaRetryMax = rapid.IntRange(0, 1).Draw(t, "park.metaRetry")
	c.Conf.BackoffUs = rapid.SampledFrom([]int{0, 100}).Draw(t, "park.backoff")
	c.Sync = 0
	hotT, hotP := c.Msgs[0].Topic, c.Msgs[0].Part
	if c.Topics[hotT].Leaders[hotP] < 0 {
		c.Topics[hotT].Leaders[hotP] = 1
	}
	leader := c.Topics[hotT].Leaders[hotP]
	key := fmt.Sprintf("%s/%d", c.Topics[hotT].Name, hotP)
	n := len(c.Msgs)
	for i := range c.Msgs {
		c.Msgs[i].Topic, c.Msgs[i].Part = hotT, hotP
	}
	c.Conf.Partitioner = "manual"
	code := rapid.SampledFrom(vfRetriableCodes).Draw(t, "park.code")
	a := 1
	b := a + 1 + rapid.IntRange(0, (n-3)/2).Draw(t, "park.parked")
	if b > n-1 {
		b = n - 1
	}
	// first request fails retriably; everything up to the second cycle is answered normally; the first request after the
	// leader is back fails retriably once more
	c.Faults = map[string][]vfFault{"produce/" + key: {{Kind: "err", Code: code}, {Kind: "err", Code: code}}}
	c.Script = []vfStep{
		{Op: "hookBlock", Key: "prod.partition.hwm", A: 0, B: 3000},
		{Op: "send", A: 0, B: a},
		{Op: "hookWait", Key: "prod.partition.hwm", B: 3000},
		{Op: "leaderless", Key: key},
		{Op: "send", A: a, B: b},
		{Op: "hookRelease", Key: "prod.partition.hwm"},
		{Op: "waitOutcomes", A: b},
		{Op: "moveLeader", Key: key, A: int(leader)},
		{Op: "send", A: b, B: n},
		{Op: "waitOutcomes", A: n},
	}
	c.Delays = nil
	c.StormDelays = true
	c.CloseMode = rapid.SampledFrom([]string{"async", "close"}).Draw(t, "park.close")
}

// vfGenRetryStorm is a directed template: a retriable failure puts the hot partition into a retry, fresh messages are parked
// behind it, the partition is leaderless exactly while the retry buffers are flushed (so the parked messages fail), then the
// leader comes back and a later message goes through another retry cycle on the same partition.
func vfGenRetryStorm(t *rapid.T, c *vfProdCase) {
	hotT, hotP := c.Msgs[0].Topic, c.Msgs[0].Part
	key := fmt.Sprintf("%s/%d", c.Topics[hotT].Name, hotP)
	n := len(c.Msgs)
	for i := range c.Msgs {
		if rapid.IntRange(0, 3).Draw(t, fmt.Sprintf("storm.hot%d", i)) != 0 {
			c.Msgs[i].Topic, c.Msgs[i].Part = hotT, hotP
		}
	}
	code := rapid.SampledFrom(vfRetriableCodes).Draw(t, "storm.code")
	pad := rapid.IntRange(0, 2).Draw(t, "storm.pad")
	var l []vfFault
	for i := 0; i < pad; i++ {
		l = append(l, vfFault{Kind: "ok"})
	}
	l = append(l, vfFault{Kind: "err", Code: code, Gate: "g1"})
	gap := rapid.IntRange(0, 2).Draw(t, "storm.gap")
	for i := 0; i < gap; i++ {
		l = append(l, vfFault{Kind: "ok"})
	}
	l = append(l, vfFault{Kind: rapid.SampledFrom([]string{"err", "err", "dropBefore", "errApplied"}).Draw(t, "storm.second"), Code: code})
	c.Faults = map[string][]vfFault{"produce/" + key: l}
	a := 1 + rapid.IntRange(0, n/3).Draw(t, "storm.a")
	b := a + rapid.IntRange(0, n/3).Draw(t, "storm.b")
	if a > n {
		a = n
	}
	if b > n {
		b = n
	}
	// variant "late": the fresh messages are submitted right after the held failure is released, so that they can reach the
	// partition producer between its switch to the retry level and the return of the end-of-retry marker (parked at level 0)
	late := rapid.Bool().Draw(t, "storm.late")
	c.Script = []vfStep{{Op: "send", A: 0, B: a}, {Op: "await", Key: "produce/" + key, A: pad + 1}}
	if !late {
		c.Script = append(c.Script, vfStep{Op: "send", A: a, B: b})
	}
	if rapid.IntRange(0, 3).Draw(t, "storm.leaderless") != 0 {
		c.Script = append(c.Script, vfStep{Op: "leaderless", Key: key})
	}
	c.Script = append(c.Script, vfStep{Op: "release", Gate: "g1"})
	if late {
		c.Script = append(c.Script, vfStep{Op: "send", A: a, B: b})
	}
	c.Script = append(c.Script, vfStep{Op: "waitOutcomes", A: b},
		vfStep{Op: "moveLeader", Key: key, A: int(c.Topics[hotT].Leaders[hotP])}, vfStep{Op: "send", A: b, B: n}, vfStep{Op: "waitOutcomes", A: n})
	c.Conf.MetaRetryMax = rapid.IntRange(0, 1).Draw(t, "storm.metaRetry")
	c.Conf.BackoffUs = rapid.SampledFrom([]int{0, 0, 100}).Draw(t, "storm.backoff")
	// slow the marker's round trip down (it passes the broker producer and the retry handler)
	c.Delays = map[string][]int{"prod.broker.input": {4, 4, 4, 3, 4, 4, 3, 4}, "prod.retry.enqueue": {3, 4, 3, 3, 4, 3, 3, 3}}
	c.StormDelays = true
	if c.Conf.RetryMax == 0 {
		c.Conf.RetryMax = 1 + rapid.IntRange(0, 2).Draw(t, "storm.retryMax")
	}
}

func vfGenProdCase(t *rapid.T, emph string) *vfProdCase {
	c := &vfProdCase{}
	c.Conf = vfGenProdConf(t, emph)
	vfGenTopology(t, c, 4)
	vfGenMsgs(t, c, 24, emph == "C04")
	if emph == "C16" {
		// sizes straddling MaxMessageBytes around the version-dependent overhead estimate
		over := 26
		if vfVersionAtLeast(c.Conf.Version, "0.11.0.0") {
			over = 36
		}
		if c.Conf.MaxMessageBytes >= 20000 {
			// big regime: everything on one broker, at least four partitions, and batches accumulate behind a flush
			// frequency, so that a request fills up with the batches of several partitions
			for len(c.Topics[0].Leaders) < 4 {
				c.Topics[0].Leaders = append(c.Topics[0].Leaders, 1)
			}
			for ti := range c.Topics {
				for pi := range c.Topics[ti].Leaders {
					c.Topics[ti].Leaders[pi] = 1
				}
			}
			c.Conf.FlushMessages, c.Conf.FlushBytes, c.Conf.FlushMaxMessages = 0, 0, 0
			c.Conf.FlushFreqUs = rapid.SampledFrom([]int{5000, 20000}).Draw(t, "big16.freq")
			c.Conf.ChanBuf = 256
		}
		for i := range c.Msgs {
			m := &c.Msgs[i]
			if c.Conf.MaxMessageBytes >= 20000 {
				// big regime: most values between 8 and 15 KiB, spread over the partitions of one broker
				if rapid.IntRange(0, 4).Draw(t, fmt.Sprintf("m%d.big16", i)) != 0 {
					m.ValKind, m.KeyKind, m.NHeaders = 0, 0, 0
					m.ValLen = rapid.IntRange(8000, 15000).Draw(t, fmt.Sprintf("m%d.bigLen", i))
					m.Topic = rapid.IntRange(0, len(c.Topics)-1).Draw(t, fmt.Sprintf("m%d.bigTopic", i))
					m.Part = int32(rapid.IntRange(0, len(c.Topics[m.Topic].Leaders)-1).Draw(t, fmt.Sprintf("m%d.bigPart", i)))
				}
				continue
			}
			switch rapid.IntRange(0, 3).Draw(t, fmt.Sprintf("m%d.straddle", i)) {
			case 0:
				m.ValKind, m.KeyKind, m.NHeaders = 0, 0, 0
				m.ValLen = c.Conf.MaxMessageBytes - over + rapid.IntRange(-3, 3).Draw(t, fmt.Sprintf("m%d.delta", i))
			case 1:
				m.ValKind, m.KeyKind, m.NHeaders = 0, 0, 0
				m.ValLen = c.Conf.MaxMessageBytes + rapid.IntRange(-3, 3).Draw(t, fmt.Sprintf("m%d.delta2", i))
			case 2:
				m.ValLen = rapid.IntRange(1, c.Conf.MaxMessageBytes/3).Draw(t, fmt.Sprintf("m%d.third", i))
			}
			if m.ValLen < 8 {
				m.ValLen = 8
			}
		}
		c.FlushProbe = true
		// a third of the cases: one or two interceptors that enlarge the value - the limits apply to what is sent
		if c.Conf.MaxMessageBytes < 20000 {
			switch rapid.IntRange(0, 5).Draw(t, "c16.pad") {
			case 0:
				c.Conf.Interceptors = []string{"pad"}
			case 1:
				c.Conf.Interceptors = []string{"pad", "pad"}
			}
		}
	}
	gates := vfGenFaults(t, c, 12, c.Conf.Idempotent)
	if emph == "C16" {
		// the statement quantifies over response latency, not over failures: keep only delays and held responses
		for k, l := range c.Faults {
			for i := range l {
				if l[i].Kind != "ok" || l[i].MoveLeader != "" {
					l[i] = vfFault{Kind: "ok", DelayUs: 500 * (1 + i%4), Gate: l[i].Gate}
				}
			}
			c.Faults[k] = l
		}
	}
	vfGenScript(t, c, gates)
	if (emph == "C01" || emph == "C02" || emph == "C12") && len(c.Msgs) >= 4 && (rapid.IntRange(0, 3).Draw(t, "retryStorm") == 0 || vfcore.EnvInt("VF_FORCE_STORM", 0) > 0) {
		vfGenRetryStorm(t, c)
	}
	if (emph == "C01" || emph == "C02" || emph == "C12") && !c.StormDelays && len(c.Msgs) >= 4 && (rapid.IntRange(0, 7).Draw(t, "parkedFlush") == 0 || vfcore.EnvInt("VF_FORCE_PARK", 0) > 0) {
		vfGenParkedFlush(t, c)
	}
	if emph == "C05" && rapid.IntRange(0, 3).Draw(t, "idleBump") == 0 {
		vfGenIdleBump(t, c)
	}
	if (emph == "C05" || emph == "C01") && c.Sync == 0 && len(c.Conf.Interceptors) == 0 && rapid.IntRange(0, 3).Draw(t, "recycle") == 0 {
		c.Recycle = true
	}
	if !c.StormDelays {
		vfGenDelays(t, c)
	}
	if emph == "C17" {
		// routing only: static leaderless subsets, every partitioner incl. misbehaving custom ones, no faults
		for ti := range c.Topics {
			mode := rapid.IntRange(0, 5).Draw(t, fmt.Sprintf("leaderless%d", ti))
			for p := range c.Topics[ti].Leaders {
				if mode == 0 || (mode <= 2 && rapid.Bool().Draw(t, fmt.Sprintf("noLeader%d.%d", ti, p))) {
					c.Topics[ti].Leaders[p] = -1
				}
			}
		}
		c.Conf.Partitioner = rapid.SampledFrom([]string{"manual", "hash", "refhash", "roundrobin", "random", "bad", "bad"}).Draw(t, "c17partitioner")
		c.Conf.Idempotent = false
		if c.Conf.Acks == 0 {
			c.Conf.Acks = 1
		}
		for i := range c.Msgs {
			m := &c.Msgs[i]
			n := int32(len(c.Topics[m.Topic].Leaders))
			m.Part = int32(rapid.IntRange(0, int(n)-1).Draw(t, fmt.Sprintf("c17m%d.part", i)))
			if c.Conf.Partitioner == "bad" {
				m.Part = rapid.SampledFrom([]int32{-1, n, n + 5, 1 << 30, 0, n - 1, -1 << 31}).Draw(t, fmt.Sprintf("c17m%d.bad", i))
				m.BadErr = rapid.IntRange(0, 4).Draw(t, fmt.Sprintf("c17m%d.err", i)) == 0
			}
		}
		c.Faults = map[string][]vfFault{}
		c.Script = []vfStep{{Op: "send", A: 0, B: len(c.Msgs)}, {Op: "waitOutcomes", A: len(c.Msgs)}}
		c.CloseMode = "async" // Close() drains Successes() itself and would compete with the collector for events

		c.Conf.RetryMax = rapid.IntRange(0, 1).Draw(t, "c17retry")
		c.Conf.BackoffUs = 0
	}
	if emph == "C18" {
		kinds := []string{"mut", "count", "panic"}
		if vfVersionAtLeast(c.Conf.Version, "0.11.0.0") {
			kinds = append(kinds, "hdr", "hdr")
		}
		n := rapid.IntRange(1, 4).Draw(t, "nInterceptors")
		for i := 0; i < n; i++ {
			c.Conf.Interceptors = append(c.Conf.Interceptors, rapid.SampledFrom(kinds).Draw(t, fmt.Sprintf("ic%d", i)))
		}
	}
	if emph == "C01" && !c.Conf.Idempotent && rapid.IntRange(0, 5).Draw(t, "syncVariant") == 0 {
		c.Sync = rapid.IntRange(1, 4).Draw(t, "syncSenders")
		c.SyncBatch = rapid.Bool().Draw(t, "syncBatch")
	}
	return c
}
