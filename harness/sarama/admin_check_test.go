//go:build go1.18 && verif

package sarama

// C19 — admin operations reach the right broker and report its verdict (DESIGN.md 5.19).
// Case (data) -> vfc19Exec (real ClusterAdmin over the simulated cluster) -> vfc19Judge (oracles over the
// request log of the simulated brokers, the model and the values the operation returned).

import (
	"encoding/json"
	"errors"
	"fmt"
	"os"
	"sort"
	"strings"
	"sync/atomic"
	"testing"
	"time"

	"github.com/Shopify/sarama/internal/vfcore"
	"github.com/rcrowley/go-metrics"
	"pgregory.net/rapid"
)

// ---------------------------------------------------------------- case

type vfc19Step struct {
	Kind      string  `json:"kind"`                // move | ok | err | omit | omitApplied | dropBefore | dropAfter
	To        int32   `json:"to,omitempty"`        // move: the new controller
	Code      int16   `json:"code,omitempty"`      // err: per-topic code (alterReassign: top-level code, may be 0)
	PartCodes []int16 `json:"partCodes,omitempty"` // err, alterReassign: per-partition codes
	Msg       bool    `json:"msg,omitempty"`       // err: the answer carries an error message
}

type vfc19Ctl struct {
	Controller        int32       `json:"controller"`
	Topic             string      `json:"topic"`
	Exists            bool        `json:"exists"`
	ExistingParts     int         `json:"existingParts,omitempty"`
	NumPartitions     int32       `json:"numPartitions,omitempty"` // createTopic: partitions, createPartitions: new total
	ReplicationFactor int16       `json:"replicationFactor,omitempty"`
	ValidateOnly      bool        `json:"validateOnly,omitempty"`
	Assignment        [][]int32   `json:"assignment,omitempty"` // alterReassign
	Steps             []vfc19Step `json:"steps"`                // what the broker that is controller does, by occurrence
}

type vfc19RecPart struct {
	Part   int32 `json:"part"`
	Offset int64 `json:"offset"`
	Code   int16 `json:"code,omitempty"` // scripted per-partition error
}

type vfc19Rec struct {
	Topic   string         `json:"topic"`
	Leaders []int32        `json:"leaders"` // leader of every partition of the topic
	Parts   []vfc19RecPart `json:"parts"`   // what the call asks for (distinct partitions; may name a partition the topic lacks)
}

type vfc19GroupSpec struct {
	Name    string `json:"name"`
	Coord   int32  `json:"coord"`
	Code    int16  `json:"code,omitempty"` // scripted per-group error
	State   string `json:"state"`
	Members int    `json:"members"`
}

type vfc19OffPart struct {
	Part   int32 `json:"part"`
	Stored bool  `json:"stored"`
	Offset int64 `json:"offset"`
	Code   int16 `json:"code,omitempty"`
}

type vfc19OffTopic struct {
	Name  string         `json:"name"`
	Parts []vfc19OffPart `json:"parts"`
}

type vfc19Grp struct {
	Groups   []vfc19GroupSpec `json:"groups"`
	Ask      []int            `json:"ask"`                // indexes into Groups the call names (describe: 1..n distinct, others: 1)
	Topics   []vfc19OffTopic  `json:"topics,omitempty"`   // listGroupOffsets: what is asked and what the coordinator holds
	TopErr   int16            `json:"topErr,omitempty"`   // listGroupOffsets: group-level error (visible from OffsetFetch v2)
	AllParts bool             `json:"allParts,omitempty"` // listGroupOffsets: nil map = everything the group has (v2+)
}

type vfc19BrokerFault struct {
	Broker int32  `json:"broker"`
	Kind   string `json:"kind"` // drop | omitTopic
}

type vfc19Case struct {
	Op           string             `json:"op"`
	Version      string             `json:"version"`
	Brokers      int                `json:"brokers"`
	Seed         int32              `json:"seed"` // the one bootstrap broker
	RetryMax     int                `json:"retryMax"`
	Ctl          *vfc19Ctl          `json:"ctl,omitempty"`
	Rec          *vfc19Rec          `json:"rec,omitempty"`
	Grp          *vfc19Grp          `json:"grp,omitempty"`
	BrokerFaults []vfc19BrokerFault `json:"brokerFaults,omitempty"`
}

var vfc19CtlOps = []string{"createTopic", "deleteTopic", "createPartitions", "alterReassign"}
var vfc19Ops = []string{"createTopic", "deleteTopic", "createPartitions", "alterReassign", "deleteRecords", "listGroupOffsets", "describeGroups", "deleteGroup"}

// every release at which one of the operations (or the metadata request under them) changes its request version,
// plus the releases at which an operation becomes available
var vfc19AllVersions = []string{"0.10.0.0", "0.10.1.0", "0.10.2.0", "0.11.0.0", "1.0.0", "1.1.0", "2.0.0", "2.3.0", "2.4.0", "2.8.0"}

var vfc19MinVersion = map[string]KafkaVersion{
	"createTopic": V0_10_1_0, "deleteTopic": V0_10_1_0, "createPartitions": V1_0_0_0, "alterReassign": V2_4_0_0,
	"deleteRecords": V0_11_0_0, "listGroupOffsets": V0_10_0_0, "describeGroups": V0_10_0_0, "deleteGroup": V1_1_0_0,
}

var vfc19Api = map[string]int16{
	"createTopic": vfc19KeyCreateTopics, "deleteTopic": vfc19KeyDeleteTopics, "createPartitions": vfc19KeyCreatePartitions, "alterReassign": vfc19KeyAlterReassign,
	"deleteRecords": vfc19KeyDeleteRecords, "listGroupOffsets": vfc19KeyOffsetFetch, "describeGroups": vfc19KeyDescribeGroups, "deleteGroup": vfc19KeyDeleteGroups,
}

// vfc19WantVersion: the request version admin.go selects for a configured Kafka version (the table the statement
// calls "the request version the configured Kafka version dictates").
func vfc19WantVersion(api int16, kv KafkaVersion) int16 {
	switch api {
	case vfc19KeyCreateTopics:
		if kv.IsAtLeast(V1_0_0_0) {
			return 2
		}
		if kv.IsAtLeast(V0_11_0_0) {
			return 1
		}
		return 0
	case vfc19KeyDeleteTopics:
		if kv.IsAtLeast(V0_11_0_0) {
			return 1
		}
		return 0
	case vfc19KeyOffsetFetch:
		if kv.IsAtLeast(V0_10_2_0) {
			return 2
		}
		return 1
	}
	return 0
}

func vfc19KV(s string) KafkaVersion {
	kv, err := ParseKafkaVersion(s)
	if err != nil {
		panic("vf: harness bug: " + err.Error())
	}
	return kv
}

func (c *vfc19Case) isCtl() bool { return c.Ctl != nil }

// scriptedMoves: number of leading "move" steps (the j of the design).
func (c *vfc19Case) scriptedMoves() int {
	j := 0
	if c.Ctl != nil {
		for _, st := range c.Ctl.Steps {
			if st.Kind != "move" {
				break
			}
			j++
		}
	}
	return j
}

// ---------------------------------------------------------------- generator

// error codes a broker may answer in place of success; 41 (NOT_CONTROLLER) is excluded here
var vfc19Codes = []int16{-1, 3, 5, 7, 13, 17, 29, 31, 36, 37, 38, 39, 40, 42, 44, 56, 60, 72, 73, 85, 86, 87}

func vfc19GenCode(t *rapid.T, label string) int16 {
	if rapid.IntRange(0, 9).Draw(t, label+"Any") == 0 {
		c := int16(rapid.IntRange(-1, 130).Draw(t, label+"Raw"))
		if c == 0 || c == vfc19NotController {
			c = 7
		}
		return c
	}
	return rapid.SampledFrom(vfc19Codes).Draw(t, label)
}

func vfc19Gen(t *rapid.T) *vfc19Case {
	c := &vfc19Case{}
	c.Op = rapid.SampledFrom(vfc19Ops).Draw(t, "op")
	c.Brokers = rapid.IntRange(1, 4).Draw(t, "brokers")
	c.Seed = int32(rapid.IntRange(1, c.Brokers).Draw(t, "seed"))
	c.RetryMax = rapid.IntRange(0, 4).Draw(t, "retryMax")
	// Kafka version: mostly one that supports the operation, sometimes one below it
	min := vfc19MinVersion[c.Op]
	var ok, below []string
	for _, v := range vfc19AllVersions {
		kv := vfc19KV(v)
		if kv.IsAtLeast(min) {
			ok = append(ok, v)
		} else {
			below = append(below, v)
		}
	}
	if len(below) > 0 && rapid.IntRange(0, 19).Draw(t, "unsupported") == 0 {
		c.Version = rapid.SampledFrom(below).Draw(t, "versionBelow")
	} else {
		c.Version = rapid.SampledFrom(ok).Draw(t, "version")
	}
	kv := vfc19KV(c.Version)
	brokerID := func(label string) int32 { return int32(rapid.IntRange(1, c.Brokers).Draw(t, label)) }

	switch c.Op {
	case "createTopic", "deleteTopic", "createPartitions", "alterReassign":
		cc := &vfc19Ctl{Topic: "vf-topic"}
		c.Ctl = cc
		cc.Controller = brokerID("controller")
		if c.Op == "createTopic" {
			cc.Exists = rapid.IntRange(0, 9).Draw(t, "exists") == 0
		} else {
			cc.Exists = rapid.IntRange(0, 9).Draw(t, "exists") != 0
		}
		if cc.Exists {
			cc.ExistingParts = rapid.IntRange(1, 4).Draw(t, "existingParts")
		}
		switch c.Op {
		case "createTopic":
			cc.NumPartitions = int32(rapid.IntRange(1, 4).Draw(t, "numPartitions"))
			cc.ReplicationFactor = int16(rapid.IntRange(1, c.Brokers).Draw(t, "replicationFactor"))
			if kv.IsAtLeast(V0_11_0_0) {
				cc.ValidateOnly = rapid.IntRange(0, 6).Draw(t, "validateOnly") == 0
			}
		case "createPartitions":
			if cc.Exists && rapid.IntRange(0, 9).Draw(t, "shrink") == 0 {
				cc.NumPartitions = int32(rapid.IntRange(1, cc.ExistingParts).Draw(t, "countLow")) // not an increase: INVALID_PARTITIONS
			} else {
				cc.NumPartitions = int32(cc.ExistingParts + rapid.IntRange(1, 3).Draw(t, "countAdd"))
			}
		case "alterReassign":
			n := rapid.IntRange(1, 4).Draw(t, "assignmentLen")
			for i := 0; i < n; i++ {
				k := rapid.IntRange(1, 3).Draw(t, "replicas")
				var rep []int32
				for x := 0; x < k; x++ {
					rep = append(rep, brokerID("replica"))
				}
				cc.Assignment = append(cc.Assignment, rep)
			}
		}
		// script: j controller moves, then what the controller finally says
		j := 0
		if c.Brokers >= 2 {
			j = rapid.IntRange(0, c.RetryMax+1).Draw(t, "moves")
		}
		cur := cc.Controller
		for i := 0; i < j; i++ {
			to := int32(rapid.IntRange(1, c.Brokers-1).Draw(t, "moveTo"))
			if to >= cur {
				to++
			}
			cc.Steps = append(cc.Steps, vfc19Step{Kind: "move", To: to})
			cur = to
		}
		term := rapid.SampledFrom([]string{"ok", "ok", "ok", "ok", "ok", "err", "err", "err", "err", "omit", "omitApplied", "dropBefore", "dropAfter"}).Draw(t, "terminal")
		st := vfc19Step{Kind: term}
		if term == "err" {
			st.Msg = rapid.Bool().Draw(t, "errMsg")
			if c.Op == "alterReassign" {
				where := rapid.IntRange(0, 2).Draw(t, "errWhere") // 0 top-level, 1 partitions, 2 both
				if where != 1 {
					st.Code = vfc19GenCode(t, "topCode")
				}
				if where != 0 {
					st.PartCodes = make([]int16, len(cc.Assignment))
					hit := rapid.IntRange(0, len(cc.Assignment)-1).Draw(t, "errPart")
					st.PartCodes[hit] = vfc19GenCode(t, "partCode")
					for i := range st.PartCodes {
						if i != hit && rapid.IntRange(0, 3).Draw(t, "errPartMore") == 0 {
							st.PartCodes[i] = vfc19GenCode(t, "partCodeMore")
						}
					}
				}
			} else {
				st.Code = vfc19GenCode(t, "code")
			}
		}
		cc.Steps = append(cc.Steps, st)

	case "deleteRecords":
		rc := &vfc19Rec{Topic: "vf-records"}
		c.Rec = rc
		np := rapid.IntRange(1, 6).Draw(t, "partitions")
		for i := 0; i < np; i++ {
			rc.Leaders = append(rc.Leaders, brokerID("leader"))
		}
		asked := rapid.IntRange(1, np).Draw(t, "asked")
		perm := rapid.Permutation(vfc19Iota(np)).Draw(t, "askedPerm")
		for _, p := range perm[:asked] {
			part := vfc19RecPart{Part: int32(p), Offset: int64(rapid.IntRange(0, 1000).Draw(t, "offset"))}
			if rapid.IntRange(0, 4).Draw(t, "partErr") == 0 {
				part.Code = vfc19GenCode(t, "partCode")
			}
			rc.Parts = append(rc.Parts, part)
		}
		if rapid.IntRange(0, 24).Draw(t, "unknownPart") == 0 {
			rc.Parts = append(rc.Parts, vfc19RecPart{Part: int32(np + 1), Offset: 5})
		}
		for b := 1; b <= c.Brokers; b++ {
			switch rapid.IntRange(0, 11).Draw(t, "brokerFault") {
			case 0:
				c.BrokerFaults = append(c.BrokerFaults, vfc19BrokerFault{Broker: int32(b), Kind: "drop"})
			case 1:
				c.BrokerFaults = append(c.BrokerFaults, vfc19BrokerFault{Broker: int32(b), Kind: "omitTopic"})
			}
		}

	default: // group operations
		gc := &vfc19Grp{}
		c.Grp = gc
		ng := 1
		if c.Op == "describeGroups" {
			ng = rapid.IntRange(1, 6).Draw(t, "groups")
		}
		for i := 0; i < ng; i++ {
			g := vfc19GroupSpec{Name: fmt.Sprintf("vf-group-%d", i), Coord: brokerID("coord"),
				State: rapid.SampledFrom([]string{"Stable", "Empty", "PreparingRebalance", "Dead"}).Draw(t, "state"), Members: rapid.IntRange(0, 2).Draw(t, "members")}
			if c.Op != "listGroupOffsets" && rapid.IntRange(0, 3).Draw(t, "groupErr") == 0 {
				g.Code = vfc19GenCode(t, "groupCode")
			}
			gc.Groups = append(gc.Groups, g)
		}
		if c.Op == "describeGroups" {
			k := rapid.IntRange(1, ng).Draw(t, "askN")
			gc.Ask = rapid.Permutation(vfc19Iota(ng)).Draw(t, "askPerm")[:k]
		} else {
			gc.Ask = []int{0}
		}
		if c.Op == "listGroupOffsets" {
			nt := rapid.IntRange(1, 2).Draw(t, "offTopics")
			for ti := 0; ti < nt; ti++ {
				ot := vfc19OffTopic{Name: fmt.Sprintf("vf-off-%d", ti)}
				np := rapid.IntRange(1, 3).Draw(t, "offParts")
				for _, p := range rapid.Permutation(vfc19Iota(4)).Draw(t, "offPartIDs")[:np] {
					op := vfc19OffPart{Part: int32(p), Stored: rapid.IntRange(0, 4).Draw(t, "stored") != 0, Offset: int64(rapid.IntRange(0, 100000).Draw(t, "storedOffset"))}
					if rapid.IntRange(0, 4).Draw(t, "offErr") == 0 {
						op.Code = vfc19GenCode(t, "offCode")
					}
					ot.Parts = append(ot.Parts, op)
				}
				gc.Topics = append(gc.Topics, ot)
			}
			if kv.IsAtLeast(V0_10_2_0) {
				if rapid.IntRange(0, 5).Draw(t, "topErr") == 0 {
					gc.TopErr = vfc19GenCode(t, "topCode")
				}
				gc.AllParts = rapid.IntRange(0, 7).Draw(t, "allParts") == 0
			}
		}
		for b := 1; b <= c.Brokers; b++ {
			switch rapid.IntRange(0, 11).Draw(t, "brokerFault") {
			case 0:
				c.BrokerFaults = append(c.BrokerFaults, vfc19BrokerFault{Broker: int32(b), Kind: "drop"})
			case 1:
				if c.Op == "deleteGroup" {
					c.BrokerFaults = append(c.BrokerFaults, vfc19BrokerFault{Broker: int32(b), Kind: "omitTopic"})
				}
			}
		}
	}
	return c
}

func vfc19Iota(n int) []int {
	out := make([]int, n)
	for i := range out {
		out[i] = i
	}
	return out
}

// ---------------------------------------------------------------- executor

type vfc19Run struct {
	c       *vfc19Case
	sim     *vfSim
	cl      *client
	reqs    []vfc19Req // guarded by sim.mu
	step    int        // guarded by sim.mu
	deleted map[string]bool
	seen    map[*Broker]bool

	createErr string
	called    bool
	opErr     error
	descs     []*GroupDescription
	offsets   *OffsetFetchResponse
	panicked  string
	hang      string
	stacks    string
}

// snapshotBrokers remembers every Broker object the client has registered, so that the harness can close the ones
// the client forgets without closing (RefreshController drops the old controller from its table).
func (run *vfc19Run) snapshotBrokers() {
	cl := run.cl
	if cl == nil {
		return
	}
	cl.lock.RLock()
	bs := make([]*Broker, 0, len(cl.brokers))
	for _, b := range cl.brokers {
		bs = append(bs, b)
	}
	cl.lock.RUnlock()
	run.sim.mu.Lock()
	for _, b := range bs {
		run.seen[b] = true
	}
	run.sim.mu.Unlock()
}

// wait: quiescence rule of DESIGN 3.7. Gives up only when nothing is pending in the simulator and no relevant
// event has happened for Tq.
func (run *vfc19Run) wait(done *int32) bool {
	tq := vfTq()
	last := int64(-1)
	lastChange := time.Now()
	start := time.Now()
	for i := 0; ; i++ {
		if atomic.LoadInt32(done) == 1 {
			return true
		}
		p := run.sim.hist.progress()
		if p != last || atomic.LoadInt64(&run.sim.pending) > 0 {
			last, lastChange = p, time.Now()
		}
		if time.Since(lastChange) > tq || time.Since(start) > 120*time.Second {
			return false
		}
		if i < 200 {
			time.Sleep(50 * time.Microsecond)
		} else {
			time.Sleep(time.Millisecond)
		}
	}
}

func (run *vfc19Run) config() *Config {
	c := run.c
	conf := NewConfig()
	conf.Version = vfc19KV(c.Version)
	conf.ClientID = "vf"
	conf.MetricRegistry = metrics.NewRegistry()
	conf.Net.Proxy.Enable = true
	conf.Net.Proxy.Dialer = run.sim.net
	conf.Net.DialTimeout = time.Second
	conf.Net.ReadTimeout = 20 * time.Second // nothing in a case is silent; a stall must show up as a hang, not as a timeout error
	conf.Net.WriteTimeout = time.Second
	conf.Metadata.Retry.Max = 1
	conf.Metadata.Retry.Backoff = time.Millisecond
	conf.Metadata.RefreshFrequency = 0
	conf.Admin.Retry.Max = c.RetryMax
	conf.Admin.Retry.Backoff = time.Millisecond
	return conf
}

func vfc19Exec(c *vfc19Case) *vfc19Run {
	run := &vfc19Run{c: c, deleted: map[string]bool{}, seen: map[*Broker]bool{}}
	sim := newVfSim(c.Brokers)
	run.sim = sim
	defer sim.shutdown()
	ring := func(n int) []int32 {
		out := make([]int32, n)
		for i := range out {
			out[i] = int32(i%c.Brokers) + 1
		}
		return out
	}
	if c.Ctl != nil {
		sim.controller = c.Ctl.Controller
		if c.Ctl.Exists {
			sim.addTopic(c.Ctl.Topic, ring(c.Ctl.ExistingParts))
		}
	}
	if c.Rec != nil {
		sim.addTopic(c.Rec.Topic, c.Rec.Leaders)
	}
	sim.addTopic("vf-bystander", ring(2))
	run.install()

	conf := run.config()
	if err := conf.Validate(); err != nil {
		run.createErr = "invalid config: " + err.Error()
		return run
	}
	var admin ClusterAdmin
	var done int32
	go func() {
		defer atomic.StoreInt32(&done, 1)
		a, err := NewClusterAdmin([]string{vfBrokerAddr(c.Seed)}, conf)
		if err != nil {
			run.createErr = err.Error()
			return
		}
		admin = a
	}()
	if !run.wait(&done) {
		run.hang = "NewClusterAdmin did not return"
		run.stacks = vfcore.Stacks()
		return run
	}
	if admin == nil {
		return run
	}
	if ca, ok := admin.(*clusterAdmin); ok {
		if cl, ok := ca.client.(*client); ok {
			run.cl = cl
		}
	}
	run.snapshotBrokers()

	done = 0
	run.called = true
	go func() {
		defer atomic.StoreInt32(&done, 1)
		defer func() {
			if v := recover(); v != nil {
				run.panicked = vfcore.PanicSite(v, "github.com/Shopify/sarama.", "vf", "(*vf")
			}
		}()
		run.opErr = run.call(admin)
	}()
	if !run.wait(&done) {
		run.hang = "the operation did not return"
		run.stacks = vfcore.Stacks()
		return run
	}
	run.snapshotBrokers()

	done = 0
	go func() {
		defer atomic.StoreInt32(&done, 1)
		_ = admin.Close()
	}()
	if !run.wait(&done) {
		run.hang = "ClusterAdmin.Close did not return"
		run.stacks = vfcore.Stacks()
		return run
	}
	// brokers the client dropped from its table without closing them (old controllers): release their goroutines
	sim.mu.Lock()
	seen := make([]*Broker, 0, len(run.seen))
	for b := range run.seen {
		seen = append(seen, b)
	}
	sim.mu.Unlock()
	for _, b := range seen {
		_ = b.Close()
	}
	return run
}

func (run *vfc19Run) call(admin ClusterAdmin) error {
	c := run.c
	switch c.Op {
	case "createTopic":
		return admin.CreateTopic(c.Ctl.Topic, &TopicDetail{NumPartitions: c.Ctl.NumPartitions, ReplicationFactor: c.Ctl.ReplicationFactor}, c.Ctl.ValidateOnly)
	case "deleteTopic":
		return admin.DeleteTopic(c.Ctl.Topic)
	case "createPartitions":
		return admin.CreatePartitions(c.Ctl.Topic, c.Ctl.NumPartitions, nil, false)
	case "alterReassign":
		return admin.AlterPartitionReassignments(c.Ctl.Topic, c.Ctl.Assignment)
	case "deleteRecords":
		m := map[int32]int64{}
		for _, p := range c.Rec.Parts {
			m[p.Part] = p.Offset
		}
		return admin.DeleteRecords(c.Rec.Topic, m)
	case "listGroupOffsets":
		var m map[string][]int32
		if !c.Grp.AllParts {
			m = map[string][]int32{}
			for _, t := range c.Grp.Topics {
				for _, p := range t.Parts {
					m[t.Name] = append(m[t.Name], p.Part)
				}
			}
		}
		resp, err := admin.ListConsumerGroupOffsets(c.Grp.Groups[c.Grp.Ask[0]].Name, m)
		run.offsets = resp
		return err
	case "describeGroups":
		var names []string
		for _, i := range c.Grp.Ask {
			names = append(names, c.Grp.Groups[i].Name)
		}
		d, err := admin.DescribeConsumerGroups(names)
		run.descs = d
		return err
	case "deleteGroup":
		return admin.DeleteConsumerGroup(c.Grp.Groups[c.Grp.Ask[0]].Name)
	}
	return fmt.Errorf("vf: unknown operation %q", c.Op)
}

// ---------------------------------------------------------------- oracles

// vfc19Carries: does err hand the broker's error code to the caller (as the KError itself, inside sarama's typed
// topic errors, anywhere in an unwrap chain, or at least by its text)?
func vfc19Carries(err error, code int16) bool {
	if err == nil {
		return false
	}
	want := KError(code)
	for e := err; e != nil; e = errors.Unwrap(e) {
		switch x := e.(type) {
		case KError:
			if x == want {
				return true
			}
		case *TopicError:
			if x != nil && x.Err == want {
				return true
			}
		case *TopicPartitionError:
			if x != nil && x.Err == want {
				return true
			}
		}
	}
	return strings.Contains(err.Error(), want.Error())
}

func (run *vfc19Run) history() interface{} {
	run.sim.mu.Lock()
	reqs := append([]vfc19Req(nil), run.reqs...)
	ctl := run.sim.controller
	var topics []string
	for name, t := range run.sim.topics {
		topics = append(topics, fmt.Sprintf("%s:%d", name, len(t.Parts)))
	}
	run.sim.mu.Unlock()
	sort.Strings(topics)
	ev := run.sim.hist.snapshot()
	if len(ev) > 300 {
		ev = ev[len(ev)-300:]
	}
	out := map[string]interface{}{"requests": reqs, "finalController": ctl, "finalTopics": topics, "events": ev, "called": run.called,
		"createErr": run.createErr, "hang": run.hang, "panic": run.panicked}
	if run.opErr != nil {
		out["returnedError"] = run.opErr.Error()
		out["returnedErrorType"] = fmt.Sprintf("%T", run.opErr)
	} else {
		out["returnedError"] = nil
	}
	if run.descs != nil {
		out["descriptions"] = run.descs
	}
	if run.offsets != nil {
		out["offsets"] = run.offsets
	}
	if run.stacks != "" {
		s := run.stacks
		if len(s) > 30000 {
			s = s[:30000]
		}
		out["goroutines"] = s
	}
	return out
}

// regions of known findings the case lies in (predicates over the case only)
func (c *vfc19Case) regions() []string {
	var out []string
	if c.Ctl == nil {
		return nil
	}
	j := c.scriptedMoves()
	if c.RetryMax == 0 {
		out = append(out, "admin-retry-max-0")
	}
	if j >= c.RetryMax && c.RetryMax >= 1 {
		out = append(out, "admin-needs-last-retry")
	}
	if c.Op == "alterReassign" {
		if j >= 1 {
			out = append(out, "alter-reassign-controller-moved")
		}
		for _, st := range c.Ctl.Steps {
			if st.Kind == "err" && st.Code < 0 {
				out = append(out, "alter-reassign-negative-top-level-code")
			}
			if st.Kind == "omit" || st.Kind == "omitApplied" {
				out = append(out, "alter-reassign-omitted-entry")
			}
		}
	}
	return out
}

func (run *vfc19Run) fail(symptom, format string, a ...interface{}) *vfcore.Failure {
	f := vfcore.Failf(symptom, format, a...)
	f.History = run.history()
	f.Regions = run.c.regions()
	return f
}

func vfc19Judge(run *vfc19Run, r *vfcore.Rec) *vfcore.Failure {
	c := run.c
	kv := vfc19KV(c.Version)
	supported := kv.IsAtLeast(vfc19MinVersion[c.Op])
	r.Class("op=" + c.Op)
	r.Class("op=" + c.Op + "/version=" + c.Version)
	r.Classf("brokers=%d", c.Brokers)
	if c.isCtl() {
		r.Classf("retryMax=%d", c.RetryMax)
		r.Classf("op=%s/scriptedMoves=%d", c.Op, c.scriptedMoves())
		r.Classf("op=%s/retryMax=%d", c.Op, c.RetryMax)
		r.Classf("terminal=%s", c.Ctl.Steps[len(c.Ctl.Steps)-1].Kind)
	}
	if !supported {
		r.Class("unsupported-version")
	}

	if run.hang != "" {
		return run.fail("hang", "%s (nothing pending in the simulator, no event for %v)", run.hang, vfTq())
	}
	if run.panicked != "" {
		return run.fail(run.panicked, "the operation panicked: %s", run.panicked)
	}
	if run.createErr != "" || !run.called {
		return run.fail("admin-create-failed", "NewClusterAdmin failed on a healthy cluster: %s", run.createErr)
	}

	run.sim.mu.Lock()
	all := append([]vfc19Req(nil), run.reqs...)
	run.sim.mu.Unlock()
	api := vfc19Api[c.Op]
	wantVer := vfc19WantVersion(api, kv)
	var reqs []vfc19Req
	for _, rq := range all {
		switch {
		case rq.Api == api:
			reqs = append(reqs, rq)
		case rq.Api == vfc19KeyFindCoordinator && c.Grp != nil:
		default:
			return run.fail("unexpected-request", "broker %d received api key %d v%d, which %s has no business sending", rq.Broker, rq.Api, rq.Ver, c.Op)
		}
	}
	if run.opErr == nil {
		r.Class("op=" + c.Op + "/outcome=success")
	} else {
		r.Class("op=" + c.Op + "/outcome=error")
	}
	brokersHit := map[int32]bool{}
	for _, rq := range reqs {
		brokersHit[rq.Broker] = true
	}
	r.Classf("brokersAddressed=%d", len(brokersHit))

	if !supported {
		if len(reqs) > 0 {
			return run.fail("sent-unsupported-version", "%s is not available at Kafka %s, yet a request (v%d) reached broker %d", c.Op, c.Version, reqs[0].Ver, reqs[0].Broker)
		}
		if run.opErr == nil {
			return run.fail("success-without-ack", "%s returned success at Kafka %s although nothing was sent and no broker acknowledged anything", c.Op, c.Version)
		}
		return nil
	}
	for _, rq := range reqs {
		if rq.Outcome == "wire-violation" {
			return run.fail("client-wire-violation", "broker %d could not parse the request: %s", rq.Broker, rq.Bad)
		}
		if rq.Ver != wantVer {
			return run.fail("wrong-request-version", "%s at Kafka %s sent request version %d, the configured version dictates %d", c.Op, c.Version, rq.Ver, wantVer)
		}
	}
	if c.isCtl() {
		return vfc19JudgeCtl(run, r, reqs)
	}
	if len(brokersHit) >= 2 {
		r.NonTrivial("")
	}
	switch c.Op {
	case "deleteRecords":
		return vfc19JudgeDeleteRecords(run, r, reqs)
	case "describeGroups":
		return vfc19JudgeDescribeGroups(run, r, reqs)
	case "deleteGroup":
		return vfc19JudgeDeleteGroup(run, r, reqs)
	case "listGroupOffsets":
		return vfc19JudgeListOffsets(run, r, reqs)
	}
	return run.fail("harness-bug", "no oracle for %s", c.Op)
}

func vfc19JudgeCtl(run *vfc19Run, r *vfcore.Rec, reqs []vfc19Req) *vfcore.Failure {
	c := run.c
	cc := c.Ctl
	err := run.opErr
	n := len(reqs)
	moves := 0
	for _, rq := range reqs {
		if rq.Outcome == "notController" {
			moves++
		}
	}
	r.Classf("op=%s/moves=%d", c.Op, moves)
	r.Classf("ctl/moves=%d/retryMax=%d/%s", moves, c.RetryMax, map[bool]string{true: "success", false: "error"}[err == nil])
	r.Classf("attempts=%d", n)
	if moves >= 1 {
		r.NonTrivial("")
	}
	for _, st := range cc.Steps {
		for i, pc := range st.PartCodes {
			if i >= 1 && pc != 0 {
				r.Class("error-in-non-first-item")
				r.NonTrivial("")
			}
		}
	}
	acked := -1
	for i, rq := range reqs {
		if rq.Bad != "" {
			return run.fail("wrong-request-content", "attempt %d at broker %d does not say what the call said: %s", i+1, rq.Broker, rq.Bad)
		}
		if rq.Broker != rq.Ctl {
			return run.fail("wrong-broker", "attempt %d of %s went to broker %d while broker %d was the controller (metadata named it)", i+1, c.Op, rq.Broker, rq.Ctl)
		}
		last := i == n-1
		switch rq.Outcome {
		case "ack":
			acked = i
			if !last {
				return run.fail("request-after-ack", "the controller (broker %d) acknowledged attempt %d without error, yet %d more request(s) followed", rq.Broker, i+1, n-1-i)
			}
			if err != nil {
				return run.fail("error-after-ack", "the then-current controller (broker %d) acknowledged attempt %d without error, but %s returned %q", rq.Broker, i+1, c.Op, err.Error())
			}
		case "err", "omit", "dropBefore", "dropAfter":
			if !last {
				return run.fail("retried-after-error", "attempt %d ended with %s %v (not NOT_CONTROLLER); it must be reported after exactly one attempt, but %d more request(s) followed", i+1, rq.Outcome, vfc19CodesOf(rq), n-1-i)
			}
			if err == nil && rq.Outcome == "omit" {
				return run.fail("success-on-incomplete-response", "%s returned success although the answer of the controller (broker %d) to attempt %d has no entry for the topic, i.e. acknowledges nothing", c.Op, rq.Broker, i+1)
			}
			if err == nil {
				return run.fail("success-without-ack", "%s returned success although the controller (broker %d) answered attempt %d with %s %v", c.Op, rq.Broker, i+1, rq.Outcome, vfc19CodesOf(rq))
			}
			if rq.Outcome == "err" {
				carried := false
				var codes []int16
				if rq.Top != 0 {
					codes = append(codes, rq.Top)
				}
				for _, x := range rq.Codes {
					if x != 0 {
						codes = append(codes, x)
					}
				}
				for _, x := range codes {
					if vfc19Carries(err, x) {
						carried = true
					}
				}
				if !carried && len(codes) > 0 {
					return run.fail("error-changed", "the controller answered %v (%s); %s returned %q (%T), which carries none of these codes", codes, KError(codes[0]).Error(), c.Op, err.Error(), err)
				}
			}
		case "notController":
		default:
			return run.fail("harness-bug", "unexpected outcome %q in the request log", rq.Outcome)
		}
	}
	if err == nil && acked < 0 {
		return run.fail("success-without-ack", "%s returned success after %d request(s), none of which the then-current controller acknowledged without error (Admin.Retry.Max=%d)", c.Op, n, c.RetryMax)
	}
	if n == 0 {
		return run.fail("no-attempt", "%s returned %q without sending anything, on a healthy cluster (Admin.Retry.Max=%d)", c.Op, err.Error(), c.RetryMax)
	}
	if reqs[n-1].Outcome == "notController" && n < c.RetryMax+1 {
		return run.fail("gave-up-with-retries-left", "%s stopped after %d attempt(s), the last one answered NOT_CONTROLLER, although Admin.Retry.Max=%d allows %d retries; it returned %q (%T)", c.Op, n, c.RetryMax, c.RetryMax, err.Error(), err)
	}
	// the model reflects what was acknowledged
	if err == nil {
		run.sim.mu.Lock()
		ts := run.sim.topics[cc.Topic]
		nparts := -1
		if ts != nil {
			nparts = len(ts.Parts)
		}
		run.sim.mu.Unlock()
		switch c.Op {
		case "createTopic":
			if !cc.ValidateOnly && nparts != int(cc.NumPartitions) {
				return run.fail("model-unchanged", "CreateTopic returned success but the cluster has %d partitions of %s (want %d)", nparts, cc.Topic, cc.NumPartitions)
			}
		case "deleteTopic":
			if ts != nil {
				return run.fail("model-unchanged", "DeleteTopic returned success but the cluster still has %s", cc.Topic)
			}
		case "createPartitions":
			if nparts != int(cc.NumPartitions) {
				return run.fail("model-unchanged", "CreatePartitions returned success but the cluster has %d partitions of %s (want %d)", nparts, cc.Topic, cc.NumPartitions)
			}
		}
	}
	return nil
}

func vfc19CodesOf(rq vfc19Req) []int16 {
	var out []int16
	if rq.Top != 0 {
		out = append(out, rq.Top)
	}
	for _, x := range rq.Codes {
		if x != 0 {
			out = append(out, x)
		}
	}
	return out
}

func vfc19JudgeDeleteRecords(run *vfc19Run, r *vfcore.Rec, reqs []vfc19Req) *vfcore.Failure {
	c := run.c
	rc := c.Rec
	err := run.opErr
	asked := map[int32]vfc19RecPart{}
	unknown := false
	for i, p := range rc.Parts {
		asked[p.Part] = p
		if int(p.Part) >= len(rc.Leaders) {
			unknown = true
		}
		if i >= 1 && p.Code != 0 {
			r.Class("error-in-non-first-item")
			r.NonTrivial("")
		}
	}
	sent := map[int32]int{}
	faulted := false // some broker or item reported an error / lost the connection / left the topic out
	codes := map[int16]bool{}
	hardFault := false
	for _, rq := range reqs {
		if rq.Outcome != "answered" {
			faulted, hardFault = true, true
		}
		for i, it := range rq.Items {
			var topic string
			var part int32
			var off int64
			if _, e := fmt.Sscanf(strings.Replace(strings.Replace(it, "/", " ", 1), "@", " ", 1), "%s %d %d", &topic, &part, &off); e != nil {
				return run.fail("harness-bug", "cannot parse item %q", it)
			}
			a, ok := asked[part]
			if topic != rc.Topic || !ok {
				return run.fail("item-not-asked", "broker %d was asked to delete records of %s, which the call did not name", rq.Broker, it)
			}
			if off != a.Offset {
				return run.fail("wrong-request-content", "partition %d: the request says offset %d, the call said %d", part, off, a.Offset)
			}
			if int(part) < len(rc.Leaders) && rc.Leaders[part] != rq.Broker {
				return run.fail("wrong-broker", "partition %s/%d is led by broker %d but its DeleteRecords request went to broker %d", topic, part, rc.Leaders[part], rq.Broker)
			}
			sent[part]++
			if sent[part] > 1 {
				return run.fail("item-sent-twice", "partition %s/%d appears in %d requests", topic, part, sent[part])
			}
			if i < len(rq.Codes) && rq.Codes[i] != 0 && rq.Outcome == "answered" {
				faulted = true
				codes[rq.Codes[i]] = true
			}
		}
	}
	if unknown {
		r.Class("deleteRecords/unknown-partition")
		if err == nil {
			return run.fail("success-without-ack", "DeleteRecords returned success although the call names a partition the topic does not have")
		}
		return nil
	}
	if err == nil {
		if faulted {
			return run.fail("error-swallowed", "DeleteRecords returned success although a broker or a partition reported an error: %v", vfc19Log(reqs))
		}
		for part := range asked {
			if sent[part] != 1 {
				return run.fail("item-missing", "DeleteRecords returned success but partition %s/%d was sent to no broker", rc.Topic, part)
			}
		}
		run.sim.mu.Lock()
		defer run.sim.mu.Unlock()
		for part, a := range asked {
			if ps := run.sim.topics[rc.Topic].Parts[part]; ps.LogStart != a.Offset {
				return run.fail("model-unchanged", "DeleteRecords returned success but the log start of %s/%d is %d (want %d)", rc.Topic, part, ps.LogStart, a.Offset)
			}
		}
		return nil
	}
	if !faulted {
		return run.fail("spurious-error", "every broker acknowledged every partition without error, yet DeleteRecords returned %q", err.Error())
	}
	if !hardFault && len(codes) == 1 {
		for code := range codes {
			if !vfc19Carries(err, code) {
				return run.fail("error-changed", "the only error any broker reported was %d (%s); DeleteRecords returned %q", code, KError(code).Error(), err.Error())
			}
		}
	}
	return nil
}

func vfc19Log(reqs []vfc19Req) string {
	var sb strings.Builder
	for _, rq := range reqs {
		fmt.Fprintf(&sb, "[broker %d: %s %v top=%d codes=%v] ", rq.Broker, rq.Outcome, rq.Items, rq.Top, rq.Codes)
	}
	return sb.String()
}

func vfc19JudgeDescribeGroups(run *vfc19Run, r *vfcore.Rec, reqs []vfc19Req) *vfcore.Failure {
	c := run.c
	gc := c.Grp
	err := run.opErr
	asked := map[string]*vfc19GroupSpec{}
	for i, gi := range gc.Ask {
		g := &gc.Groups[gi]
		asked[g.Name] = g
		if i >= 1 && g.Code != 0 {
			r.Class("error-in-non-first-item")
			r.NonTrivial("")
		}
	}
	sent := map[string]int{}
	dropped := false
	itemErr := false
	for _, rq := range reqs {
		if rq.Outcome != "answered" {
			dropped = true
		}
		for i, name := range rq.Items {
			g := asked[name]
			if g == nil {
				return run.fail("item-not-asked", "broker %d was asked to describe %q, which the call did not name", rq.Broker, name)
			}
			if g.Coord != rq.Broker {
				return run.fail("wrong-broker", "group %s is coordinated by broker %d but its DescribeGroups request went to broker %d", name, g.Coord, rq.Broker)
			}
			sent[name]++
			if sent[name] > 1 {
				return run.fail("item-sent-twice", "group %s appears in %d requests", name, sent[name])
			}
			if i < len(rq.Codes) && rq.Codes[i] != 0 {
				itemErr = true
			}
		}
	}
	if err != nil {
		if !dropped && !itemErr {
			return run.fail("spurious-error", "every coordinator answered every group without error, yet DescribeConsumerGroups returned %q", err.Error())
		}
		return nil
	}
	if dropped {
		return run.fail("error-swallowed", "DescribeConsumerGroups returned success although a coordinator dropped the connection: %v", vfc19Log(reqs))
	}
	for name := range asked {
		if sent[name] != 1 {
			return run.fail("item-missing", "DescribeConsumerGroups returned success but group %s was sent to no coordinator", name)
		}
	}
	got := map[string]int{}
	for _, d := range run.descs {
		if d == nil {
			return run.fail("bad-result", "DescribeConsumerGroups returned a nil description")
		}
		g := asked[d.GroupId]
		if g == nil {
			return run.fail("bad-result", "DescribeConsumerGroups returned a description of %q, which was not asked for", d.GroupId)
		}
		got[d.GroupId]++
		if int16(d.Err) != g.Code {
			return run.fail("error-swallowed", "the coordinator of %s answered error code %d, the description says %d", g.Name, g.Code, int16(d.Err))
		}
		if g.Code == 0 && (d.State != g.State || len(d.Members) != g.Members) {
			return run.fail("bad-result", "description of %s says state %q with %d members, its coordinator said %q with %d", g.Name, d.State, len(d.Members), g.State, g.Members)
		}
	}
	for name := range asked {
		if got[name] != 1 {
			return run.fail("bad-result", "DescribeConsumerGroups returned %d descriptions of %s", got[name], name)
		}
	}
	return nil
}

func vfc19JudgeDeleteGroup(run *vfc19Run, r *vfcore.Rec, reqs []vfc19Req) *vfcore.Failure {
	c := run.c
	g := &c.Grp.Groups[c.Grp.Ask[0]]
	err := run.opErr
	if len(reqs) > 1 {
		return run.fail("item-sent-twice", "DeleteConsumerGroup sent %d DeleteGroups requests", len(reqs))
	}
	if len(reqs) == 0 {
		if err == nil {
			return run.fail("success-without-ack", "DeleteConsumerGroup returned success without sending anything")
		}
		return run.fail("no-attempt", "DeleteConsumerGroup returned %q without sending anything, on a healthy cluster", err.Error())
	}
	rq := reqs[0]
	if len(rq.Items) != 1 || rq.Items[0] != g.Name {
		return run.fail("wrong-request-content", "the DeleteGroups request names %v, the call named %s", rq.Items, g.Name)
	}
	if rq.Broker != g.Coord {
		return run.fail("wrong-broker", "group %s is coordinated by broker %d but the DeleteGroups request went to broker %d", g.Name, g.Coord, rq.Broker)
	}
	code := int16(0)
	if len(rq.Codes) == 1 {
		code = rq.Codes[0]
	}
	switch {
	case rq.Outcome != "answered":
		if err == nil {
			return run.fail("error-swallowed", "DeleteConsumerGroup returned success although the coordinator's answer was %s", rq.Outcome)
		}
	case code != 0:
		if err == nil {
			return run.fail("error-swallowed", "DeleteConsumerGroup returned success although the coordinator answered %d (%s)", code, KError(code).Error())
		}
		if !vfc19Carries(err, code) {
			return run.fail("error-changed", "the coordinator answered %d (%s); DeleteConsumerGroup returned %q (%T)", code, KError(code).Error(), err.Error(), err)
		}
	default:
		if err != nil {
			return run.fail("spurious-error", "the coordinator deleted %s without error, yet DeleteConsumerGroup returned %q", g.Name, err.Error())
		}
		run.sim.mu.Lock()
		del := run.deleted[g.Name]
		run.sim.mu.Unlock()
		if !del {
			return run.fail("model-unchanged", "DeleteConsumerGroup returned success but the group still exists")
		}
	}
	return nil
}

func vfc19JudgeListOffsets(run *vfc19Run, r *vfcore.Rec, reqs []vfc19Req) *vfcore.Failure {
	c := run.c
	gc := c.Grp
	g := &gc.Groups[gc.Ask[0]]
	err := run.opErr
	first := true
	for _, t := range gc.Topics {
		for _, p := range t.Parts {
			if !first && p.Code != 0 && gc.TopErr == 0 {
				r.Class("error-in-non-first-item")
				r.NonTrivial("")
			}
			first = false
		}
	}
	if len(reqs) > 1 {
		return run.fail("item-sent-twice", "ListConsumerGroupOffsets sent %d OffsetFetch requests", len(reqs))
	}
	if len(reqs) == 0 {
		if err == nil {
			return run.fail("success-without-ack", "ListConsumerGroupOffsets returned success without sending anything")
		}
		return run.fail("no-attempt", "ListConsumerGroupOffsets returned %q without sending anything, on a healthy cluster", err.Error())
	}
	rq := reqs[0]
	want := []string{"group=" + g.Name}
	if gc.AllParts {
		want = append(want, "*")
	} else {
		for _, t := range gc.Topics {
			for _, p := range t.Parts {
				want = append(want, fmt.Sprintf("%s/%d", t.Name, p.Part))
			}
		}
	}
	gotItems := append([]string(nil), rq.Items...)
	sort.Strings(gotItems[1:])
	sort.Strings(want[1:])
	if strings.Join(gotItems, ",") != strings.Join(want, ",") {
		return run.fail("wrong-request-content", "the OffsetFetch request asks %v, the call asked %v", gotItems, want)
	}
	if rq.Broker != g.Coord {
		return run.fail("wrong-broker", "group %s is coordinated by broker %d but the OffsetFetch request went to broker %d", g.Name, g.Coord, rq.Broker)
	}
	if rq.Outcome != "answered" {
		if err == nil {
			return run.fail("error-swallowed", "ListConsumerGroupOffsets returned success although the coordinator dropped the connection")
		}
		return nil
	}
	anyErr := rq.Top != 0
	for _, x := range rq.Codes {
		if x != 0 {
			anyErr = true
		}
	}
	if err != nil {
		if !anyErr {
			return run.fail("spurious-error", "the coordinator answered without any error, yet ListConsumerGroupOffsets returned %q", err.Error())
		}
		return nil
	}
	resp := run.offsets
	if resp == nil {
		return run.fail("bad-result", "ListConsumerGroupOffsets returned neither a response nor an error")
	}
	if int16(resp.Err) != rq.Top {
		return run.fail("error-swallowed", "the coordinator answered group-level error %d, the returned response says %d", rq.Top, int16(resp.Err))
	}
	if rq.Top != 0 {
		return nil
	}
	for _, t := range gc.Topics {
		for _, p := range t.Parts {
			if gc.AllParts && !p.Stored {
				continue
			}
			b := resp.GetBlock(t.Name, p.Part)
			if b == nil {
				return run.fail("item-missing", "the returned response has no entry for %s/%d, which the coordinator answered", t.Name, p.Part)
			}
			if int16(b.Err) != p.Code {
				return run.fail("error-swallowed", "the coordinator answered error %d for %s/%d, the returned response says %d", p.Code, t.Name, p.Part, int16(b.Err))
			}
			wantOff := int64(-1)
			if p.Code == 0 && p.Stored {
				wantOff = p.Offset
			}
			if b.Offset != wantOff {
				return run.fail("bad-result", "offset of %s/%d: the coordinator holds %d, the returned response says %d", t.Name, p.Part, wantOff, b.Offset)
			}
		}
	}
	return nil
}

// ---------------------------------------------------------------- check

func TestVF_C19(t *testing.T) {
	vfcore.Main(t, vfcore.Spec{
		ID:  "C19",
		New: func() interface{} { return &vfc19Case{} },
		Gen: func(t *rapid.T) interface{} { return vfc19Gen(t) },
		Run: func(ci interface{}, r *vfcore.Rec) *vfcore.Failure {
			c := ci.(*vfc19Case)
			run := vfc19Exec(c)
			return vfc19Judge(run, r)
		},
	})
}

// TestVF_C19_Direct is a development aid (not part of any registered command): it pushes the bare case stored in the
// file named by VF_C19_DIRECT through the same pipeline, so that a hand-written case gets a failure file with its history.
func TestVF_C19_Direct(t *testing.T) {
	p := os.Getenv("VF_C19_DIRECT")
	if p == "" {
		t.Skip("VF_C19_DIRECT not set")
	}
	b, err := os.ReadFile(p)
	if err != nil {
		t.Fatal(err)
	}
	c := &vfc19Case{}
	if err := json.Unmarshal(b, c); err != nil {
		t.Fatal(err)
	}
	run := vfcore.Direct(t, vfcore.Spec{ID: "C19", New: func() interface{} { return &vfc19Case{} },
		Run: func(ci interface{}, r *vfcore.Rec) *vfcore.Failure { return vfc19Judge(vfc19Exec(ci.(*vfc19Case)), r) }})
	run(c)
}
