//go:build go1.18 && verif

package sarama

// Group coordinator model of the simulated cluster: FindCoordinator, JoinGroup (join barrier, leader
// election), SyncGroup (sync barrier), Heartbeat, LeaveGroup, OffsetCommit, OffsetFetch. Own wire format
// (vfsR / vfsW). Enabled per simulator with enableGroups(); faults by occurrence under the keys
// findCoordinator, join, sync, heartbeat, leave, offsetCommit, offsetFetch (optionally suffixed "@<clientID>").

import (
	"fmt"
	"sort"
	"sync"
	"time"
)

type vfgOffset struct {
	Offset int64  `json:"offset"`
	Meta   string `json:"meta"`
}

type vfgCommit struct {
	Seq      int64  `json:"seq"`
	Client   string `json:"client"`
	Member   string `json:"member"`
	Gen      int32  `json:"gen"`
	TP       string `json:"tp"`
	Offset   int64  `json:"offset"`
	Meta     string `json:"meta"`
	Code     int16  `json:"code"`
	Applied  bool   `json:"applied"`
	Version  int16  `json:"version"`
	Retention int64 `json:"retention"`
}

type vfgMember struct {
	ID         string
	Client     string
	Protocols  []string
	Metadata   map[string][]byte
	Joined     bool // has joined the round in progress
	Assignment []byte
}

type vfgRound struct {
	done chan struct{}
}

type vfGroupState struct {
	ID          string
	Coordinator int32
	Generation  int32
	State       string // Empty | PreparingRebalance | AwaitingSync | Stable
	Members     map[string]*vfgMember
	Leader      string
	Protocol    string
	Offsets     map[string]vfgOffset
	Commits     []vfgCommit
	nextMember  int
	joinRound   *vfgRound
	syncRound   *vfgRound
	roundStart  time.Time
	syncErr     int16
}

type vfGroupLayer struct {
	mu               sync.Mutex
	sim              *vfSim
	groups           map[string]*vfGroupState
	rebalanceTimeout time.Duration
	loadInProgress   int // number of OffsetFetch answers still to be LOAD_IN_PROGRESS
	issued           map[string][2]string // client -> (member id, generation) of its latest successful JoinGroup answer
}

// checkIdentity records an event when a request of a client does not carry the identity the coordinator issued to it.
func (gl *vfGroupLayer) checkIdentityLocked(what, client, member string, gen int32) {
	is, ok := gl.issued[client]
	if !ok {
		return
	}
	if member != is[0] || fmt.Sprint(gen) != is[1] {
		gl.sim.hist.add(vfEvent{Kind: "identity-mismatch", Note: fmt.Sprintf("%s from %s carries member=%q generation=%d, the coordinator issued member=%q generation=%s", what, client, member, gen, is[0], is[1])}, true)
	}
}

func (s *vfSim) enableGroups() *vfGroupLayer {
	gl := &vfGroupLayer{sim: s, groups: map[string]*vfGroupState{}, rebalanceTimeout: 150 * time.Millisecond, issued: map[string][2]string{}}
	s.mu.Lock()
	s.groupLayer = gl
	s.extra[8] = gl.handleOffsetCommit
	s.extra[9] = gl.handleOffsetFetch
	s.extra[10] = gl.handleFindCoordinator
	s.extra[11] = gl.handleJoin
	s.extra[12] = gl.handleHeartbeat
	s.extra[13] = gl.handleLeave
	s.extra[14] = gl.handleSync
	s.mu.Unlock()
	return gl
}

func (gl *vfGroupLayer) group(id string) *vfGroupState {
	g := gl.groups[id]
	if g == nil {
		g = &vfGroupState{ID: id, Coordinator: 1, State: "Empty", Members: map[string]*vfgMember{}, Offsets: map[string]vfgOffset{}}
		gl.groups[id] = g
	}
	return g
}

func (gl *vfGroupLayer) setCoordinator(group string, broker int32) {
	gl.mu.Lock()
	gl.group(group).Coordinator = broker
	gl.mu.Unlock()
}

func (gl *vfGroupLayer) setOffset(group, topic string, part int32, off int64, meta string) {
	gl.mu.Lock()
	gl.group(group).Offsets[fmt.Sprintf("%s/%d", topic, part)] = vfgOffset{off, meta}
	gl.mu.Unlock()
}

func (gl *vfGroupLayer) offsetsOf(group string) map[string]vfgOffset {
	gl.mu.Lock()
	defer gl.mu.Unlock()
	out := map[string]vfgOffset{}
	for k, v := range gl.group(group).Offsets {
		out[k] = v
	}
	return out
}

func (gl *vfGroupLayer) commitsOf(group string) []vfgCommit {
	gl.mu.Lock()
	defer gl.mu.Unlock()
	return append([]vfgCommit(nil), gl.group(group).Commits...)
}

// fault looks up the scripted outcome: the per-client key wins over the plain key when it has a non-ok entry.
func (gl *vfGroupLayer) fault(kind, client string) (vfFault, int) {
	s := gl.sim
	s.mu.Lock()
	defer s.mu.Unlock()
	f, occ := s.nextFaultLocked(kind)
	fc, occc := s.nextFaultLocked(kind + "@" + client)
	if f.Kind == "ok" && f.DelayUs == 0 && f.Gate == "" {
		return fc, occc
	}
	return f, occ
}

func vfgConnAction(f vfFault) string {
	switch f.Kind {
	case "dropBefore":
		return "close"
	case "silent":
		return "silent"
	}
	return ""
}

func (c *vfSimConn) clientID() string { return c.lastClientID }

// ---------------------------------------------------------------- FindCoordinator

func (gl *vfGroupLayer) handleFindCoordinator(c *vfSimConn, key, version int16, body []byte) ([]byte, string) {
	r := &vfsR{b: body}
	group := r.str()
	if version >= 1 {
		_ = r.i8()
	}
	if r.err != nil || r.remaining() != 0 {
		gl.sim.ev(vfEvent{Kind: "client-wire-violation", Broker: c.broker.ID, Note: "FindCoordinator malformed"}, true)
		return nil, "close"
	}
	f, occ := gl.fault("findCoordinator", c.clientID())
	gl.sim.ev(vfEvent{Kind: "find-coordinator", Broker: c.broker.ID, Key: group, Occ: occ, Fault: f.Kind, Note: c.clientID()}, false)
	gl.sim.applyDelayAndGate(f)
	if a := vfgConnAction(f); a != "" {
		return nil, a
	}
	gl.mu.Lock()
	coord := gl.group(group).Coordinator
	gl.mu.Unlock()
	w := &vfsW{}
	if version >= 1 {
		w.i32(0)
	}
	code := int16(0)
	if f.Kind == "err" {
		code = f.Code
	}
	w.i16(code)
	if version >= 1 {
		w.nstr(nil)
	}
	gl.sim.mu.Lock()
	b := gl.sim.brokers[coord]
	gl.sim.mu.Unlock()
	if code != 0 || b == nil {
		w.i32(-1)
		w.str("")
		w.i32(-1)
	} else {
		host, port := vfSplitAddr(b.Addr)
		w.i32(b.ID)
		w.str(host)
		w.i32(port)
	}
	return w.b, ""
}

// ---------------------------------------------------------------- OffsetFetch / OffsetCommit

func (gl *vfGroupLayer) handleOffsetFetch(c *vfSimConn, key, version int16, body []byte) ([]byte, string) {
	r := &vfsR{b: body}
	group := r.str()
	type tp struct {
		topic string
		parts []int32
	}
	var tps []tp
	nt := int(r.i32())
	for i := 0; i < nt && r.err == nil; i++ {
		t := r.str()
		tps = append(tps, tp{t, r.i32arr()})
	}
	if r.err != nil || r.remaining() != 0 || version > 5 {
		gl.sim.ev(vfEvent{Kind: "client-wire-violation", Broker: c.broker.ID, Note: fmt.Sprintf("OffsetFetch v%d malformed or unsupported by the simulator", version)}, true)
		return nil, "close"
	}
	f, occ := gl.fault("offsetFetch", c.clientID())
	gl.sim.applyDelayAndGate(f)
	if a := vfgConnAction(f); a != "" {
		return nil, a
	}
	gl.mu.Lock()
	defer gl.mu.Unlock()
	g := gl.group(group)
	notCoord := g.Coordinator != c.broker.ID
	w := &vfsW{}
	if version >= 3 {
		w.i32(0)
	}
	w.i32(int32(len(tps)))
	var served []int64
	for _, x := range tps {
		w.str(x.topic)
		w.i32(int32(len(x.parts)))
		for _, p := range x.parts {
			w.i32(p)
			o, ok := g.Offsets[fmt.Sprintf("%s/%d", x.topic, p)]
			code := int16(0)
			switch {
			case f.Kind == "err":
				code = f.Code
			case notCoord:
				code = 16 // NOT_COORDINATOR
			}
			if !ok || code != 0 {
				o = vfgOffset{Offset: -1}
			}
			w.i64(o.Offset)
			if version >= 5 {
				w.i32(-1)
			}
			meta := o.Meta
			w.nstr(&meta)
			w.i16(code)
			served = append(served, o.Offset)
		}
	}
	if version >= 2 {
		w.i16(0)
	}
	gl.sim.hist.add(vfEvent{Kind: "offset-fetch", Broker: c.broker.ID, Key: group, Occ: occ, Fault: f.Kind, Note: c.clientID(), Vals: served}, true)
	return w.b, ""
}

func (gl *vfGroupLayer) handleOffsetCommit(c *vfSimConn, key, version int16, body []byte) ([]byte, string) {
	r := &vfsR{b: body}
	group := r.str()
	gen := int32(-1)
	member := ""
	retention := int64(-1)
	if version >= 1 {
		gen = r.i32()
		member = r.str()
	}
	if version >= 2 && version <= 4 {
		retention = r.i64()
	}
	type item struct {
		topic string
		part  int32
		off   int64
		meta  *string
	}
	var items []item
	nt := int(r.i32())
	for i := 0; i < nt && r.err == nil; i++ {
		t := r.str()
		np := int(r.i32())
		for j := 0; j < np && r.err == nil; j++ {
			it := item{topic: t}
			it.part = r.i32()
			it.off = r.i64()
			if version == 1 {
				_ = r.i64()
			}
			it.meta = r.nstr()
			items = append(items, it)
		}
	}
	if r.err != nil || r.remaining() != 0 || version > 4 {
		gl.sim.ev(vfEvent{Kind: "client-wire-violation", Broker: c.broker.ID, Note: fmt.Sprintf("OffsetCommit v%d malformed or unsupported by the simulator", version)}, true)
		return nil, "close"
	}
	f, occ := gl.fault("offsetCommit", c.clientID())
	arrive := gl.sim.ev(vfEvent{Kind: "offset-commit-arrived", Broker: c.broker.ID, Key: group, Occ: occ, Fault: f.Kind, Note: c.clientID()}, true)
	_ = arrive
	gl.sim.applyDelayAndGate(f)
	if a := vfgConnAction(f); a != "" {
		return nil, a
	}
	gl.sim.mu.Lock()
	dead := c.dead
	gl.sim.mu.Unlock()
	if dead {
		return nil, "close"
	}
	gl.mu.Lock()
	g := gl.group(group)
	if member != "" || gen >= 0 {
		gl.checkIdentityLocked("OffsetCommit", c.clientID(), member, gen)
	}
	groupCode := int16(0)
	switch {
	case g.Coordinator != c.broker.ID:
		groupCode = 16
	case member != "" || gen >= 0:
		m := g.Members[member]
		switch {
		case m == nil:
			groupCode = 25 // UNKNOWN_MEMBER_ID
		case gen != g.Generation:
			groupCode = 22 // ILLEGAL_GENERATION
		case g.State == "PreparingRebalance":
			groupCode = 27 // REBALANCE_IN_PROGRESS
		}
	}
	w := &vfsW{}
	if version >= 3 {
		w.i32(0)
	}
	var order []string
	byTopic := map[string][]item{}
	for _, it := range items {
		if _, ok := byTopic[it.topic]; !ok {
			order = append(order, it.topic)
		}
		byTopic[it.topic] = append(byTopic[it.topic], it)
	}
	omit := f.Kind == "omit"
	if omit {
		w.i32(0)
	} else {
		w.i32(int32(len(order)))
	}
	for _, t := range order {
		if !omit {
			w.str(t)
			w.i32(int32(len(byTopic[t])))
		}
		for _, it := range byTopic[t] {
			code := groupCode
			apply := code == 0
			switch f.Kind {
			case "err":
				code, apply = f.Code, false
			case "errApplied":
				code = f.Code
			}
			meta := ""
			if it.meta != nil {
				meta = *it.meta
			}
			tpk := fmt.Sprintf("%s/%d", it.topic, it.part)
			if apply {
				g.Offsets[tpk] = vfgOffset{it.off, meta}
			}
			seq := gl.sim.hist.add(vfEvent{Kind: "offset-commit", Broker: c.broker.ID, Key: tpk, Occ: occ, Fault: f.Kind, Code: code, Base: it.off, Note: meta, Vals: []int64{int64(gen), int64(version), retention}}, true)
			g.Commits = append(g.Commits, vfgCommit{Seq: seq, Client: c.clientID(), Member: member, Gen: gen, TP: tpk, Offset: it.off, Meta: meta, Code: code, Applied: apply, Version: version, Retention: retention})
			if !omit {
				w.i32(it.part)
				w.i16(code)
			}
		}
	}
	gl.mu.Unlock()
	if f.Kind == "dropAfter" {
		return nil, "close"
	}
	return w.b, ""
}

// ---------------------------------------------------------------- JoinGroup / SyncGroup / Heartbeat / LeaveGroup

func (gl *vfGroupLayer) startRebalanceLocked(g *vfGroupState, why string) {
	if g.State == "PreparingRebalance" {
		return
	}
	g.State = "PreparingRebalance"
	g.joinRound = &vfgRound{done: make(chan struct{})}
	g.roundStart = time.Now()
	for _, m := range g.Members {
		m.Joined = false
	}
	if g.syncRound != nil {
		// members waiting in SyncGroup learn that the round is void
		g.syncErr = 27
		close(g.syncRound.done)
		g.syncRound = nil
	}
	gl.sim.hist.add(vfEvent{Kind: "rebalance-start", Key: g.ID, Note: why, N: int(g.Generation)}, true)
}

// completeJoinLocked closes the join barrier: evicts members that did not rejoin, bumps the generation.
func (gl *vfGroupLayer) completeJoinLocked(g *vfGroupState) {
	for id, m := range g.Members {
		if !m.Joined {
			delete(g.Members, id)
			gl.sim.hist.add(vfEvent{Kind: "member-evicted", Key: g.ID, Note: id}, true)
		}
	}
	g.Generation++
	if len(g.Members) == 0 {
		g.State = "Empty"
	} else {
		g.State = "AwaitingSync"
		if _, ok := g.Members[g.Leader]; !ok {
			ids := make([]string, 0, len(g.Members))
			for id := range g.Members {
				ids = append(ids, id)
			}
			sort.Strings(ids)
			g.Leader = ids[0]
		}
		// protocol: first protocol of the leader supported by all (cases use one protocol per group)
		g.Protocol = g.Members[g.Leader].Protocols[0]
		g.syncRound = &vfgRound{done: make(chan struct{})}
		g.syncErr = 0
		for _, m := range g.Members {
			m.Assignment = nil
		}
	}
	var ids []string
	for id := range g.Members {
		ids = append(ids, id)
	}
	sort.Strings(ids)
	gl.sim.hist.add(vfEvent{Kind: "generation", Key: g.ID, N: int(g.Generation), Note: fmt.Sprintf("leader=%s members=%v", g.Leader, ids)}, true)
	close(g.joinRound.done)
	g.joinRound = nil
}

func (gl *vfGroupLayer) allJoinedLocked(g *vfGroupState) bool {
	for _, m := range g.Members {
		if !m.Joined {
			return false
		}
	}
	return len(g.Members) > 0
}

func (gl *vfGroupLayer) handleJoin(c *vfSimConn, key, version int16, body []byte) ([]byte, string) {
	r := &vfsR{b: body}
	group := r.str()
	_ = r.i32() // session timeout
	if version >= 1 {
		_ = r.i32()
	}
	member := r.str()
	ptype := r.str()
	np := int(r.i32())
	var protos []string
	meta := map[string][]byte{}
	for i := 0; i < np && r.err == nil; i++ {
		name := r.str()
		protos = append(protos, name)
		meta[name] = r.bytes()
	}
	if r.err != nil || r.remaining() != 0 || np < 1 || ptype != "consumer" {
		gl.sim.ev(vfEvent{Kind: "client-wire-violation", Broker: c.broker.ID, Note: fmt.Sprintf("JoinGroup v%d malformed (type %q, %d protocols)", version, ptype, np)}, true)
		return nil, "close"
	}
	f, occ := gl.fault("join", c.clientID())
	gl.sim.ev(vfEvent{Kind: "join-arrived", Broker: c.broker.ID, Key: group, Occ: occ, Fault: f.Kind, Note: c.clientID() + " member=" + member}, true)
	gl.sim.applyDelayAndGate(f)
	if a := vfgConnAction(f); a != "" {
		return nil, a
	}
	resp := func(code int16, gen int32, proto, leader, memberID string, members map[string][]byte) []byte {
		w := &vfsW{}
		if version >= 2 {
			w.i32(0)
		}
		w.i16(code)
		w.i32(gen)
		w.str(proto)
		w.str(leader)
		w.str(memberID)
		ids := make([]string, 0, len(members))
		for id := range members {
			ids = append(ids, id)
		}
		sort.Strings(ids)
		w.i32(int32(len(ids)))
		for _, id := range ids {
			w.str(id)
			w.bytes(members[id])
		}
		return w.b
	}
	if f.Kind == "err" {
		gl.sim.ev(vfEvent{Kind: "join-resp", Key: group, Code: f.Code, Note: c.clientID()}, true)
		return resp(f.Code, -1, "", "", member, nil), ""
	}
	gl.mu.Lock()
	g := gl.group(group)
	if g.Coordinator != c.broker.ID {
		gl.mu.Unlock()
		return resp(16, -1, "", "", member, nil), ""
	}
	if member != "" {
		if _, ok := g.Members[member]; !ok {
			gl.mu.Unlock()
			gl.sim.ev(vfEvent{Kind: "join-resp", Key: group, Code: 25, Note: c.clientID()}, true)
			return resp(25, -1, "", "", member, nil), ""
		}
	} else {
		g.nextMember++
		member = fmt.Sprintf("%s-m%d", c.clientID(), g.nextMember)
		g.Members[member] = &vfgMember{ID: member, Client: c.clientID()}
	}
	m := g.Members[member]
	m.Protocols, m.Metadata = protos, meta
	gl.startRebalanceLocked(g, "join of "+member)
	m.Joined = true
	round := g.joinRound
	if gl.allJoinedLocked(g) {
		gl.completeJoinLocked(g)
	}
	timeout := gl.rebalanceTimeout
	gl.mu.Unlock()
	// wait for the barrier; laggards are evicted after the rebalance timeout
	select {
	case <-round.done:
	case <-time.After(timeout):
		gl.mu.Lock()
		if g.joinRound == round {
			gl.completeJoinLocked(g)
		}
		gl.mu.Unlock()
		<-round.done
	}
	gl.mu.Lock()
	defer gl.mu.Unlock()
	if _, still := g.Members[member]; !still {
		return resp(25, -1, "", "", member, nil), ""
	}
	var members map[string][]byte
	if g.Leader == member {
		members = map[string][]byte{}
		for id, mm := range g.Members {
			members[id] = mm.Metadata[g.Protocol]
		}
	}
	gl.issued[c.clientID()] = [2]string{member, fmt.Sprint(g.Generation)}
	gl.sim.hist.add(vfEvent{Kind: "join-resp", Key: group, Code: 0, N: int(g.Generation), Note: c.clientID() + " member=" + member}, true)
	if f.Kind == "dropAfter" {
		return nil, "close"
	}
	return resp(0, g.Generation, g.Protocol, g.Leader, member, members), ""
}

func (gl *vfGroupLayer) handleSync(c *vfSimConn, key, version int16, body []byte) ([]byte, string) {
	r := &vfsR{b: body}
	group := r.str()
	gen := r.i32()
	member := r.str()
	na := int(r.i32())
	assign := map[string][]byte{}
	for i := 0; i < na && r.err == nil; i++ {
		id := r.str()
		assign[id] = r.bytes()
	}
	if r.err != nil || r.remaining() != 0 {
		gl.sim.ev(vfEvent{Kind: "client-wire-violation", Broker: c.broker.ID, Note: "SyncGroup malformed"}, true)
		return nil, "close"
	}
	f, occ := gl.fault("sync", c.clientID())
	gl.sim.ev(vfEvent{Kind: "sync-arrived", Broker: c.broker.ID, Key: group, Occ: occ, Fault: f.Kind, N: int(gen), Note: c.clientID() + " member=" + member}, true)
	gl.sim.applyDelayAndGate(f)
	if a := vfgConnAction(f); a != "" {
		return nil, a
	}
	resp := func(code int16, a []byte) []byte {
		w := &vfsW{}
		if version >= 1 {
			w.i32(0)
		}
		w.i16(code)
		if a == nil {
			a = []byte{}
		}
		w.bytes(a)
		return w.b
	}
	if f.Kind == "err" {
		return resp(f.Code, nil), ""
	}
	gl.mu.Lock()
	g := gl.group(group)
	gl.checkIdentityLocked("SyncGroup", c.clientID(), member, gen)
	m := g.Members[member]
	switch {
	case g.Coordinator != c.broker.ID:
		gl.mu.Unlock()
		return resp(16, nil), ""
	case m == nil:
		gl.mu.Unlock()
		return resp(25, nil), ""
	case gen != g.Generation:
		gl.mu.Unlock()
		return resp(22, nil), ""
	case g.State == "PreparingRebalance":
		gl.mu.Unlock()
		return resp(27, nil), ""
	}
	if g.State == "Stable" {
		a := m.Assignment
		gl.mu.Unlock()
		return resp(0, a), ""
	}
	round := g.syncRound
	if member == g.Leader {
		for id, a := range assign {
			if mm := g.Members[id]; mm != nil {
				mm.Assignment = a
			} else {
				gl.sim.hist.add(vfEvent{Kind: "sync-stranger", Key: group, Note: id}, true)
			}
		}
		var plan []string
		for id, a := range assign {
			plan = append(plan, fmt.Sprintf("%s=%s", id, vfgDescribeAssignment(a)))
		}
		sort.Strings(plan)
		gl.sim.hist.add(vfEvent{Kind: "plan", Key: group, N: int(gen), Note: fmt.Sprint(plan)}, true)
		g.State = "Stable"
		g.syncErr = 0
		close(round.done)
		g.syncRound = nil
	}
	gl.mu.Unlock()
	if round != nil {
		select {
		case <-round.done:
		case <-time.After(gl.rebalanceTimeout):
			// the leader never synced: the round is void, everybody rejoins
			gl.mu.Lock()
			if g.syncRound == round {
				gl.startRebalanceLocked(g, "leader did not sync")
			}
			gl.mu.Unlock()
			<-round.done
		}
	}
	gl.mu.Lock()
	defer gl.mu.Unlock()
	if g.syncErr != 0 || g.Generation != gen {
		return resp(27, nil), ""
	}
	if f.Kind == "dropAfter" {
		return nil, "close"
	}
	gl.sim.hist.add(vfEvent{Kind: "sync-resp", Key: group, N: int(gen), Note: c.clientID() + " member=" + member + " " + vfgDescribeAssignment(m.Assignment)}, true)
	return resp(0, m.Assignment), ""
}

// vfgParseAssignment decodes a ConsumerGroupMemberAssignment (version, [topic,[partitions]], userdata).
func vfgParseAssignment(a []byte) (map[string][]int32, bool) {
	if len(a) == 0 {
		return map[string][]int32{}, true
	}
	r := &vfsR{b: a}
	_ = r.i16()
	n := int(r.i32())
	out := map[string][]int32{}
	for i := 0; i < n && r.err == nil; i++ {
		t := r.str()
		out[t] = r.i32arr()
	}
	_ = r.bytes()
	return out, r.err == nil && r.remaining() == 0
}

func vfgDescribeAssignment(a []byte) string {
	m, ok := vfgParseAssignment(a)
	if !ok {
		return "<undecodable>"
	}
	var ks []string
	for t, ps := range m {
		ks = append(ks, fmt.Sprintf("%s%v", t, ps))
	}
	sort.Strings(ks)
	return fmt.Sprint(ks)
}

func (gl *vfGroupLayer) handleHeartbeat(c *vfSimConn, key, version int16, body []byte) ([]byte, string) {
	r := &vfsR{b: body}
	group := r.str()
	gen := r.i32()
	member := r.str()
	if r.err != nil || r.remaining() != 0 {
		gl.sim.ev(vfEvent{Kind: "client-wire-violation", Broker: c.broker.ID, Note: "Heartbeat malformed"}, true)
		return nil, "close"
	}
	f, occ := gl.fault("heartbeat", c.clientID())
	gl.sim.applyDelayAndGate(f)
	if a := vfgConnAction(f); a != "" {
		return nil, a
	}
	gl.mu.Lock()
	g := gl.group(group)
	gl.checkIdentityLocked("Heartbeat", c.clientID(), member, gen)
	code := int16(0)
	switch {
	case f.Kind == "err":
		code = f.Code
	case g.Coordinator != c.broker.ID:
		code = 16
	case g.Members[member] == nil:
		code = 25
	case gen != g.Generation:
		code = 22
	case g.State == "PreparingRebalance":
		code = 27
	}
	gl.mu.Unlock()
	gl.sim.ev(vfEvent{Kind: "heartbeat", Broker: c.broker.ID, Key: group, Occ: occ, Fault: f.Kind, Code: code, N: int(gen), Note: c.clientID() + " member=" + member}, code != 0)
	w := &vfsW{}
	if version >= 1 {
		w.i32(0)
	}
	w.i16(code)
	return w.b, ""
}

func (gl *vfGroupLayer) handleLeave(c *vfSimConn, key, version int16, body []byte) ([]byte, string) {
	r := &vfsR{b: body}
	group := r.str()
	member := r.str()
	if r.err != nil || r.remaining() != 0 {
		gl.sim.ev(vfEvent{Kind: "client-wire-violation", Broker: c.broker.ID, Note: "LeaveGroup malformed"}, true)
		return nil, "close"
	}
	f, occ := gl.fault("leave", c.clientID())
	gl.sim.applyDelayAndGate(f)
	if a := vfgConnAction(f); a != "" {
		return nil, a
	}
	gl.mu.Lock()
	g := gl.group(group)
	if is, ok := gl.issued[c.clientID()]; ok && is[0] != member {
		gl.sim.hist.add(vfEvent{Kind: "identity-mismatch", Note: fmt.Sprintf("LeaveGroup from %s carries member=%q, the coordinator issued %q", c.clientID(), member, is[0])}, true)
	}
	code := int16(0)
	switch {
	case f.Kind == "err":
		code = f.Code
	case g.Coordinator != c.broker.ID:
		code = 16
	case g.Members[member] == nil:
		code = 25
	default:
		delete(g.Members, member)
		if len(g.Members) == 0 {
			g.State = "Empty"
			g.Generation++
		} else {
			gl.startRebalanceLocked(g, "leave of "+member)
			if gl.allJoinedLocked(g) {
				gl.completeJoinLocked(g)
			}
		}
	}
	gl.mu.Unlock()
	gl.sim.ev(vfEvent{Kind: "leave", Broker: c.broker.ID, Key: group, Occ: occ, Fault: f.Kind, Code: code, Note: c.clientID() + " member=" + member}, true)
	w := &vfsW{}
	if version >= 1 {
		w.i32(0)
	}
	w.i16(code)
	return w.b, ""
}

// fence removes a member behind its back (session expired): its next request gets UNKNOWN_MEMBER_ID
// and the rest of the group rebalances.
func (gl *vfGroupLayer) fence(group, client string) {
	gl.mu.Lock()
	g := gl.group(group)
	for id, m := range g.Members {
		if m.Client == client {
			delete(g.Members, id)
			gl.sim.hist.add(vfEvent{Kind: "member-fenced", Key: group, Note: id}, true)
		}
	}
	if len(g.Members) == 0 {
		g.State = "Empty"
		g.Generation++
	} else {
		gl.startRebalanceLocked(g, "fence of "+client)
	}
	gl.mu.Unlock()
}
