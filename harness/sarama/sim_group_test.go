//go:build go1.18 && verif

package sarama

// Group coordinator model (join/sync/heartbeat/leave, offset commit/fetch).

type vfGroupState struct{}
